(* C03 - a rendered text table is a rectangle whose columns fit their widest
   cell.  Only statements here; proofs live in Proofs/Text*.v.

   W is the display-width measure (length.StringCells), an arbitrary function:
   every theorem holds for every W.  Display width is read compositionally
   (DESIGN section 3): dwidth sums 1 per glyph (the documented precondition on
   decoration glyphs, DESIGN 13.7), n per padding run and the laid-out width
   of each text line.  dec_ok d = complete d (all 22 glyphs present, which
   Populate establishes) or nobox d (NoBox()).  cells_ok / cells_cover /
   plain_view are the facts Cell guarantees about the sizes it reports
   (checked on every generated case by the harness). *)
From Tab Require Import Model.Text Spec.TextLayout Proofs.TextTop Proofs.TextGeom Proofs.TextProps Proofs.TextZero.

(* Populate leaves no glyph empty. *)
Theorem populate_complete : forall d, complete (populate d).
Proof. exact populate_complete_proof. Qed.
Print Assumptions populate_complete.

(* Render() is exactly the flattened declarative layout: for every measure,
   every complete or boxless decoration, at least one column, every view the
   core can produce. *)
Theorem c03_refines : forall W d v,
  1 <= v_ncols v -> wf_view v -> dec_ok d -> cells_ok W v ->
  text_render W d v = Ok (concat (map flatten (layout W d v))).
Proof. exact text_refines_proof. Qed.
Print Assumptions c03_refines.

(* Every line has the same display width. *)
Theorem c03_rectangle : forall W d v,
  1 <= v_ncols v -> cells_cover W v -> dec_ok d ->
  forall l1 l2, In l1 (layout W d v) -> In l2 (layout W d v) -> dwidth l1 = dwidth l2.
Proof. exact rectangle_proof. Qed.
Print Assumptions c03_rectangle.

(* The same with every decoration glyph measured by W: under the documented
   precondition that each glyph measures 1, the sum of the measure over the
   laid-out pieces is the same on every line. *)
Theorem c03_rectangle_measured : forall W d v,
  1 <= v_ncols v -> cells_cover W v -> dec_ok d -> glyphs_w1 W d ->
  forall l1 l2, In l1 (layout W d v) -> In l2 (layout W d v) ->
  measured_width W l1 = measured_width W l2.
Proof. exact rectangle_measured_proof. Qed.
Print Assumptions c03_rectangle_measured.

(* The whole-line reading, on the sub-domain where the measure is additive
   across the laid-out pieces of every line (DESIGN 13.8): measuring each
   rendered line as a whole gives the same number for every line. *)
Corollary c03_whole_line : forall W d v,
  1 <= v_ncols v -> cells_cover W v -> dec_ok d -> glyphs_w1 W d ->
  (forall l, In l (layout W d v) -> edge_additive W l) ->
  forall l1 l2, In l1 (layout W d v) -> In l2 (layout W d v) ->
  W (flat_segs l1) = W (flat_segs l2).
Proof. exact whole_line_proof. Qed.
Print Assumptions c03_whole_line.

(* Boxed: every line, rule or content, is left glyph, per column a body
   exactly colw + 2 wide, dividers between, right glyph. *)
Theorem c03_colwidth : forall W d v,
  1 <= v_ncols v -> cells_cover W v -> complete d ->
  forall l, In l (layout W d v) ->
  exists gl gi gr bodies,
    l = skeleton gl gi gr bodies
    /\ map segs_width bodies = map (fun i => colw W v i + 2) (seq 0 (v_ncols v)).
Proof. exact colwidth_proof. Qed.
Print Assumptions c03_colwidth.

(* Every slot (text plus padding) is exactly its column's width, boxed or not. *)
Theorem c03_slotwidth : forall W v,
  1 <= v_ncols v -> cells_cover W v ->
  forall r k i, In r (all_rows v) -> segs_width (row_slot W v r k i) = colw W v i.
Proof. exact slot_width. Qed.
Print Assumptions c03_slotwidth.

(* Without size overrides the column width is the widest text line of any
   header or body cell in the column. *)
Theorem c03_colwidth_text : forall W v,
  plain_view W v ->
  forall i,
  colw W v i
  = list_max (map (fun r => match nth_error r i with
                            | Some c => list_max (map W (lines_of (vc_text c)))
                            | None => 0
                            end) (all_rows v)).
Proof. exact plain_colw. Qed.
Print Assumptions c03_colwidth_text.

(* The dividers sit at the same display offsets on every line. *)
Theorem c03_dividers : forall W d v,
  1 <= v_ncols v -> cells_cover W v -> dec_ok d ->
  forall l1 l2, In l1 (layout W d v) -> In l2 (layout W d v) ->
  divider_offsets l1 = divider_offsets l2.
Proof. exact dividers_proof. Qed.
Print Assumptions c03_dividers.

(* Top rule; header block and header rule if there is a header; per row
   max 1 (tallest cell) content lines, per separator a rule; bottom rule;
   boxless keeps only the content lines. *)
Theorem c03_structure : forall W d v,
  1 <= v_ncols v ->
  map kind_of (layout W d v) = expected_shape_with d v (row_height v).
Proof. exact structure_proof. Qed.
Print Assumptions c03_structure.

(* ... and without size overrides the line counts are those of the texts. *)
Theorem c03_structure_text : forall W d v,
  1 <= v_ncols v -> plain_view W v ->
  map kind_of (layout W d v) = expected_shape d v.
Proof. exact structure_text_proof. Qed.
Print Assumptions c03_structure_text.

(* On that domain the renderer does not panic; and the empty decoration (an
   unknown style name) is an error with no text, before anything is measured. *)
Theorem c03_no_panic : forall W d v,
  1 <= v_ncols v -> wf_view v -> dec_ok d -> cells_ok W v -> text_render W d v <> Panic.
Proof. exact no_panic_proof. Qed.
Print Assumptions c03_no_panic.

(* ... whatever the column count: at zero columns (no cell anywhere) a content
   line is the right glyph alone or, boxless, empty. *)
Theorem c03_no_panic_all : forall W d v,
  wf_view v -> dec_ok d -> cells_ok W v -> text_render W d v <> Panic.
Proof. exact text_no_panic_all. Qed.
Print Assumptions c03_no_panic_all.

Theorem c03_no_panic_zero_columns : forall W d v,
  wf_view v -> dec_ok d -> v_ncols v = 0 -> text_render W d v <> Panic.
Proof. exact text_no_panic_zero. Qed.
Print Assumptions c03_no_panic_zero_columns.

(* Rows and headers holding MORE cells than the table has columns (a row
   attached to two tables and extended through the other one, D21): the
   renderer does not panic and still renders exactly the layout, in which
   cells beyond the column count are not shown and widen nothing.  Of the
   view's shape only the alignment slots are needed. *)
Theorem c03_no_panic_any_rows : forall W d v,
  length (v_align v) = S (v_ncols v) -> dec_ok d -> cells_ok W v -> text_render W d v <> Panic.
Proof. exact text_no_panic_any_rows. Qed.
Print Assumptions c03_no_panic_any_rows.

Theorem c03_refines_any_rows : forall W d v,
  1 <= v_ncols v -> length (v_align v) = S (v_ncols v) -> dec_ok d -> cells_ok W v ->
  text_render W d v = Ok (concat (map flatten (layout W d v))).
Proof. exact text_refines_any_rows. Qed.
Print Assumptions c03_refines_any_rows.

Theorem c03_empty_decoration_err : forall W d v,
  is_empty_decoration d = true -> text_render W d v = Err.
Proof. exact empty_decoration_err_proof. Qed.
Print Assumptions c03_empty_decoration_err.

(* plain views are in the domain of the geometry theorems *)
Theorem c03_plain_in_domain : forall W v, plain_view W v -> cells_cover W v.
Proof. exact plain_cover. Qed.
Print Assumptions c03_plain_in_domain.

(* non-vacuity: a ragged table with a two-line cell, a separator and a
   zero-cell row under a complete decoration, measured by byte length *)
Local Open Scope N_scope.
Example c03_example :
  let W := fun s : list N => length s in
  let c s := mkVCell s false None (Z.of_nat (list_max (map W (lines_of s)))) (Z.of_nat (length (lines_of s))) false in
  let v := mkView 2%nat (Some [c [104]]) [Some [c [97; 10; 98; 98]; c [120]]; None; Some []] [None; None; None] [None; None; None] in
  let d := populate (mkDecor [45] [124] [43] [] [] [] [] [] [] [] [] [] [] [] [] [] [] [] [] [] [] [] false) in
  wf_view v /\ plain_view W v /\ complete d
  /\ text_render W d v = Ok (concat (map flatten (layout W d v)))
  /\ map (fun l => (kind_of l, dwidth l)) (layout W d v)
     = [(KRule, 10%nat); (KContent, 10%nat); (KRule, 10%nat); (KContent, 10%nat); (KContent, 10%nat);
        (KRule, 10%nat); (KContent, 10%nat); (KRule, 10%nat)].
Proof.
  cbv zeta. split; [apply wf_viewb_spec; vm_compute; reflexivity|].
  split; [repeat constructor|].
  split; [apply completeb_spec; vm_compute; reflexivity|].
  split; vm_compute; reflexivity.
Qed.

(* END TO END (Proofs/E2E*.v).  `hview W e json h` is what a renderer sees after
   the history h of public-API calls (Model/Table.v: building calls in any
   interleaving plus column property settings) over ARBITRARY items
   (Model/Cell.v); `twf_hist h`: the building calls form a well-formed history
   (Spec/History.v).  hist_header / hist_rows / hist_records / hist_ncols are
   read off the history alone (Spec/TableHist.v); documented_text is C01's
   text form (Spec/CellText.v). *)
From Tab Require Import Model.Cell Model.Table Spec.TableHist Spec.CellText Proofs.E2EProofs.
From Tab Require Import Proofs.E2EText.

(* For every table a history can build, whatever the items (size overrides
   included): Render() is the flattened layout. *)
Theorem c03_history_refines : forall W e json d (h : list top),
  twf_hist h -> (1 <= hist_ncols h)%nat -> dec_ok d ->
  text_render W d (hview W e json h) = Ok (concat (map flatten (layout W d (hview W e json h)))).
Proof. exact text_history_refines. Qed.
Print Assumptions c03_history_refines.

(* Where no item of the history overrides its size (no nested Cell value, no
   object with Height() or TerminalCellWidth()): the layout is a rectangle
   with aligned dividers ... *)
Theorem c03_history_rectangle : forall W e json d (h : list top),
  twf_hist h -> (1 <= hist_ncols h)%nat -> dec_ok d ->
  Forall (item_plain e) (concat (hist_records h)) ->
  forall l1 l2, In l1 (layout W d (hview W e json h)) -> In l2 (layout W d (hview W e json h)) ->
  dwidth l1 = dwidth l2 /\ divider_offsets l1 = divider_offsets l2.
Proof. exact text_history_rectangle. Qed.
Print Assumptions c03_history_rectangle.

(* ... and column i is as wide as the widest line of the documented text of
   any header or body item the history put in it. *)
Theorem c03_history_colwidth : forall W e json (h : list top),
  twf_hist h -> Forall (item_plain e) (concat (hist_records h)) ->
  forall i, colw W (hview W e json h) i
  = list_max (map (fun r => match nth_error r i with
                            | Some it => list_max (map W (lines_of (documented_text e it)))
                            | None => 0%nat
                            end) (hist_records h)).
Proof. exact text_history_colwidth. Qed.
Print Assumptions c03_history_colwidth.

(* RENDER-TIME CALLBACKS THAT CHANGE CELLS (Model/TextLive.v, Spec/TextPassSpec.v,
   Proofs/TextLiveProofs.v).  `regs` are the callbacks registered on the table,
   its columns, rows and cells in registration order - the measuring callback
   of every text wrapper among them, where texttable.Wrap was called; an
   application callback gives the item of the cell it is handed its next
   content and calls Cell.Update.  `render_seq W d regs t n` are n successive
   Render() calls; `spec_view regs t j` is the table whose cells are as the
   LAST measuring callback of render j found them. *)
From Tab Require Import Model.TextLive Spec.TextPassSpec Proofs.TextLiveProofs.
Local Open Scope nat_scope.

(* Whatever the callbacks change and whenever they run, every render lays out
   ONE table: width, height and lines of a cell all come from the same
   measurement (a change made after it shows at the next render). *)
Theorem c03_pass_shows_measured : forall W d regs t n j,
  j < n ->
  nth_error (render_seq W d regs t n) j = Some (text_render W d (spec_view regs t j)).
Proof. exact pass_shows_measured. Qed.
Print Assumptions c03_pass_shows_measured.

(* ... so it is the flattened layout of that table ... *)
Theorem c03_pass_refines : forall W d regs t n j,
  j < n ->
  1 <= pt_ncols t -> length (pt_align t) = S (pt_ncols t) -> dec_ok d -> cells_ok W (spec_view regs t j) ->
  nth_error (render_seq W d regs t n) j
  = Some (Ok (concat (map flatten (layout W d (spec_view regs t j))))).
Proof. exact pass_refines. Qed.
Print Assumptions c03_pass_refines.

(* ... a rectangle with aligned dividers. *)
Theorem c03_pass_rectangle : forall W d regs t j,
  1 <= pt_ncols t -> dec_ok d -> cells_cover W (spec_view regs t j) ->
  forall l1 l2, In l1 (layout W d (spec_view regs t j)) -> In l2 (layout W d (spec_view regs t j)) ->
  dwidth l1 = dwidth l2 /\ divider_offsets l1 = divider_offsets l2.
Proof. exact pass_rectangle. Qed.
Print Assumptions c03_pass_rectangle.

(* With a text wrapper on the table every cell is measured in every pass:
   nothing shown depends on measurements left from before the history. *)
Theorem c03_pass_every_cell_measured : forall regs ncols r c,
  table_measures regs -> before_last_measure (cell_events regs ncols r c) <> None.
Proof. exact table_measures_every_cell. Qed.
Print Assumptions c03_pass_every_cell_measured.

(* ---------------------------------------------------------------- source tie
   (notes/SOURCE_TIE_3.md).  The functions of texttable/decoration/emit.go -
   commonTemplateLine, commonRenderedLine, the Line* wrappers, the divider sets,
   HeaderLineRendered / BodyLineRendered - and strings.go's WithinWidthAligned
   are TRANSLATED from the Go text by tools/go2coq (Generated/EmitSrc.v,
   regenerated and compared on every run of check.py C03).  For every decoration,
   width list, divider set, cell strings and alignments, with eol = "\n" as the
   renderer sets it, the translation returns exactly what the hand model returns:
   the same bytes, and Panic exactly where the model says Panic.  No hypothesis. *)
From Tab Require Import Base.GoSem Base.GoText Generated.EmitSrc Proofs.EmitSrcTie.

Theorem c03_source_is_model :
  (forall d cws left horiz cross right,
     src_commonTemplateLine (mkEmitter cws d [LF]) left horiz cross right
     = Done (common_template_line d cws left horiz cross right))
  /\ (forall d cws ds cells als,
     src_commonRenderedLine (mkEmitter cws d [LF]) ds cells als = Done (common_rendered_line ds cws cells als))
  /\ (forall d cws,
     src_LineHeaderTop (mkEmitter cws d [LF]) = Done (line_header_top d cws)
     /\ src_LineHeaderBodySep (mkEmitter cws d [LF]) = Done (line_header_body_sep d cws)
     /\ src_LineBodyTop (mkEmitter cws d [LF]) = Done (line_body_top d cws)
     /\ src_LineBottom (mkEmitter cws d [LF]) = Done (line_bottom d cws)
     /\ src_LineSeparator (mkEmitter cws d [LF]) = Done (line_separator d cws))
  /\ (forall e, src_HeaderDividers e = Done (Ok (header_dividers (e_decor e)))
                /\ src_BodyDividers e = Done (Ok (body_dividers (e_decor e))))
  /\ (forall d cws cells als,
     src_HeaderLineRendered (mkEmitter cws d [LF]) cells als = Done (common_rendered_line (header_dividers d) cws cells als)
     /\ src_BodyLineRendered (mkEmitter cws d [LF]) cells als = Done (common_rendered_line (body_dividers d) cws cells als))
  /\ (forall ws available how,
     src_WithinWidthAligned ws available how = Done (within_width_aligned ws available how)).
Proof. exact emit_source_is_model. Qed.
Print Assumptions c03_source_is_model.

(* the same for ANY eol: the model's text with its final [LF] replaced by e.eol
   (common_rendered_line_eol is common_rendered_line with `++ eol` for `++ [LF]`) *)
Theorem c03_source_any_eol :
  (forall e left horiz cross right,
     src_commonTemplateLine e left horiz cross right
     = Done (if d_boxless (e_decor e) then Ok [] else
             bind (template_fields (e_colWidths e) horiz cross) (fun fs =>
             bind (if (0 <? length (e_colWidths e))%nat then set_last (left :: fs) right else Ok ((left :: fs) ++ [right])) (fun fields =>
             Ok (concat (fields ++ [e_eol e]))))))
  /\ (forall e ds cells als,
     src_commonRenderedLine e ds cells als = Done (common_rendered_line_eol (e_eol e) ds (e_colWidths e) cells als))
  /\ common_rendered_line_eol [LF] = common_rendered_line.
Proof. exact emit_source_any_eol. Qed.
Print Assumptions c03_source_any_eol.

(* property level: with the column widths the layout computes, every rule line
   the translated source emits is the layout's rule line, flattened (nothing when
   boxless) *)
Theorem c03_source_rule_line : forall W d v, 1 <= v_ncols v ->
  forall l h c r,
  src_commonTemplateLine (mkEmitter (TextRefine.cwsZ W v) d [LF]) l h c r
  = Done (Ok (TextRefine.wr d (rule W v l h c r))).
Proof. exact src_rule_line_is_layout. Qed.
Print Assumptions c03_source_rule_line.
