(* C12 - properties behave as an independent key-to-value map for each owner.
   Only statements here; proofs live in Proofs/Props*.v, the refuted legacy
   statements in Findings/PropsLegacy.v.

   Stage 1 (Model/Props.v): the chain of one owner as a value, chain = list of
   (key, value) links.  Stage 2 (Model/PropsHeap.v): links in an explicit heap,
   owners hold head pointers, by-value cell copies share them. *)
From Tab Require Import Model.Props Model.PropsHeap Model.PropsVia Spec.PropMap Spec.PropMapVia
  Proofs.PropsProofs Proofs.PropsHeapProofs Proofs.PropsMachineProofs Proofs.PropsTheorems
  Proofs.PropsViaProofs Findings.PropsLegacy.

(* ------------------------------------------------------------ one owner *)

(* SetProperty never panics (copyChainWithout never runs off the chain). *)
Theorem c12_set_total : forall m k v, exists m', set_property m k v = Ok m'.
Proof. exact set_total. Qed.
Print Assumptions c12_set_total.

(* get after set; v = None is "nil was set": the key is then absent.  Keys
   differ as soon as their type tag or their payload differs. *)
Theorem c12_get_set : forall m k v m' k',
  NoDup (keys m) -> set_property m k v = Ok m' ->
  get_property m' k' = if key_eqb k k' then v else get_property m k'.
Proof. exact get_set. Qed.
Print Assumptions c12_get_set.

(* keys stay duplicate-free *)
Theorem c12_nodup : forall m k v m',
  NoDup (keys m) -> set_property m k v = Ok m' -> NoDup (keys m').
Proof. exact set_nodup. Qed.
Print Assumptions c12_nodup.

(* a set adds at most one link, none when the key was present (re-setting a
   key never grows the chain); setting nil never grows it, and is a no-op when
   the key was absent *)
Theorem c12_bounded : forall m k v m',
  set_property m k v = Ok m' ->
  length m' <= S (length m)
  /\ (forall x y, get_property m k = Some x -> v = Some y -> length m' = length m)
  /\ (v = None -> length m' <= length m)
  /\ (get_property m k = None -> v = None -> m' = m).
Proof. exact bounded. Qed.
Print Assumptions c12_bounded.

(* the stored state is one link per live key: counted over any duplicate-free
   universe containing the keys (this is the chain-length clause of C12_ok) *)
Theorem c12_live_keys : forall m U,
  NoDup (keys m) -> NoDup U -> incl (keys m) U ->
  length m = live_count U (fun k => get_property m k).
Proof. exact live_keys_universe. Qed.
Print Assumptions c12_live_keys.

(* refinement to the abstract map over arbitrary set / set-nil sequences *)
Theorem c12_refines : forall l m,
  NoDup (keys m) ->
  exists m', run_sets m l = Ok m' /\ NoDup (keys m')
             /\ (forall k, abs m' k = a_run (abs m) l k)
             /\ length m' = length (keys m')
             /\ length m' <= length m + length l.
Proof. exact refines. Qed.
Print Assumptions c12_refines.

(* ------------------------------------------------------------ the heap *)

(* SetProperty is ALLOCATION-ONLY: whatever the heap, whatever the pointer, no
   existing link is modified (exactly the discipline the repair introduced) *)
Theorem c12_alloc_only : forall h ps k v h' p',
  hset_property h ps k v = Ok (h', p') ->
  forall p, p < length h -> nth_error h' p = nth_error h p.
Proof. exact hset_alloc_only. Qed.
Print Assumptions c12_alloc_only.

(* on a well-formed heap it never panics, does to the chain under the pointer
   what stage 1 does to the value, and every chain readable before reads the
   same afterwards *)
Theorem c12_heap_set : forall h ps c k v,
  hwf h -> reads h ps c ->
  exists h' p' c',
    hset_property h ps k v = Ok (h', p') /\ set_property c k v = Ok c'
    /\ reads h' p' c' /\ hwf h' /\ extends h h'
    /\ forall q cq, reads h q cq -> reads h' q cq.
Proof. exact heap_set_refines. Qed.
Print Assumptions c12_heap_set.

(* frame, one step: a set through ANY head pointer - an owner's, or the one a
   by-value copy of a cell holds - leaves what every pre-existing pointer reads
   unchanged, under every key (q may be ps itself: the other copy) *)
Theorem c12_frame : forall h ps k v h' p',
  hwf h -> hset_property h ps k v = Ok (h', p') ->
  forall q, ptr_lt q (length h) -> forall k', hget_property h' q k' = hget_property h q k'.
Proof. exact hset_frame. Qed.
Print Assumptions c12_frame.

(* frame, histories: any number of owners holding any head pointers (shared in
   any way), any interleaving of sets and set-nils: owner j ends up reading its
   initial map updated by ITS OWN sets only (own_view ignores everybody else) *)
Theorem c12_frame_history : forall ops h os (view : nat -> amap),
  hwf h ->
  (forall j p, nth_error os j = Some p -> owner_ok h p (view j)) ->
  exists h' os', hrun h os ops = Ok (h', os') /\ hwf h' /\ extends h h'
    /\ forall j p, nth_error os j = Some p ->
         exists p', nth_error os' j = Some p'
           /\ forall k, hget_property h' p' k = Ok (own_view j (view j) ops k).
Proof. exact frame_history. Qed.
Print Assumptions c12_frame_history.

(* ------------------------------------------------------------ all owners *)

(* For every history of set / set-nil / get / cell copy / Row.Add of a copy /
   AddRow / growth / handle-taking over table, columns, handles, rows, cells
   and detached copies, the model's observation after every step - every
   watched owner's value under every key, and its chain length - is the one
   the per-owner abstract maps of Spec/PropMap.v predict: C12_ok holds of the
   model's own trace. *)
Theorem c12_machine_refines : forall U watch ops,
  universe_ok U ops = true -> m_run m_init U watch ops = expected U watch ops.
Proof. exact machine_refines. Qed.
Print Assumptions c12_machine_refines.

(* No history makes the model panic (every slice index, pointer dereference
   and chain walk of the modelled code is in range). *)
Theorem c12_no_panic : forall U ops,
  NoDup U -> Forall (key_in_U U) ops -> exists st, m_steps m_init ops = Ok st.
Proof. exact no_panic. Qed.
Print Assumptions c12_no_panic.

(* frame, between owners: in the state reached by any history, a set through
   owner ow - under any of its names (a handle and t.Column(n) name the same
   owner), and whoever holds by-value copies sharing its links - leaves what
   any other owner o' reports unchanged: every value and the chain length *)
Theorem c12_frame_owners : forall U ops st ow k v o',
  NoDup U -> Forall (key_in_U U) ops -> In k U -> m_steps m_init ops = Ok st ->
  canon (s_steps s_init ops) ow <> canon (s_steps s_init ops) o' ->
  exists st' r, m_step st (SetP ow k v) = Ok (st', r) /\ m_entry st' U o' = m_entry st U o'.
Proof. exact frame_owners. Qed.
Print Assumptions c12_frame_owners.

(* A handle taken for column n addresses column n after any later history,
   growth included.  With columns []*column a handle is the column object,
   which the model names by its number, so in the model this holds by
   construction (the table only appends column objects; nothing moves): the
   content of the clause is the correspondence check against the Go code. *)
Theorem c12_handle : forall ops st st' hd n,
  m_inv st -> nth_error (m_handles st) hd = Some n -> m_steps st ops = Ok st' ->
  nth_error (m_handles st') hd = Some n
  /\ n <= m_ncols st'
  /\ column st' n = Ok (Some n)
  /\ head_of st' (OHandle hd) = head_of st' (OCol n)
  /\ forall p, set_head st' (OHandle hd) p = set_head st' (OCol n) p.
Proof. exact handle_stable. Qed.
Print Assumptions c12_handle.

(* ------------------------------------------------------------ through rendering wrappers *)

(* For every history in which the table is handled under any number of names -
   the core table and rendering wrappers around it (texttable, csv, json, html,
   markdown, whatever auto.New / auto.Wrap returns), made at any moment - and
   every op and every read goes through any of them, the model's observation
   after every step is the one the per-owner abstract maps predict: a wrapper
   stands for the table, one map per owner under all of its names. *)
Theorem c12_via_refines : forall U watch ops,
  vuniverse_ok U ops = true -> v_run v_init U watch ops = vexpected U watch ops.
Proof. exact via_refines. Qed.
Print Assumptions c12_via_refines.

(* Wrappers are transparent: whatever the facades, the core table ends in
   exactly the state of the same history called on the table itself. *)
Theorem c12_via_transparent : forall ops vs vs',
  v_steps vs ops = Ok vs' ->
  m_steps (v_core vs) (vops_effective (length (v_wraps vs)) ops) = Ok (v_core vs')
  /\ length (v_wraps vs) <= length (v_wraps vs').
Proof. exact via_transparent. Qed.
Print Assumptions c12_via_transparent.

(* frame, between owners, through any facades: a set on owner ow made through
   facade w leaves what any other owner o' reports, read through any facade
   w', unchanged (ow = the table through a wrapper, o' = column 0 included). *)
Theorem c12_via_frame_owners : forall U ops vs w ow k v w' o',
  NoDup U -> Forall (key_in_U U) (vops_ops ops) -> In k U ->
  v_steps v_init ops = Ok vs -> w <= length (v_wraps vs) ->
  canon (s_steps s_init (vops_effective 0 ops)) ow <> canon (s_steps s_init (vops_effective 0 ops)) o' ->
  exists vs' r, v_step vs (VOp w (SetP ow k v)) = Ok (vs', r)
                /\ v_entry vs' U (w', o') = v_entry vs U (w', o').
Proof. exact via_frame_owners. Qed.
Print Assumptions c12_via_frame_owners.

(* ------------------------------------------------------------ the pinned tree *)

(* D13: the in-place unlink of the pinned tree is not allocation-only and
   breaks the frame property; the witness is the replay the check reports *)
Theorem c12_frame_refuted_on_legacy :
  ~ (forall h ps k v h' p', hwf h -> lset_property h ps k v = Ok (h', p') ->
       forall q, ptr_lt q (length h) -> forall k', hget_property h' q k' = hget_property h q k').
Proof. exact c12_frame_legacy_refuted. Qed.
Print Assumptions c12_frame_refuted_on_legacy.

(* D14: a handle into a re-allocated []column goes stale *)
Theorem c12_handle_refuted_on_legacy :
  ~ (forall t n newCount x, n < lt_len t ->
       let hd := lt_column t n in
       let t' := lt_store (lt_grow t newCount) hd x in
       lt_load t' (lt_column t' n) = Some x).
Proof. exact c12_handle_legacy_refuted. Qed.
Print Assumptions c12_handle_refuted_on_legacy.

(* non-vacuity: two keys equal in value and different in type, a by-value copy,
   a set through the copy and a removal through the original; a handle held
   across growth to 25 columns *)
Example c12_example :
  let i1 : key := (0, 1%N) in let i64 : key := (1, 1%N) in
  let ops := [AddRowItems 1; TakeColumn 1;
              SetP (OCell 0 0) i1 (Some 7); SetP (OCell 0 0) i64 (Some 8);
              CopyCell (OCell 0 0); SetP (ODet 0) i1 (Some 9); SetP (OCell 0 0) i64 None;
              AddRowItems 25; SetP (OHandle 0) i1 (Some 3); GetP (OCol 1) i1] in
  universe_ok [i1; i64] ops = true
  /\ last (m_run m_init [i1; i64] [OCell 0 0; ODet 0; OCol 1] ops) (0, [])
     = (4, [Some (1, [8; 0]); Some (2, [10; 9]); Some (1, [4; 0])]).
Proof. split; vm_compute; reflexivity. Qed.

(* non-vacuity, wrappers: column 0 holds a value of its own; the table is then
   set, and set to nil, through the second of two wrappers; column 0 (read
   through the first wrapper and through the core) keeps its own value, the
   table (read through the core) shows what was set through the wrapper *)
Example c12_via_example :
  let k1 : key := (3, 0%N) in let k2 : key := (3, 1%N) in
  let ops := [VWrap 0; VOp 1 (AddRowItems 2); VWrap 1;
              VOp 0 (SetP (OCol 0) k1 (Some 5)); VOp 2 (SetP OTable k1 (Some 6));
              VOp 2 (SetP OTable k2 (Some 7)); VOp 1 (SetP OTable k1 None); VOp 3 (GetP OTable k1)] in
  vuniverse_ok [k1; k2] ops = true
  /\ last (v_run v_init [k1; k2] [(0, OTable); (1, OCol 0); (0, OCol 0); (2, OCol 1); (3, OTable)] ops) (0, [])
     = (99, [Some (1, [0; 8]); Some (1, [6; 0]); Some (1, [6; 0]); Some (0, [0; 0]); None]).
Proof. split; vm_compute; reflexivity. Qed.
