(* C13 - callbacks fire once per target, on the live object, in the documented
   order.  Only statements here; proofs live in Proofs/Callbacks*.v.
   Model: Model/Callbacks.v (the Go code after the planned repairs).
   Specification: Spec/CbTrace.v (written from the property statement). *)
From Tab Require Import Model.Callbacks Model.CellValues Spec.CbTrace Proofs.CallbacksBase Proofs.CallbacksSim Proofs.CallbacksProofs Proofs.CallbacksCount Proofs.CallbacksOnce Proofs.CallbacksShared Proofs.CellValuesProofs.

(* Registering is refused with an error exactly for the unsupported owner/target
   combinations - whatever the state, the owner instance, the time, the callback. *)
Theorem c13_register : forall st o tm g cb,
  register st o tm g cb = Err <-> accepts (kind o) g = false.
Proof. exact register_err_iff. Qed.
Print Assumptions c13_register.

(* For every build history inside the quantifier (registrations interleaved
   with build operations in any order, rows built detached or extended after
   they joined the table, headers, separators) and every number k of render
   passes, the model runs to completion and
     - refuses exactly the unsupported registrations,
     - its add-time invocations are the specification's,
     - its render log is k copies of the documented nesting order,
     - the properties readable afterwards are those the invocations set. *)
Theorem c13_render_trace : forall h k,
  wf_hist h = true ->
  exists oc, run h k = Ok oc
             /\ oc_regerr oc = spec_regerr h
             /\ oc_add oc = spec_add h
             /\ oc_render oc = repeat_app (spec_trace (final_regs [] h) (final_shape shape0 h)) k
             /\ oc_props oc = apply_events (spec_add h ++ spec_render h k) [].
Proof. exact run_spec. Qed.
Print Assumptions c13_render_trace.

(* Exactly once per matching target per render pass, over the WHOLE trace of a
   pass: for every history inside the quantifier and every registration in
   force (callback ids distinct), the registration occurs in the pass's trace
   exactly once on each of its matching targets of the finished table
   (matches_render, Spec/CbTrace.v: the table / a column 0..n / a row the pass
   visits / a cell of such a row, and the registration belongs to one of the
   callback groups invoked there) and not at all on anything else.  By
   c13_render_trace this trace is the model's render log of every pass.
   Two facts carry the proof (Proofs/CallbacksOnce.v): a pass visits every row
   of the table once - NoDup (header :: order) is an invariant of build
   histories ([final_shape_inv]: fresh ids are not yet in the table, AddRow
   only takes a row that is not in it, a new header replaces the old one) -
   and the eight callback groups invoked for a cell are pairwise different
   (they differ in owner or in time: [cell_groups_sum]). *)
Theorem c13_once : forall h rg x,
  wf_hist h = true ->
  NoDup (map r_cb (final_regs [] h)) ->
  In rg (final_regs [] h) ->
  count_occ event_eq_dec (spec_trace (final_regs [] h) (final_shape shape0 h)) (r_cb rg, x)
  = if matches_render (final_shape shape0 h) rg x then 1 else 0.
Proof. exact once_render. Qed.
Print Assumptions c13_once.

(* The building block of c13_once, kept: at one position of the traversal a
   registration in force occurs exactly once if it belongs to that position's
   callback group and the object is x, and not at all otherwise. *)
Theorem c13_once_partial : forall regs rg,
  NoDup (map r_cb regs) -> In rg regs ->
  forall o g tm x' x,
  count_occ event_eq_dec (fire regs o g tm x') (r_cb rg, x) = if tgt_eqb x x' && is_for o g tm rg then 1 else 0.
Proof. exact cnt_fire. Qed.
Print Assumptions c13_once_partial.

(* Add time, over all build histories: a registration made at position
   |h1| fires exactly once on each matching target that is added after it (there
   at the end, not there when it was registered), and on nothing else. *)
Theorem c13_add_counts : forall h1 h2 ow tm g cb x,
  let h := h1 ++ ORegister ow tm g cb :: h2 in
  let rg := mkReg ow tm g cb in
  wf_hist h = true ->
  accepts (kind ow) g = true ->
  NoDup (map r_cb (final_regs [] h)) ->
  count_occ event_eq_dec (spec_add h) (cb, x)
  = if matches_add h1 h2 rg x then 1 else 0.
Proof. exact add_counts. Qed.
Print Assumptions c13_add_counts.

(* Live object.  In this model targets are addressed by identity, so "the
   object handed to the callback is the live one" is true by construction of
   the model; what is proved is the observable consequence: the property each
   invocation sets on its target is readable from that target after the run,
   whatever was set before or after.  (That the Go code hands over the live
   object and not a copy is what the correspondence check tests: D15.) *)
Theorem c13_live : forall h k,
  wf_hist h = true ->
  exists oc, run h k = Ok oc /\
    forall cb x, In (cb, x) (oc_add oc ++ oc_render oc) -> get_prop (oc_props oc) x cb = true.
Proof. exact live. Qed.
Print Assumptions c13_live.

(* A row that another table holds too (rows are shared by pointer; the other
   table's AddRow of row r is the operation OOtherAddRow r of this table's
   history).  It is no event of this table: with it or without it the history
   is inside the quantifier, the model computes the same outcome - the same
   refusals, add-time invocations, render log of every pass, properties - and
   the specification demands the same.  So all of the theorems above speak
   about a table some of whose rows other tables hold as well: every pass of
   THIS table runs THIS table's callbacks on the row and its cells, exactly
   once each, in the documented order, wherever else the row has been added
   before, between or after. *)
Theorem c13_other_table : forall h1 r h2 k,
  wf_hist (h1 ++ OOtherAddRow r :: h2) = true ->
  wf_hist (h1 ++ h2) = true
  /\ run (h1 ++ OOtherAddRow r :: h2) k = run (h1 ++ h2) k
  /\ spec_regerr (h1 ++ OOtherAddRow r :: h2) = spec_regerr (h1 ++ h2)
  /\ spec_add (h1 ++ OOtherAddRow r :: h2) = spec_add (h1 ++ h2)
  /\ spec_add_views (h1 ++ OOtherAddRow r :: h2) = spec_add_views (h1 ++ h2)
  /\ spec_render (h1 ++ OOtherAddRow r :: h2) k = spec_render (h1 ++ h2) k
  /\ spec_render_views (h1 ++ OOtherAddRow r :: h2) k = spec_render_views (h1 ++ h2) k.
Proof. exact other_table_no_event. Qed.
Print Assumptions c13_other_table.

(* ... and it may happen at any point of a history at which the row exists
   and has cells (before this table adds the row, afterwards, or without this
   table ever adding it). *)
Theorem c13_other_table_any_time : forall h1 r h2,
  wf_hist (h1 ++ h2) = true ->
  op_wf (final_shape shape0 h1) (OOtherAddRow r) = true ->
  wf_hist (h1 ++ OOtherAddRow r :: h2) = true.
Proof. exact other_table_any_time. Qed.
Print Assumptions c13_other_table_any_time.

(* non-vacuity of the two: a row built detached is taken by another table
   first and by this one afterwards, a second one the other way round; the
   table's cell callbacks fire on both rows' cells in every pass *)
Example c13_example_shared :
  let h := [ORegister OTable TPre GCell 1; ORegister OTable TAdd GRow 2;
            ONewRow; ORowAdd 0; OOtherAddRow 0; OAddRow 0;
            OAddRowItems 2; OOtherAddRow 1; ORegister OTable TPost GCell 3] in
  wf_hist h = true /\ shared_domain h = true
  /\ exists oc, run h 2 = Ok oc
     /\ oc_add oc = [(2, XRow 0); (2, XRow 1)]
     /\ oc_render oc = repeat_app [(1, XCell 0 1); (3, XCell 0 1); (1, XCell 1 1); (3, XCell 1 1); (1, XCell 1 2); (3, XCell 1 2)] 2.
Proof. cbv zeta. split; [vm_compute; reflexivity|]. split; [vm_compute; reflexivity|]. eexists. split; [vm_compute; reflexivity|]. vm_compute. auto. Qed.

(* non-vacuity: a history with a header, a row built detached, a row extended
   after it joined the table, a separator, registrations before and after the
   rows exist and a refused one; two passes *)
Example c13_example :
  let h := [ORegister OTable TAdd GCell 1; ORegister OTable TPost GCell 2; ORegister (OColumn 0) TPre GItself 3;
            OAddHeaders 2; ORegister (OColumn 1) TPre GCell 4; OAppendNewRow; ORegister (ORow 1) TAdd GCell 5;
            ORowAdd 1; ORowAdd 1; ORegister (OCell 1 2) TRender GCell 6; ORegister (OCell 1 2) TRender GRow 7;
            ONewRow; ORowAdd 2; ORegister (ORow 2) TAdd GRow 8; OAddRow 2; OAddSeparator] in
  wf_hist h = true
  /\ exists oc, run h 2 = Ok oc
     /\ oc_regerr oc = [false; false; false; false; false; false; true; false]
     /\ oc_add oc = [(1, XCell 0 1); (1, XCell 0 2); (5, XCell 1 1); (1, XCell 1 1); (5, XCell 1 2); (1, XCell 1 2);
                     (8, XRow 2); (1, XCell 2 1)]
     /\ oc_render oc = repeat_app [(3, XCol 0); (4, XCell 0 1); (2, XCell 0 1); (2, XCell 0 2); (4, XCell 1 1); (2, XCell 1 1);
                                   (6, XCell 1 2); (2, XCell 1 2); (4, XCell 2 1); (2, XCell 2 1)] 2.
Proof. cbv zeta. split; [vm_compute; reflexivity|]. eexists. split; [vm_compute; reflexivity|]. vm_compute. auto. Qed.

(* ---- Cells are values (round 6; Model/CellValues.v: the machine extended by
   local Cell variables - fresh, or copied out of a row of this or of another
   table - registrations upon them and Row.Add of them).

   Whatever is done to local Cell variables - any number of them made, copied
   out of any cells, any registrations upon them, in any order (every history
   of such operations) - nothing of the table changes and nothing is invoked:
   the table's state is the same, so every render pass runs exactly the
   invocations it ran before, on the cell a value was copied from as on every
   other.  A callback registered upon a copy belongs to the copy. *)
Theorem c13_value_ops_local : forall l vs log errs vs' log' errs' k,
  forallb value_only l = true ->
  vrun_from vs log errs l = Ok (vs', log', errs') ->
  v_st vs' = v_st vs /\ log' = log
  /\ render_passes (v_st vs') k = render_passes (v_st vs) k.
Proof. exact value_ops_local_all. Qed.
Print Assumptions c13_value_ops_local.

(* A registration upon a variable is refused exactly for the unsupported
   target; otherwise it is appended to that variable's own list. *)
Theorem c13_value_register : forall vs n tm g cb v,
  idx (v_vals vs) n = Ok v ->
  vstep vs (VRegister n tm g cb) =
    if accepts KCell g
    then Ok (mkV (v_st vs) (set_nth (v_vals vs) n (mkCval (cb_append (cv_set v) tm cb) (cv_columnNum v) (cv_inRow v))), [], [false])
    else Ok (vs, [], [true]).
Proof. exact register_val_spec. Qed.
Print Assumptions c13_value_register.

(* Row.Add of a value, in every state: the add-time invocations are those of
   adding a fresh cell, the new cell (row r, next column) starts with exactly
   the callback set the value carried, and every other callback set of the
   table - the set of the cell the value was copied from included - is what
   adding a fresh cell leaves. *)
Theorem c13_value_add : forall st r v row cells,
  idx (st_rows st) r = Ok row -> rw_cells row = Some cells ->
  forall st' evs, row_add_val st r v = Ok (st', evs) ->
  exists st0, row_add st r = Ok (st0, evs)
    /\ st' = put_set st0 (SlCellSelf r (S (length cells))) (cv_set v)
    /\ get_set st' (SlCellSelf r (S (length cells))) = cv_set v
    /\ forall sl, sl <> SlCellSelf r (S (length cells)) -> get_set st' sl = get_set st0 sl.
Proof. exact row_add_val_spec. Qed.
Print Assumptions c13_value_add.

(* ... and that set is what registering the value's callbacks one by one upon a
   fresh cell builds (the form in which the harness ships Row.Add of a value to
   the machine of Model/Callbacks.v: desugar_add).
   FULL STATEMENT, not closed in round 6:
     forall vh k, vwf vh -> vrun vh k = run (desugar vh) k   (up to get_set-equality of states)
   where desugar replaces every VRowAddVal by desugar_add and drops the
   operations on variables.  Missing: the simulation up to extensional equality
   of the callback-set table (put_set of a whole set against a sequence of
   put_sets), carried through step and render_passes. *)
Theorem c13_value_desugar_partial : forall s,
  append_entries cbset0 (set_entries s) = s.
Proof. exact entries_rebuild. Qed.
Print Assumptions c13_value_desugar_partial.

(* non-vacuity: the value of cell 0.1 (which has a callback, 1) is copied; a
   callback (2) registered upon the copy fires nowhere while the copy is not
   added; added to row 1 it fires there, with the inherited one, and the
   source keeps its own *)
Example c13_example_values :
  let h1 := [VOp (OAddRowItems 1); VOp (ORegister (OCell 0 1) TRender GItself 1);
             VCopyCell 0 1; VRegister 0 TRender GCell 2; VRegister 0 TRender GRow 3] in
  let h2 := h1 ++ [VOp OAppendNewRow; VRowAddVal 1 0] in
  (exists oc, vrun h1 1 = Ok oc /\ oc_regerr oc = [false; false; true] /\ oc_render oc = [(1, XCell 0 1)])
  /\ (exists oc, vrun h2 1 = Ok oc /\ oc_render oc = [(1, XCell 0 1); (1, XCell 1 1); (2, XCell 1 1)]).
Proof. cbv zeta. split; eexists; (split; [vm_compute; reflexivity|]); vm_compute; auto. Qed.
