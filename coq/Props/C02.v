(* C02 - row/column counts, row order and cell addressing follow the build
   history.  Only statements here; proofs live in Proofs/CoreInv.v (the state
   invariant), Proofs/CoreSim.v (refinement of the history spec) and
   Proofs/CoreObs.v (every observation).

   `run h` is the model state (Model/Core.v) after history h; `spec_run h`,
   `attach_order h`, `count_attaches h`, `header_sizes h`, `e_cell_at`,
   `wf_hist` are the history spec (Spec/History.v), written without the model.
   wf_hist h: every op denotes a Go call (fresh row variables, existing rows),
   a pre-built row is attached to this table at most once, and no row of this
   table is handed to ANOTHER table's AddRow (DESIGN section 13.1: one *Row
   object serves one table).  A row that was in another table BEFORE it joins
   this one is inside wf_hist (op OtherAddRow on a still-detached row): the
   theorems speak for the table a row was added to last.  What the first
   table shows after another one took its row (the row reports its position
   there, later cells widen that table) is modelled and checked against the
   code by the correspondence, but is not claimed. *)
From Tab Require Import Base.Ops Model.Core Spec.History Proofs.CoreInv Proofs.CoreSim Proofs.CoreObs.
From Tab Require Import Model.CoreSegs Spec.HistorySegs Proofs.CoreSegsProofs.

(* The invariant over all well-formed histories: the row list is the attach
   order (each row with exactly the items added to it so far, before or after
   it joined the table); its length is the number of attaching calls; the
   column count EQUALS the maximum over every header the table has had and the
   current size of every attached row; there are ncols+1 column records; rows
   and cells (header cells too) carry their 1-based positions; no building call
   panics. *)
Theorem c02_inv : forall (A : Type) (h : list (op A)), wf_hist h ->
  let st := run h in
  map row_items (t_rows st) = attach_order h
  /\ length (t_rows st) = count_attaches h
  /\ t_ncols st = list_max (header_sizes h ++ map row_size (t_rows st))
  /\ t_cols st = S (t_ncols st)
  /\ (forall i tr, nth_error (t_rows st) i = Some tr ->
        r_num tr = S i
        /\ forall cs j c, row_cells tr = Some cs -> nth_error cs j = Some c -> c_col c = S j)
  /\ (forall cs j c, t_header st = Some cs -> nth_error cs j = Some c -> c_col c = S j)
  /\ t_panic st = false.
Proof. exact (fun A => @core_inv A). Qed.
Print Assumptions c02_inv.

(* NRows() = number of rows and separators added. *)
Theorem c02_nrows : forall (A : Type) (h : list (op A)), wf_hist h -> nrows (run h) = count_attaches h.
Proof. exact (fun A => @core_nrows A). Qed.
Print Assumptions c02_nrows.

(* AllRows() lists the rows in insertion order with their items. *)
Theorem c02_order : forall (A : Type) (h : list (op A)), wf_hist h ->
  map row_items (all_rows (run h)) = attach_order h.
Proof. exact (fun A h _ => @core_order A h). Qed.
Print Assumptions c02_order.

(* NColumns() = the largest number of cells in any header so far or in any
   row now, cells appended after the row joined the table included (equality,
   not just >=). *)
Theorem c02_ncols : forall (A : Type) (h : list (op A)), wf_hist h ->
  ncols (run h) = list_max (header_sizes h ++ map row_size (all_rows (run h))).
Proof. exact (fun A => @core_ncols A). Qed.
Print Assumptions c02_ncols.

(* CellAt(r,c) is exactly the c-th cell of the r-th row, else NoSuchCell (Err)
   when r or c is out of range (zero and negatives included) or the row is a
   separator - never a panic; the cell's own Location() is (r,c). *)
Theorem c02_cell_at : forall (A : Type) (h : list (op A)) (r c : Z), wf_hist h ->
  cell_at (run h) r c =
    (if ((1 <=? r) && (1 <=? c))%Z then
       match nth_error (all_rows (run h)) (Z.to_nat (r - 1)) with
       | Some tr => match row_cells tr with
                    | Some cs => match nth_error cs (Z.to_nat (c - 1)) with
                                 | Some x => Ok (r_num tr, x)
                                 | None => Err
                                 end
                    | None => Err
                    end
       | None => Err
       end
     else Err)
  /\ (forall rn x, cell_at (run h) r c = Ok (rn, x) ->
        Z.of_nat (fst (cell_location (rn, x))) = r /\ Z.of_nat (snd (cell_location (rn, x))) = c).
Proof. exact (fun A h r c W => conj (proj1 (@core_cell_at A h r c)) (proj2 (@core_cell_at A h r c) W)). Qed.
Print Assumptions c02_cell_at.

(* ... and against the history: the cell returned carries the item the
   history puts at (r,c); NoSuchCell exactly when the history puts none. *)
Theorem c02_cell_at_history : forall (A : Type) (h : list (op A)) (r c : Z), wf_hist h ->
  match cell_at (run h) r c with
  | Ok (rn, x) => e_cell_at (spec_run h) r c = Some (c_item x)
  | Err => e_cell_at (spec_run h) r c = None
  | Panic => False
  end.
Proof. exact (fun A h r c _ => @core_cell_at_spec A h r c). Qed.
Print Assumptions c02_cell_at_history.

(* Column(n) is non-nil exactly for 0 <= n <= NColumns(); never a panic. *)
Theorem c02_column : forall (A : Type) (h : list (op A)) (n : Z), wf_hist h ->
  column_exists (run h) n = Ok ((0 <=? n) && (n <=? Z.of_nat (ncols (run h))))%Z.
Proof. exact (fun A => @core_column A). Qed.
Print Assumptions c02_column.

(* A row reports its own 1-based position. *)
Theorem c02_row_location : forall (A : Type) (h : list (op A)) i tr, wf_hist h ->
  nth_error (all_rows (run h)) i = Some tr -> row_location tr = (S i, 0).
Proof. exact (fun A => @core_row_location A). Qed.
Print Assumptions c02_row_location.

(* Mutating the row list handed to the caller changes nothing of the table.
   (In a value model this holds by construction; its content is the
   correspondence check, which reverses, nils and truncates the real slice.) *)
Theorem c02_all_rows_copy : forall (A : Type) (h : list (op A)), wf_hist h ->
  run (h ++ [MutateAllRowsCopy]) = run h
  /\ all_rows (run (h ++ [MutateAllRowsCopy])) = all_rows (run h).
Proof. exact (fun A h _ => conj (@core_all_rows_copy A h) (f_equal all_rows (@core_all_rows_copy A h))). Qed.
Print Assumptions c02_all_rows_copy.

(* What renderers see of any built table is well-formed: no row and no
   header longer than the column count, one property slot per column plus
   column 0 (exported for C09). *)
Theorem c02_view_wf : forall (A : Type) (f : A -> vcell) (h : list (op A)), wf_hist h ->
  wf_view (view_of f (run h)).
Proof. exact (fun A => @view_wf A). Qed.
Print Assumptions c02_view_wf.

(* Every dump the correspondence check takes (after every op: counts, header,
   rows, locations, CellAt over the bounding box +-1, Column(-1..ncols+1)) is,
   on the model, exactly the dump the history spec expects: the check's oracle
   accepts the model on all histories. *)
Theorem c02_dump_expected : forall h : list (op N), wf_hist h -> model_dump h = spec_dump h.
Proof. exact model_dump_expected. Qed.
Print Assumptions c02_dump_expected.

(* the same for the single dump taken after the last op of a long history *)
Theorem c02_dump_last_expected : forall h : list (op N), wf_hist h -> model_dump_last h = spec_dump_last h.
Proof. exact model_dump_last_expected. Qed.
Print Assumptions c02_dump_last_expected.

(* Building calls made from INSIDE a building call (an add-time callback which
   appends a cell to the row being added, adds a separator, ...) are calls of
   the history like any other, listed where they were made; the table can then
   only be looked at after every SEGMENT of the history (one call of the
   program with everything its callbacks did, Spec/HistorySegs.v).  The dumps
   taken there are, on the model, exactly the expected ones - so every theorem
   above speaks for tables built with such callbacks: it is quantified over
   all well-formed histories, whoever made the calls. *)
Theorem c02_dump_segs_expected : forall (h : list (op N)) (ns : list nat), wf_hist h ->
  model_dump_segs h ns = spec_dump_segs h ns.
Proof. exact model_dump_segs_expected. Qed.
Print Assumptions c02_dump_segs_expected.

(* The one building call which no op names: Row.Add on the HEADER row, which
   AddHeaders hands to the table's add-time row callbacks (Model/CoreSegs.v
   header_add).  On the row that is the header now it is AddHeaders with one
   more item - a history every theorem above covers. *)
Theorem c02_header_row_add : forall (A : Type) (h : list (op A)) cs x, wf_hist h ->
  t_header (run h) = Some cs ->
  header_add (run h) x = run (h ++ [AddHeaders (map c_item cs ++ [x])])
  /\ wf_hist (h ++ [AddHeaders (map c_item cs ++ [x])]).
Proof. exact (fun A h cs x W E => conj (@core_header_row_add A h cs x W E) (@wf_add_headers A h _ W)). Qed.
Print Assumptions c02_header_row_add.

(* ... and on a header row of n cells which a later AddHeaders has replaced it
   only makes sure that the table has n+1 columns: AddHeaders with n+1 items
   followed by AddHeaders with the current ones. *)
Theorem c02_stale_header_row_add : forall (A : Type) (h : list (op A)) cs ys n, wf_hist h ->
  t_header (run h) = Some cs -> length ys = S n ->
  stale_header_add (run h) n = run (h ++ [AddHeaders ys; AddHeaders (map c_item cs)])
  /\ wf_hist ((h ++ [AddHeaders ys]) ++ [AddHeaders (map c_item cs)]).
Proof.
  exact (fun A h cs ys n W E L => conj (@core_stale_header_row_add A h cs ys n W E L)
                                       (@wf_add_headers A _ _ (@wf_add_headers A h ys W))).
Qed.
Print Assumptions c02_stale_header_row_add.

(* non-vacuity: the D2 history, a separator, a pre-built row attached late, a
   header added after the rows *)
Example c02_example :
  let h : list (op N) :=
    [AppendNewRow 1; RowAdd (RName 1) 7%N; AddSeparator; NewRow 2; RowAdd (RName 2) 8%N; RowAdd (RIdx 1) 9%N;
     AddRow 2; RowAdd (RName 2) 10%N; RowAdd (RIdx 0) 11%N; RowAdd (RIdx 0) 12%N; AddHeaders [1%N]; MutateAllRowsCopy] in
  wf_hist h
  /\ nrows (run h) = 3 /\ ncols (run h) = 3
  /\ map row_items (all_rows (run h)) = [Some [7%N; 11%N; 12%N]; None; Some [8%N; 10%N]]
  /\ cell_at (run h) 3 2 = Ok (3, mkCell 10%N 2)
  /\ cell_at (run h) 2 1 = Err /\ cell_at (run h) 0 1 = Err /\ cell_at (run h) 1 4 = Err
  /\ column_exists (run h) 3 = Ok true /\ column_exists (run h) 4 = Ok false.
Proof.
  cbv zeta. split; [apply wf_histb_sound; vm_compute; reflexivity|].
  repeat split; vm_compute; reflexivity.
Qed.

(* a row that another table held before joins this one: everything holds for
   this table (the row's 4th-row past in the other table leaves no trace) *)
Example c02_example_two_tables :
  let h : list (op N) :=
    [NewRow 1; RowAdd (RName 1) 7%N; OtherAddRow (RName 1) 4; RowAdd (RName 1) 8%N; AddSeparator; AddRow 1;
     RowAdd (RName 1) 9%N] in
  wf_hist h
  /\ nrows (run h) = 2 /\ ncols (run h) = 3
  /\ map row_location (all_rows (run h)) = [(1, 0); (2, 0)]
  /\ cell_at (run h) 2 3 = Ok (2, mkCell 9%N 3).
Proof.
  cbv zeta. split; [apply wf_histb_sound; vm_compute; reflexivity|].
  repeat split; vm_compute; reflexivity.
Qed.

(* a table whose add-time row callback appends a "total" cell to every body
   row: t.AddHeaders(1,2); t.AddRowItems(3,4) [callback: row.Add(101)];
   t.AddSeparator(); t.AddRowItems(5) [callback: row.Add(102)] - four calls of
   the program, six building calls *)
Example c02_example_nested_calls :
  let h : list (op N) :=
    [AddHeaders [1%N; 2%N]; AddRowItems [3%N; 4%N]; RowAdd (RIdx 0) 101%N; AddSeparator;
     AddRowItems [5%N]; RowAdd (RIdx 2) 102%N] in
  wf_hist h
  /\ nrows (run h) = 3 /\ ncols (run h) = 3
  /\ column_exists (run h) 3 = Ok true /\ column_exists (run h) 4 = Ok false
  /\ cell_at (run h) 1 3 = Ok (1, mkCell 101%N 3)
  /\ model_dump_segs h [1; 2; 1; 2] = spec_dump_segs h [1; 2; 1; 2]
  /\ length (trace_segs init h [1; 2; 1; 2]) = 4.
Proof.
  cbv zeta. split; [apply wf_histb_sound; vm_compute; reflexivity|].
  repeat split; vm_compute; reflexivity.
Qed.

(* ---- round 6: the value the calls are made on, and callbacks that fail
   (Model/CoreVia.v, Proofs/CoreViaProofs.v) *)
From Tab Require Import Model.CoreVia Proofs.CoreViaProofs.

(* A table value is the core table or a stack of rendering wrappers (csv,
   html, json, markdown, texttable - what the sub-packages' New / Wrap and
   auto.New / auto.Wrap return) around it.  For EVERY stack ks and EVERY
   history in which each building call is made on any level of the stack, the
   table every level shows is the core table after the same calls ... *)
Theorem c02_via_refines : forall (A : Type) (ks : list wkind) (h : list (nat * op A)),
  vcore (vrun h (vnew ks)) = run (map snd h).
Proof. exact (fun A => @via_refines A). Qed.
Print Assumptions c02_via_refines.

(* ... so its column count is the largest header or row of the history
   (a row wider than the header included), through any wrapper ... *)
Theorem c02_via_ncols : forall (A : Type) (ks : list wkind) (h : list (nat * op A)), wf_hist (map snd h) ->
  ncols (vcore (vrun h (vnew ks))) =
  list_max (header_sizes (map snd h) ++ map row_size (all_rows (vcore (vrun h (vnew ks))))).
Proof. exact (fun A => @via_ncols A). Qed.
Print Assumptions c02_via_ncols.

(* ... and everything C02 observes (counts, order, locations, CellAt over the
   bounding box, column handles) is what the history spec expects. *)
Theorem c02_via_dump_expected : forall (ks : list wkind) (h : list (nat * op N)), wf_hist (map snd h) ->
  enc_obs (observe (vcore (vrun h (vnew ks)))) = spec_dump_last (map snd h).
Proof. exact via_dump_last_expected. Qed.
Print Assumptions c02_via_dump_expected.

(* Every building call may come with add-time callbacks that return errors
   (rs: the results of the callbacks run during the call, true = an error).
   The table is the table of the calls alone, and every error is recorded. *)
Theorem c02_callback_errors : forall (A : Type) (h : list (op A * list bool)),
  cb_run h = (run (map fst h), count_errs (concat (map snd h))).
Proof. exact (fun A => @cb_refines A). Qed.
Print Assumptions c02_callback_errors.

Theorem c02_callback_errors_dump_expected : forall h : list (op N * list bool), wf_hist (map fst h) ->
  enc_obs (observe (fst (cb_run h))) = spec_dump_last (map fst h).
Proof. exact cb_dump_last_expected. Qed.
Print Assumptions c02_callback_errors_dump_expected.

(* json.Wrap(csv.Wrap(tabular.New())): headers of two cells on the outer
   wrapper, a row of three cells on the inner one, an attached row whose
   third cell is refused by the row's add-time callback *)
Example c02_example_via_and_callback_errors :
  let h : list (nat * op N) :=
    [(0, AddHeaders [1%N; 2%N]); (1, AddRowItems [3%N; 4%N; 5%N]); (2, AppendNewRow 1)] in
  let hc : list (op N * list bool) :=
    [(AddHeaders [1%N], []); (AppendNewRow 1, []); (RowAdd (RName 1) 7%N, [false]); (RowAdd (RName 1) 0%N, [true; false])] in
  wf_hist (map snd h) /\ wf_hist (map fst hc)
  /\ nrows (vcore (vrun h (vnew [WCsv; WJson]))) = 2 /\ ncols (vcore (vrun h (vnew [WCsv; WJson]))) = 3
  /\ cell_at (vcore (vrun h (vnew [WCsv; WJson]))) 1 3 = Ok (1, mkCell 5%N 3)
  /\ ncols (fst (cb_run hc)) = 2 /\ snd (cb_run hc) = 1
  /\ column_exists (fst (cb_run hc)) 2 = Ok true.
Proof.
  cbv zeta. split; [apply wf_histb_sound; vm_compute; reflexivity|].
  split; [apply wf_histb_sound; vm_compute; reflexivity|].
  repeat split; vm_compute; reflexivity.
Qed.
