(* C15 - a failing writer always surfaces as an error and output stops there.
   Only statements here; proofs live in Proofs/WriterProofs.v. *)
From Tab Require Import Model.Writer Model.Csv Proofs.WriterProofs Proofs.WriterMore.
From Tab Require Model.Markdown Model.Json Model.Text Model.Decoration.

(* For EVERY write list whose calls are all checked and EVERY scripted writer
   (any fault position, persistent or single, with or without a partial
   write): the accepted bytes are a prefix of the fault-free output; a fault on
   any call made is returned as an error; without a fault everything is
   written and no error returned; and "no error" implies "complete". *)
Theorem c15_faults : forall (sc : script) (ws : list (bytes * bool)), all_checked ws ->
  let r := run_writes sc 0 ws [] in
  prefix (snd r) (payloads ws)
  /\ (fails_within sc 0 ws = true -> fst r = true)
  /\ (fails_within sc 0 ws = false -> r = (false, payloads ws))
  /\ (fst r = false -> snd r = payloads ws).
Proof. exact writer_faults. Qed.
Print Assumptions c15_faults.

(* html: template execution may cut the output into Write calls any way it likes *)
Theorem c15_any_chunking : forall (sc : script) (chunks : list bytes) (out : bytes),
  concat chunks = out ->
  let r := run_writes sc 0 (checked chunks) [] in
  prefix (snd r) out /\ (fails_within sc 0 (checked chunks) = true -> fst r = true) /\ (fst r = false -> snd r = out).
Proof. exact any_chunking_faults. Qed.
Print Assumptions c15_any_chunking.

(* a renderer given by its model write list (every call checked), refusing
   tables included *)
Theorem c15_renderer : forall (ws : res (list bytes)) (sc : script) (out : bytes),
  bind ws (fun l => Ok (concat l)) = Ok out ->
  exists e acc, render_to ws sc = Ok (e, acc) /\ prefix acc out
    /\ (forall l, ws = Ok l -> fails_within sc 0 (checked l) = true -> e = true)
    /\ (e = false -> acc = out).
Proof. exact render_to_faults. Qed.
Print Assumptions c15_renderer.

(* instantiated: the CSV renderer's model *)
Theorem c15_csv : forall v sc out, csv_render v = Ok out ->
  exists e acc, render_to (csv_render_writes v) sc = Ok (e, acc) /\ prefix acc out
    /\ (forall l, csv_render_writes v = Ok l -> fails_within sc 0 (checked l) = true -> e = true)
    /\ (e = false -> acc = out).
Proof. intros v sc out H. apply render_to_faults. exact H. Qed.
Print Assumptions c15_csv.

(* ... the Markdown, JSON and text renderers' models (every Write of the
   repaired code is checked: the model write lists carry no unchecked call) *)
Theorem c15_markdown : forall W v sc out, Markdown.md_render W v = Ok out ->
  exists e acc, render_to (Markdown.md_render_writes W v) sc = Ok (e, acc) /\ prefix acc out
    /\ (forall l, Markdown.md_render_writes W v = Ok l -> fails_within sc 0 (checked l) = true -> e = true)
    /\ (e = false -> acc = out).
Proof. intros W v sc out H. apply render_to_faults. exact H. Qed.
Print Assumptions c15_markdown.

Theorem c15_json : forall strenc v sc out, Json.json_render strenc v = Ok out ->
  exists e acc, render_to (Json.json_render_writes strenc v) sc = Ok (e, acc) /\ prefix acc out
    /\ (forall l, Json.json_render_writes strenc v = Ok l -> fails_within sc 0 (checked l) = true -> e = true)
    /\ (e = false -> acc = out).
Proof. intros strenc v sc out H. apply render_to_faults. exact H. Qed.
Print Assumptions c15_json.

Theorem c15_text : forall W d v sc out, Text.text_render W d v = Ok out ->
  exists e acc, render_to (Text.text_render_writes W d v) sc = Ok (e, acc) /\ prefix acc out
    /\ (forall l, Text.text_render_writes W d v = Ok l -> fails_within sc 0 (checked l) = true -> e = true)
    /\ (e = false -> acc = out).
Proof. intros W d v sc out H. apply render_to_faults. exact H. Qed.
Print Assumptions c15_text.

(* the decidable prefix test used on the implementation's bytes means prefix *)
Theorem c15_prefixb_sound : forall a b, prefixb a b = true <-> prefix a b.
Proof. exact prefixb_spec. Qed.
Print Assumptions c15_prefixb_sound.

(* the fault named by the call it happens on: whatever the destination answers
   on ONE call the renderer makes (nothing accepted, a part accepted, or - the
   next theorem - the whole payload accepted together with an error; whatever
   the error VALUE is, the model has no place where it could matter) an error
   is returned and the accepted bytes are a prefix of the fault-free output *)
Theorem c15_fault_at_call : forall (sc : script) (ws : list (bytes * bool)) k p c, all_checked ws ->
  nth_error ws k = Some (p, c) -> faulty (sc k p) = true ->
  let r := run_writes sc 0 ws [] in fst r = true /\ prefix (snd r) (payloads ws).
Proof. exact fault_at_call. Qed.
Print Assumptions c15_fault_at_call.

Theorem c15_full_write_error : forall (sc : script) (ws : list (bytes * bool)) k p c, all_checked ws ->
  nth_error ws k = Some (p, c) -> sc k p = WPartial (length p) ->
  let r := run_writes sc 0 ws [] in fst r = true /\ prefix (snd r) (payloads ws).
Proof. exact full_write_error. Qed.
Print Assumptions c15_full_write_error.

(* non-vacuity: three writes, a partial write on the second call *)
Local Open Scope N_scope.
Example c15_example :
  let ws := checked [[1; 2]; [3; 4; 5; 6]; [7]] in
  let sc : script := fun i _ => match i with 1%nat => WPartial 2 | _ => WAccept end in
  all_checked ws /\ fails_within sc 0 ws = true /\ run_writes sc 0 ws [] = (true, [1; 2; 3; 4]).
Proof. cbv zeta. split; [apply checked_all | split; vm_compute; reflexivity]. Qed.
