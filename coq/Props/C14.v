(* C14 - rendering is repeatable and leaves the table unchanged.
   Only statements; proofs in Proofs/WrapProofs.v. *)
From Tab Require Import Model.Wrap Proofs.WrapProofs.

(* Any sequence of wraps and renders (no building call) leaves everything a
   caller can observe - the view (counts, texts, column properties) and the
   user-visible rest (user properties, locations, errors) - unchanged. *)
Theorem c14_preserves : forall (U : Type) (ops : list (op U)) (s : tstate U),
  (forall o, In o ops -> is_build o = false) -> observable (run s ops) = observable s.
Proof. exact renders_preserve. Qed.
Print Assumptions c14_preserves.

(* After any such sequence, of any length and in any order of formats, a
   format renders the same bytes as before it. *)
Theorem c14_repeatable : forall (U : Type) out degraded (pre ops : list (op U)) (s : tstate U) k,
  wrapped k pre -> (forall o, In o ops -> is_build o = false) ->
  render out degraded (run (run s pre) ops) k = render out degraded (run s pre) k.
Proof. exact repeatable. Qed.
Print Assumptions c14_repeatable.

Example c14_example :
  let pre : list (op unit) := [OWrap KText] in
  let ops : list (op unit) := [ORender KText; OWrap KMd; ORender KMd; ORender KCsv; OWrap KText; ORender KText] in
  (forall o, In o ops -> is_build o = false) /\
  st_cbs (run (run (init (mkView 0 None [] [None] [None]) tt) pre) ops) = [KText; KMd; KText].
Proof.
  cbv zeta. split; [|vm_compute; reflexivity].
  intros o H. repeat (destruct H as [<-|H]; [reflexivity|]). destruct H.
Qed.
