(* C14 - rendering is repeatable and leaves the table unchanged.
   Only statements; proofs in Proofs/WrapProofs.v and Proofs/WrapWorldProofs.v. *)
From Tab Require Import Model.Wrap Proofs.WrapProofs Model.WrapWorld Proofs.WrapWorldProofs.

(* Any sequence of wraps and renders (no building call) leaves everything a
   caller can observe - the view (counts, texts, column properties) and the
   user-visible rest (user properties, locations, errors) - unchanged. *)
Theorem c14_preserves : forall (U : Type) (ops : list (op U)) (s : tstate U),
  (forall o, In o ops -> is_build o = false) -> observable (run s ops) = observable s.
Proof. exact renders_preserve. Qed.
Print Assumptions c14_preserves.

(* After any such sequence, of any length and in any order of formats, a
   format renders the same bytes as before it. *)
Theorem c14_repeatable : forall (U : Type) out degraded (pre ops : list (op U)) (s : tstate U) k,
  wrapped k pre -> (forall o, In o ops -> is_build o = false) ->
  render out degraded (run (run s pre) ops) k = render out degraded (run s pre) k.
Proof. exact repeatable. Qed.
Print Assumptions c14_repeatable.

Example c14_example :
  let pre : list (op unit) := [OWrap KText] in
  let ops : list (op unit) := [ORender KText; OWrap KMd; ORender KMd; ORender KCsv; OWrap KText; ORender KText] in
  (forall o, In o ops -> is_build o = false) /\
  st_cbs (run (run (init (mkView 0 None [] [None] [None]) tt) pre) ops) = [KText; KMd; KText].
Proof.
  cbv zeta. split; [|vm_compute; reflexivity].
  intros o H. repeat (destruct H as [<-|H]; [reflexivity|]). destruct H.
Qed.

(* ---- Several tables in one programme (Model/WrapWorld.v): a history names
   the table each operation acts on, and a render may be in progress
   ([WDuring i k inner]: table i's pass is made, the operations of [inner] -
   nested to any depth, on any table, table i included - run to completion,
   and only then is the output emitted) while others happen.

   As long as no building call reaches table i (anything may happen to the
   other tables), everything a caller can observe of table i stays as it was. *)
Theorem c14_world_preserves : forall (U : Type) out degraded (ops : list (wop U)) (w : list (tstate U)) i s,
  nth_error w i = Some s -> forallb (no_build i) ops = true ->
  exists s', nth_error (fst (wrun out degraded ops w)) i = Some s' /\ observable s' = observable s.
Proof. exact world_preserves. Qed.
Print Assumptions c14_world_preserves.

(* ... and every render of table i in that history - plain, in progress
   while others ran, or run while another was in progress - through a kind
   whose wrapper was made beforehand is the format's output for the table's
   view: it does not depend on the history at all. *)
Theorem c14_world_render_is_out : forall (U : Type) out degraded (ops : list (wop U)) (w : list (tstate U)) i s k r,
  nth_error w i = Some s -> forallb (no_build i) ops = true ->
  (measuring k = true -> existsb (kind_eqb k) (st_cbs s) = true) ->
  In (i, k, r) (snd (wrun out degraded ops w)) -> r = out k (st_view s).
Proof. exact world_render_is_out. Qed.
Print Assumptions c14_world_render_is_out.

(* Hence the same bytes every time. *)
Theorem c14_world_repeatable : forall (U : Type) out degraded (ops : list (wop U)) (w : list (tstate U)) i s k r1 r2,
  nth_error w i = Some s -> forallb (no_build i) ops = true ->
  (measuring k = true -> existsb (kind_eqb k) (st_cbs s) = true) ->
  In (i, k, r1) (snd (wrun out degraded ops w)) -> In (i, k, r2) (snd (wrun out degraded ops w)) -> r1 = r2.
Proof. exact world_repeatable. Qed.
Print Assumptions c14_world_repeatable.

(* not vacuous: two tables; table 1 is rebuilt and rendered while a text render
   of table 0 is in progress, table 0 is rendered re-entrantly meanwhile; the
   log has three renders of table 0 *)
Example c14_world_example :
  let out := fun (k : kind) (v : view) => Ok [N.of_nat (v_ncols v)] in
  let degraded := fun (k : kind) (m : mstate) (v : view) => @Err (list N) in
  let v0 := mkView 0 None [] [None] [None] in
  let v1 := mkView 1 None [] [None; None] [None; None] in
  let w : list (tstate unit) := [run (init v0 tt) [OWrap KText]; init v0 tt] in
  let ops : list (wop unit) :=
    [WDuring 0 KText [WOn 1 (OBuild v1 tt); WOn 1 (OWrap KMd); WDuring 1 KMd [WOn 0 (ORender KText)]]; WOn 0 (ORender KText)] in
  forallb (no_build 0) ops = true /\
  snd (wrun out degraded ops w) = [(0, KText, Ok [0%N]); (1, KMd, Ok [1%N]); (0, KText, Ok [0%N]); (0, KText, Ok [0%N])].
Proof. cbv zeta. split; vm_compute; reflexivity. Qed.

(* ---- Round 6: tables whose items are NOT in the state their cells last read
   (Model/RenderMut.v: the mutation machine of Model/TableMut.v - building
   calls, MMutate = the application changes an object in place, MUpdateAt /
   MUpdateHeader = Cell.Update() - with wraps and renders as further steps of
   one program; proofs in Proofs/RenderMutProofs.v). *)
From Tab Require Import Model.RenderMut Proofs.RenderMutProofs Model.Csv.

(* Wraps and renders are invisible to the table: after ANY program the table -
   every cell's item and the state it was last read in, counts, order, column
   properties, the objects - is what the application's own steps alone make it. *)
Theorem c14_mut_renders_invisible : forall W json (p : list rop) (s : rstate),
  r_m (rrun W json s p) = fold_left mstep (prog_of p) (r_m s).
Proof. exact rrun_m. Qed.
Print Assumptions c14_mut_renders_invisible.

(* After ANY program (building, mutation, update, wraps, renders in any order)
   in which a k-wrapper was made, a render through it is the format's output
   for what the cells have cached and the items are now. *)
Theorem c14_mut_render_is_out : forall W json out degraded (p : list rop) (s : rstate) k,
  consistent W json s -> rwrapped k p ->
  rrender out degraded (rrun W json s p) k = out k (mview W json (r_m (rrun W json s p))).
Proof. exact rrender_is_out. Qed.
Print Assumptions c14_mut_render_is_out.

(* Any number of wraps and renders, any formats, any order: every format then
   renders the same bytes as before them - JSON too, whatever state the items
   are in. *)
Theorem c14_mut_repeatable : forall W json out degraded (p1 p2 : list rop) (s : rstate) k,
  consistent W json s -> rwrapped k p1 -> forallb quiet p2 = true ->
  rrender out degraded (rrun W json (rrun W json s p1) p2) k = rrender out degraded (rrun W json s p1) k.
Proof. exact quiet_repeatable. Qed.
Print Assumptions c14_mut_repeatable.

(* Items changed behind the table's back (no Update), renders and wraps in
   between: a format that reads of a cell only what the cell has cached gives
   the same bytes as the first time, although every item now reads differently. *)
Theorem c14_stale_repeatable : forall W json out degraded (p1 p2 : list rop) (s : rstate) k,
  consistent W json s -> cache_only out k -> rwrapped k p1 -> forallb no_read p2 = true ->
  rrender out degraded (rrun W json (rrun W json s p1) p2) k = rrender out degraded (rrun W json s p1) k.
Proof. exact stale_repeatable. Qed.
Print Assumptions c14_stale_repeatable.

(* CSV (Model/Csv.v) is such a format. *)
Theorem c14_csv_reads_cache_only : forall v v', view_cached v = view_cached v' -> csv_render v = csv_render v'.
Proof. exact csv_cache_only. Qed.
Print Assumptions c14_csv_reads_cache_only.

(* not vacuous: a cell holding an object whose String() says "f"; a text
   wrapper and render; the object is changed to say "ss"; JSON and text
   renders.  The cell still shows "f" - and "ss" once it is updated. *)
Example c14_stale_example :
  let W := fun b : bytes => length b in
  let json := fun _ : item => @None bytes in
  let e := fun _ : N => mkObj (Some [102%N]) None None None None [] (Some [123%N; 125%N]) in
  let ob2 := mkObj (Some [115%N; 115%N]) None None None None [] (Some [123%N; 125%N]) in
  let p1 := [RProg (MOp (TCore (AddRowItems [IObj 1%N]))); RWrap Wrap.KText; RRender Wrap.KText] in
  let p2 := [RProg (MMutate 1%N ob2); RRender Wrap.KJson; RRender Wrap.KText] in
  forallb no_read p2 = true /\ rwrapped Wrap.KText p1 /\
  map row_texts (body_rows (mview W json (r_m (rrun W json (rinit W json e) (p1 ++ p2))))) = [[[102%N]]] /\
  map row_texts (body_rows (mview W json (r_m (rrun W json (rinit W json e) (p1 ++ p2 ++ [RProg (MUpdateAt 0 0)]))))) = [[[115%N; 115%N]]].
Proof. cbv zeta. repeat split; try (vm_compute; reflexivity). right. left. reflexivity. Qed.
