(* C18 - line and width metrics are mutually consistent.
   Only statements here; proofs live in Proofs/LengthProofs.v and
   Proofs/CellProofs.v (histories with failing item methods: Model/CellFail.v,
   Proofs/CellFailProofs.v). *)
From Tab Require Import Model.Length Model.Cell Model.CellFail Spec.Length Spec.CellText Proofs.LengthProofs Proofs.CellProofs Proofs.CellFailProofs.

(* Lines never panics (its ss[len(ss)-1] is in range) ... *)
Theorem c18_lines_total : forall s, lines s = Ok (lines_of s).
Proof. exact lines_lines_of. Qed.
Print Assumptions c18_lines_total.

(* ... it is the specification's line scanner (every LF terminates a line; a
   non-empty rest is a last line) ... *)
Theorem c18_lines_spec : forall s, lines_of s = spec_lines s.
Proof. exact lines_of_spec. Qed.
Print Assumptions c18_lines_spec.

(* ... and it loses nothing but the breaks and at most one trailing newline:
   s = join LF (lines s) ++ (if s ends in LF then LF else nothing), and no
   line contains a break. *)
Theorem c18_lines_lossless : forall s,
  s = join [LF] (lines_of s) ++ (if ends_with_lf s then [LF] else [])
  /\ Forall (fun l => ~ In LF l) (lines_of s).
Proof. exact lines_lossless_full. Qed.
Print Assumptions c18_lines_lossless.

(* Each longest-line function returns the maximum of its per-line measure -
   for any measure, in particular for the three of the package. *)
Theorem c18_longest : forall (m : bytes -> nat) s,
  longest_line_with m s = Ok (list_max (map m (lines_of s))).
Proof. exact longest_line_with_max. Qed.
Print Assumptions c18_longest.

Theorem c18_longest_three : forall seg rw s,
  longest_line_bytes s = Ok (list_max (map string_bytes (lines_of s)))
  /\ longest_line_runes s = Ok (list_max (map string_runes (lines_of s)))
  /\ longest_line_cells seg rw s = Ok (list_max (map (string_cells seg rw) (lines_of s))).
Proof. exact longest_three. Qed.
Print Assumptions c18_longest_three.

(* Runes never exceed bytes (Go's decoding: an invalid byte is one rune). *)
Theorem c18_runes_le_bytes : forall s, string_runes s <= string_bytes s.
Proof. exact runes_le_bytes. Qed.
Print Assumptions c18_runes_le_bytes.

(* Display cells never exceed twice the runes, for ANY grapheme segmentation
   and rune-width table such that the clusters concatenate to the runes, no
   cluster is empty and a rune is at most 2 wide. *)
Theorem c18_cells_le_2runes : forall seg rw,
  rw_le_2 rw -> seg_partition seg -> seg_nonempty seg ->
  forall s, string_cells seg rw s <= 2 * string_runes s.
Proof. exact cells_le_2runes. Qed.
Print Assumptions c18_cells_le_2runes.

(* The same from the weaker assumption "no cluster measures more than 2"
   (StringWidth takes a cluster as its first rune of non-zero width, so this
   follows from RuneWidth <= 2 but does not need it). *)
Theorem c18_cells_le_2runes_clusters : forall seg rw,
  clusters_le_2 seg (cluster_width rw) -> seg_partition seg -> seg_nonempty seg ->
  forall s, string_cells seg rw s <= 2 * string_runes s.
Proof. exact cells_le_2runes_clusters. Qed.
Print Assumptions c18_cells_le_2runes_clusters.

(* A cell whose item does not override its size: Height() is the number of
   lines of its text and TerminalCellWidth() is the widest line - for any
   display-width measure W, nested cells included. *)
Theorem c18_cell_metrics : forall W e it, no_override W e it ->
  cell_height (new_cell W e it) = Zlen (lines_of (cell_text (new_cell W e it)))
  /\ cell_width (new_cell W e it) = Z.of_nat (list_max (map W (lines_of (cell_text (new_cell W e it))))).
Proof. exact new_cell_metric_ok. Qed.
Print Assumptions c18_cell_metrics.

Theorem c18_cell_metrics_update : forall W e c, no_override W e (c_raw c) ->
  cell_height (update W e c) = Zlen (lines_of (cell_text (update W e c)))
  /\ cell_width (update W e c) = Z.of_nat (list_max (map W (lines_of (cell_text (update W e c))))).
Proof. exact update_metric_ok. Qed.
Print Assumptions c18_cell_metrics_update.

(* So the text renderer's layout pass (array of max(Height(), len(Lines()))
   entries) and its emit pass (one entry per line of Lines()) agree. *)
Corollary c18_layout_emit_agree : forall W e it, no_override W e it ->
  let c := new_cell W e it in
  cell_lines c = Ok (lines_of (cell_text c))
  /\ layout_nlines c = Ok (Zlen (lines_of (cell_text c)))
  /\ cell_height c = Zlen (lines_of (cell_text c)).
Proof. exact layout_emit_agree. Qed.
Print Assumptions c18_layout_emit_agree.

(* ---- long-lived cells and item methods that fail (Model/CellFail.v).
   An Update() during which the item's own String / GoString / Error panics
   reaches its caller as that panic (NewCell then hands back no cell) ... *)
Theorem c18_failing_method_panics : forall W e f c,
  update_fr W e f c = Panic <-> (f = true /\ calls_text_method e (c_raw c) = true).
Proof. exact update_fr_panic. Qed.
Print Assumptions c18_failing_method_panics.

(* ... and leaves the cell's text, height and width exactly as they were. *)
Theorem c18_failed_update_keeps : forall W e c, calls_text_method e (c_raw c) = true ->
  let c' := update_f W e true c in
  cell_text c' = cell_text c /\ cell_height c' = cell_height c /\ cell_width c' = cell_width c.
Proof. exact failed_update_keeps. Qed.
Print Assumptions c18_failed_update_keeps.

(* So the cell clause holds after EVERY history of Update() calls on a cell
   whose item never overrides its size - whatever state the item is in at each
   call, and whether or not its text method fails there. *)
Theorem c18_cell_metrics_history : forall W e0 it (h : list ustep),
  no_override W e0 it ->
  Forall (fun s : ustep => no_override W (fst s) it) h ->
  cell_metric_ok W (run_updates W (new_cell W e0 it) h).
Proof. exact history_metric. Qed.
Print Assumptions c18_cell_metrics_history.

Corollary c18_layout_emit_agree_history : forall W e0 it (h : list ustep),
  no_override W e0 it ->
  Forall (fun s : ustep => no_override W (fst s) it) h ->
  let c := run_updates W (new_cell W e0 it) h in
  cell_lines c = Ok (lines_of (cell_text c))
  /\ layout_nlines c = Ok (Zlen (lines_of (cell_text c))).
Proof. exact history_layout_emit. Qed.
Print Assumptions c18_layout_emit_agree_history.

(* non-vacuity: "a\n\xE4\xB8\x96\xCC\x81\n\n\xFF": lines, measures with a toy
   segmentation (every rune its own cluster except a combining mark, which
   joins the previous one) *)
Local Open Scope N_scope.
Example c18_example :
  let s := [97; 10; 228; 184; 150; 204; 129; 10; 10; 255] in
  let rw := fun r => if Z.eqb r 19990 then 2%nat else if Z.eqb r 769 then 0%nat else 1%nat in
  let seg := fun b : list N => if bytes_eqb b [228; 184; 150; 204; 129] then [[19990%Z; 769%Z]] else map (fun r => [r]) (decode_runes b) in
  lines s = Ok [[97]; [228; 184; 150; 204; 129]; []; [255]]
  /\ longest_line_bytes s = Ok 5%nat /\ longest_line_runes s = Ok 2%nat /\ longest_line_cells seg rw s = Ok 2%nat
  /\ string_runes s = 7%nat
  /\ cell_height (new_cell (string_cells seg rw) (fun _ => mkObj None None None None None [] None) (IString s)) = 4%Z.
Proof. vm_compute. repeat split; reflexivity. Qed.

(* TIED TO THE SOURCE TEXT.  Generated/LengthSrc.v is written by tools/go2coq from
   length/length.go (StringBytes, StringRunes, StringCells, Lines and the three
   LongestLine functions; a shallow translation over Base/GoSem.v) and regenerated
   from the repository under test on every run (check.py SOURCE_TIES).
   strings.Split on "\n" and utf8.RuneCountInString are the prelude's
   strings_Split1 / rune_count; runewidth.StringWidth is a parameter W.  For every
   string and every W - no hypothesis - the translated source IS the model: no
   panic (ss[len(ss)-1] is in range: Split never returns an empty list), the same
   lines, the same numbers. *)
From Tab Require Import Base.GoSem Generated.LengthSrc Proofs.LengthSrcTie.

Theorem c18_source_is_model :
  (forall s, src_Lines s = Done (lines s))
  /\ (forall s, src_StringBytes s = Ok (Z.of_nat (string_bytes s)))
  /\ (forall s, src_StringRunes s = Ok (Z.of_nat (string_runes s)))
  /\ (forall (W : bytes -> nat) s, src_StringCells (fun x => Z.of_nat (W x)) s = Ok (Z.of_nat (W s)))
  /\ (forall s, src_LongestLineBytes s = res_Z (longest_line_bytes s))
  /\ (forall s, src_LongestLineRunes s = res_Z (longest_line_runes s))
  /\ (forall (W : bytes -> nat) s, src_LongestLineCells (fun x => Z.of_nat (W x)) s = res_Z (longest_line_with W s))
  /\ (forall seg rw s, src_LongestLineCells (fun x => Z.of_nat (string_cells seg rw x)) s = res_Z (longest_line_cells seg rw s)).
Proof. exact length_source_is_model. Qed.
Print Assumptions c18_source_is_model.

(* c18_lines_total / c18_lines_spec / c18_lines_lossless for what the TRANSLATED
   SOURCE of Lines returns *)
Theorem c18_source_lines_lossless : forall s, exists ls,
  src_Lines s = Ok ls
  /\ s = join [LF] ls ++ (if ends_with_lf s then [LF] else [])
  /\ Forall (fun l => ~ In LF l) ls
  /\ ls = spec_lines s.
Proof. exact src_Lines_lossless. Qed.
Print Assumptions c18_source_lines_lossless.

(* c18_longest_three for the translated sources: each returns the maximum of its
   measure over exactly the lines the translated Lines returns, for every width
   measure W *)
Theorem c18_source_longest : forall (W : bytes -> nat) s, exists ls,
  src_Lines s = Ok ls
  /\ src_LongestLineBytes s = Ok (Z.of_nat (list_max (map string_bytes ls)))
  /\ src_LongestLineRunes s = Ok (Z.of_nat (list_max (map string_runes ls)))
  /\ src_LongestLineCells (fun x => Z.of_nat (W x)) s = Ok (Z.of_nat (list_max (map W ls))).
Proof. exact src_longest_three. Qed.
Print Assumptions c18_source_longest.
