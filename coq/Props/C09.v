(* C09 - every renderer is total: it never panics, and failure is an error
   with no text.  Statements only (proofs: Proofs/TotalProofs.v and the
   renderers' own proof files). *)
From Tab Require Import Model.RenderString Model.Csv Proofs.CsvProofs.
From Tab Require Model.Core Spec.History Proofs.CoreSim.
From Tab Require Model.Cell Proofs.CellProofs Proofs.TotalProofs.
From Tab Require Model.Markdown Proofs.MarkdownProofs.
From Tab Require Model.Json Proofs.JsonErrProofs.
From Tab Require Model.Text Model.Decoration Spec.TextLayout Proofs.TextProps Proofs.TextZero Proofs.TextAnyDec.
From Tab Require Model.Html Proofs.HtmlProofs.

(* Render(): an error always comes with the empty string, whatever RenderTo did *)
Theorem c09_error_no_text : forall (r : res bytes) s, render_string r = Ok (s, true) -> s = [].
Proof. intros [out| |] s H; inversion H; reflexivity. Qed.
Print Assumptions c09_error_no_text.

Theorem c09_render_string_no_panic : forall (r : res bytes), r <> Panic -> render_string r <> Panic.
Proof. intros [out| |] H; try discriminate. congruence. Qed.
Print Assumptions c09_render_string_no_panic.

(* csv: total on every view whatsoever, succeeds on every well-formed view with a column *)
Theorem c09_csv_total : forall v, render_string (csv_render v) <> Panic
  /\ (wf_view v -> 1 <= v_ncols v -> exists out, render_string (csv_render v) = Ok (out, false)).
Proof.
  intros v. split.
  - apply c09_render_string_no_panic, csv_no_panic.
  - intros Hwf Hn. destruct (csv_succeeds v Hwf Hn) as (out & ->). exists out. reflexivity.
Qed.
Print Assumptions c09_csv_total.

(* THE COMPOSITION.  For every history of building calls (Model/Core.v: every
   interleaving of AddHeaders, AddRowItems, NewRow / NewRowSizedFor + Row.Add +
   AddRow, AppendNewRow + Row.Add on the attached row, AddSeparator, misuse on
   separators) over ARBITRARY items - any dynamic type, any combination of
   String/GoString/Error/Height/TerminalCellWidth, declared sizes of any sign
   and magnitude, nested cells (Model/Cell.v) - the view the renderers see is
   well-formed, and on it: CSV, Markdown and JSON never panic (any width
   measure W, any encoding/json oracle); the text renderer never panics under
   any complete or boxless decoration (tables with no column included), and
   refuses the empty decoration with an error; HTML always renders, whatever
   id, class, caption and row-class generator. *)
Theorem c09_total :
  forall (W : bytes -> nat) (e : Cell.env) (json : Cell.item -> option bytes) (strenc : bytes -> bytes)
         (h : list (Ops.op Cell.item)),
  History.wf_hist h ->
  let v := Core.view_of (Cell.vcell_of_item W e json) (Core.run h) in
  wf_view v
  /\ render_string (csv_render v) <> Panic
  /\ render_string (Markdown.md_render W v) <> Panic
  /\ render_string (Json.json_render strenc v) <> Panic
  /\ (forall d, TextLayout.dec_ok d -> render_string (Text.text_render W d v) <> Panic)
  /\ (forall d, Decoration.is_empty_decoration d = true -> render_string (Text.text_render W d v) = Ok ([], true))
  /\ (forall id cls cap have rcs, HtmlProofs.rc_fit (Html.mkHtmlIn id cls cap have rcs v) ->
        exists out, render_string (Html.html_render (Html.mkHtmlIn id cls cap have rcs v)) = Ok (out, false)).
Proof.
  intros W e json strenc h Hwf v.
  assert (Hv : wf_view v) by (apply CoreSim.view_wf; exact Hwf).
  split; [exact Hv|].
  split; [apply c09_render_string_no_panic, csv_no_panic|].
  split; [apply c09_render_string_no_panic, MarkdownProofs.md_no_panic, Hv|].
  split; [apply c09_render_string_no_panic, JsonErrProofs.json_no_panic, Hv|].
  split.
  { intros d Hd. apply c09_render_string_no_panic, TextZero.text_no_panic_all; try assumption.
    apply TotalProofs.view_of_cells_all. intros a. apply TotalProofs.vcell_of_item_cell_ok. }
  split.
  { intros d Hd. rewrite (TextProps.empty_decoration_err_proof W d v Hd). reflexivity. }
  intros id cls cap have rcs Hfit.
  destruct (HtmlProofs.html_no_panic _ Hfit) as (r & Hr).
  exists (fst r). unfold Html.html_render. rewrite Hr. reflexivity.
Qed.
Print Assumptions c09_total.

(* THE COMPOSITION, column properties included (Model/Table.v).  c09_total
   speaks of tables whose columns carry no property; here the history may also
   set alignment and skipable values - on any column number, existing or not,
   to any value (nil, a non-boolean skipable) - at any point between the
   building calls.  The view is well-formed and every renderer is total on it,
   exactly as above. *)
From Tab Require Import Model.Table Spec.TableHist Proofs.E2EProofs.

Theorem c09_total_table :
  forall (W : bytes -> nat) (e : Cell.env) (json : Cell.item -> option bytes) (strenc : bytes -> bytes)
         (h : list top),
  twf_hist h ->
  let v := hview W e json h in
  wf_view v
  /\ render_string (csv_render v) <> Panic
  /\ render_string (Markdown.md_render W v) <> Panic
  /\ render_string (Json.json_render strenc v) <> Panic
  /\ (forall d, render_string (Text.text_render W d v) <> Panic)       (* EVERY decoration value, hand-written and never populated ones included *)
  /\ (forall d, Decoration.is_empty_decoration d = true -> render_string (Text.text_render W d v) = Ok ([], true))
  /\ (forall id cls cap have rcs, HtmlProofs.rc_fit (Html.mkHtmlIn id cls cap have rcs v) ->
        exists out, render_string (Html.html_render (Html.mkHtmlIn id cls cap have rcs v)) = Ok (out, false)).
Proof.
  intros W e json strenc h Hwf v.
  assert (Hv : wf_view v) by (apply hview_wf; exact Hwf).
  split; [exact Hv|].
  split; [apply c09_render_string_no_panic, csv_no_panic|].
  split; [apply c09_render_string_no_panic, MarkdownProofs.md_no_panic, Hv|].
  split; [apply c09_render_string_no_panic, JsonErrProofs.json_no_panic, Hv|].
  split.
  { intros d. apply c09_render_string_no_panic, TextAnyDec.text_no_panic_any_decoration.
    - destruct Hv as (_ & _ & Hal & _). exact Hal.
    - apply hview_cells_ok. }
  split.
  { intros d Hd. rewrite (TextProps.empty_decoration_err_proof W d v Hd). reflexivity. }
  intros id cls cap have rcs Hfit.
  destruct (HtmlProofs.html_no_panic _ Hfit) as (r & Hr).
  exists (fst r). unfold Html.html_render. rewrite Hr. reflexivity.
Qed.
Print Assumptions c09_total_table.

(* The text renderer under EVERY decoration value.  SetDecoration accepts any
   Decoration, so "every style" includes decorations an application writes by
   hand with any subset of the 22 glyph fields empty and never Populate()s.
   On every view with one alignment slot per column plus column 0 whose cells
   report the sizes Cell computes - tables without columns, zero-cell rows and
   over-long rows included - Render never panics, and it returns an error
   (with no text) exactly for the empty decoration, i.e. an unknown style
   name.  (Refuted for the code as it was before D22's repair:
   Findings/TextHandDecoration.v.) *)
Theorem c09_text_any_decoration : forall (W : bytes -> nat) d v,
  length (v_align v) = S (v_ncols v) -> TextLayout.cells_ok W v ->
  render_string (Text.text_render W d v) <> Panic
  /\ (Text.text_render W d v = Err <-> Decoration.is_empty_decoration d = true).
Proof.
  intros W d v Hal Hc. split.
  - apply c09_render_string_no_panic. exact (TextAnyDec.text_no_panic_any_decoration W d v Hal Hc).
  - exact (TextAnyDec.text_refused_iff_empty_decoration W d v Hal Hc).
Qed.
Print Assumptions c09_text_any_decoration.

(* Beyond single-table histories.  A row can be made longer than its table is
   wide (a *Row attached to a second table and then extended: the second table
   learns of the column, the first does not), so the view a renderer sees need
   not satisfy wf_view.  Since the D21 repair the text renderer is total on
   such views too: whatever the rows' lengths, as long as the view carries one
   alignment slot per column plus column 0 and the cells report the sizes Cell
   computes, it does not panic (the surplus cells are measured, but neither
   widen a column nor are laid out).  CSV is total on every view whatsoever
   (c09_csv_total). *)
Theorem c09_text_any_rows : forall (W : bytes -> nat) d v,
  length (v_align v) = S (v_ncols v) -> TextLayout.dec_ok d -> TextLayout.cells_ok W v ->
  render_string (Text.text_render W d v) <> Panic.
Proof.
  intros W d v Hal Hd Hc. apply c09_render_string_no_panic.
  exact (TextZero.text_no_panic_any_rows W d v Hal Hd Hc).
Qed.
Print Assumptions c09_text_any_rows.

(* Tables that carry property callbacks of the application (Model/RenderCb.v).
   A table "built through the public API" may have callbacks registered on the
   table, a wrapper standing for it, its columns, rows and cells, for add time
   and the three render times, aimed at the owner itself, its cells or its rows,
   at any point of the build - and the registered values may be of any Go type
   (function values behind an adapter type, structs holding slices, maps or
   funcs: types whose values cannot be compared).  For every such history
   (Spec/CbTrace.v wf_hist: it puts no condition on the callbacks, which are
   opaque labels, equal or not) any number of render passes completes, and
   Render() - the pass, then the renderer's body - panics only if the body
   alone would, is the body's result, and an error still comes with no text. *)
From Tab Require Model.Callbacks Spec.CbTrace Model.RenderCb Proofs.RenderCbProofs.

Theorem c09_callback_passes_complete : forall (h : list CbTypes.op) k,
  CbTrace.wf_hist h = true -> exists oc, Callbacks.run h k = Ok oc.
Proof. exact RenderCbProofs.passes_complete. Qed.
Print Assumptions c09_callback_passes_complete.

Theorem c09_render_with_callbacks : forall (h : list CbTypes.op) (body : res bytes),
  CbTrace.wf_hist h = true ->
  RenderCb.render_cb h body = render_string body
  /\ (body <> Panic ->
      RenderCb.render_cb h body <> Panic
      /\ (forall s, RenderCb.render_cb h body = Ok (s, true) -> s = [])).
Proof.
  intros h body W. split.
  - exact (RenderCbProofs.render_cb_is_body h body W).
  - exact (RenderCbProofs.render_cb_total h body W).
Qed.
Print Assumptions c09_render_with_callbacks.

(* non-vacuity: a header, a row, a separator, a row extended after it joined;
   the SAME label registered twice in one list (table, render time, cells), two
   more labels in the list of column 1's cells and one on a cell; two passes *)
Example c09_callbacks_example :
  let h := [CbTypes.ORegister CbTypes.OTable CbTypes.TRender CbTypes.GCell 7;
            CbTypes.ORegister CbTypes.OTable CbTypes.TRender CbTypes.GCell 7;
            CbTypes.OAddHeaders 2; CbTypes.OAddRowItems 2;
            CbTypes.ORegister (CbTypes.OColumn 1) CbTypes.TPre CbTypes.GCell 3;
            CbTypes.ORegister (CbTypes.OColumn 1) CbTypes.TPre CbTypes.GCell 4;
            CbTypes.OAddSeparator; CbTypes.OAppendNewRow; CbTypes.ORowAdd 3;
            CbTypes.ORegister (CbTypes.OCell 3 1) CbTypes.TRender CbTypes.GItself 5] in
  CbTrace.wf_hist h = true
  /\ (exists oc, Callbacks.run h 2 = Ok oc /\ length (Callbacks.oc_render oc) = 2 * 17)
  /\ RenderCb.render_cb h Err = Ok ([], true).
Proof. cbv zeta. split; [vm_compute; reflexivity|]. split; [eexists; split; vm_compute; reflexivity|]. vm_compute. reflexivity. Qed.

(* ---- Round 6: the byte content of the texts, and the line measure as CODE.
   Everything above takes the display-width measure as a total function W.
   The text renderer measures every line of every cell in a callback
   (dimensionSetter.UpdateProperties, run by InvokeRenderCallbacks before the
   body); whatever computes a line's width is a loop over the line's bytes and
   can index out of range like any loop.  Model/Measure.v models the callback
   and Render() over a measure Wr : bytes -> option nat (None = the measuring
   code panics on that line).  The theorems say exactly what the measure owes:
   (1) the callback panics on a cell iff one of the cell's lines is outside the
       measure's domain;
   (2) the callback is total on every cell iff the measure is total on EVERY
       byte string without a line feed - no smaller domain will do (for every
       such string there is a cell that feeds it to the measure);
   (3) Render() under any non-empty decoration panics iff some line of some
       cell (header or body) is outside the measure's domain, and otherwise is
       the model of Model/Text.v;
   (4) for every history of building calls and column-property calls over
       arbitrary items, a measure that is total on the LF-free strings makes
       Render() total under every decoration value. *)
From Tab Require Model.Measure Proofs.MeasureProofs.

Theorem c09_measuring_callback_panics_iff : forall (Wr : bytes -> option nat) c,
  (0 <= vc_tw c)%Z -> (0 <= vc_h c)%Z ->
  (Measure.dimension_setter_r Wr c = Panic
   <-> Exists (fun l => Wr l = None) (TextLayout.cell_lines c)).
Proof. intros Wr c H1 H2. exact (MeasureProofs.setter_r_panics_iff Wr c (conj H1 H2)). Qed.
Print Assumptions c09_measuring_callback_panics_iff.

Theorem c09_measure_domain_is_every_line : forall (Wr : bytes -> option nat),
  (forall c, (0 <= vc_tw c)%Z /\ (0 <= vc_h c)%Z -> Measure.dimension_setter_r Wr c <> Panic)
  <-> (forall l, ~ In LF l -> Wr l <> None).
Proof. exact MeasureProofs.setter_total_iff. Qed.
Print Assumptions c09_measure_domain_is_every_line.

Theorem c09_text_render_panics_iff : forall (Wr : bytes -> option nat) d v,
  length (v_align v) = S (v_ncols v) -> TextLayout.cells_ok (Measure.total_of Wr) v ->
  (Measure.text_render_r Wr d v = Panic
   <-> Decoration.is_empty_decoration d = false
       /\ Exists (fun c => Exists (fun l => Wr l = None) (TextLayout.cell_lines c)) (TextLayout.all_cells v)).
Proof. exact MeasureProofs.render_r_panics_iff. Qed.
Print Assumptions c09_text_render_panics_iff.

Theorem c09_total_table_measured :
  forall (Wr : bytes -> option nat) (e : Cell.env) (json : Cell.item -> option bytes) (h : list top),
  twf_hist h ->
  (forall l, ~ In LF l -> Wr l <> None) ->
  let v := hview (Measure.total_of Wr) e json h in
  forall d, render_string (Measure.text_render_r Wr d v) <> Panic
            /\ Measure.text_render_r Wr d v = Text.text_render (Measure.total_of Wr) d v.
Proof.
  intros Wr e json h Hwf Htot v d.
  assert (E : Measure.text_render_r Wr d v = Text.text_render (Measure.total_of Wr) d v)
    by (apply MeasureProofs.render_r_agree, MeasureProofs.total_measures_all; exact Htot).
  split; [|exact E]. rewrite E. apply c09_render_string_no_panic, TextAnyDec.text_no_panic_any_decoration.
  - destruct (hview_wf (Measure.total_of Wr) e json h Hwf) as (_ & _ & Hal & _). exact Hal.
  - apply hview_cells_ok.
Qed.
Print Assumptions c09_total_table_measured.

(* non-vacuity: a measure that counts bytes but indexes past the end of a line
   whose last byte is ESC.  A header and one row; with the text "ab" the table
   renders, with "ab" ESC in the body cell Render() panics. *)
Example c09_measure_example :
  let Wr := fun l : bytes => match rev l with 27%N :: _ => None | _ => Some (length l) end in
  let d := Decoration.populate (Decoration.mkDecor [45%N] [124%N] [43%N] [] [] [] [] [] [] [] [] [] [] [] [] [] [] [] [] [] [] [] false) in
  let cell := fun s => mkVCell s false None (Z.of_nat (length s)) 1%Z false in
  let v := fun s => mkView 1 (Some [cell [104%N]]) [Some [cell s]] [None; None] [None; None] in
  (exists out, Measure.text_render_r Wr d (v [97%N; 98%N]) = Ok out /\ out <> [])
  /\ Measure.text_render_r Wr d (v [97%N; 98%N; 27%N]) = Panic
  /\ Measure.dimension_setter_r Wr (cell [97%N; 98%N; 27%N]) = Panic.
Proof.
  cbv zeta. split; [eexists; split; [vm_compute; reflexivity | discriminate]|].
  split; vm_compute; reflexivity.
Qed.
