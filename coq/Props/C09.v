(* C09 - every renderer is total: it never panics, and failure is an error
   with no text.  Statements only.

   Full statement (DESIGN section 6):
     forall h, wf_hist h -> forall fmt style reg,
       render fmt style reg (view_of (run h)) <> Panic
       /\ (render_string (render ...) = Ok (s, true) -> s = []).
   It is assembled from one totality theorem per renderer model over every
   well-formed view, the core's invariant (no row longer than the column
   count: view_wf), and the Render() wrapper below.  The per-renderer parts
   are added to this file as the renderer models are merged; each one listed
   here is proved for ALL views (no bound on rows, cells or bytes). *)
From Tab Require Import Model.RenderString Model.Csv Proofs.CsvProofs.

(* Render(): an error always comes with the empty string, whatever RenderTo did *)
Theorem c09_error_no_text : forall (r : res bytes) s, render_string r = Ok (s, true) -> s = [].
Proof. intros [out| |] s H; inversion H; reflexivity. Qed.
Print Assumptions c09_error_no_text.

Theorem c09_render_string_no_panic : forall (r : res bytes), r <> Panic -> render_string r <> Panic.
Proof. intros [out| |] H; try discriminate. congruence. Qed.
Print Assumptions c09_render_string_no_panic.

(* csv: total on every view whatsoever, succeeds on every well-formed view with a column *)
Theorem c09_csv_total : forall v, render_string (csv_render v) <> Panic
  /\ (wf_view v -> 1 <= v_ncols v -> exists out, render_string (csv_render v) = Ok (out, false)).
Proof.
  intros v. split.
  - apply c09_render_string_no_panic, csv_no_panic.
  - intros Hwf Hn. destruct (csv_succeeds v Hwf Hn) as (out & ->). exists out. reflexivity.
Qed.
Print Assumptions c09_csv_total.
