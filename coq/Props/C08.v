(* C08 - Markdown output keeps GFM table structure and neutralises cell
   content.  Only statements here; proofs live in Proofs/MarkdownProofs.v.
   W is the display-width measure of go-runewidth (an oracle): every theorem
   holds for all W.  md_ok, row_ok, delim_ok, cell_ok, unescaped_pipes, trim,
   decode are the independent reading of the property in Spec/MdSplit.v. *)
From Tab Require Import Model.Markdown Spec.MdSplit Proofs.MarkdownProofs.

(* For every table shape the core can produce, every width measure and every
   alignment assignment: rendering never panics; it is refused only when there
   is no header or no column; and when it succeeds the output is (md_ok)
   LF-terminated lines = header, delimiter, one per non-separator row, each with
   exactly ncols+1 unescaped pipes, first and last byte a structural pipe; every
   delimiter cell trimmed is [:]---[:] with at least three dashes and the colon
   markers of the effective alignment (own, else column 0); every cell, trimmed
   and entity-decoded by the strict decoder, is the trimmed cell text (missing
   cells: empty) and holds no raw pipe, LF, angle bracket or quote; and if no
   text contains CR the output contains none (so LF-splitting is line
   splitting). *)
Theorem c08_structure : forall W v, wf_view v ->
  match md_render W v with
  | Ok out => md_ok v out
  | Err    => v_header v = None \/ v_ncols v = 0
  | Panic  => False
  end.
Proof. exact md_structure. Qed.
Print Assumptions c08_structure.

(* Escaping: no pipe, LF, <, >, double or single quote survives; the strict
   decoder (which rejects any ampersand that does not start one of the seven
   entities) reads the escaped text back as exactly the text; and, said
   directly, whatever follows any ampersand of the escaped text is the name of
   one of the seven entities.  All byte strings, CR and invalid UTF-8 included. *)
Theorem c08_neutral : forall s,
  raw_free (md_escape s) = true
  /\ decode (md_escape s) = Some s
  /\ (forall pre post, md_escape s = pre ++ 38%N :: post -> starts_entity post).
Proof. exact md_neutral. Qed.
Print Assumptions c08_neutral.

(* A table without headers or without columns is refused with an error. *)
Theorem c08_refuses : forall W v, v_header v = None \/ v_ncols v = 0 -> md_render W v = Err.
Proof. exact md_render_refuses. Qed.
Print Assumptions c08_refuses.

(* No panic, whatever the shape (zero-cell rows, empty header), widths and alignments. *)
Theorem c08_no_panic : forall W v, wf_view v -> md_render W v <> Panic.
Proof. exact md_no_panic. Qed.
Print Assumptions c08_no_panic.

(* Every well-formed table with a header and a column renders (non-vacuity of c08_structure). *)
Theorem c08_succeeds : forall W v h, wf_view v -> 1 <= v_ncols v -> v_header v = Some h ->
  exists out, md_render W v = Ok out /\ md_ok v out.
Proof. exact md_render_ok. Qed.
Print Assumptions c08_succeeds.

(* The decidable judgement the correspondence check applies to the
   implementation's own bytes says exactly md_ok ... *)
Theorem c08_oracle_exact : forall v out, md_okb v out = true <-> md_ok v out.
Proof. exact md_okb_iff. Qed.
Print Assumptions c08_oracle_exact.

(* ... and accepts every output of the model. *)
Theorem c08_oracle_accepts_model : forall W v out, wf_view v -> md_render W v = Ok out -> md_okb v out = true.
Proof. exact md_okb_model. Qed.
Print Assumptions c08_oracle_accepts_model.

(* Render() is the concatenation of what RenderTo writes. *)
Theorem c08_render_is_writes : forall W v ws, md_render_writes W v = Ok ws -> md_render W v = Ok (concat ws).
Proof. exact md_render_is_writes. Qed.
Print Assumptions c08_render_is_writes.

(* Every pipe byte of the output is one of the ncols+1 structural ones, and none
   is immediately preceded by a backslash: in header and body rows the closing
   bar is always preceded by a space (a text ending in a backslash yields
   backslash, space, bar), in the delimiter row cells hold only space, dash and
   colon.  So the pipe count does not depend on the escape convention of the
   splitter (parity of the backslash run, or "any backslash before"). *)
Theorem c08_pipes_plain : forall W v out, wf_view v -> md_render W v = Ok out ->
  exists ls, lines_lf out = Some ls
             /\ Forall (fun l => pipe_bytes l = S (v_ncols v) /\ bsl_pipe false l = false) ls.
Proof. exact md_pipes_plain. Qed.
Print Assumptions c08_pipes_plain.

(* non-vacuity: two columns, column-0 default Right, column 2 Center; a pipe, a
   trailing backslash, LF, an entity look-alike, outer spaces, a zero-cell row
   and a separator; a width measure that forces padding *)
Local Open Scope N_scope.
Example c08_example :
  let c s w := mkVCell s false None w 0 false in
  let v := mkView 2%nat (Some [c [104; 124] 2%Z; c [98; 92] 2%Z])
                  [Some [c [32; 97; 32] 3%Z; c [38; 97; 109; 112; 59; 10] 5%Z]; None; Some []]
                  [Some ARight; None; Some ACenter] [None; None; None] in
  wf_view v /\ exists out, md_render (@length N) v = Ok out /\ md_okb v out = true
  /\ lines_lf out = Some [ [124;32; 104;38;35;120;55;99;59; 32;124;32; 32;98;92;32;32; 32;124];
                           [124; 32;45;45;45;58; 124; 58;45;45;45;45;45;58; 124];
                           [124;32; 32;97;32; 32;124;32; 38;97;109;112;59;97;109;112;59;38;35;120;48;97;59; 32;124];
                           [124;32;124;32;124] ].
Proof.
  cbv zeta. split.
  - apply wf_viewb_spec. vm_compute. reflexivity.
  - eexists. split; [vm_compute; reflexivity|]. split; vm_compute; reflexivity.
Qed.

(* END TO END (Proofs/E2E*.v).  `hview W e json h` is what a renderer sees after
   the history h of public-API calls (Model/Table.v: building calls in any
   interleaving plus column property settings) over ARBITRARY items
   (Model/Cell.v); `twf_hist h`: the building calls form a well-formed history
   (Spec/History.v).  hist_header / hist_rows / hist_records / hist_ncols are
   read off the history alone (Spec/TableHist.v); documented_text is C01's
   text form (Spec/CellText.v). *)
From Tab Require Import Model.Cell Model.Table Spec.TableHist Spec.CellText Proofs.E2EProofs.
From Tab Require Import Proofs.E2EMd.

(* Structure and neutralisation for every table a history can build; it is
   refused exactly when the history has no header or no column. *)
Theorem c08_history : forall (W : list N -> nat) (e : env) (json : item -> option (list N)) (h : list top),
  twf_hist h ->
  let v := hview W e json h in
  match md_render W v with
  | Ok out => md_ok v out
  | Err => hist_header h = None \/ hist_ncols h = 0%nat
  | Panic => False
  end.
Proof. exact md_history. Qed.
Print Assumptions c08_history.

(* the texts md_ok compares the trimmed, decoded cells with are the documented
   texts of the items the history put there *)
Theorem c08_history_texts : forall W e json (h : list top), twf_hist h ->
  header_texts (hview W e json h) = match hist_header h with Some xs => map (documented_text e) xs | None => [] end
  /\ body_texts (hview W e json h)
     = map (map (documented_text e)) (flat_map (fun r => match r with Some xs => [xs] | None => [] end) (hist_rows h)).
Proof. exact md_history_texts. Qed.
Print Assumptions c08_history_texts.


(* the alignment markers md_ok demands of delimiter cell i: the column's own
   latest setting, else the latest default set on column 0 *)
Theorem c08_history_alignment : forall W e json (h : list top) i,
  twf_hist h -> (i < hist_ncols h)%nat ->
  spec_eff_align (v_align (hview W e json h)) i
  = match hist_align h (S i) with Some a => Some a | None => hist_align h 0%nat end.
Proof. exact md_history_alignment. Qed.
Print Assumptions c08_history_alignment.

(* TIED TO THE SOURCE TEXT.  Generated/MarkdownSrc.v is written by tools/go2coq
   from markdown/markdown.go's mdCellEscape (regenerated from the repository under
   test on every run, check.py SOURCE_TIES; html.EscapeString and strings.Replace
   are the assumed library functions of Base/GoLib.v).  For every byte string the
   translated source returns md_escape s: the same three passes in the same
   order, with the pattern bytes and entities the source spells out. *)
From Tab Require Import Base.GoSem Generated.MarkdownSrc Proofs.MarkdownSrcTie.

Theorem c08_source_is_model : forall s, src_mdCellEscape s = Ok (md_escape s).
Proof. exact src_mdCellEscape_is_model. Qed.
Print Assumptions c08_source_is_model.

(* c08_neutral for what the translated source returns *)
Theorem c08_source_neutral : forall s out,
  src_mdCellEscape s = Ok out ->
  raw_free out = true
  /\ decode out = Some s
  /\ (forall pre post, out = pre ++ 38%N :: post -> starts_entity post).
Proof. exact src_mdCellEscape_neutral. Qed.
Print Assumptions c08_source_neutral.
(* ROUND 6: COLUMNS CARRY WHOLE PROPERTY CHAINS (Model/ColProps.v over
   Model/Props.v, the value model of properties.go function by function).  A
   history is any interleaving of building calls with `PSet n k v` =
   "if c := t.Column(n); c != nil { c.SetProperty(k, v) }" for ARBITRARY keys k
   and values v (None = nil): chains of any depth, the alignment entry at any
   depth, entries above and below it replaced and removed.  `prun` runs the
   machine, `ptable`/`pview` is what a renderer reads off the chains
   (GetProperty(align.PropertyType) per column), `cp_proj` (Spec/ColPropHist.v)
   reads the history as settings of the two properties the renderers use. *)
From Tab Require Import Model.Props.
From Tab Require Import Model.Table Model.ColProps Spec.ColPropHist Proofs.ColPropsProofs Proofs.E2EMdProps.

(* no SetProperty history panics, and the chains present exactly the table of the
   projected history - for every history, well formed or not *)
Theorem c08_colprops_refines : forall h : list ptop,
  exists st, prun h = Ok st /\ ptable st = trun (cp_proj h).
Proof. exact colprops_refines. Qed.
Print Assumptions c08_colprops_refines.

(* a SetProperty under any key other than align.PropertyType (any value, nil
   included; any column; after any history) changes no column's alignment *)
Theorem c08_other_key_keeps_alignment : forall (h : list ptop) n k v st st',
  k <> align_key -> prun h = Ok st -> prun (h ++ [PSet n k v]) = Ok st' ->
  map col_align (p_cols st') = map col_align (p_cols st).
Proof. exact other_key_keeps_alignment. Qed.
Print Assumptions c08_other_key_keeps_alignment.

(* under align.PropertyType it changes that column's (when it exists) and no other's *)
Theorem c08_align_key_sets_alignment : forall (h : list ptop) n v st st',
  prun h = Ok st -> prun (h ++ [PSet n align_key v]) = Ok st' ->
  map col_align (p_cols st')
  = if has_column (p_core st) n
    then upd (map col_align (p_cols st)) n (match v with Some x => dec_align x | None => None end)
    else map col_align (p_cols st).
Proof. exact align_key_sets_alignment. Qed.
Print Assumptions c08_align_key_sets_alignment.

(* structure and neutralisation for every table such a history can build *)
Theorem c08_colprops_history : forall (W : list N -> nat) (e : env) (json : item -> option (list N)) (h : list ptop) st,
  twf_hist (cp_proj h) -> cp_domain h -> prun h = Ok st ->
  let v := pview W e json st in
  match md_render W v with
  | Ok out => md_ok v out
  | Err => hist_header (cp_proj h) = None \/ hist_ncols (cp_proj h) = 0%nat
  | Panic => False
  end.
Proof. exact md_colprops_history. Qed.
Print Assumptions c08_colprops_history.

(* the markers md_ok demands of delimiter cell i: the last value set under
   align.PropertyType on column i+1, else on column 0 ... *)
Theorem c08_colprops_alignment : forall W e json (h : list ptop) st i,
  twf_hist (cp_proj h) -> prun h = Ok st -> (i < hist_ncols (cp_proj h))%nat ->
  spec_eff_align (v_align (pview W e json st)) i
  = match cp_align h (S i) with Some a => Some a | None => cp_align h 0%nat end.
Proof. exact md_colprops_alignment. Qed.
Print Assumptions c08_colprops_alignment.

(* ... where "last value set" is, call by call: another key never counts, the
   alignment key counts for its column when the column exists *)
Theorem c08_cp_align_other_key : forall (h : list ptop) n k v i, k <> align_key ->
  cp_align (h ++ [PSet n k v]) i = cp_align h i.
Proof. exact cp_align_other_key. Qed.
Print Assumptions c08_cp_align_other_key.

Theorem c08_cp_align_set : forall (h : list ptop) n v i,
  cp_align (h ++ [PSet n align_key v]) i
  = if (n <=? hist_ncols (cp_proj h))%nat && (i =? n)%nat
    then match v with Some x => dec_align x | None => None end
    else cp_align h i.
Proof. exact cp_align_set. Qed.
Print Assumptions c08_cp_align_set.

(* non-vacuity: two columns; on column 2 skipable, then alignment Right, then an
   application key, then skipable again (the entry two links below the top is
   replaced, the alignment entry lies above it); on column 0 an application key,
   Center, skipable, then the application key removed.  The chains hold three
   entries each, and the renderer still reads Right for column 2 and Center as
   the default. *)
Example c08_colprops_example :
  let app : key := (2%nat, 7%N) in
  let h : list ptop :=
    [ PCore (AddHeaders [IString [97%N]; IString [98%N]]);
      PSet 2 skip_key (Some 2%nat); PSet 2 align_key (Some (enc_align ARight)); PSet 2 app (Some 5%nat);
      PSet 2 skip_key (Some 1%nat);
      PSet 0 app (Some 1%nat); PSet 0 align_key (Some (enc_align ACenter)); PSet 0 skip_key (Some 1%nat);
      PSet 0 app None; PSet 5 align_key (Some 1%nat) ] in
  exists st, prun h = Ok st
    /\ map (@length _) (p_cols st) = [2; 0; 3]%nat
    /\ map col_align (p_cols st) = [Some ACenter; None; Some ARight]
    /\ cp_align h 2%nat = Some ARight /\ cp_align h 0%nat = Some ACenter /\ cp_align h 1%nat = None.
Proof. cbv zeta. eexists. split; [vm_compute; reflexivity|]. repeat split; vm_compute; reflexivity. Qed.
