(* C07 - JSON output is valid JSON that mirrors the table, or an error and
   nothing.  Only statements here; proofs live in Proofs/Json*.v.

   encoding/json is external: strenc s stands for json.Marshal(s) of a Go
   string, vc_json for json.Marshal of a cell's item.  What is assumed of
   these oracle bytes is `encodings_ok` (Proofs/JsonProofs.v): every header
   text's encoding is a JSON string denoting strval(text) (str_ok), and the
   encoding that stands for a cell's value is a self-delimiting JSON value
   denoting encval(encoding) (enc_ok).  Every theorem is closed: the oracle
   functions are universally quantified and the assumption is a premise. *)
From Tab Require Import Model.Json Spec.JsonParse Spec.JsonExpect
     Proofs.JsonModelProofs Proofs.JsonProofs Proofs.JsonErrProofs Proofs.JsonFrame Proofs.JsonChecked.

(* Whenever rendering returns no error, the strict JSON parser reads the
   output as exactly one array holding one object per non-separator row, in
   order, wherever separators fall; each object maps header i's string to the
   value of cell i (the item's encoding, or the text where the item encodes as
   {} and the text is non-empty), omitting cells the row lacks and omitting
   empty cells exactly where the column is skipable (own setting, else column
   0's).  An error outcome happens only on an error condition; no panic. *)
Theorem c07_valid_and_mirrors : forall strenc strval encval v,
  wf_view v -> encodings_ok strenc strval encval v ->
  match json_render strenc v with
  | Ok out =>
      ~ json_error_condition v
      /\ parse_json out = Some (json_expected strval (cell_denotation strval encval) v)
  | Err => json_error_condition v
  | Panic => False
  end.
Proof. exact json_valid_and_mirrors. Qed.
Print Assumptions c07_valid_and_mirrors.

(* The outcome is an error exactly on the error conditions. *)
Theorem c07_error_iff : forall strenc v,
  wf_view v -> (json_render strenc v = Err <-> json_error_condition v).
Proof. exact json_err_iff. Qed.
Print Assumptions c07_error_iff.

(* ... which are: no columns, a non-boolean Skipable on column 0, no header,
   too few headers, an empty or a duplicate key text, a non-boolean Skipable on
   a column, a row with more cells than columns (structural), or an item that
   Marshal refuses in a cell that is not omitted. *)
Theorem c07_error_conditions : forall v,
  json_error_condition v <->
  (v_ncols v = 0
   \/ nth_error (v_skip v) 0 = Some (Some SkOther)
   \/ v_header v = None
   \/ exists h, v_header v = Some h
        /\ (length h < v_ncols v
            \/ In [] (key_texts v h)
            \/ ~ NoDup (key_texts v h)
            \/ In (Some SkOther) (firstn (v_ncols v) (tl (v_skip v)))
            \/ exists cells, In (Some cells) (v_rows v)
                 /\ (v_ncols v < length cells
                     \/ exists i c, nth_error cells i = Some c /\ vc_json c = None
                                    /\ (eff_skip v i && vc_empty c) = false))).
Proof. exact json_error_condition_reading. Qed.
Print Assumptions c07_error_conditions.

(* Rendering succeeds on every well-formed table without an error condition. *)
Theorem c07_succeeds : forall strenc v,
  wf_view v -> ((exists out, json_render strenc v = Ok out) <-> ~ json_error_condition v).
Proof. exact json_ok_iff. Qed.
Print Assumptions c07_succeeds.

(* The renderer never panics on a table the core can produce. *)
Theorem c07_no_panic : forall strenc v, wf_view v -> json_render strenc v <> Panic.
Proof. exact json_no_panic. Qed.
Print Assumptions c07_no_panic.

(* Render() returns no text with an error. *)
Theorem c07_render_empty_on_error : forall strenc v,
  json_render strenc v = Err -> json_render_string strenc v = [].
Proof. exact json_render_empty_on_error. Qed.
Print Assumptions c07_render_empty_on_error.

(* Render() is the concatenation of what RenderTo writes. *)
Theorem c07_render_is_writes : forall strenc v ws,
  json_render_writes strenc v = Ok ws -> json_render strenc v = Ok (concat ws).
Proof. exact json_render_is_writes. Qed.
Print Assumptions c07_render_is_writes.

(* The oracle assumption can be discharged by running the parser: an encoding
   that this parser accepts on its own as the value x is a self-delimiting
   encoding of x in every context (the machine is compositional). *)
Theorem c07_str_ok_from_parse : forall e k,
  parse_json e = Some (JStr k) -> hd_error e = Some DQ -> str_ok e k.
Proof. exact str_ok_from_parse. Qed.
Print Assumptions c07_str_ok_from_parse.

Theorem c07_enc_ok_from_parse : forall e x, parse_json e = Some x -> enc_ok e x.
Proof. exact enc_ok_from_parse. Qed.
Print Assumptions c07_enc_ok_from_parse.

(* Hence the round trip under a premise that is a boolean computed from the
   table and its oracle encodings (and evaluated on every case of every run,
   Run/C07Run.v): each encoding is valid JSON for this parser; the keys and
   values are then what the encodings decode to. *)
Theorem c07_valid_and_mirrors_checked : forall strenc v,
  wf_view v -> encodings_validb strenc v = true ->
  match json_render strenc v with
  | Ok out =>
      ~ json_error_condition v
      /\ parse_json out
         = Some (json_expected (fun s => dec_str (strenc s))
                               (cell_denotation (fun s => dec_str (strenc s)) dec_val) v)
  | Err => json_error_condition v
  | Panic => False
  end.
Proof. exact json_valid_and_mirrors_checked. Qed.
Print Assumptions c07_valid_and_mirrors_checked.

(* Key equality: where each header text's encoding denotes the text itself
   (valid UTF-8 header texts, DESIGN 13.9), the keys are the header texts. *)
Theorem c07_keys_are_header_texts : forall (strval : list N -> list N) cv v,
  Forall (fun h => strval (vc_text h) = vc_text h) (header_cells v) ->
  json_expected strval cv v = json_expected (fun s => s) cv v.
Proof. exact json_keys_are_header_texts. Qed.
Print Assumptions c07_keys_are_header_texts.

(* END TO END (Proofs/E2E*.v).  `hview W e json h` is what a renderer sees after
   the history h of public-API calls (Model/Table.v: building calls in any
   interleaving plus column property settings) over ARBITRARY items
   (Model/Cell.v); `twf_hist h`: the building calls form a well-formed history
   (Spec/History.v).  hist_header / hist_rows / hist_records / hist_ncols are
   read off the history alone (Spec/TableHist.v); documented_text is C01's
   text form (Spec/CellText.v). *)
From Tab Require Import Model.Cell Model.Table Spec.TableHist Spec.CellText Proofs.E2EProofs.
From Tab Require Import Proofs.E2EJson.

(* The round trip for every table a history can build: the well-formedness of
   the view is no longer a hypothesis. *)
Theorem c07_history : forall (W : list N -> nat) (e : env) (json : item -> option (list N)) strenc strval encval (h : list top),
  twf_hist h ->
  let v := hview W e json h in
  encodings_ok strenc strval encval v ->
  match json_render strenc v with
  | Ok out =>
      ~ json_error_condition v
      /\ parse_json out = Some (json_expected strval (cell_denotation strval encval) v)
  | Err => json_error_condition v
  | Panic => False
  end.
Proof. exact json_history. Qed.
Print Assumptions c07_history.

(* ... whose keys' texts are the documented texts of the header items *)
Theorem c07_history_keys : forall W e json (h : list top), twf_hist h ->
  map vc_text (header_cells (hview W e json h))
  = match hist_header h with Some xs => map (documented_text e) xs | None => [] end.
Proof. exact json_history_texts. Qed.
Print Assumptions c07_history_keys.


(* a column is skipable: its own latest boolean setting, else column 0's *)
Theorem c07_history_skipable : forall W e json (h : list top) i,
  twf_hist h -> (i < hist_ncols h)%nat ->
  eff_skip (hview W e json h) i
  = match hist_skip h (S i) with
    | Some (SkBool b) => b
    | _ => match hist_skip h 0%nat with Some (SkBool b) => b | _ => false end
    end.
Proof. exact json_history_skipable. Qed.
Print Assumptions c07_history_skipable.

(* ---- what the render histories of the correspondence check exercise (Proofs/JsonMore.v) *)
From Tab Require Import Proofs.JsonMore.

(* An item that has no JSON encoding (json.Marshal refuses it: a non-finite
   float, a refusing MarshalJSON, ...) in a cell that is not omitted makes the
   whole render an error, and Render() returns no text - whatever else the
   table holds and wherever the cell stands. *)
Theorem c07_unencodable_item_is_error : forall strenc v cells i c,
  wf_view v -> In (Some cells) (v_rows v) -> nth_error cells i = Some c ->
  vc_json c = None -> (eff_skip v i && vc_empty c) = false ->
  json_render strenc v = Err /\ json_render_string strenc v = [].
Proof. exact json_unencodable_item_is_error. Qed.
Print Assumptions c07_unencodable_item_is_error.

(* One object per non-separator row, position by position. *)
Theorem c07_one_object_per_row : forall kv cv v,
  exists objs, json_expected kv cv v = JArr objs
    /\ length objs = length (body_rows v)
    /\ forall k cells, nth_error (body_rows v) k = Some cells ->
                       nth_error objs k = Some (row_object kv cv v cells).
Proof. exact json_one_object_per_row. Qed.
Print Assumptions c07_one_object_per_row.

(* A row without cells (however it was made: it is not a separator) is the
   empty object, and it counts: inserting one anywhere adds one object. *)
Theorem c07_cellless_row_is_empty_object : forall kv cv v, row_object kv cv v [] = JObj [].
Proof. exact json_cellless_row_is_empty_object. Qed.
Print Assumptions c07_cellless_row_is_empty_object.

Theorem c07_cellless_row_counts : forall (n : nat) h ra rb al sk,
  length (body_rows (mkView n h (ra ++ Some [] :: rb) al sk))
  = S (length (body_rows (mkView n h (ra ++ rb) al sk))).
Proof. exact json_cellless_row_counts. Qed.
Print Assumptions c07_cellless_row_counts.

(* What a successful render parses to has as many elements as the table has
   non-separator rows. *)
Theorem c07_object_count : forall strenc strval encval v out,
  wf_view v -> encodings_ok strenc strval encval v -> json_render strenc v = Ok out ->
  exists objs, parse_json out = Some (JArr objs) /\ length objs = length (body_rows v).
Proof. exact json_object_count. Qed.
Print Assumptions c07_object_count.

(* A history of renders is judged render by render: the answer for a view is
   the render of that view alone, whatever was rendered before or after. *)
Theorem c07_history_is_pointwise : forall strenc before v after,
  nth_error (json_render_history strenc (before ++ v :: after)) (length before)
  = Some (json_render strenc v).
Proof. exact json_history_is_pointwise. Qed.
Print Assumptions c07_history_is_pointwise.

(* non-vacuity: keys a, b; column b skipable; a leading, a double and a
   trailing separator; a zero-cell row; an item encoding as {} with text t; the
   encodings of this table satisfy the assumption *)
Local Open Scope N_scope.
Example c07_example :
  let strenc (s : list N) := 34 :: s ++ [34] in
  let c s j := mkVCell s (match s with [] => true | _ => false end) (Some j) 0 0 false in
  let v := mkView 2%nat (Some [c [97] [34; 97; 34]; c [98] [34; 98; 34]])
                  [None; Some [c [120] [34; 120; 34]; c [] [34; 34]]; None; None; Some [];
                   Some [c [116] [123; 125]; c [49] [49]]; None]
                  [None; None; None] [None; None; Some (SkBool true)] in
  wf_view v /\ encodings_validb strenc v = true
  /\ json_render strenc v
     = Ok [91;10;10;123;34;97;34;58;32;34;120;34;125;44;10;10;10;123;125;44;10;
           123;34;97;34;58;32;34;116;34;44;32;34;98;34;58;32;49;125;10;10;93;10]
  /\ parse_json [91;10;10;123;34;97;34;58;32;34;120;34;125;44;10;10;10;123;125;44;10;
                 123;34;97;34;58;32;34;116;34;44;32;34;98;34;58;32;49;125;10;10;93;10]
     = Some (JArr [JObj [([97], JStr [120])]; JObj []; JObj [([97], JStr [116]); ([98], JNum [49])]]).
Proof.
  cbv zeta. split; [apply wf_viewb_spec; vm_compute; reflexivity|].
  split; [vm_compute; reflexivity|]. split; vm_compute; reflexivity.
Qed.

(* encoding/json ON STRINGS IS A MODEL, NOT AN ORACLE.  Model/JsonString.v is
   json.Marshal on a Go string (the escaper of the Go release in use); for
   EVERY byte string the strict parser reads its output back, in every
   context, as the sanitized string (invalid bytes replaced by U+FFFD), and a
   valid UTF-8 string is its own sanitization. *)
From Tab Require Import Model.JsonString Proofs.JsonStringProofs.

Theorem c07_string_encoding : forall s, str_ok (go_json_string s) (utf8_sanitize s).
Proof. exact go_json_string_ok. Qed.
Print Assumptions c07_string_encoding.

Theorem c07_valid_utf8_is_itself : forall s, valid_utf8 s = true -> utf8_sanitize s = s.
Proof. exact utf8_sanitize_valid. Qed.
Print Assumptions c07_valid_utf8_is_itself.

(* Hence the round trip with NO assumption about the encoding of header keys
   and text fall-backs: the keys are the sanitized header texts (the header
   texts themselves when they are valid UTF-8).  What remains an oracle is
   json.Marshal of the ITEMS: each encoding that stands for a cell's value must
   be valid JSON for the parser - a boolean computed from the table. *)
Theorem c07_roundtrip_modelled_strings : forall v,
  wf_view v -> item_encodings_validb v = true ->
  match json_render go_json_string v with
  | Ok out =>
      ~ json_error_condition v
      /\ parse_json out = Some (json_expected utf8_sanitize (cell_denotation utf8_sanitize dec_val) v)
  | Err => json_error_condition v
  | Panic => False
  end.
Proof. exact json_roundtrip_modelled_strings. Qed.
Print Assumptions c07_roundtrip_modelled_strings.
