(* C19 - every advertised style works and style strings resolve as documented.
   Only statements here; proofs live in Proofs/AutoProofs.v.

   The model (Model/Auto.v) is auto.Wrap / decorationName / ListStyles after
   the D19 repair.  External code is quantified: [lower] is strings.ToLower,
   assumed only to lower-case ASCII input ([lower_on_ascii]); r_csv ... r_json
   are what the four other renderers return for the table, [body] is the text
   renderer past its EmptyDecoration guard; "the table is good" is the
   hypothesis that those render ([renders], C05-C08's and C03's business).
   [usable_registry]: every registered decoration is one the text renderer
   accepts - anything but the zero value (EmptyDecoration): Populate()d,
   boxless, or written field by field with whatever fields the application
   chose (the harness registers all of these kinds).
   sort.Strings is the model's insertion sort, validated against the
   implementation's listing on every run.

   Names that collide with the dispatch (what the code does, by design):
   - a registered name equal to "csv"/"html"/"json"/"markdown" in any ASCII
     case, or whose first section is, is listed and selects that sub-package
     (it renders, so c19_listed_work holds for it); the listing then has the
     name twice if it is exactly a sub-package name (c19_listing_nodup's guard);
   - a registered name "texttable" in any case is listed and selects the
     default decoration;
   - the empty name and names made of dots are ordinary names;
   - GUARD of c19_listed_work: a registered name whose first section
     lower-cases to "texttable" and which has further sections
     ("texttable.x") is listed, but Wrap takes "texttable" as the package and
     looks up the remaining sections only; it works only if those happen to
     be registered too.  [texttable_dotted lower n = false] excludes exactly
     that class (c19_guard_is_needed shows it is needed). *)
From Coq Require Import Sorting.Sorted.
From Tab Require Import Model.Registry Model.Auto Spec.RegistrySpec Proofs.RegistryProofs Proofs.AutoProofs Proofs.AutoFrame.
From Tab Require Import Model.DecorCells Proofs.AutoR6.

(* Every listed name yields a renderer whose Render() of a good table
   succeeds - dotted names included (D19 on the pinned tree). *)
Theorem c19_listed_work : forall lower r_csv r_html r_markdown r_json body,
  lower_on_ascii lower ->
  renders r_csv -> renders r_html -> renders r_markdown -> renders r_json ->
  (forall id, exists out, body (DVal id true) = Ok out) ->
  forall reg n,
  usable_registry reg ->
  In n (list_styles reg) ->
  texttable_dotted lower n = false ->
  renders (render_auto lower r_csv r_html r_markdown r_json body reg n).
Proof. exact listed_work. Qed.
Print Assumptions c19_listed_work.

(* The listing is sorted, has the four sub-package names and every registered
   name, and nothing else. *)
Theorem c19_listing : forall reg,
  Sorted bytes_le (list_styles reg)
  /\ (forall p, In p four_names -> In p (list_styles reg))
  /\ (forall n, In n (map fst reg) -> In n (list_styles reg))
  /\ (forall n, In n (list_styles reg) -> In n four_names \/ In n (map fst reg)).
Proof. exact listing_facts. Qed.
Print Assumptions c19_listing.

(* ... and duplicate-free unless a sub-package name was registered as a decoration. *)
Theorem c19_listing_nodup : forall reg,
  NoDup (map fst reg) -> (forall p, In p four_names -> ~ In p (map fst reg)) -> NoDup (list_styles reg).
Proof. exact listing_nodup. Qed.
Print Assumptions c19_listing_nodup.

(* A sub-package name (the four and "texttable") selects that renderer in
   every ASCII case variant, alone or followed by any sections. *)
Theorem c19_case_and_trailing : forall lower,
  lower_on_ascii lower -> forall reg p v rest,
  In p five_names -> ascii_case_variant p v ->
  (exists r, wrap lower reg v = Ok r /\ kind_of r = pkg_kind p)
  /\ (exists r, wrap lower reg (v ++ DOT :: rest) = Ok r /\ kind_of r = pkg_kind p).
Proof. exact case_and_trailing_wrap. Qed.
Print Assumptions c19_case_and_trailing.

(* "texttable.NAME" and bare "NAME" are the same wrapper for every NAME whose
   first section is not itself a package name; plain "texttable" is the
   default decoration. *)
Theorem c19_texttable_alias : forall lower,
  lower_on_ascii lower -> forall reg n,
  plain_name lower n -> wrap lower reg (s_texttable ++ DOT :: n) = wrap lower reg n.
Proof. exact texttable_alias. Qed.
Print Assumptions c19_texttable_alias.

(* For a dot-free NAME that is no package name, auto.Wrap is exactly
   texttable.Wrap + SetDecorationNamed(NAME): that one name is looked up,
   nothing that merely resembles it (C17's fails-closed clause through auto). *)
Theorem c19_plain_is_set : forall lower reg n,
  nodot n -> plain_name lower n -> wrap lower reg n = Ok (RText (text_named reg n)).
Proof. exact plain_is_set. Qed.
Print Assumptions c19_plain_is_set.

(* "texttable.X" with a dot-free X is the text table selected by the decoration
   name X, whatever X spells: "texttable.csv", "texttable.texttable" name
   decorations (unknown ones, unless registered), not formats. *)
Theorem c19_texttable_qualified : forall lower,
  lower_on_ascii lower -> forall reg x,
  nodot x -> wrap lower reg (s_texttable ++ DOT :: x) = Ok (RText (text_named reg x)).
Proof. exact texttable_qualified. Qed.
Print Assumptions c19_texttable_qualified.

Theorem c19_texttable_default : forall lower,
  lower_on_ascii lower -> forall reg, wrap lower reg s_texttable = Ok (RText text_wrap).
Proof. exact texttable_default. Qed.
Print Assumptions c19_texttable_default.

(* A style that names nothing registered renders to ("", error). *)
Theorem c19_unknown_fails : forall lower r_csv r_html r_markdown r_json body reg s,
  unknown_style lower reg s ->
  render_auto lower r_csv r_html r_markdown r_json body reg s = Ok ([], true).
Proof. exact unknown_fails. Qed.
Print Assumptions c19_unknown_fails.

(* The model is the documented resolution, read off the string (Spec): the
   renderer kind by the lower-cased first section, the decoration of the
   longest dotted prefix of the name part that is registered non-empty.  This
   is what Run/C19Run.v's oracle evaluates on the implementation's answers. *)
Theorem c19_resolution : forall lower r_csv r_html r_markdown r_json body reg s,
  exists r, wrap lower reg s = Ok r
    /\ (kind_of r, render r_csv r_html r_markdown r_json body r)
       = spec_resolve lower r_csv r_html r_markdown r_json body (named reg) s.
Proof. exact wrap_resolve. Qed.
Print Assumptions c19_resolution.

(* Plain "texttable", in every ASCII letter case, renders with the package's
   default decoration under EVERY registry - one in which the application has
   re-registered the stock names included: the default is a constant of
   texttable.Wrap, not a registry entry. *)
Theorem c19_texttable_default_any_registry : forall lower r_csv r_html r_markdown r_json body,
  lower_on_ascii lower -> forall reg v,
  ascii_case_variant s_texttable v ->
  render_auto lower r_csv r_html r_markdown r_json body reg v = text_render body text_wrap.
Proof. exact texttable_default_renders. Qed.
Print Assumptions c19_texttable_default_any_registry.

(* Frame of a registration: RegisterDecorationName(n, d) - new name or
   overwrite, stock name or not - leaves the rendering through every style
   that cannot select n (n is no dotted prefix of the style nor of what follows
   its first section) exactly as it was. *)
Theorem c19_registration_frame : forall lower r_csv r_html r_markdown r_json body reg n d s,
  ~ In n (selectable s) ->
  render_auto lower r_csv r_html r_markdown r_json body (register n d reg) s
  = render_auto lower r_csv r_html r_markdown r_json body reg s.
Proof. exact registration_frame. Qed.
Print Assumptions c19_registration_frame.

(* ... and the renderer kind as well. *)
Theorem c19_registration_frame_kind : forall lower r_csv r_html r_markdown r_json body reg n d s,
  ~ In n (selectable s) ->
  forall r r', wrap lower (register n d reg) s = Ok r -> wrap lower reg s = Ok r' ->
  kind_of r = kind_of r'
  /\ render r_csv r_html r_markdown r_json body r = render r_csv r_html r_markdown r_json body r'.
Proof. exact registration_frame_kind. Qed.
Print Assumptions c19_registration_frame_kind.

(* The name just registered (dot-free, no package name) selects exactly the
   decoration just registered, whatever it meant before: latest wins. *)
Theorem c19_registered_selects_latest : forall lower reg n d,
  nodot n -> plain_name lower n ->
  wrap lower (register n d reg) n = Ok (RText (mkTT d)).
Proof. exact registered_selects_latest. Qed.
Print Assumptions c19_registered_selects_latest.

(* non-vacuity: with "my.dotted" and "my" registered (70, 71), "my.dotted",
   "texttable.my.dotted.x" select 70, "MY.dotted" nothing, "CsV.x" csv; and
   the guard is needed: a registered "texttable.x" is listed and fails. *)
Local Open Scope N_scope.
Example c19_guard_is_needed :
  let lower := map ascii_lower in
  let body := fun d => match d with DVal id true => Ok [id] | _ => Err end in
  let ra := render_auto lower (Ok ([1], false)) (Ok ([2], false)) (Ok ([3], false)) (Ok ([4], false)) body in
  let my := [109;121] in let dotted := [100;111;116;116;101;100] in
  let reg := register (s_texttable ++ DOT :: [120]) (DVal 72 true)
               (register my (DVal 71 true) (register (my ++ DOT :: dotted) (DVal 70 true) [([110;111;110;101], DVal 2 true)])) in
  usable_registry reg
  /\ In (my ++ DOT :: dotted) (list_styles reg)
  /\ ra reg (my ++ DOT :: dotted) = Ok ([70], false)
  /\ ra reg (s_texttable ++ DOT :: my ++ DOT :: dotted ++ DOT :: [120]) = Ok ([70], false)
  /\ ra reg ([77;89] ++ DOT :: dotted) = Ok ([], true)
  /\ ra reg [67;115;86;46;120] = Ok ([1], false)
  /\ In (s_texttable ++ DOT :: [120]) (list_styles reg)
  /\ texttable_dotted lower (s_texttable ++ DOT :: [120]) = true
  /\ ra reg (s_texttable ++ DOT :: [120]) = Ok ([], true).
Proof.
  cbv zeta. split.
  - intros k d H. vm_compute in H. repeat (destruct H as [H|H]; [inversion H; eauto|]). destruct H.
  - repeat split; vm_compute; auto 20.
Qed.

(* ---------------------------------------------------------------- round 6 *)
Local Close Scope N_scope.

(* The renderer kind is read off strings.ToLower of the first section by byte
   equality with the keywords, and off nothing else.  NO assumption on [lower]:
   whatever ToLower does outside ASCII (U+212A KELVIN SIGN becomes k, U+017F
   LONG S stays), no other Unicode notion of case - ToUpper, ToTitle, simple
   case folding, special casing - has a say: a first section that merely FOLDS
   to "csv" names a decoration, not the csv renderer. *)
Theorem c19_kind_by_lower_only : forall lower reg s r,
  wrap lower reg s = Ok r -> kind_of r = pkg_kind (lower (first_section s)).
Proof. exact kind_by_lower_only_wrap. Qed.
Print Assumptions c19_kind_by_lower_only.

(* A name of ANY shape (dotted, non-ASCII, a case-folding relative of a
   keyword) whose first section does not lower-case to a keyword, registered
   with a non-empty decoration, renders with exactly that decoration - bare and
   under "texttable." - and is a text table (c19_registered_selects_latest was
   for dot-free names only). *)
Theorem c19_registered_name_renders_latest : forall lower r_csv r_html r_markdown r_json body,
  lower_on_ascii lower -> forall reg n d,
  plain_name lower n -> dec_is_empty d = false ->
  render_auto lower r_csv r_html r_markdown r_json body (register n d reg) n = spec_render body d
  /\ render_auto lower r_csv r_html r_markdown r_json body (register n d reg) (s_texttable ++ DOT :: n) = spec_render body d.
Proof. exact registered_renders_latest_qualified. Qed.
Print Assumptions c19_registered_name_renders_latest.

Theorem c19_registered_name_is_text : forall lower reg n d r,
  plain_name lower n -> wrap lower (register n d reg) n = Ok r -> kind_of r = KText.
Proof. exact registered_kind_text_wrap. Qed.
Print Assumptions c19_registered_name_is_text.

(* A decoration as the application writes it (Model/DecorCells.v: its string
   fields, any bytes, any number of runes per field) that is not the zero
   value: registered under n it is listed, and n and "texttable."n render, the
   same.  Nothing between RegisterDecorationName and the text renderer's body
   looks inside a field. *)
Theorem c19_any_cells_listed_and_render : forall lower r_csv r_html r_markdown r_json body,
  lower_on_ascii lower -> forall reg n id (cd : cdecor),
  (forall i, exists out, body (DVal i true) = Ok out) ->
  plain_name lower n -> cd_is_empty cd = false ->
  let reg' := register n (abstract id cd) reg in
  In n (list_styles reg')
  /\ renders (render_auto lower r_csv r_html r_markdown r_json body reg' n)
  /\ render_auto lower r_csv r_html r_markdown r_json body reg' (s_texttable ++ DOT :: n)
     = render_auto lower r_csv r_html r_markdown r_json body reg' n.
Proof. exact any_cells_listed_and_render. Qed.
Print Assumptions c19_any_cells_listed_and_render.

(* The emitter's template line (emit.go commonTemplateLine) under ANY measure
   of strings that is additive over concatenation: if the four drawing strings
   are one cell each - however many runes - the line is exactly as many cells
   wide as the emitter reckons, for every list of column widths. *)
Theorem c19_template_line_cells : forall (W : bytes -> nat),
  (forall a b, W (a ++ b) = W a + W b) ->
  forall left horiz cross right widths,
  W left = 1 -> W horiz = 1 -> W cross = 1 -> W right = 1 ->
  W (template_line left horiz cross right widths) = line_cells widths.
Proof. exact template_line_cells. Qed.
Print Assumptions c19_template_line_cells.

(* non-vacuity: "c<U+017F>v" (bytes 99 197 191 118; ToLower leaves it alone) registered with a
   decoration whose only non-empty field is "-" + U+0336 (2 runes): listed, a text table rendering
   with that decoration, bare and qualified; "csv" itself stays the csv renderer; and a template
   line drawn with two-rune cells for widths [1;3] is 11 cells under the measure that counts
   non-combining runes (here: bytes below 128). *)
Local Open Scope N_scope.
Example c19_r6_nonvacuous :
  let lower := map ascii_lower in
  let body := fun d => match d with DVal id true => Ok [id] | _ => Err end in
  let ra := render_auto lower (Ok ([1], false)) (Ok ([2], false)) (Ok ([3], false)) (Ok ([4], false)) body in
  let csv' := [99;197;191;118] in
  let cd := mkCD [false] [[]; [45;204;182]; []] in
  let reg := register csv' (abstract 77 cd) [([110;111;110;101], DVal 2 true)] in
  plain_name lower csv'
  /\ cd_is_empty cd = false /\ rune_count [45;204;182] = 2%nat
  /\ In csv' (list_styles reg)
  /\ ra reg csv' = Ok ([77], false)
  /\ ra reg (s_texttable ++ DOT :: csv') = Ok ([77], false)
  /\ (exists r, wrap lower reg csv' = Ok r /\ kind_of r = KText)
  /\ ra reg s_csv = Ok ([1], false)
  /\ (let W := fun s : bytes => length (filter (fun b => N.ltb b 128) s) in
      W (template_line [43;204;182] [45;204;182] [43;204;182] [43;204;182] [1%nat;3%nat]) = 11%nat
      /\ line_cells [1%nat;3%nat] = 11%nat).
Proof.
  cbv zeta. split.
  - unfold plain_name. vm_compute. intros H. repeat (destruct H as [H|H]; [discriminate H|]). exact H.
  - split; [vm_compute; reflexivity|]. split; [vm_compute; reflexivity|].
    split; [vm_compute; auto 20|]. split; [vm_compute; reflexivity|]. split; [vm_compute; reflexivity|].
    split; [eexists; split; vm_compute; reflexivity|]. split; [vm_compute; reflexivity|].
    split; vm_compute; reflexivity.
Qed.
