(* C04 - every cell line in its own slot, aligned as the column asks; declared
   width / height honoured.  Only statements here; proofs in Proofs/Text*.v.
   Same model and same declarative layout as C03; W is arbitrary. *)
From Tab Require Import Model.Text Spec.TextLayout Proofs.TextTop Proofs.TextGeom Proofs.TextSlots Proofs.TextProps Proofs.TextLegacy.

(* Render() is the flattened layout, whatever the alignments and the declared
   sizes (the layout takes both into account). *)
Theorem c04_refines : forall W d v,
  1 <= v_ncols v -> wf_view v -> dec_ok d -> cells_ok W v ->
  text_render W d v = Ok (concat (map flatten (layout W d v))).
Proof. exact text_refines_proof. Qed.
Print Assumptions c04_refines.

(* The layout is the header block and one block per row, in order ... *)
Theorem c04_blocks : forall W d v,
  layout W d v
  = top_part W d v ++ flat_map (row_part W d v) (v_rows v)
    ++ rules d (rule W v (d_BottomLeft d) (d_HOuter d) (d_BBottomUp d) (d_BottomRight d))
  /\ (forall cs, row_part W d v (Some cs) = row_block W v (body_div d) cs)
  /\ (forall h, v_header v = Some h ->
        top_part W d v
        = rules d (rule W v (d_TopLeft d) (d_HOuter d) (d_HTopDown d) (d_TopRight d))
          ++ row_block W v (hdr_div d) h
          ++ rules d (rule W v (d_HBLeft d) (d_HOuter d) (d_HBCross d) (d_HBRight d))).
Proof. exact layout_blocks. Qed.
Print Assumptions c04_blocks.

(* ... a block is one framed line per line index, and slot i of line k is the
   spec slot: the k-th text line of the cell in column i, padded to the column
   width per the effective alignment. *)
Theorem c04_slots : forall W v r k i dv,
  i < v_ncols v ->
  row_block W v dv r = map (fun k => frame dv (row_slots W v r k)) (seq 0 (row_height v r))
  /\ nth_error (row_slots W v r k) i
     = Some (spec_slot (colw W v i) (eff_align v i) (cell_line W r i k)).
Proof. exact slots_proof. Qed.
Print Assumptions c04_slots.

(* The text of a slot is exactly the k-th line of the cell's text, no byte
   changed; the padding is only spaces, x left and y right. *)
Theorem c04_unmodified : forall W v r k i c s,
  nth_error r i = Some c -> nth_error (lines_of (vc_text c)) k = Some s ->
  exists x y, row_slot W v r k i = [Pad x; Txt s (linew W c s); Pad y]
              /\ x + y = colw W v i - linew W c s.
Proof. exact unmodified_proof. Qed.
Print Assumptions c04_unmodified.

(* No such cell, or no such line: the slot is blank. *)
Theorem c04_blank : forall W v r k i,
  (nth_error r i = None \/ exists c, nth_error r i = Some c /\ nth_error (lines_of (vc_text c)) k = None) ->
  flat_segs (row_slot W v r k i) = rep (colw W v i) [SP].
Proof. exact blank_proof. Qed.
Print Assumptions c04_blank.

(* The three padding rules. *)
Theorem c04_padding : forall a p,
  pads a p = match a with ALeft => (0, p) | ARight => (p, 0) | ACenter => (p / 2, p - p / 2) end.
Proof. intros a p. destruct a; reflexivity. Qed.
Print Assumptions c04_padding.

(* Effective alignment: the column's own property, else column 0's, else left. *)
Theorem c04_align_precedence : forall v i a0 ai,
  nth_error (v_align v) 0 = Some a0 -> nth_error (v_align v) (S i) = Some ai ->
  eff_align v i = match ai with
                  | Some a => a
                  | None => match a0 with Some a => a | None => ALeft end
                  end.
Proof. exact align_precedence_proof. Qed.
Print Assumptions c04_align_precedence.

(* ... and that is what RenderTo's alignment loop hands to WithinWidthAligned
   (nil being treated as left there). *)
Theorem c04_align_model : forall v,
  wf_view v ->
  exists als, column_aligns v = Ok als
    /\ forall i, i < v_ncols v ->
         exists a, nth_error als i = Some a
           /\ match a with AlNil => AlKnown ALeft | x => x end = AlKnown (eff_align v i).
Proof. exact align_model_proof. Qed.
Print Assumptions c04_align_model.

(* A single-line item that declares its width is laid out as exactly that
   wide, in a slot that is exactly the column width. *)
Theorem c04_declared_width : forall W v,
  1 <= v_ncols v -> cells_cover W v ->
  forall r i c s,
  In r (all_rows v) -> nth_error r i = Some c ->
  lines_of (vc_text c) = [s] -> vc_widther c = true ->
  exists x y, row_slot W v r 0 i = [Pad x; Txt s (Z.to_nat (vc_tw c)); Pad y]
              /\ x + Z.to_nat (vc_tw c) + y = colw W v i.
Proof. exact declared_width_proof. Qed.
Print Assumptions c04_declared_width.

(* A row has at least as many content lines as any of its cells declares, and
   as any of its cells has text lines (each of which c04_unmodified places). *)
Theorem c04_declared_height : forall v,
  1 <= v_ncols v ->
  forall r i c,
  length r <= v_ncols v -> nth_error r i = Some c ->
  Z.to_nat (vc_h c) <= row_height v r /\ length (lines_of (vc_text c)) <= row_height v r.
Proof. exact declared_height_proof. Qed.
Print Assumptions c04_declared_height.

(* The pinned code (before the repairs) on the two defects of DESIGN section 7:
   D8 - declared height below the line count: the measuring callback panics;
   D7 - a declared width is ignored: the line is measured from its text. *)
Theorem c04_d8_refuted_on_pinned :
  let W := fun s : list N => length s in
  let c := mkVCell [104%N] false None 0%Z 0%Z true in
  cell_ok W c /\ dimension_setter_pinned W c = Panic
  /\ exists m, dimension_setter W c = Ok m /\ length (mc_lines m) = 1.
Proof. exact d8_pinned_panics. Qed.
Print Assumptions c04_d8_refuted_on_pinned.

Theorem c04_d7_refuted_on_pinned :
  let W := fun s : list N => length s in
  let c := mkVCell [97%N] false None 3%Z 1%Z true in
  cell_ok W c
  /\ dimension_setter_pinned W c = Ok (mkMC 3%Z 1%Z [mkWS [97%N] 1%Z])
  /\ dimension_setter W c = Ok (mkMC 3%Z 1%Z [mkWS [97%N] 3%Z]).
Proof. exact d7_pinned_ignores_width. Qed.
Print Assumptions c04_d7_refuted_on_pinned.

(* non-vacuity: own alignment beats the column-0 default, centre puts the odd
   space on the right, a declared width 1 around 3 bytes, a declared height 2 *)
Local Open Scope N_scope.
Example c04_example :
  let W := fun s : list N => length s in
  let c s := mkVCell s false None (Z.of_nat (list_max (map W (lines_of s)))) (Z.of_nat (length (lines_of s))) false in
  let sized s w h := mkVCell s false None w h true in
  let v := mkView 2%nat None [Some [c [97; 97; 97; 97]; c [98; 98; 98; 98]]; Some [c [120]; sized [121; 121; 121] 1%Z 2%Z]]
                  [Some ARight; Some ACenter; None] [None; None; None] in
  let d := populate (mkDecor [45] [124] [43] [] [] [] [] [] [] [] [] [] [] [] [] [] [] [] [] [] [] [] false) in
  wf_view v /\ complete d
  /\ text_render W d v = Ok (concat (map flatten (layout W d v)))
  /\ text_render W d v
     = Ok ([43;45;45;45;45;45;45;43;45;45;45;45;45;45;43;10]
           ++ [124;32;97;97;97;97;32;124;32;98;98;98;98;32;124;10]
           ++ [124;32;32;120;32;32;32;124;32;32;32;32;121;121;121;32;124;10]
           ++ [124;32;32;32;32;32;32;124;32;32;32;32;32;32;124;10]
           ++ [43;45;45;45;45;45;45;43;45;45;45;45;45;45;43;10]).
Proof.
  cbv zeta. split; [apply wf_viewb_spec; vm_compute; reflexivity|].
  split; [apply completeb_spec; vm_compute; reflexivity|].
  split; vm_compute; reflexivity.
Qed.

(* END TO END (Proofs/E2E*.v).  `hview W e json h` is what a renderer sees after
   the history h of public-API calls (Model/Table.v: building calls in any
   interleaving plus column property settings) over ARBITRARY items
   (Model/Cell.v); `twf_hist h`: the building calls form a well-formed history.
   hist_align h i is the value of the LAST alignment set through a handle of
   column i (0 = the all-columns default) - a handle exists only for 0 .. the
   column count at the time of the call - or None (Spec/TableHist.v). *)
From Tab Require Import Model.Cell Model.Table Spec.TableHist Spec.CellText Proofs.E2EProofs Proofs.E2EText.

(* For every table a history can build, whatever the items: Render() is the
   flattened layout (whose slots c04_slots / c04_unmodified / c04_blank
   describe) ... *)
Theorem c04_history_refines : forall W e json d (h : list top),
  twf_hist h -> (1 <= hist_ncols h)%nat -> dec_ok d ->
  text_render W d (hview W e json h) = Ok (concat (map flatten (layout W d (hview W e json h)))).
Proof. exact text_history_refines. Qed.
Print Assumptions c04_history_refines.

(* ... in which column i (0-based) is aligned by the column's own latest
   setting, else by the latest all-columns default set on column 0, else left -
   whenever in the history those settings were made, before or after the
   columns' cells arrived, and however often they were changed or unset. *)
Theorem c04_history_alignment : forall W e json (h : list top) i,
  twf_hist h -> (i < hist_ncols h)%nat ->
  eff_align (hview W e json h) i
  = match hist_align h (S i) with
    | Some a => a
    | None => match hist_align h 0%nat with Some a => a | None => ALeft end
    end.
Proof. exact text_history_alignment. Qed.
Print Assumptions c04_history_alignment.

(* THE RENDER PASS (Model/TextPass.v, Proofs/TextPassProofs.v).  RenderTo runs
   t.InvokeRenderCallbacks() and only then reads what it renders; render-time
   property callbacks of the application (on the table, a column, a row, a
   cell; pre-cell, cell, post-cell) may write column alignments.  `ws` are
   those writes in execution order; text_render_to is the pass (output, table
   afterwards); after_callbacks ws v is the view Column(n).GetProperty reports
   once the callbacks are done. *)
From Tab Require Import Model.TextPass Proofs.TextPassProofs.

(* The output of the pass is the flattened layout of the view AFTER the
   callbacks (same slots, same texts: c04_slots / c04_unmodified / c04_blank
   apply to it) ... *)
Theorem c04_pass_refines : forall W e json d (h : list top) (ws : list cbwrite),
  twf_hist h -> (1 <= hist_ncols h)%nat -> dec_ok d ->
  fst (text_render_to W d (vcell_of_item W e json) (trun h) ws)
  = Ok (concat (map flatten (layout W d (after_callbacks ws (hview W e json h))))).
Proof. exact pass_refines_proof. Qed.
Print Assumptions c04_pass_refines.

(* ... in which nothing but the alignments has moved ... *)
Theorem c04_pass_shape : forall W e json (h : list top) (ws : list cbwrite),
  twf_hist h ->
  v_ncols (after_callbacks ws (hview W e json h)) = v_ncols (hview W e json h)
  /\ v_header (after_callbacks ws (hview W e json h)) = v_header (hview W e json h)
  /\ v_rows (after_callbacks ws (hview W e json h)) = v_rows (hview W e json h).
Proof. exact pass_shape_proof. Qed.
Print Assumptions c04_pass_shape.

(* ... and column i is aligned by the callbacks' LAST write to the column if
   they wrote it during this pass (a write of nil clears), else by the latest
   setting the history before the pass made; failing both, the same for the
   all-columns default on column 0; else left.  The alignment of the moment
   RenderTo was entered, or of an earlier pass, does not count. *)
Theorem c04_pass_alignment : forall W e json (h : list top) (ws : list cbwrite) i,
  twf_hist h -> (i < hist_ncols h)%nat ->
  eff_align (after_callbacks ws (hview W e json h)) i
  = match pass_align h ws (S i) with
    | Some a => a
    | None => match pass_align h ws 0%nat with Some a => a | None => ALeft end
    end.
Proof. exact pass_alignment_proof. Qed.
Print Assumptions c04_pass_alignment.

(* the view said on the table: a pass ends in the table the history extended
   by the writes builds, so a second pass starts from there *)
Theorem c04_pass_is_history : forall W e json (h : list top) (ws : list cbwrite),
  twf_hist h ->
  hview W e json (h ++ cb_ops ws) = after_callbacks ws (hview W e json h)
  /\ trun (h ++ cb_ops ws) = invoke_render_callbacks (trun h) ws
  /\ twf_hist (h ++ cb_ops ws).
Proof. exact pass_is_history_proof. Qed.
Print Assumptions c04_pass_is_history.

(* an unknown decoration is refused before any callback runs *)
Theorem c04_pass_refused : forall W e json d (st : tstate) (ws : list cbwrite),
  Decoration.is_empty_decoration d = true ->
  text_render_to W d (vcell_of_item W e json) st ws = (Err, st).
Proof. exact pass_refused_proof. Qed.
Print Assumptions c04_pass_refused.

(* non-vacuity: a callback that sets column 2 right and clears the default
   (centre) during the pass: the pass shows column 1 left, column 2 right; a
   render that had read the alignments before the callbacks would differ *)
Example c04_pass_example :
  let W := fun s : list N => length s in
  let c s := mkVCell s false None (Z.of_nat (list_max (map W (lines_of s)))) 1%Z false in
  let v := mkView 2%nat None [Some [c [97; 97; 97]; c [98; 98; 98]]; Some [c [120]; c [121]]]
                  [Some ACenter; None; None] [None; None; None] in
  let d := populate (mkDecor [45] [124] [43] [] [] [] [] [] [] [] [] [] [] [] [] [] [] [] [] [] [] [] false) in
  let ws := [(2%nat, Some ARight); (0%nat, None); (7%nat, Some ACenter)] in
  text_render W d (after_callbacks ws v)
  = Ok ([43;45;45;45;45;45;43;45;45;45;45;45;43;10]
        ++ [124;32;97;97;97;32;124;32;98;98;98;32;124;10]
        ++ [124;32;120;32;32;32;124;32;32;32;121;32;124;10]
        ++ [43;45;45;45;45;45;43;45;45;45;45;45;43;10])
  /\ text_render W d (after_callbacks ws v) <> text_render W d v.
Proof. cbv zeta. split; [vm_compute; reflexivity | vm_compute; discriminate]. Qed.

(* ROUND 6 (Model/TextMut.v, Proofs/TextMutProofs.v).

   CELLS HOLDING CELLS.  A tabular.Cell is a legal item (NewCell(NewCell(x));
   AddRowItems / AddHeaders wrap every argument in NewCell, so ready-made cells
   handed to them end up inside cells).  wrap_cell W e n x is x held in n cells,
   one inside the other.  Whatever n and x: the cell shows the documented text
   of x - so the lines of its slot (c04_slots / c04_unmodified over
   c04_history_refines, which quantifies over ALL items) are the lines of x -
   with the emptiness, width and height of the cell made of x itself; and its
   item, being a Cell, is a TerminalCellWidther. *)
From Tab Require Import Model.TableMut Model.TextMut Proofs.TextMutProofs.

Theorem c04_cell_item_shows_inner : forall W e json n it,
  let c := vcell_of_item W e json (wrap_cell W e n it) in
  let c0 := vcell_of_item W e json it in
  vc_text c = documented_text e it
  /\ TextLayout.cell_lines c = lines_of (documented_text e it)
  /\ vc_empty c = vc_empty c0 /\ vc_tw c = vc_tw c0 /\ vc_h c = vc_h c0
  /\ ((1 <= n)%nat -> vc_widther c = true).
Proof. exact wrapped_shows_inner. Qed.
Print Assumptions c04_cell_item_shows_inner.

(* ITEMS THAT RE-DECLARE.  The caller's program is a list of mop
   (Model/TableMut.v): building calls and column settings, MMutate id ob (the
   object changes in place: text, declared width, declared height, any subset),
   MUpdateAt r c / MUpdateHeader c (Cell.Update through CellAt / Headers).
   tmview is the table as the text renderer meets it: every cell shows its item
   as of the cell's LAST READ.

   A cell made of (or updated from) an object that declares a width and a
   height has exactly those, clamped as the accessors clamp them, whatever its
   text is and whatever the cell held before ... *)
Theorem c04_declared_sizes_read : forall W e json id w h,
  m_width (e id) = Some w -> m_height (e id) = Some h ->
  let c := vcell_of_item W e json (IObj id) in
  let cw := (if w <? 0 then 0 else w)%Z in
  vc_widther c = true /\ vc_tw c = cw
  /\ vc_h c = (if h <? 1 then (if 0 <? cw then 1 else 0) else h)%Z.
Proof. exact declared_sizes_read. Qed.
Print Assumptions c04_declared_sizes_read.

Theorem c04_declared_width_read : forall W e json id w,
  m_width (e id) = Some w ->
  let c := vcell_of_item W e json (IObj id) in
  vc_widther c = true /\ vc_tw c = (if w <? 0 then 0 else w)%Z.
Proof. exact declared_width_read. Qed.
Print Assumptions c04_declared_width_read.

(* ... after ANY program (no well-formedness needed) on a table of at least
   one column, Render() is the flattened layout of that table (slots, padding,
   declared width and height: c04_slots .. c04_declared_height apply to it) ... *)
Theorem c04_mut_refines : forall W json d e (p : list mop),
  (1 <= t_ncols (tb_core (m_tab (mrun e p))))%nat -> dec_ok d ->
  mtext_render W json d (mrun e p)
  = Ok (concat (map flatten (layout W d (tmview W json (mrun e p))))).
Proof. exact mut_refines. Qed.
Print Assumptions c04_mut_refines.

(* ... a mutation alone shows nothing, neither text nor declared size ... *)
Theorem c04_mutate_not_shown : forall W json st id ob,
  tmview W json (mstep st (MMutate id ob)) = tmview W json st.
Proof. exact mutate_not_shown. Qed.
Print Assumptions c04_mutate_not_shown.

(* ... and Update makes the cell - and only it - the cell of its item in the
   objects' PRESENT state: text, width and height are re-read together, whether
   or not the text is what it was at the last read (body cell, header cell). *)
Theorem c04_update_rereads : forall W json st r c tr cs x,
  nth_error (t_rows (tb_core (m_tab st))) r = Some tr -> r_body tr = RCells cs -> nth_error cs c = Some x ->
  let v' := tmview W json (mstep st (MUpdateAt r c)) in
  exists vcs,
    nth_error (v_rows v') r = Some (Some vcs)
    /\ nth_error vcs c = Some (vcell_of_item W (m_env st) json (fst (c_item x)))
    /\ (forall c', c' <> c -> nth_error vcs c' = option_map (fun y => shown W json (c_item y)) (nth_error cs c'))
    /\ (forall r', r' <> r -> nth_error (v_rows v') r' = nth_error (v_rows (tmview W json st)) r')
    /\ v_header v' = v_header (tmview W json st) /\ v_ncols v' = v_ncols (tmview W json st)
    /\ v_align v' = v_align (tmview W json st).
Proof. exact update_rereads. Qed.
Print Assumptions c04_update_rereads.

Theorem c04_update_header_rereads : forall W json st c cs x,
  t_header (tb_core (m_tab st)) = Some cs -> nth_error cs c = Some x ->
  let v' := tmview W json (mstep st (MUpdateHeader c)) in
  exists vcs,
    v_header v' = Some vcs
    /\ nth_error vcs c = Some (vcell_of_item W (m_env st) json (fst (c_item x)))
    /\ (forall c', c' <> c -> nth_error vcs c' = option_map (fun y => shown W json (c_item y)) (nth_error cs c'))
    /\ v_rows v' = v_rows (tmview W json st) /\ v_ncols v' = v_ncols (tmview W json st)
    /\ v_align v' = v_align (tmview W json st).
Proof. exact update_header_rereads. Qed.
Print Assumptions c04_update_header_rereads.

(* the two views of the mutation machine agree on everything the text renderer
   reads wherever method sets are static (Go: they are), and a program without
   mutation or Update gives the view of the c04_history_* theorems *)
Theorem c04_shown_is_snap : forall W json e_now s,
  methods_static (snd s) e_now (fst s) ->
  let a := shown W json s in let b := snap_vcell W json e_now s in
  vc_text a = vc_text b /\ vc_empty a = vc_empty b /\ vc_tw a = vc_tw b /\ vc_h a = vc_h b
  /\ vc_widther a = vc_widther b.
Proof. exact shown_is_snap. Qed.
Print Assumptions c04_shown_is_snap.

Theorem c04_mut_free_is_history : forall W json e (h : list top),
  tmview W json (mrun e (map MOp h)) = hview W e json h.
Proof. exact tmview_mutation_free. Qed.
Print Assumptions c04_mut_free_is_history.

(* non-vacuity: an object with text "ab" declaring width 2, height 1 under a
   6-wide cell; it re-declares width 4, height 2 with the SAME text: nothing
   moves until Update, then the line is padded as 4 wide and the row has 2
   lines; and a cell holding a cell holding "ab\nc" shows both lines *)
Example c04_redeclare_example :
  let W := fun s : list N => length s in
  let j := fun _ : item => @None (list N) in
  let e0 : env := fun _ => mkObj (Some [97;98]) None None (Some 1%Z) (Some 2%Z) [] None in
  let ob := mkObj (Some [97;98]) None None (Some 2%Z) (Some 4%Z) [] None in
  let d := populate (mkDecor [45] [124] [43] [] [] [] [] [] [] [] [] [] [] [] [] [] [] [] [] [] [] [] false) in
  let p1 := [MOp (TCore (AddRowItems [IString [48;49;50;51;52;53]; IString [120]])); MOp (TCore (AddRowItems [IObj 1; IString [121]]))] in
  let first := Ok ([43;45;45;45;45;45;45;45;45;43;45;45;45;43;10]
                   ++ [124;32;48;49;50;51;52;53;32;124;32;120;32;124;10]
                   ++ [124;32;97;98;32;32;32;32;32;124;32;121;32;124;10]
                   ++ [43;45;45;45;45;45;45;45;45;43;45;45;45;43;10]) in
  mtext_render W j d (mrun e0 p1) = first
  /\ mtext_render W j d (mrun e0 (p1 ++ [MMutate 1 ob])) = first
  /\ mtext_render W j d (mrun e0 (p1 ++ [MMutate 1 ob; MUpdateAt 1 0]))
     = Ok ([43;45;45;45;45;45;45;45;45;43;45;45;45;43;10]
           ++ [124;32;48;49;50;51;52;53;32;124;32;120;32;124;10]
           ++ [124;32;97;98;32;32;32;124;32;121;32;124;10]
           ++ [124;32;32;32;32;32;32;32;32;124;32;32;32;124;10]
           ++ [43;45;45;45;45;45;45;45;45;43;45;45;45;43;10])
  /\ text_render W d (hview W e0 j [TCore (AddRowItems [wrap_cell W e0 2 (IString [97;98;10;99]); IString [120]])])
     = Ok ([43;45;45;45;45;43;45;45;45;43;10]
           ++ [124;32;97;98;32;124;32;120;32;124;10]
           ++ [124;32;99;32;32;124;32;32;32;124;10]
           ++ [43;45;45;45;45;43;45;45;45;43;10]).
Proof. cbv zeta. repeat split; vm_compute; reflexivity. Qed.
(* ---------------------------------------------------------------- source tie
   (notes/SOURCE_TIE_3.md).  texttable/decoration/strings.go: WithinWidthAligned
   is TRANSLATED from the Go text by tools/go2coq (Generated/WidthStrSrc.v,
   regenerated and compared on every run of check.py C04).  For every width
   string (also W < 0), every available width (also negative) and every alignment
   value (nil, align.Left / Right / Center, any other) the translation returns
   what the hand model returns: the same padded string, or Panic exactly where
   the model panics.  No hypothesis. *)
From Tab Require Import Base.GoSem Base.GoText Generated.WidthStrSrc Proofs.WidthStrSrcTie.

Theorem c04_source_is_model : forall ws available how,
  src_WithinWidthAligned ws available how = Done (within_width_aligned ws available how).
Proof. exact src_WithinWidthAligned_is_model. Qed.
Print Assumptions c04_source_is_model.

(* property level: for a measured line (s, w), a column width cw and an alignment
   resolving to a (nil = left), the translated source returns the spec slot,
   flattened: the text unchanged, padded with spaces per the three padding rules *)
Theorem c04_source_slot : forall s w cw al a,
  TextMeasure.norm_al al = AlKnown a ->
  src_WithinWidthAligned (mkWS s (Z.of_nat w)) (Z.of_nat cw) al = Done (Ok (flat_segs (spec_slot cw a (s, w)))).
Proof. exact src_WithinWidthAligned_slot. Qed.
Print Assumptions c04_source_slot.
