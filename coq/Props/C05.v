(* C05 - CSV output parses back, under RFC 4180 quoting, to exactly the table.
   Only statements here; proofs live in Proofs/CsvProofs.v. *)
From Tab Require Import Model.Csv Spec.CsvParse Proofs.CsvProofs.

(* Whenever rendering succeeds, the strict parser reads the output back as
   exactly header (if any) ++ non-separator rows, in order, every record padded
   with empty fields to the column count, every field byte-for-byte the text. *)
Theorem c05_roundtrip : forall v out,
  csv_render v = Ok out ->
  parse_csv out = Some (map (pad_to (v_ncols v)) (csv_records v))
  /\ Forall (fun r => length r = v_ncols v) (map (pad_to (v_ncols v)) (csv_records v)).
Proof. exact csv_roundtrip. Qed.
Print Assumptions c05_roundtrip.

(* A table with no columns is refused. *)
Theorem c05_refuses_empty : forall v, v_ncols v = 0 -> csv_render v = Err.
Proof. exact csv_refuses_empty. Qed.
Print Assumptions c05_refuses_empty.

(* The renderer never panics, whatever the view (zero-cell rows included). *)
Theorem c05_no_panic : forall v, csv_render v <> Panic.
Proof. exact csv_no_panic. Qed.
Print Assumptions c05_no_panic.

(* On every table shape the core can produce it succeeds (so the round trip is
   not vacuous). *)
Theorem c05_succeeds : forall v, wf_view v -> 1 <= v_ncols v -> exists out, csv_render v = Ok out.
Proof. exact csv_succeeds. Qed.
Print Assumptions c05_succeeds.

(* Render() is the concatenation of what RenderTo writes. *)
Theorem c05_render_is_writes : forall v ws, csv_render_writes v = Ok ws -> csv_render v = Ok (concat ws).
Proof. intros v ws H. unfold csv_render. rewrite H. reflexivity. Qed.
Print Assumptions c05_render_is_writes.

(* non-vacuity: a ragged table with a zero-cell row, quotes, CR LF and NUL *)
Local Open Scope N_scope.
Example c05_example :
  let c s := mkVCell s false None 0 0 false in
  let v := mkView 2%nat (Some [c [104]]) [Some [c [34; 44]; c [13; 10; 0]]; None; Some []] [None;None;None] [None;None;None] in
  wf_view v /\ exists out, csv_render v = Ok out /\ parse_csv out = Some [[[104]; []]; [[34; 44]; [13; 10; 0]]; [[]; []]].
Proof.
  cbv zeta. split.
  - apply wf_viewb_spec. vm_compute. reflexivity.
  - eexists. split; vm_compute; reflexivity.
Qed.
