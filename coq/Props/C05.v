(* C05 - CSV output parses back, under RFC 4180 quoting, to exactly the table.
   Only statements here; proofs live in Proofs/CsvProofs.v. *)
From Tab Require Import Model.Csv Spec.CsvParse Proofs.CsvProofs.

(* Whenever rendering succeeds, the strict parser reads the output back as
   exactly header (if any) ++ non-separator rows, in order, every record padded
   with empty fields to the column count, every field byte-for-byte the text. *)
Theorem c05_roundtrip : forall v out,
  csv_render v = Ok out ->
  parse_csv out = Some (map (pad_to (v_ncols v)) (csv_records v))
  /\ Forall (fun r => length r = v_ncols v) (map (pad_to (v_ncols v)) (csv_records v)).
Proof. exact csv_roundtrip. Qed.
Print Assumptions c05_roundtrip.

(* A table with no columns is refused. *)
Theorem c05_refuses_empty : forall v, v_ncols v = 0 -> csv_render v = Err.
Proof. exact csv_refuses_empty. Qed.
Print Assumptions c05_refuses_empty.

(* The renderer never panics, whatever the view (zero-cell rows included). *)
Theorem c05_no_panic : forall v, csv_render v <> Panic.
Proof. exact csv_no_panic. Qed.
Print Assumptions c05_no_panic.

(* On every table shape the core can produce it succeeds (so the round trip is
   not vacuous). *)
Theorem c05_succeeds : forall v, wf_view v -> 1 <= v_ncols v -> exists out, csv_render v = Ok out.
Proof. exact csv_succeeds. Qed.
Print Assumptions c05_succeeds.

(* Render() is the concatenation of what RenderTo writes. *)
Theorem c05_render_is_writes : forall v ws, csv_render_writes v = Ok ws -> csv_render v = Ok (concat ws).
Proof. intros v ws H. unfold csv_render. rewrite H. reflexivity. Qed.
Print Assumptions c05_render_is_writes.

(* END TO END.  For every well-formed history of public-API calls (Model/Table.v:
   AddHeaders, AddRowItems, NewRow / NewRowSizedFor + Row.Add + AddRow,
   AppendNewRow + Row.Add on the attached row, AddSeparator, column property
   settings, in any interleaving) over ARBITRARY items (Model/Cell.v): whenever
   CSV rendering of the table so built succeeds, the strict parser reads back
   exactly the history's records - the header if any, then each non-separator
   row in attach order, each field the DOCUMENTED TEXT of the item the history
   put there (Spec/CellText.v), padded with empty fields to the column count
   the history defines; and it does succeed as soon as there is a column. *)
From Tab Require Import Model.Cell Model.Table Spec.TableHist Spec.CellText Proofs.E2EProofs.

Theorem c05_history : forall (W : list N -> nat) (e : env) (json : item -> option (list N)) (h : list top) out,
  twf_hist h -> csv_render (hview W e json h) = Ok out ->
  parse_csv out = Some (map (pad_to (hist_ncols h)) (map (map (documented_text e)) (hist_records h)))
  /\ Forall (fun r => length r = hist_ncols h) (map (pad_to (hist_ncols h)) (map (map (documented_text e)) (hist_records h))).
Proof. exact csv_history. Qed.
Print Assumptions c05_history.

Theorem c05_history_succeeds : forall W e json (h : list top),
  twf_hist h -> 1 <= hist_ncols h -> exists out, csv_render (hview W e json h) = Ok out.
Proof. exact csv_history_succeeds. Qed.
Print Assumptions c05_history_succeeds.

(* non-vacuity: a header of a string and a rune; a row attached empty and then
   extended by an object with String(); a separator; a row of nil, a quote and
   a third cell that widens the table *)
Example c05_history_example :
  let e : env := fun _ => mkObj (Some [115%N]) None None None None [] None in
  let h := [TCore (AddHeaders [IString [104%N]; IRune 120]); TCore (AppendNewRow 1); TCore (RowAdd (RName 1) (IObj 0%N));
            TSetAlign 1 (Some ARight); TCore AddSeparator; TCore (AddRowItems [INil; IString [34%N]; IString [108%N]])] in
  twf_hist h /\ hist_ncols h = 3
  /\ exists out, csv_render (hview (@length N) e (fun _ => None) h) = Ok out
       /\ parse_csv out = Some [[[104%N]; [120%N]; []]; [[115%N]; []; []]; [[]; [34%N]; [108%N]]].
Proof.
  cbv zeta. split; [apply twf_histb_sound; vm_compute; reflexivity|]. split; [vm_compute; reflexivity|].
  eexists. split; vm_compute; reflexivity.
Qed.

(* ONE CALL AFTER ANOTHER (Model/CsvSession.v).  The string-returning entry
   points run RenderTo into a buffer of their own, fresh for every call; what
   they return is what the one-shot model says. *)
From Tab Require Import Model.CsvSession Proofs.CsvSessionProofs.

Theorem c05_render_own_buffer : forall v, csv_render_string v = csv_render v.
Proof. exact csv_render_string_eq. Qed.
Print Assumptions c05_render_own_buffer.

(* In any sequence of renders, of any tables, failing or not, every result is
   the result of rendering that call's table alone: nothing carries over. *)
Theorem c05_session_independent : forall vs, Forall2 (fun v o => o = csv_render v) vs (csv_session vs).
Proof. exact csv_session_pointwise. Qed.
Print Assumptions c05_session_independent.

(* So whatever was rendered before (pre) and whatever comes after (post), a
   render that succeeds parses back to exactly ITS table. *)
Theorem c05_session_roundtrip : forall pre v post out,
  nth_error (csv_session (pre ++ v :: post)) (length pre) = Some (Ok out) ->
  parse_csv out = Some (map (pad_to (v_ncols v)) (csv_records v))
  /\ Forall (fun r => length r = v_ncols v) (map (pad_to (v_ncols v)) (csv_records v)).
Proof. exact csv_session_roundtrip. Qed.
Print Assumptions c05_session_roundtrip.

Theorem c05_session_no_panic : forall vs, Forall (fun o => o <> Panic) (csv_session vs).
Proof. exact csv_session_no_panic. Qed.
Print Assumptions c05_session_no_panic.

(* ANY DESTINATION (Model/CsvWriter.v).  RenderTo takes an io.Writer: a state
   machine which, offered a payload, takes the first n bytes and says whether
   the call failed.  For EVERY such machine that honours the io.Writer contract
   (n <= len p; an error whenever n < len p), in every state, and every table:
   when RenderTo returns nil, what the destination holds parses back to exactly
   the table. *)
From Tab Require Import Model.CsvWriter Proofs.CsvWriterProofs.

Theorem c05_any_writer : forall (St : Type) (wr : St -> list N -> St * nat * bool),
  honours_contract St wr -> forall v s s1 acc,
  csv_render_to_wr St wr v s = (s1, acc, Ok tt) ->
  parse_csv acc = Some (map (pad_to (v_ncols v)) (csv_records v))
  /\ Forall (fun r => length r = v_ncols v) (map (pad_to (v_ncols v)) (csv_records v)).
Proof. exact csv_writer_roundtrip. Qed.
Print Assumptions c05_any_writer.

(* A Write that fails - whatever the error, however much of the payload was
   taken - makes RenderTo fail; nothing is offered again. *)
Theorem c05_failed_write_fails : forall (St : Type) (wr : St -> list N -> St * nat * bool) v s s1 acc,
  (let '(ws, _) := csv_render_to_tr v in wr_run St wr s ws = (s1, acc, false)) ->
  csv_render_to_wr St wr v s = (s1, acc, Err).
Proof. exact csv_render_to_wr_fault. Qed.
Print Assumptions c05_failed_write_fails.

(* Whatever the outcome, the destination holds a prefix of the text a buffer
   would have been given. *)
Theorem c05_writer_prefix : forall (St : Type) (wr : St -> list N -> St * nat * bool),
  honours_contract St wr -> forall v s s1 acc r,
  csv_render_to_wr St wr v s = (s1, acc, r) ->
  exists rest, concat (fst (csv_render_to_tr v)) = acc ++ rest.
Proof. exact csv_writer_prefix. Qed.
Print Assumptions c05_writer_prefix.

Theorem c05_writer_no_panic : forall (St : Type) (wr : St -> list N -> St * nat * bool) v s,
  snd (csv_render_to_wr St wr v s) <> Panic.
Proof. exact csv_writer_no_panic. Qed.
Print Assumptions c05_writer_no_panic.

(* The destination with room for b more bytes (the one the correspondence check
   runs): however the text is cut into writes it ends up holding the first b
   bytes of it, and the render goes through exactly when everything fits. *)
Theorem c05_limited_room : forall v b,
  let '(ws, e) := csv_render_to_tr v in
  csv_render_to_budget v b = (firstn b (concat ws), if length (concat ws) <=? b then e else Err).
Proof. exact csv_budget_spec. Qed.
Print Assumptions c05_limited_room.

(* non-vacuity: a two-column table whose text is 18 bytes; room for 18 gives the
   table, room for 7 stops inside the second field with an error *)
Example c05_writer_example :
  let c s := mkVCell s false None 0 0 false in
  let v := mkView 2%nat (Some [c [104%N]; c [34%N]]) [Some [c [97%N]]] [None;None;None] [None;None;None] in
  (exists acc, csv_render_to_budget v 18 = (acc, Ok tt) /\ parse_csv acc = Some [[[104%N]; [34%N]]; [[97%N]; []]])
  /\ csv_render_to_budget v 7 = ([34%N; 104%N; 34%N; 44%N; 34%N; 34%N; 34%N], Err)
  /\ honours_contract nat budget_wr.
Proof.
  cbv zeta. split; [eexists; split; vm_compute; reflexivity|]. split; [vm_compute; reflexivity|exact budget_contract].
Qed.

(* STATE THAT IS NOT CONTENT (Model/CsvMeta.v).  Histories that also set a
   column record's Name, properties of the application's on the table / a
   column / a row / a cell, and errors parked on the table: whenever rendering
   succeeds the strict parser reads back exactly the records of the BUILDING
   calls - the header row as AddHeaders left it, padded with EMPTY fields - and
   two histories with the same building calls render the same. *)
From Tab Require Import Model.CsvMeta Proofs.CsvMetaProofs.

Theorem c05_meta_history : forall (W : list N -> nat) (e : env) (json : item -> option (list N)) (h : list mop) out,
  twf_hist (m_tops h) -> csv_render_mt W e json (mt_run h) = Ok out ->
  parse_csv out = Some (map (pad_to (hist_ncols (m_tops h))) (map (map (documented_text e)) (hist_records (m_tops h))))
  /\ Forall (fun r => length r = hist_ncols (m_tops h))
            (map (pad_to (hist_ncols (m_tops h))) (map (map (documented_text e)) (hist_records (m_tops h)))).
Proof. exact csv_meta_history. Qed.
Print Assumptions c05_meta_history.

Theorem c05_meta_succeeds : forall W e json (h : list mop),
  twf_hist (m_tops h) -> 1 <= hist_ncols (m_tops h) -> exists out, csv_render_mt W e json (mt_run h) = Ok out.
Proof. exact csv_meta_succeeds. Qed.
Print Assumptions c05_meta_succeeds.

Theorem c05_meta_not_content : forall W e json (h1 h2 : list mop),
  m_tops h1 = m_tops h2 -> csv_render_mt W e json (mt_run h1) = csv_render_mt W e json (mt_run h2).
Proof. exact csv_meta_not_content. Qed.
Print Assumptions c05_meta_not_content.

(* non-vacuity: a one-cell header, a two-cell row, then column 2 is given a
   Name (it is there to be read) - the header record still ends in an empty field *)
Example c05_meta_example :
  let e : env := fun _ => mkObj None None None None None [] None in
  let h := [MTop (TCore (AddHeaders [IString [104%N]])); MTop (TCore (AddRowItems [IRune 34; IString [98%N]]));
            MColName 2 [112%N]; MSetProp (OColumn 2) 7%N (Some [113%N]); MAddError [114%N]] in
  twf_hist (m_tops h) /\ mt_name (mt_run h) 2 = [112%N]
  /\ exists out, csv_render_mt (@length N) e (fun _ => None) (mt_run h) = Ok out
       /\ parse_csv out = Some [[[104%N]; []]; [[34%N]; [98%N]]].
Proof.
  cbv zeta. split; [apply twf_histb_sound; vm_compute; reflexivity|]. split; [vm_compute; reflexivity|].
  eexists. split; vm_compute; reflexivity.
Qed.

(* A render that fails PART-WAY: when the first record that does not fit comes
   after records that do (a row that another table widened; any view with a row
   longer than the column count), RenderTo has by then written exactly those
   earlier records, whole - and the string-returning entry points return the
   error and none of that text. *)
Theorem c05_partial_failure : forall v pre bad post,
  1 <= v_ncols v -> csv_records v = pre ++ bad :: post ->
  Forall (fun r => length r <= v_ncols v) pre -> v_ncols v < length bad ->
  exists ws, csv_render_to_tr v = (ws, Err)
          /\ parse_csv (concat ws) = Some (map (pad_to (v_ncols v)) pre)
          /\ csv_render_string v = Err
          /\ csv_render v = Err.
Proof. exact csv_partial_failure. Qed.
Print Assumptions c05_partial_failure.

(* non-vacuity: a header and a fitting row are written, the third record has one
   cell too many; the same table rendered between two other tables *)
Example c05_session_example :
  let c s := mkVCell s false None 0 0 false in
  let bad := mkView 2%nat (Some [c [104%N]; c [105%N]]) [Some [c [97%N]]; Some [c [98%N]; c [99%N]; c [100%N]]; Some [c [101%N]]] [None;None;None] [None;None;None] in
  let good := mkView 1%nat None [Some [c [34%N]]] [None;None] [None;None] in
  (exists ws, csv_render_to_tr bad = (ws, Err) /\ parse_csv (concat ws) = Some [[[104%N]; [105%N]]; [[97%N]; []]])
  /\ exists out, csv_session [good; bad; good] = [Ok out; Err; Ok out] /\ parse_csv out = Some [[[34%N]]].
Proof.
  cbv zeta. split; eexists; split; vm_compute; reflexivity.
Qed.

(* non-vacuity: a ragged table with a zero-cell row, quotes, CR LF and NUL *)
Local Open Scope N_scope.
Example c05_example :
  let c s := mkVCell s false None 0 0 false in
  let v := mkView 2%nat (Some [c [104]]) [Some [c [34; 44]; c [13; 10; 0]]; None; Some []] [None;None;None] [None;None;None] in
  wf_view v /\ exists out, csv_render v = Ok out /\ parse_csv out = Some [[[104]; []]; [[34; 44]; [13; 10; 0]]; [[]; []]].
Proof.
  cbv zeta. split.
  - apply wf_viewb_spec. vm_compute. reflexivity.
  - eexists. split; vm_compute; reflexivity.
Qed.

(* TIED TO THE SOURCE TEXT.  Generated/CsvSrc.v is written by tools/go2coq from
   csv/csv.go (csvEscape, emitRow, RenderTo; a shallow translation over
   Base/GoSem.v) and regenerated from the repository under test on every run
   (check.py SOURCE_TIES).  For every byte string and every view - no hypothesis -
   the translated source IS the model: csvEscape returns csv_escape s (its
   2*len+2 buffer is never overrun, its loop never runs out of fuel); RenderTo
   ends as csv_render_writes says, writes exactly that list in that order, and
   checks every write. *)
From Tab Require Import Base.GoSem Generated.CsvSrc Proofs.CsvSrcTie.

Theorem c05_source_is_model :
  (forall s, src_csvEscape s = Ok (csv_escape s))
  /\ (forall n cells, src_emitRow (Z.of_nat n) cells = of_model (csv_emit_row n (row_texts cells)))
  /\ (forall v, snd (src_RenderTo v) = Done (outcome_of (csv_render_writes v))
                /\ (forall ws, csv_render_writes v = Ok ws -> src_RenderTo v = (checked ws, Done (Ok tt)))
                /\ all_checked (fst (src_RenderTo v))).
Proof. exact (conj src_csvEscape_is_model (conj src_emitRow_is_model src_RenderTo_is_model)). Qed.
Print Assumptions c05_source_is_model.

(* the round trip of c05_roundtrip, for what the TRANSLATED SOURCE writes: the
   strict RFC 4180 parser reads back exactly the table from the concatenated
   payloads, and every one of those writes is checked *)
Theorem c05_source_roundtrip : forall v ws,
  src_RenderTo v = (ws, Done (Ok tt)) ->
  parse_csv (payloads ws) = Some (map (pad_to (v_ncols v)) (csv_records v))
  /\ Forall (fun r => length r = v_ncols v) (map (pad_to (v_ncols v)) (csv_records v))
  /\ all_checked ws.
Proof. exact src_RenderTo_roundtrip. Qed.
Print Assumptions c05_source_roundtrip.

(* the translated source never panics and never exhausts a loop bound *)
Theorem c05_source_total : forall v,
  snd (src_RenderTo v) = Done (Ok tt) \/ snd (src_RenderTo v) = Done Err.
Proof. exact src_RenderTo_no_panic_no_fuel. Qed.
Print Assumptions c05_source_total.
