(* C16 - independent tables can be built and rendered concurrently (PARTIAL).
   Only statements here; proofs live in Proofs/SchedProofs.v.

   What is proved: schedule independence of the interleaving model
   (Model/Sched.v) for programs that are confined (a goroutine's local actions
   touch only its own tables / wrappers) and only read the registry, and
   (Model/SchedOwn.v) for confined programs that also REGISTER decorations,
   each goroutine under names of its own.  What is
   NOT proved, and cannot be in an executable model: that the Go code's actions
   are confined in this sense and free of data races under the Go memory model.
   That part is validated on every run by the race detector under concurrent
   load and by the regenerated shared-state inventory of the source
   (shared_ok; Run/C16Run.v, harness/c16*.go).

   Round 6 (Model/SchedShared.v): goroutines whose renders go through
   SYNCHRONISED package-level state (a cache, a memo: sync.Map, atomic.Value).
   No data race there, and still a table's output can depend on what other
   tables were rendered.  Proved: it cannot when the shared cell is
   transparent (an invariant under which its answer is a function of the
   question), which a memo keyed by the whole question is under every
   eviction policy; and that transparency is needed - a memo keyed by a class
   of the question, and a one-entry memo whose key and value are two
   registers, are both visible under some schedule.  Whether a cell in the Go
   code is transparent is, again, what the runs test (items of every kind with
   per-process references; schedules dense in one renderer). *)
From Tab Require Import Model.Sched Model.SchedOwn Proofs.SchedProofs Proofs.SchedOwnProofs.
From Tab Require Import Model.SchedShared Proofs.SchedSharedProofs.

(* For every registry implementation, every program vector and EVERY complete
   schedule (arbitrary merge, any length): if every local action is confined to
   its goroutine's state and the registry is only read, the registry is
   unchanged and each goroutine ends with exactly the local state and the
   observation list of running its program alone from the same start. *)
Theorem c16_schedule_independent :
  forall (L R K D : Type) (lookup : R -> K -> D) (names : R -> list K) (write : R -> K -> D -> R)
         (progs : pvec L K D) (sched : list nat) (G0 : gstate L R K D),
    confined progs -> reads_registry_only progs -> complete sched progs ->
    g_reg (run_sched lookup names write sched progs G0) = g_reg G0 /\
    forall t,
      g_loc (run_sched lookup names write sched progs G0) t
        = g_loc (run_alone lookup names write t (progs t) G0) t /\
      g_obs (run_sched lookup names write sched progs G0) t
        = g_obs (run_alone lookup names write t (progs t) G0) t.
Proof. exact schedule_independent. Qed.
Print Assumptions c16_schedule_independent.

(* The same for a finite vector of programs given as a list. *)
Theorem c16_schedule_independent_list :
  forall (L R K D : Type) (lookup : R -> K -> D) (names : R -> list K) (write : R -> K -> D -> R)
         (ps : list (list (action L K D))) (sched : list nat) (G0 : gstate L R K D),
    (forall t p, nth_error ps t = Some p -> Forall (confined_action t) p) ->
    Forall (Forall read_only) ps ->
    complete sched (pvec_of ps) ->
    g_reg (run_sched lookup names write sched (pvec_of ps) G0) = g_reg G0 /\
    forall t,
      g_loc (run_sched lookup names write sched (pvec_of ps) G0) t
        = g_loc (run_alone lookup names write t (pvec_of ps t) G0) t /\
      g_obs (run_sched lookup names write sched (pvec_of ps) G0) t
        = g_obs (run_alone lookup names write t (pvec_of ps t) G0) t.
Proof. exact schedule_independent_list. Qed.
Print Assumptions c16_schedule_independent_list.

(* Any two complete schedules are indistinguishable to every goroutine. *)
Theorem c16_any_two_schedules :
  forall (L R K D : Type) (lookup : R -> K -> D) (names : R -> list K) (write : R -> K -> D -> R)
         (progs : pvec L K D) (s1 s2 : list nat) (G0 : gstate L R K D),
    confined progs -> reads_registry_only progs -> complete s1 progs -> complete s2 progs ->
    forall t, proj t (run_sched lookup names write s1 progs G0)
            = proj t (run_sched lookup names write s2 progs G0).
Proof. exact any_two_schedules. Qed.
Print Assumptions c16_any_two_schedules.

(* Commutation: adjacent steps of two different goroutines can be swapped. *)
Theorem c16_steps_commute :
  forall (L R K D : Type) (lookup : R -> K -> D) (names : R -> list K) (write : R -> K -> D -> R)
         (s t : nat) (a b : action L K D) (G : gstate L R K D),
    s <> t -> confined_action s a -> read_only a -> confined_action t b -> read_only b ->
    g_reg (step lookup names write s a (step lookup names write t b G))
      = g_reg (step lookup names write t b (step lookup names write s a G)) /\
    forall u, proj u (step lookup names write s a (step lookup names write t b G))
            = proj u (step lookup names write t b (step lookup names write s a G)).
Proof. exact step_commute. Qed.
Print Assumptions c16_steps_commute.

(* The hypotheses are needed.  With one RegWrite by another goroutine the
   conclusion is false although every local action is confined ... *)
Theorem c16_needs_read_only :
  confined ex_writer /\ complete [1; 0] ex_writer /\
  g_loc (run_sched ex_lookup ex_names ex_write [1; 0] ex_writer ex_G0) 0
  <> g_loc (run_alone ex_lookup ex_names ex_write 0 (ex_writer 0) ex_G0) 0.
Proof. exact needs_read_only. Qed.
Print Assumptions c16_needs_read_only.

(* ... and with one unconfined "local" action (a scratch buffer shared between
   goroutines) it is false although the registry is never written. *)
Theorem c16_needs_confinement :
  reads_registry_only ex_scribbler /\ complete [1; 0] ex_scribbler /\
  g_loc (run_sched ex_lookup ex_names ex_write [1; 0] ex_scribbler ex_G0) 0
  <> g_loc (run_alone ex_lookup ex_names ex_write 0 (ex_scribbler 0) ex_G0) 0.
Proof. exact needs_confinement. Qed.
Print Assumptions c16_needs_confinement.

(* The reading of the source-inventory verdict: if shared_ok accepts the facts,
   every recorded post-init access to package-level state is a read of
   registry.table under the lock, or synchronisation (sync-typed), or a
   mutation of registry.table under the lock whose address does not escape. *)
Theorem c16_shared_ok_sound : forall fs,
  shared_ok fs = true ->
  forall pkg var path meth k fn line sy locked,
    In (FAcc pkg var path meth k fn line sy locked) fs ->
    (k = ARead -> locked = true) /\
    (k = AAddr -> sy = true) /\
    (mutating k = true -> sy = true \/ (is_guarded_field pkg var path = true /\ locked = true /\ k <> AAddr)).
Proof. exact shared_ok_sound. Qed.
Print Assumptions c16_shared_ok_sound.

(* ---- goroutines that register decorations of their own (Model/SchedOwn.v) ----

   "In any formats and decorations" includes the decorations an application
   registers: the registry is then WRITTEN while the goroutines run, but every
   name has one owner.  For every registry that obeys the map laws, every
   assignment of names to owners, every program vector and EVERY complete
   schedule: if local actions are confined, each goroutine registers only names
   of its own and looks up only its own names and names nobody registers (and
   uses a listing only for the names it may look up), then each goroutine ends
   with the local state and the lookups of its solo run. *)
Theorem c16_own_decorations_schedule_independent :
  forall (L R K D : Type) (lookup : R -> K -> D) (names : R -> list K) (write : R -> K -> D -> R),
    (forall a b : K, {a = b} + {a <> b}) -> reg_laws lookup names write ->
  forall (owner : K -> option nat) (progs : pvec L K D) (sched : list nat) (G0 : gstate L R K D),
    confined progs -> own_keys owner progs -> complete sched progs ->
    forall t,
      g_loc (run_sched lookup names write sched progs G0) t
        = g_loc (run_alone lookup names write t (progs t) G0) t /\
      reads (g_obs (run_sched lookup names write sched progs G0) t)
        = reads (g_obs (run_alone lookup names write t (progs t) G0) t).
Proof. exact own_schedule_independent. Qed.
Print Assumptions c16_own_decorations_schedule_independent.

(* ... and after the join every name holds what its owner's solo run leaves
   there (no registration is lost, none is overwritten by another goroutine's),
   names nobody registers hold what they held. *)
Theorem c16_own_decorations_registry :
  forall (L R K D : Type) (lookup : R -> K -> D) (names : R -> list K) (write : R -> K -> D -> R),
    (forall a b : K, {a = b} + {a <> b}) -> reg_laws lookup names write ->
  forall (owner : K -> option nat) (progs : pvec L K D) (sched : list nat) (G0 : gstate L R K D),
    own_keys owner progs -> complete sched progs ->
    (forall t n, owner n = Some t ->
       lookup (g_reg (run_sched lookup names write sched progs G0)) n
         = lookup (g_reg (run_alone lookup names write t (progs t) G0)) n) /\
    (forall n, owner n = None ->
       lookup (g_reg (run_sched lookup names write sched progs G0)) n = lookup (g_reg G0) n).
Proof. exact own_registry. Qed.
Print Assumptions c16_own_decorations_registry.

(* The run-time oracle (Run/C16Run.v: own_ok) compares the answers the
   implementation gave each goroutine about its own names with own_expected,
   the goroutine's solo run on an association list.  That is what every
   interleaving of the logged programs gives on the model. *)
Theorem c16_own_oracle_any_schedule : forall (opss : list (list c16_op)) sched,
  (forall t ops, nth_error opss t = Some ops -> Forall (op_wf t) ops) ->
  complete sched (pvec_of (map (map op_action) opss)) ->
  forall t ops, nth_error opss t = Some ops ->
    rev (g_loc (run_sched a_lookup a_names a_write sched (pvec_of (map (map op_action) opss)) a_G0) t)
      = own_expected t ops.
Proof. exact own_oracle_any_schedule. Qed.
Print Assumptions c16_own_oracle_any_schedule.

(* One owner per name is needed: the vector of c16_needs_read_only (goroutine 0
   looks up the name goroutine 1 registers) satisfies own_keys under no
   assignment of owners. *)
Theorem c16_own_keys_excludes_shared_names : forall owner, ~ own_keys owner ex_writer.
Proof. exact ex_writer_not_own. Qed.
Print Assumptions c16_own_keys_excludes_shared_names.

(* non-vacuity of the above: two goroutines register a house style each,
   select it, re-register and select again; a third asks whether a built-in is
   listed; two merges, same results as alone, registry as the owners left it *)
Example c16_example_own :
  confined ex_own /\ own_keys ex_owner ex_own /\
  complete [0; 1; 0; 1; 2; 0; 1; 0] ex_own /\ complete [1; 1; 0; 2; 0; 0; 0; 1] ex_own /\
  let G1 := run_sched ex_lookup ex_names ex_write [0; 1; 0; 1; 2; 0; 1; 0] ex_own ex_G0 in
  let G2 := run_sched ex_lookup ex_names ex_write [1; 1; 0; 2; 0; 0; 0; 1] ex_own ex_G0 in
  map (g_loc G1) [0; 1; 2] = [53; 16; 1] /\ map (g_loc G2) [0; 1; 2] = [53; 16; 1] /\
  g_loc (run_alone ex_lookup ex_names ex_write 0 (ex_own 0) ex_G0) 0 = 53 /\
  ex_lookup (g_reg G1) 10 = 3 /\ ex_lookup (g_reg G2) 11 = 6.
Proof.
  split; [exact ex_own_confined|]. split; [exact ex_own_keys|].
  destruct ex_own_runs as [A [B C]]. split; [exact A|]. split; [exact B|]. exact C.
Qed.

(* non-vacuity: a confined three-goroutine vector (build; look a decoration up
   and render with it; list the names), two different merges, same results as
   the solo run *)
Example c16_example :
  confined ex_ok /\ reads_registry_only ex_ok /\
  complete [0; 1; 2; 0; 1; 0] ex_ok /\ complete [2; 1; 1; 0; 0; 0] ex_ok /\
  let G1 := run_sched ex_lookup ex_names ex_write [0; 1; 2; 0; 1; 0] ex_ok ex_G0 in
  let G2 := run_sched ex_lookup ex_names ex_write [2; 1; 1; 0; 0; 0] ex_ok ex_G0 in
  map (g_loc G1) [0; 1; 2] = [12; 2; 0] /\ map (g_loc G2) [0; 1; 2] = [12; 2; 0] /\
  g_obs G1 0 = [ORead 7 1] /\ g_obs G2 1 = [ONames [7]] /\
  g_loc (run_alone ex_lookup ex_names ex_write 0 (ex_ok 0) ex_G0) 0 = 12.
Proof.
  split; [exact ex_ok_confined|]. split; [exact ex_ok_ro|].
  destruct ex_ok_runs as [A [B C]]. split; [exact A|]. split; [exact B|]. exact C.
Qed.


(* ---- round 6: renders that go through synchronised package-level state ---- *)

(* For every shared cell (state C, questions Q, answers A, one atomic step
   ask), every program vector over SLocal / SAsk and EVERY complete schedule:
   if the cell is transparent - some invariant holds of its initial state, is
   kept by every ask, and under it the answer is [pure q] - every goroutine
   ends with exactly the local state of running its program alone from the
   same start. *)
Theorem c16_shared_transparent_schedule_independent :
  forall (L C Q A : Type) (ask : C -> Q -> A * C) (Inv : C -> Prop) (pure : Q -> A),
    transparent ask Inv pure ->
    forall (sched : list nat) (progs : nat -> list (saction L Q A)) (G0 : sstate L C),
      Inv (s_cell G0) -> scomplete sched progs ->
      forall t, s_loc (srun_sched ask sched progs G0) t = s_loc (srun_alone ask t (progs t) G0) t.
Proof. exact shared_transparent_schedule_independent. Qed.
Print Assumptions c16_shared_transparent_schedule_independent.

(* ... and any two complete schedules agree on every goroutine. *)
Theorem c16_shared_transparent_any_two_schedules :
  forall (L C Q A : Type) (ask : C -> Q -> A * C) (Inv : C -> Prop) (pure : Q -> A),
    transparent ask Inv pure ->
    forall (s1 s2 : list nat) (progs : nat -> list (saction L Q A)) (G0 : sstate L C),
      Inv (s_cell G0) -> scomplete s1 progs -> scomplete s2 progs ->
      forall t, s_loc (srun_sched ask s1 progs G0) t = s_loc (srun_sched ask s2 progs G0) t.
Proof. exact shared_transparent_any_two_schedules. Qed.
Print Assumptions c16_shared_transparent_any_two_schedules.

(* A memo of f keyed by the WHOLE question (association list; a miss computes
   f and stores the pair through keep), for every f, every sound equality
   test on questions and every eviction policy keep that does not invent
   entries, started with any truthful content: every schedule gives every
   goroutine what it gets alone ... *)
Theorem c16_memo_schedule_independent :
  forall (Q A : Type) (qeqb : Q -> Q -> bool), (forall a b, qeqb a b = true -> a = b) ->
  forall (f : Q -> A) (keep : list (Q * A) -> list (Q * A)), (forall l, incl (keep l) l) ->
  forall L (sched : list nat) (progs : nat -> list (saction L Q A)) (G0 : sstate L (list (Q * A))),
    memo_inv f (s_cell G0) -> scomplete sched progs ->
    forall t, s_loc (srun_sched (memo_ask qeqb f keep) sched progs G0) t
            = s_loc (srun_alone (memo_ask qeqb f keep) t (progs t) G0) t.
Proof. exact memo_schedule_independent. Qed.
Print Assumptions c16_memo_schedule_independent.

(* ... which is what f itself gives, with no memo anywhere. *)
Theorem c16_memo_is_the_function :
  forall (Q A : Type) (qeqb : Q -> Q -> bool), (forall a b, qeqb a b = true -> a = b) ->
  forall (f : Q -> A) (keep : list (Q * A) -> list (Q * A)), (forall l, incl (keep l) l) ->
  forall L (sched : list nat) (progs : nat -> list (saction L Q A)) (G0 : sstate L (list (Q * A))),
    memo_inv f (s_cell G0) -> scomplete sched progs ->
    forall t, s_loc (srun_sched (memo_ask qeqb f keep) sched progs G0) t = sfold_pure f (progs t) (s_loc G0 t).
Proof. exact memo_is_f. Qed.
Print Assumptions c16_memo_is_the_function.

(* The one-entry memo with key and value in ONE register (keep = the newest
   entry only): schedule independent. *)
Theorem c16_one_register_memo_schedule_independent :
  forall (f : nat -> nat) L (sched : list nat) (progs : nat -> list (saction L nat nat)) (G0 : sstate L (list (nat * nat))),
    memo_inv f (s_cell G0) -> scomplete sched progs ->
    forall t, s_loc (srun_sched (memo_ask Nat.eqb f keep_one) sched progs G0) t
            = s_loc (srun_alone (memo_ask Nat.eqb f keep_one) t (progs t) G0) t.
Proof. exact one_register_memo_schedule_independent. Qed.
Print Assumptions c16_one_register_memo_schedule_independent.

(* Transparency is needed (1): a memo keyed by a CLASS of the question - here
   all questions in one class, the answer to q being q - is synchronised and
   still visible: goroutine 0 asks 0, goroutine 1 asks 7 and is told 0. *)
Theorem c16_needs_whole_question_key :
  exists (sched : list nat) (progs : nat -> list (saction (option nat) nat nat)),
    scomplete sched progs /\
    let G0 := mkS (@nil (unit * nat)) (fun _ => None) in
    let askc := coarse_ask nat nat (fun q => q) unit (fun _ _ => true) one_class in
    s_loc (srun_sched askc sched progs G0) 1 <> s_loc (srun_alone askc 1 (progs 1) G0) 1.
Proof. exact coarse_memo_visible. Qed.
Print Assumptions c16_needs_whole_question_key.

(* Transparency is needed (2): the one-entry memo with key and value in TWO
   registers, every step atomic.  Goroutines 0 and 1 memoise f 1 and f 2;
   under tsched (0 stores its value, 1 stores value and key, 0 stores its key)
   goroutine 2, asking for f 1 afterwards, gets f 2; alone it gets f 1. *)
Theorem c16_needs_one_register :
  scomplete tsched tprogs /\
  t_res (s_loc (srun_alone torn_ask 2 (tprogs 2) tG0) 2) = Some (tf 1) /\
  t_res (s_loc (srun_sched torn_ask tsched tprogs tG0) 2) = Some (tf 2).
Proof. exact torn_memo_visible. Qed.
Print Assumptions c16_needs_one_register.

(* non-vacuity: three goroutines ask a one-register memo of (fun x => 10 * x)
   for 1, 2 and 1 again; the schedule that breaks the two-register memo and
   another one give everybody what they get alone *)
Example c16_example_shared :
  let ask := memo_ask Nat.eqb tf keep_one in
  let call : list (saction tl nat nat) := [SAsk (fun l => t_arg l) (fun a l => mkT (t_arg l) false (Some a))] in
  let progs := spvec_of [call; call; call] in
  let G0 := mkS (@nil (nat * nat)) (s_loc tG0) in
  scomplete [0; 1; 2] progs /\ scomplete [2; 1; 0] progs /\
  map (fun t => t_res (s_loc (srun_sched ask [0; 1; 2] progs G0) t)) [0; 1; 2] = [Some 10; Some 20; Some 10] /\
  map (fun t => t_res (s_loc (srun_sched ask [2; 1; 0] progs G0) t)) [0; 1; 2] = [Some 10; Some 20; Some 10] /\
  t_res (s_loc (srun_alone ask 2 (progs 2) G0) 2) = Some 10.
Proof.
  cbv zeta. split; [intros [| [| [| t]]]; cbn; try reflexivity; destruct t; reflexivity |].
  split; [intros [| [| [| t]]]; cbn; try reflexivity; destruct t; reflexivity |].
  vm_compute. repeat split.
Qed.
