(* C11 - errors accumulate in the table: none lost, none duplicated, none nil.
   Only statements here; proofs live in Proofs/ErrContProofs.v,
   Proofs/ErrRouteProofs.v and Proofs/ErrOnceProofs.v. *)
From Tab Require Import Model.ErrCont Model.ErrRoute Spec.ErrLog
  Proofs.ErrContProofs Proofs.ErrRouteProofs Proofs.ErrOnceProofs.

(* The container alone, for every history of AddError / AddErrorList / Errors /
   AddErrorList(Errors()) and every way of making it (nil pointer, zero value,
   NewErrorContainer()): Errors() is nil exactly when no non-nil error was
   accepted, and otherwise a non-empty list without nil entries that is the
   accepted errors in order.  A nil container accepts nothing
   ([cont_expected MNil _ = []], as errors_test.go demands). *)
Theorem c11_container : forall m ops,
  let c := cont_run m ops in
  (errors c = None <-> cont_expected m ops = [])
  /\ (forall l, errors c = Some l -> l <> [] /\ ~ In None l /\ l = map Some (cont_expected m ops)).
Proof. exact container_log. Qed.
Print Assumptions c11_container.

(* DESIGN 6 verbatim, for the two kinds of container that exist *)
Theorem c11_container_non_nil : forall m ops, m <> MNil ->
  let c := cont_run m ops in
  (errors c = None <-> raised_non_nil ops = [])
  /\ (forall l, errors c = Some l -> l <> [] /\ ~ In None l /\ l = map Some (raised_non_nil ops)).
Proof. exact container_log_non_nil. Qed.
Print Assumptions c11_container_non_nil.

(* a nil container stays nil and reports nil, whatever is done to it *)
Theorem c11_container_nil : forall ops, cont_run MNil ops = None /\ errors (cont_run MNil ops) = None.
Proof. exact container_nil. Qed.
Print Assumptions c11_container_nil.

(* no loss and no duplication as counting: each error value occurs in Errors()
   as often as it was handed in *)
Theorem c11_container_counts : forall m ops l e,
  errors (cont_run m ops) = Some l ->
  count_occ err_eq_dec l (Some e) = count_occ N.eq_dec (cont_expected m ops) e.
Proof. exact container_counts. Qed.
Print Assumptions c11_container_counts.

(* Routing in the table: after any well-formed history of direct errors,
   attaches, separators, headers, misuse and failing callbacks at every invoke
   site, Table.Errors() is the view of the expected log (no hypothesis on the
   error ids is needed for this). *)
Theorem c11_table : forall h, wf_hist h -> table_errors (run h) = view (expected_errors h).
Proof. exact table_log. Qed.
Print Assumptions c11_table.

(* what a row itself shows: its own pending errors before it joins, the table's log after *)
Theorem c11_rows : forall h r, wf_hist h -> row_errors (run h) r = view (expected_row h r).
Proof. exact row_log. Qed.
Print Assumptions c11_rows.

(* With distinct error values: every error raised on the table, the header, a
   separator or a row attached by the end occurs exactly once in the table's
   log; none raised on a row that never joined occurs; nothing else does and no
   entry is nil; each source's errors appear in the order they were raised. *)
Theorem c11_exactly_once : forall h, wf_hist h -> NoDup (all_ids h) ->
  let log := log_of (table_errors (run h)) in
  (forall w e, delivered h w = true -> In e (raised_by h w) -> count_occ err_eq_dec log (Some e) = 1)
  /\ (forall r e, joined h r = false -> In e (raised_by h (Some r)) -> ~ In (Some e) log)
  /\ (forall x, In x log -> exists e, x = Some e /\ In e (all_ids h))
  /\ (forall w, delivered h w = true ->
        filter (fun x => match x with Some e => memb (raised_by h w) e | None => false end) log
        = map Some (raised_by h w)).
Proof. exact exactly_once. Qed.
Print Assumptions c11_exactly_once.

(* ---- a row shared with another table (beyond DESIGN 13.1's edge).  Another
   table taking a row - one still outside this table or one of this table's
   own rows, whatever this table holds at that moment - is no event of this
   table: its log is what it was. *)
Theorem c11_take_keeps_log : forall h r, wf_hist (h ++ [OtherAttachRow r]) ->
  table_errors (run (h ++ [OtherAttachRow r])) = table_errors (run h).
Proof. exact take_keeps_log. Qed.
Print Assumptions c11_take_keeps_log.

(* ... and what the other table then shows is what AddRow documents: the
   errors each row it took showed at that moment, its own, and those raised on
   its rows since *)
Theorem c11_other_table : forall h, wf_hist h -> other_errors (run h) = view (other_expected h).
Proof. exact other_log. Qed.
Print Assumptions c11_other_table.

(* nothing raised on the other table, or on a row after the other table took
   it, ever shows up in this table's log.  (That nothing raised on a shared row
   while it was here is lost, and that it stays there exactly once, is
   [c11_exactly_once]: [delivered] remains true for such a row.) *)
Theorem c11_elsewhere_never : forall h, wf_hist h -> NoDup (all_ids h ++ other_ids h) ->
  forall e, In e (other_ids h) -> ~ In (Some e) (log_of (table_errors (run h))).
Proof. exact elsewhere_never. Qed.
Print Assumptions c11_elsewhere_never.

(* non-vacuity: row 1 collects an error and a cell-callback error (on a row
   that had no container), a nil; the table gets a list with a nil; row 1 is
   attached; a separator is misused; a render callback fails; row 3 never joins *)
Local Open Scope N_scope.
Example c11_example :
  let h := [ CallbackFails SRowCellAdd 1 (Some 0); RowAddError 1 None; RowAddError 1 (Some 1);
             TableAddErrorList (Some [Some 2; None; Some 3]); RowAddError 3 (Some 4);
             AttachRow 1; CallbackFails STblCellAddRow 1 (Some 5);
             AddSeparator 2; RowAddOnSeparator 2 6; AddHeaders 7;
             CallbackFails SColCellPre 7 (Some 8); CallbackFails STblItselfPost 0 (Some 9) ] in
  wf_hist h /\ NoDup (all_ids h)
  /\ table_errors (run h) = Some (map Some [2; 3; 0; 1; 5; 6; 8; 9])
  /\ row_errors (run h) 3 = Some [Some 4].
Proof.
  cbv zeta. split; [vm_compute; reflexivity|]. split; [|split; vm_compute; reflexivity].
  vm_compute. repeat (constructor; [simpl; intuition discriminate|]). constructor.
Qed.

(* non-vacuity of the shared-row theorems: row 1 joins with one error, the
   table gets another, the other table takes row 1 (and with it a copy of both),
   row 1 and the other table collect errors there, this table goes on
   accumulating; detached row 2 is taken with its own error only *)
Example c11_example_shared :
  let h := [ RowAddError 1 (Some 0); AttachRow 1; TableAddError (Some 1); OtherAddError (Some 2);
             OtherAttachRow 1; OtherRowAddError 1 (Some 3); TableAddError (Some 4);
             CallbackFails STblCellPre 1 (Some 5); RowAddError 2 (Some 6); OtherAttachRow 2;
             AddSeparator 3; RowAddOnSeparator 3 7 ] in
  wf_hist h /\ NoDup (all_ids h ++ other_ids h)
  /\ table_errors (run h) = Some (map Some [0; 1; 4; 5; 7])
  /\ other_errors (run h) = Some (map Some [2; 0; 1; 3; 6])
  /\ row_errors (run h) 1 = other_errors (run h).
Proof.
  cbv zeta. split; [vm_compute; reflexivity|]. split; [|repeat split; vm_compute; reflexivity].
  vm_compute. repeat (constructor; [simpl; intuition discriminate|]). constructor.
Qed.

(* TIED TO THE SOURCE TEXT.  Generated/ErrContSrc.v is written by tools/go2coq from
   error_containers.go (NewErrorContainer, AddError, AddErrorList, Errors; a
   shallow translation over Base/GoSem.v) and regenerated from the repository
   under test on every run (check.py SOURCE_TIES).  The *ErrorContainer receiver
   is state passed in and out (None = the nil pointer); an error value is nil or
   an opaque non-nil error; slice capacity is dropped.  For every container,
   every error value, every list and every history - no hypothesis - the
   translated source IS the model, and never panics. *)
From Tab Require Import Base.GoSem Generated.ErrContSrc Proofs.ErrContSrcTie.

Theorem c11_source_is_model :
  src_NewErrorContainer = Ok (create MNew)
  /\ (forall c e, src_AddError c e = Ok (add_error c e))
  /\ (forall c el, src_AddErrorList c el = Ok (add_error_list c el))
  /\ (forall c, src_Errors c = Ok (errors c))
  /\ (forall m ops, src_cont_run m ops = Ok (cont_run m ops)).
Proof. exact errcont_source_is_model. Qed.
Print Assumptions c11_source_is_model.

(* c11_container for the TRANSLATED SOURCE: after every history run on the
   translated functions, from every way of making the container, the translated
   Errors() is nil exactly when no non-nil error was accepted, and otherwise a
   non-empty list without nil entries that is the accepted errors in order (none
   lost, none duplicated, no nil stored, order kept) *)
Theorem c11_source_container : forall m ops, exists c,
  src_cont_run m ops = Ok c
  /\ (src_Errors c = Ok None <-> cont_expected m ops = [])
  /\ (forall l, src_Errors c = Ok (Some l) -> l <> [] /\ ~ In None l /\ l = map Some (cont_expected m ops)).
Proof. exact src_container_log. Qed.
Print Assumptions c11_source_container.

(* c11_container_nil for the translated source: a nil receiver is a no-op *)
Theorem c11_source_container_nil : forall ops,
  src_cont_run MNil ops = Ok None /\ src_Errors None = Ok None
  /\ (forall e, src_AddError None e = Ok None) /\ (forall el, src_AddErrorList None el = Ok None).
Proof. exact src_container_nil. Qed.
Print Assumptions c11_source_container_nil.
