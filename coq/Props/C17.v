(* C17 - the decoration registry is safe under concurrency and fails closed
   (PARTIAL).  Only statements here; proofs live in Proofs/RegistryProofs.v.

   What is proved: everything below, for every sequential history and hence
   for every interleaving ([is_merge]) of per-goroutine programs in which each
   registry operation is one atomic step.  What is NOT proved, and makes C17
   partial: that the Go operations are atomic / free of data races (the
   mutex).  That is validated on every run by the harness, which is built with
   -race and runs concurrent programs in child processes (a race report is
   the replay), and by the checker of time-stamped histories whose soundness
   is c17_obs_sound.

   Operations (Model/Registry.v): OReg n d, ONamed n, ONames
   (RegisteredDecorationNames), OStyles (auto.ListStyles), OSet n (new text
   table selected by name, rendered), OAutoNew n (the same through auto.New,
   which drops the error), ORender k, OReSet k n
   (SetDecorationNamed on the k-th table of the goroutine, rendered),
   OSetDec k d (SetDecoration on it, rendered).  Names are arbitrary byte
   strings; the tables of a history may have any content ([body] stands for
   the rest of the renderer: outputs are named by the decoration that draws them).  A listing is a value: nothing
   a caller does to a returned listing is an operation, so later listings
   cannot depend on it (the harness scribbles over every listing it gets).

   [spec_named init ops n] is the history-level reading of a lookup: the
   decoration of the last [OReg n _] in ops, else what the registry was
   initialised with ([init], the built-ins), else Empty.  [body] is the rest
   of the text renderer past its EmptyDecoration guard (any function). *)
From Coq Require Import Sorting.Sorted Sorting.Permutation.
From Tab Require Import Model.Registry Spec.RegistrySpec Proofs.RegistryProofs Proofs.RegistryR6.

(* A lookup returns the decoration most recently registered under that name
   before it (or the initial content, or Empty), in every interleaving. *)
Theorem c17_named : forall body init (progs : list (list (nat * op))) tr,
  is_merge progs tr -> forall i g n,
  nth_error tr i = Some (g, ONamed n) ->
  nth_error (run body (init_state init) tr) i = Some (VDec (spec_named init (map snd (firstn i tr)) n)).
Proof. exact merge_named. Qed.
Print Assumptions c17_named.

(* ... and, when only non-empty decorations are ever registered, it is Empty
   exactly for a name never registered and not built in. *)
Theorem c17_named_empty_iff : forall init ops n,
  (forall m d, In (OReg m d) ops -> d <> DEmpty) ->
  (forall m d, In (m, d) init -> d <> DEmpty) ->
  (spec_named init ops n = DEmpty <-> ~ registered init ops n).
Proof. exact spec_named_empty_iff. Qed.
Print Assumptions c17_named_empty_iff.

(* A listing is sorted, duplicate-free and holds exactly the names registered
   so far, all initial (built-in) names included, in every interleaving. *)
Theorem c17_names : forall body init (progs : list (list (nat * op))) tr,
  NoDup (map fst init) -> is_merge progs tr -> forall i g,
  nth_error tr i = Some (g, ONames) ->
  exists l, nth_error (run body (init_state init) tr) i = Some (VNames l)
    /\ Sorted bytes_le l /\ NoDup l
    /\ forall n, In n l <-> registered init (map snd (firstn i tr)) n.
Proof. exact merge_names. Qed.
Print Assumptions c17_names.

(* Fails closed: an unknown name makes SetDecorationNamed report an error and
   leaves a table that renders to ("", error) whatever the renderer. *)
Theorem c17_closed : forall reg n t,
  named reg n = DEmpty ->
  snd (set_decoration_named reg n t) = true
  /\ forall body, text_render body (fst (set_decoration_named reg n t)) = Ok ([], true).
Proof. exact closed_one. Qed.
Print Assumptions c17_closed.

(* ... and in a history: the failed call shows the error and an empty render,
   and every later render of that table (the k-th this goroutine made) is
   ("", error) too, whatever anybody registers in between, for as long as the
   goroutine itself does not give that table a decoration again
   ([retargets k o]: o is SetDecorationNamed / SetDecoration on table k). *)
Theorem c17_closed_history : forall body init (progs : list (list (nat * op))) tr,
  is_merge progs tr -> forall i g n,
  nth_error tr i = Some (g, OSet n) ->
  spec_named init (map snd (firstn i tr)) n = DEmpty ->
  nth_error (run body (init_state init) tr) i = Some (VSet true (Ok ([], true)))
  /\ forall j k, i < j -> nth_error tr j = Some (g, ORender k) ->
       k = length (tab_decs init g (firstn i tr)) ->
       (forall m o, i < m < j -> nth_error tr m = Some (g, o) -> retargets k o = false) ->
       nth_error (run body (init_state init) tr) j = Some (VRender (Ok ([], true))).
Proof. exact merge_closed. Qed.
Print Assumptions c17_closed_history.

(* The same through auto.New(n) for a dot-free n naming no sub-package (which
   is texttable.Wrap + SetDecorationNamed(n), Props/C19.v c19_plain_is_set):
   auto drops the error, the table still refuses to render - an unknown name
   never falls back to some registered decoration, however similar its name. *)
Theorem c17_closed_auto : forall body init (progs : list (list (nat * op))) tr,
  is_merge progs tr -> forall i g n,
  nth_error tr i = Some (g, OAutoNew n) ->
  spec_named init (map snd (firstn i tr)) n = DEmpty ->
  nth_error (run body (init_state init) tr) i = Some (VRender (Ok ([], true)))
  /\ forall j k, i < j -> nth_error tr j = Some (g, ORender k) ->
       k = length (tab_decs init g (firstn i tr)) ->
       (forall m o, i < m < j -> nth_error tr m = Some (g, o) -> retargets k o = false) ->
       nth_error (run body (init_state init) tr) j = Some (VRender (Ok ([], true))).
Proof. exact merge_closed_auto. Qed.
Print Assumptions c17_closed_auto.

(* Selecting by name on a table that already exists - whatever it holds (an
   explicitly set usable decoration, the result of an earlier selection by the
   very same name) - is a fresh lookup: the result is that of the LATEST
   registration of the name at that moment, an error and a refusing table if
   there is none (spec_render body DEmpty = Ok ([], true)), and later renders
   show exactly that decoration until the goroutine sets another one. *)
Theorem c17_reselect : forall body init (progs : list (list (nat * op))) tr,
  is_merge progs tr -> forall i g k n,
  nth_error tr i = Some (g, OReSet k n) ->
  k < length (tab_decs init g (firstn i tr)) ->
  let d := spec_named init (map snd (firstn i tr)) n in
  nth_error (run body (init_state init) tr) i = Some (VSet (dec_is_empty d) (spec_render body d))
  /\ forall j, i < j -> nth_error tr j = Some (g, ORender k) ->
       (forall m o, i < m < j -> nth_error tr m = Some (g, o) -> retargets k o = false) ->
       nth_error (run body (init_state init) tr) j = Some (VRender (spec_render body d)).
Proof. exact merge_reset. Qed.
Print Assumptions c17_reselect.

(* After all goroutines are done, a name holds the last write of one of the
   programs (DESIGN 13.13), or its initial content if nobody wrote it.
   Partial: atomic steps are the model's; see the header. *)
Theorem c17_final_partial : forall body init (progs : list (list (nat * op))) tr n,
  is_merge progs tr ->
  let d := named (g_reg (final body (init_state init) tr)) n in
  (exists p, In p progs /\ last_reg (map snd p) n = Some d)
  \/ ((forall p, In p progs -> last_reg (map snd p) n = None) /\ d = init_named init n).
Proof. exact merge_final. Qed.
Print Assumptions c17_final_partial.

(* The oracle used on sequential runs of the implementation (Run/C17Run.v,
   [seq_ok]: every observation recomputed from the history) accepts the model
   on every history. *)
Theorem c17_model_ok : forall body init,
  NoDup (map fst init) -> forall tr, seq_ok body init tr (run body (init_state init) tr) = true.
Proof. exact model_seq_ok. Qed.
Print Assumptions c17_model_ok.

(* The runtime checker of time-stamped concurrent histories never rejects a
   linearizable one: if the events can be put in a sequence that respects real
   time ([rt_ok]) and in which every result is the sequential model's
   ([legal]), [C17_obs_ok] says true. *)
Theorem c17_obs_sound : forall body init,
  NoDup (map fst init) -> forall H,
  stamps_wf H -> linearizable body init H -> C17_obs_ok body init H = true.
Proof. exact obs_sound. Qed.
Print Assumptions c17_obs_sound.

(* Round trip, for EVERY name (a name is any byte string: nothing depends on
   its length or content): once RegisterDecorationName(n, d) is in the history
   and no registration of n lies between it and a later operation, that
   operation - by any goroutine, in every interleaving - sees d: Named returns
   it, SetDecorationNamed / auto.New select it (error exactly when d is the
   empty decoration), and the listing contains n. *)
Theorem c17_roundtrip : forall body init (progs : list (list (nat * op))) tr,
  is_merge progs tr -> forall i j g n d,
  i < j ->
  nth_error tr i = Some (g, OReg n d) ->
  (forall m g' d', i < m < j -> nth_error tr m <> Some (g', OReg n d')) ->
  forall g',
    (nth_error tr j = Some (g', ONamed n) ->
       nth_error (run body (init_state init) tr) j = Some (VDec d))
 /\ (nth_error tr j = Some (g', OSet n) ->
       nth_error (run body (init_state init) tr) j = Some (VSet (dec_is_empty d) (spec_render body d)))
 /\ (nth_error tr j = Some (g', OAutoNew n) ->
       nth_error (run body (init_state init) tr) j = Some (VRender (spec_render body d)))
 /\ (NoDup (map fst init) -> nth_error tr j = Some (g', ONames) ->
       exists l, nth_error (run body (init_state init) tr) j = Some (VNames l) /\ In n l).
Proof. exact roundtrip. Qed.
Print Assumptions c17_roundtrip.

(* Names are exact: what a lookup of n gives depends on the registrations of
   exactly n (the same bytes) and on nothing else in the history - no other
   name, however similar (same length, a prefix, one byte off), can stand in
   for it or hide it. *)
Theorem c17_name_exact : forall init ops n,
  spec_named init ops n = spec_named init (filter (is_reg_of n) ops) n
  /\ forall o, is_reg_of n o = true <-> exists d, o = OReg n d.
Proof. exact name_exact. Qed.
Print Assumptions c17_name_exact.

(* Locality: what goroutine g does and sees ([view g]: its lookups, listings,
   selections by name and every render of its own tables, in order) in any
   interleaving is exactly what it does and sees in the history from which
   every operation of every other goroutine has been deleted except their
   registrations ([concerns g]).  Goroutines share nothing but the content of
   the registry: nobody's render, lookup or listing changes anything for
   anybody else.  (For the Go code this is the absence of shared mutable state
   in the renderer and the registry's readers - validated by the -race runs on
   tables of the goroutines' own, harness/c17_r6.go.) *)
Theorem c17_local : forall body init (progs : list (list (nat * op))) tr g,
  is_merge progs tr ->
  view g tr (run body (init_state init) tr)
  = view g (filter (concerns g) tr) (run body (init_state init) (filter (concerns g) tr)).
Proof. exact local. Qed.
Print Assumptions c17_local.

(* non-vacuity: two goroutines race to register "x" (65 vs 66) while a third
   looks it up; the overlapping history is accepted, the same history with a
   stale read after both registrations ended is rejected; and a sequential run *)
Local Open Scope N_scope.
Example c17_example :
  let x := [120] in
  let body := fun d => match d with DVal id true => Ok [id] | _ => Err end in
  let init := [([110;111;110;101], DVal 2 true)] in
  let H r := [ Ev 0 (OReg x (DVal 65 true)) VUnit 1 4; Ev 1 (OReg x (DVal 66 true)) VUnit 2 6;
               Ev 2 (ONamed x) (VDec r) 7 8; Ev 2 ONames (VNames [[110;111;110;101]; x]) 9 10;
               Ev 2 (OSet [121]) (VSet true (Ok ([], true))) 11 12 ] in
  C17_obs_ok body init (H (DVal 65 true)) = true
  /\ C17_obs_ok body init (H (DVal 66 true)) = true
  /\ C17_obs_ok body init (H DEmpty) = false
  /\ C17_obs_ok body init (H (DVal 65 true) ++ [Ev 3 (OReg x (DVal 67 true)) VUnit 13 14; Ev 2 (ONamed x) (VDec (DVal 65 true)) 15 16]) = false
  /\ run body (init_state init) [(0%nat, OSet x); (0%nat, OReg x (DVal 65 true)); (0%nat, ORender 0%nat); (0%nat, ONamed x)]
     = [VSet true (Ok ([], true)); VUnit; VRender (Ok ([], true)); VDec (DVal 65 true)]
  /\ run body (init_state init) [(0%nat, OSet x); (0%nat, OSetDec 0%nat (DVal 66 true)); (0%nat, OReSet 0%nat x); (0%nat, ORender 0%nat);
                                  (0%nat, OReg x (DVal 65 true)); (0%nat, OReSet 0%nat x); (0%nat, OReg x (DVal 67 true)); (0%nat, OReSet 0%nat x); (0%nat, OStyles)]
     = [VSet true (Ok ([], true)); VRender (Ok ([66], false)); VSet true (Ok ([], true)); VRender (Ok ([], true));
        VUnit; VSet false (Ok ([65], false)); VUnit; VSet false (Ok ([67], false));
        VNames [[99;115;118]; [104;116;109;108]; [106;115;111;110]; [109;97;114;107;100;111;119;110]; [110;111;110;101]; x]].
Proof. cbv zeta. repeat split; vm_compute; reflexivity. Qed.


(* non-vacuity (round 6): a 70-byte name and the 69-byte name that is its
   prefix; goroutine 1 registers the long one, goroutine 0 looks both up,
   selects the long one and renders while goroutine 2 renders and lists in
   between; goroutine 0's view is the same without goroutine 2's operations *)
Example c17_example_r6 :
  let body := fun d => match d with DVal id true => Ok [id] | _ => Err end in
  let long := repeat 97 70 in
  let short := repeat 97 69 in
  let tr := [(0%nat, ONamed long); (1%nat, OReg long (DVal 65 true)); (2%nat, OSet long); (0%nat, ONamed long);
             (2%nat, ONames); (0%nat, ONamed short); (0%nat, OSet long); (2%nat, ORender 0%nat); (0%nat, ORender 0%nat)] in
  view 0 tr (run body (init_state []) tr)
  = [(ONamed long, VDec DEmpty); (ONamed long, VDec (DVal 65 true)); (ONamed short, VDec DEmpty);
     (OSet long, VSet false (Ok ([65], false))); (ORender 0%nat, VRender (Ok ([65], false)))]
  /\ filter (concerns 0) tr
     = [(0%nat, ONamed long); (1%nat, OReg long (DVal 65 true)); (0%nat, ONamed long); (0%nat, ONamed short);
        (0%nat, OSet long); (0%nat, ORender 0%nat)]
  /\ spec_named [] (map snd tr) long = DVal 65 true /\ spec_named [] (map snd tr) short = DEmpty.
Proof. cbv zeta. repeat split; vm_compute; reflexivity. Qed.
