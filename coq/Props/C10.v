(* C10 - a table renders the same whatever wrapper created it or is wrapped
   around it.  Only statements; proofs in Proofs/WrapProofs.v. *)
From Tab Require Import Model.Wrap Model.Csv Proofs.WrapProofs Model.WrapObj Proofs.WrapObjProofs.
From Tab Require Import Model.WrapCb Proofs.WrapCbProofs Proofs.WrapObjR6Proofs.
From Tab Require Model.Markdown Model.Json Model.Text Model.Decoration Model.Html.

(* For every choice of renderer bodies (out / degraded), every start state and
   every history of building, wrapping (any kinds, any nesting, any creation
   path - X.New() is New followed by X.Wrap) and rendering: a render through a
   wrapper of kind k yields exactly format k's output for the current view. *)
Theorem c10_render_is_out : forall (U : Type) out degraded (ops : list (op U)) (s : tstate U) k,
  wrapped k ops -> render out degraded (run s ops) k = out k (st_view (run s ops)).
Proof. exact render_is_out. Qed.
Print Assumptions c10_render_is_out.

(* hence two histories that build the same content render identically *)
Theorem c10_path_independent : forall (U : Type) out degraded (ops1 ops2 : list (op U)) v u k,
  wrapped k ops1 -> wrapped k ops2 ->
  fst (last_build U v u ops1) = fst (last_build U v u ops2) ->
  render out degraded (run (init v u) ops1) k = render out degraded (run (init v u) ops2) k.
Proof. exact path_independent. Qed.
Print Assumptions c10_path_independent.

(* instance: with the CSV model as the CSV body, every path gives csv_render of the view *)
Theorem c10_csv : forall (U : Type) out degraded (ops : list (op U)) s,
  wrapped KCsv ops ->
  render (fun k v => match k with KCsv => csv_render v | _ => out k v end) degraded (run s ops) KCsv
  = csv_render (st_view (run s ops)).
Proof. intros. rewrite render_is_out by assumption. reflexivity. Qed.
Print Assumptions c10_csv.

(* instance: ALL five concrete renderer models as the bodies (any width
   measure W, any encoding/json oracle, any decoration, any HTML settings):
   whatever the creation path and nesting, a render of format k is that
   format's model applied to the current view *)
Definition concrete_out (W : bytes -> nat) (strenc : bytes -> bytes) (d : Decoration.decoration)
           (id cls cap : bytes) (have : bool) (rcs : list bytes) (k : kind) (v : view) : res bytes :=
  match k with
  | KCsv => csv_render v
  | KHtml => Html.html_render (Html.mkHtmlIn id cls cap have rcs v)
  | KJson => Json.json_render strenc v
  | KMd => Markdown.md_render W v
  | KText => Text.text_render W d v
  end.

Theorem c10_all_formats : forall W strenc d id cls cap have rcs (U : Type) degraded (ops : list (op U)) s k,
  wrapped k ops ->
  render (concrete_out W strenc d id cls cap have rcs) degraded (run s ops) k
  = concrete_out W strenc d id cls cap have rcs k (st_view (run s ops)).
Proof. intros. apply render_is_out. assumption. Qed.
Print Assumptions c10_all_formats.

(* ---- wrappers as mutable, caller-visible OBJECTS (Model/WrapObj.v): any
   options type O, any default options per kind, any renderer bodies taking the
   options of the wrapper rendered through; histories of building, in-place
   item changes (PUpdate), Wrap / auto.Wrap / New (a new object each time),
   option setting by whoever holds an object (PTune), renders through objects
   and through the package-level / auto functions (PFresh). *)

(* a render through wrapper object i is its kind's output under ITS OWN options
   for the current view *)
Theorem c10_obj_render_is_out : forall (U O : Type) (dflt : kind -> O) out degraded (ps : list (oop U O)) v u i w,
  nth_error (o_heap (orun dflt (oinit v u) ps)) i = Some w ->
  orender out degraded (orun dflt (oinit v u) ps) i
  = Some (out (w_kind w) (w_opts w) (st_view (o_tab (orun dflt (oinit v u) ps)))).
Proof. exact obj_render_is_out. Qed.
Print Assumptions c10_obj_render_is_out.

(* package-level Render/RenderTo and auto.Render/RenderTo (Wrap, then Render of
   the new object): the kind's output under the DEFAULT options, in every state *)
Theorem c10_fresh_is_default : forall (U O : Type) (dflt : kind -> O) out degraded (s : ostate U O) k,
  fresh_render dflt out degraded s k = Some (out k (dflt k) (st_view (o_tab s))).
Proof. exact fresh_is_default. Qed.
Print Assumptions c10_fresh_is_default.

(* a wrapper whose options are the defaults, the package-level functions and
   auto agree after every history *)
Theorem c10_entry_points_agree : forall (U O : Type) (dflt : kind -> O) out degraded (ps : list (oop U O)) v u i w,
  nth_error (o_heap (orun dflt (oinit v u) ps)) i = Some w -> w_opts w = dflt (w_kind w) ->
  orender out degraded (orun dflt (oinit v u) ps) i
  = fresh_render dflt out degraded (orun dflt (oinit v u) ps) (w_kind w).
Proof. exact entry_points_agree. Qed.
Print Assumptions c10_entry_points_agree.

(* what OTHER holders set on THEIR wrapper objects is invisible through
   wrapper i: dropping all those settings from the history changes nothing *)
Theorem c10_others_options_invisible : forall (U O : Type) (dflt : kind -> O) out degraded (ps : list (oop U O)) v u i,
  orender out degraded (orun dflt (oinit v u) ps) i
  = orender out degraded (orun dflt (oinit v u) (forget i ps)) i.
Proof. exact others_options_invisible. Qed.
Print Assumptions c10_others_options_invisible.

(* an item changed in place and its cell updated: every wrapper object, made
   before or after the cell was added, rendered before or not, shows the new
   view; nothing else the caller can see changes *)
Theorem c10_update_shows : forall (U O : Type) (dflt : kind -> O) out degraded (ps : list (oop U O)) v u v' i w,
  nth_error (o_heap (orun dflt (oinit v u) ps)) i = Some w ->
  orender out degraded (ostep dflt (orun dflt (oinit v u) ps) (PUpdate v')) i = Some (out (w_kind w) (w_opts w) v')
  /\ st_user (o_tab (ostep dflt (orun dflt (oinit v u) ps) (PUpdate v'))) = st_user (o_tab (orun dflt (oinit v u) ps)).
Proof. exact update_shows. Qed.
Print Assumptions c10_update_shows.

(* non-vacuity: core table, wrapped as csv then text then markdown, rendered as text *)
Example c10_example :
  let ops : list (op unit) := [OWrap KCsv; OBuild (mkView 1 None [] [None; None] [None; None]) tt; OWrap KText; ORender KCsv; OWrap KMd] in
  wrapped KText ops /\
  render (fun _ _ => Ok [1%N]) (fun _ _ _ => Ok [2%N]) (run (init (mkView 0 None [] [None] [None]) tt) ops) KText = Ok [1%N].
Proof. cbv zeta. split; [right; right; left; reflexivity | vm_compute; reflexivity]. Qed.

(* non-vacuity, objects: a text wrapper made around the empty table and rendered,
   a second one re-configured by its holder, rows added, an item changed in
   place: the first wrapper shows the new view under the default options, the
   second under its own, and the package-level function agrees with the first *)
Example c10_example_objects :
  let v0 := mkView 0 None [] [None] [None] in
  let v1 := mkView 1 None [] [None; None] [None; None] in
  let ps : list (oop unit nat) := [PWrap KText; PRender 0; PWrap KText; PTune 1 7; PBuild v0 tt; PFresh KMd; PUpdate v1] in
  let outf := fun (k : kind) (o : nat) (v : view) => Ok [N.of_nat o; N.of_nat (v_ncols v)] in
  let s := orun (fun _ => 0) (oinit v0 tt) ps in
  orender outf (fun _ _ _ _ => Err) s 0 = Some (Ok [0%N; 1%N]) /\
  orender outf (fun _ _ _ _ => Err) s 1 = Some (Ok [7%N; 1%N]) /\
  fresh_render (fun _ => 0) outf (fun _ _ _ _ => Err) s KText = Some (Ok [0%N; 1%N]).
Proof. vm_compute. repeat split. Qed.

(* ---- round 6: the application's own callbacks in the table's callback lists
   (Model/WrapCb.v: the list walked entry by entry as invokePropertyCallbacks
   walks it - an error is recorded and the walk carries on), and a wrapper
   object's own option history. *)

(* the model with observers refines Model/Wrap.v under erasure of the observers *)
Theorem c10_observers_refine : forall (U E : Type) (ops : list (xop U E)) (s : xstate U E),
  erase_state (xrun s ops) = run (erase_state s) (erase ops).
Proof. exact refines. Qed.
Print Assumptions c10_observers_refine.

(* a render through a wrapper of kind k is format k's output for the current
   view wherever the application's observers were registered relative to the
   wrappers' measuring callbacks and whatever they report *)
Theorem c10_render_is_out_with_observers : forall (U E : Type) out degraded (ops : list (xop U E)) (s : xstate U E) k,
  wrapped k (erase ops) ->
  xrender out degraded (xrun s ops) k = out k (x_view (xrun s ops)).
Proof. exact x_render_is_out. Qed.
Print Assumptions c10_render_is_out_with_observers.

(* histories that differ only in observers (which, how many, registered when,
   reporting or not) render identically *)
Theorem c10_observers_invisible : forall (U E : Type) out degraded (ops1 ops2 : list (xop U E)) v u k,
  erase ops1 = erase ops2 ->
  xrender out degraded (xrun (xinit v u) ops1) k = xrender out degraded (xrun (xinit v u) ops2) k.
Proof. exact observers_invisible. Qed.
Print Assumptions c10_observers_invisible.

(* every pass records every observer's report, in list order *)
Theorem c10_pass_records_all : forall (U E : Type) (s : xstate U E),
  x_errs (xinvoke s) = x_errs s ++ reports (x_view s) (x_cbs s).
Proof. exact pass_records_all. Qed.
Print Assumptions c10_pass_records_all.

(* a wrapper re-configured by its holder after any history (renders included)
   renders its kind's output under the options it has now *)
Theorem c10_retune_last_wins : forall (U O : Type) (dflt : kind -> O) out degraded (ps : list (oop U O)) v u i w o,
  nth_error (o_heap (orun dflt (oinit v u) ps)) i = Some w ->
  orender out degraded (ostep dflt (orun dflt (oinit v u) ps) (PTune i o)) i
  = Some (out (w_kind w) o (st_view (o_tab (orun dflt (oinit v u) ps)))).
Proof. exact retune_last_wins. Qed.
Print Assumptions c10_retune_last_wins.

(* and agrees with a brand-new wrapper of its kind given the same options *)
Theorem c10_retuned_agrees_with_new : forall (U O : Type) (dflt : kind -> O) out degraded (ps : list (oop U O)) v u i w o,
  let s := orun dflt (oinit v u) ps in
  nth_error (o_heap s) i = Some w ->
  orender out degraded (ostep dflt s (PTune i o)) i
  = orender out degraded (ostep dflt (ostep dflt s (PWrap (w_kind w))) (PTune (length (o_heap s)) o)) (length (o_heap s)).
Proof. exact retuned_agrees_with_new. Qed.
Print Assumptions c10_retuned_agrees_with_new.

(* non-vacuity, observers: an observer that reports on every view is registered
   on the core table BEFORE the text wrapper's measuring callback, a second one
   after it: the text render is the format's output (not the degraded one), and
   one pass records both reports *)
Example c10_example_observers :
  let v1 := mkView 1 None [] [None; None] [None; None] in
  let ops : list (xop unit nat) := [XObserve (fun _ => Some 7); XBuild v1 tt; XWrap KText; XObserve (fun v => Some (v_ncols v))] in
  let s := xrun (xinit (mkView 0 None [] [None] [None]) tt) ops in
  xrender (fun _ _ => Ok [1%N]) (fun _ _ _ => Ok [2%N]) s KText = Ok [1%N] /\
  x_errs (xinvoke s) = [7; 1].
Proof. vm_compute. split; reflexivity. Qed.

(* non-vacuity, option history: a text wrapper renders, is given options 5,
   renders, is given options 9: it shows 9, as a new wrapper given 9 does *)
Example c10_example_retune :
  let v0 := mkView 0 None [] [None] [None] in
  let ps : list (oop unit nat) := [PWrap KText; PRender 0; PTune 0 5; PRender 0; PTune 0 9; PWrap KText; PTune 1 9] in
  let outf := fun (k : kind) (o : nat) (v : view) => Ok [N.of_nat o] in
  let s := orun (fun _ => 0) (oinit v0 tt) ps in
  orender outf (fun _ _ _ _ => Err) s 0 = Some (Ok [9%N]) /\
  orender outf (fun _ _ _ _ => Err) s 1 = Some (Ok [9%N]).
Proof. vm_compute. split; reflexivity. Qed.
