(* C10 - a table renders the same whatever wrapper created it or is wrapped
   around it.  Only statements; proofs in Proofs/WrapProofs.v. *)
From Tab Require Import Model.Wrap Model.Csv Proofs.WrapProofs.
From Tab Require Model.Markdown Model.Json Model.Text Model.Decoration Model.Html.

(* For every choice of renderer bodies (out / degraded), every start state and
   every history of building, wrapping (any kinds, any nesting, any creation
   path - X.New() is New followed by X.Wrap) and rendering: a render through a
   wrapper of kind k yields exactly format k's output for the current view. *)
Theorem c10_render_is_out : forall (U : Type) out degraded (ops : list (op U)) (s : tstate U) k,
  wrapped k ops -> render out degraded (run s ops) k = out k (st_view (run s ops)).
Proof. exact render_is_out. Qed.
Print Assumptions c10_render_is_out.

(* hence two histories that build the same content render identically *)
Theorem c10_path_independent : forall (U : Type) out degraded (ops1 ops2 : list (op U)) v u k,
  wrapped k ops1 -> wrapped k ops2 ->
  fst (last_build U v u ops1) = fst (last_build U v u ops2) ->
  render out degraded (run (init v u) ops1) k = render out degraded (run (init v u) ops2) k.
Proof. exact path_independent. Qed.
Print Assumptions c10_path_independent.

(* instance: with the CSV model as the CSV body, every path gives csv_render of the view *)
Theorem c10_csv : forall (U : Type) out degraded (ops : list (op U)) s,
  wrapped KCsv ops ->
  render (fun k v => match k with KCsv => csv_render v | _ => out k v end) degraded (run s ops) KCsv
  = csv_render (st_view (run s ops)).
Proof. intros. rewrite render_is_out by assumption. reflexivity. Qed.
Print Assumptions c10_csv.

(* instance: ALL five concrete renderer models as the bodies (any width
   measure W, any encoding/json oracle, any decoration, any HTML settings):
   whatever the creation path and nesting, a render of format k is that
   format's model applied to the current view *)
Definition concrete_out (W : bytes -> nat) (strenc : bytes -> bytes) (d : Decoration.decoration)
           (id cls cap : bytes) (have : bool) (rcs : list bytes) (k : kind) (v : view) : res bytes :=
  match k with
  | KCsv => csv_render v
  | KHtml => Html.html_render (Html.mkHtmlIn id cls cap have rcs v)
  | KJson => Json.json_render strenc v
  | KMd => Markdown.md_render W v
  | KText => Text.text_render W d v
  end.

Theorem c10_all_formats : forall W strenc d id cls cap have rcs (U : Type) degraded (ops : list (op U)) s k,
  wrapped k ops ->
  render (concrete_out W strenc d id cls cap have rcs) degraded (run s ops) k
  = concrete_out W strenc d id cls cap have rcs k (st_view (run s ops)).
Proof. intros. apply render_is_out. assumption. Qed.
Print Assumptions c10_all_formats.

(* non-vacuity: core table, wrapped as csv then text then markdown, rendered as text *)
Example c10_example :
  let ops : list (op unit) := [OWrap KCsv; OBuild (mkView 1 None [] [None; None] [None; None]) tt; OWrap KText; ORender KCsv; OWrap KMd] in
  wrapped KText ops /\
  render (fun _ _ => Ok [1%N]) (fun _ _ _ => Ok [2%N]) (run (init (mkView 0 None [] [None] [None]) tt) ops) KText = Ok [1%N].
Proof. cbv zeta. split; [right; right; left; reflexivity | vm_compute; reflexivity]. Qed.
