(* C06 - HTML output has a fixed tag skeleton and cell text can never become
   markup.  Only statements here; proofs live in Proofs/HtmlProofs.v.

   Reading: x : html_in is one Render() of a wrapper (Id, Class, Caption,
   whether a row-class generator is set, the values it returns call by call,
   and the table as a renderer sees it).  spec_of x is the same data as the
   property names it (supplied strings, header texts, rows).  rc_fit x says the
   generator script has a value for every call (one per emitted row).
   tokenize is the strict lexer + strict entity decoder + comparison form of
   Spec/HtmlTok.v; skeleton is the expected token list built from the inputs. *)
From Tab Require Import Model.Html Spec.HtmlTok Proofs.HtmlProofs.

(* The output is exactly the skeleton: table (class, id when non-empty, in that
   order), optional caption, thead, one header tr with a th per header cell,
   tbody, one tr per non-separator row in order with a td per cell, the closing
   tags, nothing else but white space between tags; every th / td / caption
   text and every attribute value entity-decodes to exactly the supplied
   string.  All NUL-free byte strings (invalid UTF-8 included), all shapes. *)
Theorem c06_tokens : forall x, rc_fit x -> html_nul_free x ->
  exists out, html_render x = Ok out /\ tokenize out = Some (skeleton (spec_of x)).
Proof. exact html_tokens. Qed.
Print Assumptions c06_tokens.

(* Without the NUL guard: the same, with every NUL read back as U+FFFD. *)
Theorem c06_tokens_nul : forall x, rc_fit x ->
  exists out, html_render x = Ok out /\ tokenize out = Some (skeleton (spec_nul_subst (spec_of x))).
Proof. exact html_tokens_general. Qed.
Print Assumptions c06_tokens_nul.

(* The text escaper and the attribute escaper are inverted by the decoder and
   never emit < > or a quote. *)
Theorem c06_decode : forall s, nul_free s ->
  (decode (html_escape s) = Some s /\ markup_free (html_escape s))
  /\ (decode (attr_escape s) = Some s /\ markup_free (attr_escape s)).
Proof. exact html_decode_roundtrip. Qed.
Print Assumptions c06_decode.

Theorem c06_decode_nul : forall s,
  decode (html_escape s) = Some (nul_subst s) /\ decode (attr_escape s) = Some (nul_subst s)
  /\ markup_free (html_escape s) /\ markup_free (attr_escape s).
Proof. exact html_decode_general. Qed.
Print Assumptions c06_decode_nul.

(* The generator is called once per emitted row: with 0 for the header row,
   then with the 1-based position (separators counted) of each non-separator
   row, in order; not at all when none is set. *)
Theorem c06_rowclass_calls : forall x, rc_fit x -> html_rc_calls x = Ok (expected_calls (spec_of x)).
Proof. exact html_calls. Qed.
Print Assumptions c06_rowclass_calls.

Theorem c06_rowclass_unset : forall x, h_have_rc x = false -> html_rc_calls x = Ok [].
Proof. exact html_calls_unset. Qed.
Print Assumptions c06_rowclass_unset.

(* what positions_from lists: exactly i + k for the indices k of non-separator
   rows, strictly increasing (so no row is visited twice) *)
Theorem c06_positions : forall i rows n,
  In n (positions_from i rows) <-> exists k cells, nth_error rows k = Some (Some cells) /\ n = i + k.
Proof. exact positions_from_spec. Qed.
Print Assumptions c06_positions.

Theorem c06_positions_increasing : forall i rows,
  Sorted.StronglySorted lt (positions_from i rows) /\ Forall (fun n => i <= n) (positions_from i rows).
Proof. exact positions_from_sorted. Qed.
Print Assumptions c06_positions_increasing.

(* Rendering always succeeds (no error, no panic), whatever the table. *)
Theorem c06_renders : forall x, rc_fit x -> exists r, html_exec x = Ok r.
Proof. exact html_no_panic. Qed.
Print Assumptions c06_renders.

(* The run-time oracle means what it says, and accepts everything the model
   produces (so a disagreement between oracle and implementation is a
   disagreement between implementation and theorem). *)
Theorem c06_ok_sound : forall y out calls,
  html_ok_b y out calls = true
  <-> tokenize out = Some (skeleton (spec_nul_subst y)) /\ calls = expected_calls y.
Proof. exact html_ok_b_spec. Qed.
Print Assumptions c06_ok_sound.

Theorem c06_ok_model : forall x out calls, rc_fit x ->
  html_exec x = Ok (out, calls) -> html_ok_b (spec_of x) out calls = true.
Proof. exact html_ok_model. Qed.
Print Assumptions c06_ok_model.

(* The spec's own parsers are faithful.  Whatever the lexer accepts is, byte
   for byte, the printed form of the tokens it returns (nothing skipped,
   reordered or invented: an accepted output has < and > only as tag
   delimiters and a double quote only around an attribute value); whatever the
   decoder accepts is a sequence of plain bytes and of the six entities. *)
Theorem c06_lexer_faithful : forall out ts, lex out = Some ts -> ser ts = out.
Proof. exact lex_sound. Qed.
Print Assumptions c06_lexer_faithful.

Theorem c06_decoder_faithful : forall raw d, decode raw = Some d -> encodes raw d.
Proof. exact decode_sound. Qed.
Print Assumptions c06_decoder_faithful.

(* The decoder knows exactly the entities the escaper emits, no more. *)
Theorem c06_entities_exact : forall e c, In (e, c) entities <-> esc_byte c = 38%N :: e.
Proof. exact entities_exact. Qed.
Print Assumptions c06_entities_exact.

(* non-vacuity: a table with a separator, a zero-cell row, hostile texts
   (</td><script>, entity look-alikes, quotes, invalid UTF-8), id / class /
   caption and a generator returning an attribute break-out attempt *)
Local Open Scope N_scope.
Example c06_example :
  let c s := mkVCell s false None 0 0 false in
  let v := mkView 2%nat (Some [c [60; 47; 116; 100; 62]])
             [Some [c [38; 97; 109; 112; 59]; c [255; 39]]; None; Some []] [None; None; None] [None; None; None] in
  let x := mkHtmlIn [34; 62] [97; 32; 98] [60; 98; 62] true [[34; 32; 120; 61; 34]; [43]; []] v in
  rc_fit x /\ html_nul_free x
  /\ html_rc_calls x = Ok [0; 1; 3]%nat
  /\ exists out, html_render x = Ok out /\ tokenize out = Some
      [TOpen Names.table [(Names.class, [97; 32; 98]); (Names.id, [34; 62])];
       TOpen Names.caption []; TText [60; 98; 62]; TClose Names.caption;
       TOpen Names.thead [];
       TOpen Names.tr [(Names.class, [34; 32; 120; 61; 34])];
       TOpen Names.th []; TText [60; 47; 116; 100; 62]; TClose Names.th;
       TClose Names.tr; TClose Names.thead; TOpen Names.tbody [];
       TOpen Names.tr [(Names.class, [43])];
       TOpen Names.td []; TText [38; 97; 109; 112; 59]; TClose Names.td;
       TOpen Names.td []; TText [255; 39]; TClose Names.td;
       TClose Names.tr;
       TOpen Names.tr [(Names.class, [])]; TClose Names.tr;
       TClose Names.tbody; TClose Names.table].
Proof.
  cbv zeta. split; [|split; [|split]].
  - intros _. vm_compute. repeat constructor.
  - unfold html_nul_free, spec_nul_free. vm_compute. repeat constructor; discriminate.
  - vm_compute. reflexivity.
  - eexists. split; vm_compute; reflexivity.
Qed.

(* the tokenizer is strict: corrupted documents are refused or read as
   something else.  <td>a</td> stands for any cell. *)
Example c06_strict :
  tokenize (doc [60; 116; 100; 62; 97; 60; 47; 116; 100; 62]) <> None           (* <td>a</td> *)
  /\ tokenize (doc [60; 116; 100; 97; 60; 47; 116; 100; 62]) = None             (* <tda</td>: dropped > *)
  /\ tokenize (doc [60; 116; 100; 62; 97; 62; 60; 47; 116; 100; 62]) = None     (* raw > in text *)
  /\ tokenize (doc [60; 116; 100; 62; 34; 60; 47; 116; 100; 62]) = None         (* raw quote in text *)
  /\ tokenize (doc [60; 116; 100; 62; 38; 60; 47; 116; 100; 62]) = None         (* bare ampersand *)
  /\ tokenize (doc [60; 116; 100; 62; 38; 108; 116; 60; 47; 116; 100; 62]) = None   (* &lt without ; *)
  /\ tokenize (doc [60; 116; 100; 62; 38; 35; 54; 48; 59; 60; 47; 116; 100; 62]) = None (* &#60; is not emitted by the escaper *)
  /\ tokenize (doc [60; 116; 100; 32; 32; 120; 61; 34; 34; 62; 60; 47; 116; 100; 62]) = None (* two spaces in a tag *)
  /\ tokenize (doc [60; 116; 100; 32; 120; 61; 39; 39; 62; 60; 47; 116; 100; 62]) = None     (* single-quoted value *)
  /\ tokenize (doc [60; 84; 68; 62; 60; 47; 84; 68; 62]) = None                 (* upper-case name *)
  /\ tokenize (doc [60; 33; 45; 45; 45; 45; 62]) = None                         (* a comment *)
  /\ tokenize (doc [60; 116; 100; 62; 60; 98; 62; 60; 47; 116; 100; 62])
     <> tokenize (doc [60; 116; 100; 62; 38; 108; 116; 59; 98; 38; 103; 116; 59; 60; 47; 116; 100; 62]) (* <b> vs &lt;b&gt; *)
  /\ tokenize (doc [60; 116; 100; 32; 120; 61; 34; 121; 34; 62; 60; 47; 116; 100; 62])
     <> tokenize (doc [60; 116; 100; 62; 60; 47; 116; 100; 62])                 (* an added attribute shows *)
  /\ tokenize (doc [120]) <> tokenize (doc [32])                                (* stray text shows, white space does not *)
  /\ tokenize (doc [10; 32]) = tokenize (doc []).
Proof. vm_compute. repeat split; congruence. Qed.

(* END TO END (Proofs/E2E*.v).  `hview W e json h` is what a renderer sees after
   the history h of public-API calls (Model/Table.v: building calls in any
   interleaving plus column property settings) over ARBITRARY items
   (Model/Cell.v); `twf_hist h`: the building calls form a well-formed history
   (Spec/History.v).  hist_header / hist_rows / hist_records / hist_ncols are
   read off the history alone (Spec/TableHist.v); documented_text is C01's
   text form (Spec/CellText.v). *)
From Tab Require Import Model.Cell Model.Table Spec.TableHist Spec.CellText Proofs.E2EProofs.
From Tab Require Import Proofs.E2EHtml.

(* The skeleton theorem for every table a history can build: the tokens are
   the skeleton over the DOCUMENTED TEXTS of the history's items (header,
   then every row, separators dropped by the skeleton), the wrapper's id,
   class and caption, and the generator's results. *)
Theorem c06_history : forall W e json id cls cap have rcs (h : list top),
  twf_hist h ->
  let x := mkHtmlIn id cls cap have rcs (hview W e json h) in
  rc_fit x -> spec_nul_free (hist_html_spec e id cls cap have rcs h) ->
  exists out, html_render x = Ok out /\ tokenize out = Some (skeleton (hist_html_spec e id cls cap have rcs h)).
Proof. exact html_history. Qed.
Print Assumptions c06_history.

Theorem c06_history_calls : forall W e json id cls cap have rcs (h : list top),
  twf_hist h ->
  let x := mkHtmlIn id cls cap have rcs (hview W e json h) in
  rc_fit x -> html_rc_calls x = Ok (expected_calls (hist_html_spec e id cls cap have rcs h)).
Proof. exact html_history_calls. Qed.
Print Assumptions c06_history_calls.

(* THE WRAPPER AS A LONG-LIVED OBJECT (Model/HtmlWrap.v, Spec/HtmlWrapSpec.v,
   Proofs/HtmlWrapProofs.v).  A history is any sequence of: a table created or
   built further (HTable), html.Wrap (HWrap), a by-value copy of a wrapper
   (HCopy: the copy shares the original's parsed template), the exported Table
   field pointed at another table (HPoint), Id / Class / Caption / the row-class
   generator set again (HConf), a render (HRender) and a render that fails
   part-way (HRenderFails) - over any number of tables and wrappers.  The
   machine keeps what the code keeps (a template parsed at a wrapper's first
   render, whose functions are closures over a wrapper and are registered again
   at every render); hspec_renders reads off the history, with no memory of
   earlier renders, the settings of each rendered wrapper and the view of the
   table it points at, both AS THEY ARE AT THAT RENDER. *)
From Tab Require Import Model.HtmlWrap Spec.HtmlWrapSpec Proofs.HtmlWrapProofs.

(* every render of every history is the template run on the wrapper's current
   settings over the current view of the table it currently points at *)
Theorem c06_wrapper_refines : forall ops, h_outputs ops = map exec_of (hspec_renders ops).
Proof. exact wrapper_refines. Qed.
Print Assumptions c06_wrapper_refines.

(* so whatever was rendered before, through this wrapper or a copy of it, and
   wherever the wrapper pointed then: the k-th render of a history is the fixed
   skeleton over exactly the strings of ITS table and ITS settings, and the
   generator is called with 0 and the positions of that table's rows *)
Theorem c06_wrapper_history : forall ops k cv,
  nth_error (hspec_renders ops) k = Some (Ok cv) -> rc_fit (in_of cv) ->
  exists out calls,
    nth_error (h_outputs ops) k = Some (Ok (out, calls))
    /\ tokenize out = Some (skeleton (spec_nul_subst (spec_of (in_of cv))))
    /\ calls = expected_calls (spec_of (in_of cv)).
Proof. exact wrapper_history. Qed.
Print Assumptions c06_wrapper_history.

(* non-vacuity: one wrapper rendered, pointed at a second table (a separator
   in it) and rendered again, copied by value, the copy pointed back at the
   first table with the generator removed and rendered, the second table built
   further, the original rendered again *)
Example c06_wrapper_example :
  let c s := mkVCell s false None 0 0 false in
  let v0 := mkView 1%nat (Some [c [97]]) [Some [c [98]]] [None; None] [None; None] in
  let v1 := mkView 2%nat (Some [c [99]; c [100]]) [None; Some [c [60]; c [101]]] [None; None; None] [None; None; None] in
  let v1' := mkView 2%nat (Some [c [99]; c [100]]) [None; Some [c [60]; c [101]]; Some []] [None; None; None] [None; None; None] in
  let g := Some [[114]; [115]; [116]] in
  let ops := [HTable 0 v0; HTable 1 v1; HWrap 0; HConf 0 [] [120] [] g; HRender 0;
              HPoint 0 1; HRender 0;
              HCopy 0; HPoint 1 0; HConf 1 [105] [] [] None; HRender 1;
              HTable 1 v1'; HRender 0] in
  hspec_renders ops = [Ok (mkCfg 0 [] [120] [] g, v0); Ok (mkCfg 1 [] [120] [] g, v1);
                       Ok (mkCfg 0 [105] [] [] None, v0); Ok (mkCfg 1 [] [120] [] g, v1')]
  /\ map (fun r => bind r (fun o => Ok (snd o))) (h_outputs ops)
     = [Ok [0; 1]; Ok [0; 2]; Ok []; Ok [0; 2; 3]]%nat
  /\ h_outputs ops = map exec_of (hspec_renders ops).
Proof. cbv zeta. split; [|split]; vm_compute; reflexivity. Qed.

(* THE TEMPLATE ITSELF.  Model/Tpl.v holds the template of html/html.go as a
   value - the tree the library's own parser makes of the string constant, read
   from the source of the repository under test on every run - and an
   interpreter for such trees (text/template's control flow, the wrapper's
   data and FuncMap, html/template's contextual escaping).  The hand-written
   model html_exec, which every theorem above is about, IS the interpretation
   of that tree: for every wrapper setting, row-class script and table. *)
From Tab Require Import Model.Tpl Proofs.TplProofs.

Theorem c06_template_is_model : forall x, tpl_run x model_template = html_exec x.
Proof. exact template_is_model. Qed.
Print Assumptions c06_template_is_model.
