From Tab Require Export Run.Glue Model.Html Spec.HtmlTok Proofs.HtmlProofs Run.TplRun.
From Tab Require Export Model.HtmlWrap Spec.HtmlWrapSpec Proofs.HtmlWrapProofs.

(* what one Render() call was seen to do: the bytes and the row numbers the
   generator was called with *)
Definition c06_obs := res (list N * list nat).

Definition obs_eqb (a b : list N * list nat) : bool :=
  bytes_eqb (fst a) (fst b) && list_eqb Nat.eqb (snd a) (snd b).

(* the property, judged on the implementation's own output: the Coq tokenizer
   reads the bytes back as the skeleton built from the inputs (a NUL in an
   input is expected as U+FFFD, DESIGN 13.5) and the recorded generator calls
   are the expected ones.  html_ok_b and its reading html_ok_b_spec are in
   Proofs/HtmlProofs.v (Props/C06.v: c06_ok_sound, c06_ok_model). *)
Definition C06_tok_ok (x : html_in) (out : list N) : bool :=
  option_eqb toks_eqb (tokenize out) (Some (skeleton (spec_nul_subst (spec_of x)))).

Definition C06_ok (x : html_in) (o : c06_obs) : bool :=
  match o with
  | Ok (out, calls) => html_ok_b (spec_of x) out calls
  | _ => false
  end.

(* ---- spec self-test: corrupted outputs must be refused.  A corruption is
   a splice (position, bytes deleted, bytes inserted). *)
Definition splice := (nat * nat * list N)%type.
Definition apply_splice (out : list N) (c : splice) : list N :=
  let '(p, d, ins) := c in firstn p out ++ ins ++ skipn (p + d) out.

Definition C06_rejects (x : html_in) (o : c06_obs) (cs : list splice) : bool :=
  match o with
  | Ok (out, _) =>
      let want := Some (skeleton (spec_nul_subst (spec_of x))) in
      if option_eqb toks_eqb (tokenize out) want
      then forallb (fun c => negb (option_eqb toks_eqb (tokenize (apply_splice out c)) want)) cs
      else true
  | _ => true
  end.

(* one render through the wrapper *)
Record c06_render := mkR {
  r_id : list N; r_class : list N; r_caption : list N;
  r_have : bool; r_rcs : list (list N);
  r_obs : c06_obs;
  r_corrupt : list splice
}.

Definition r_in (v : view) (r : c06_render) : html_in :=
  mkHtmlIn (r_id r) (r_class r) (r_caption r) (r_have r) (r_rcs r) v.

Definition C06_selfcheck (v : view) (rs : list c06_render) : bool :=
  forallb (fun r => C06_rejects (r_in v r) (r_obs r) (r_corrupt r)) rs.

(* decoder self-test against the standard library: must = the decoder has to
   accept (raw came from a stdlib escaper); otherwise only "if it accepts it
   agrees with html.UnescapeString" *)
Definition C06_decode_agrees (must : bool) (raw go : list N) : bool :=
  match decode raw with
  | Some d => bytes_eqb d go
  | None => negb must
  end.

(* A case carries the proof that its self-tests pass: a spec that accepts a
   corrupted output fails to type-check, which the driver reports as a broken
   check (exit 2), never as a violation. *)
Inductive c06_case :=
| CRenders (v : view) (rs : list c06_render) (self : C06_selfcheck v rs = true)
| CDecode (must : bool) (raw go : list N) (self : C06_decode_agrees must raw go = true)
| CBoth (a b : c06_case)    (* two tables that share row objects, both rendered *)
| CHist (ops : list hop) (obs : list c06_obs)
| CTpl (t : list tnode).   (* the template as found in the source of the repository under test (harness/htmltpl.go) *)
   (* a history over several tables and several long-lived wrappers (wrap, by-value
      copy, Table field re-assigned, fields / generator set again, tables built
      further, failed renders) and what every HRender of it was seen to produce *)

(* Every render of a history: the property oracle judges the observed bytes and
   calls against the input that Spec/HtmlWrapSpec.v reads off the history (no
   template, no cache); the correspondence compares with the wrapper machine of
   Model/HtmlWrap.v.  Bit 2 (machinery): the harness's history names a wrapper or
   a table that does not exist, or reports another number of renders. *)
Fixpoint C06_hist_codes (want : list (res (hcfg * view))) (model obs : list c06_obs) : N :=
  match want, model, obs with
  | [], [], [] => 0%N
  | w :: want', m :: model', o :: obs' =>
      N.lor (match w with
             | Ok cv => code (res_eqb obs_eqb m o) (C06_ok (in_of cv) o)
             | _ => 4%N
             end) (C06_hist_codes want' model' obs')
  | _, _, _ => 4%N
  end.

Definition C06_render_code (v : view) (r : c06_render) : N :=
  let x := r_in v r in
  code (res_eqb obs_eqb (html_exec x) (r_obs r)) (C06_ok x (r_obs r)).

Fixpoint C06_case (c : c06_case) : N :=
  match c with
  | CRenders v rs _ => fold_left N.lor (map (C06_render_code v) rs) 0%N
  | CDecode _ _ _ _ => 0%N
  | CBoth a b => N.lor (C06_case a) (C06_case b)
  | CHist ops obs => C06_hist_codes (hspec_renders ops) (h_outputs ops) obs
  | CTpl t => tpl_case t       (* it must be the tree c06_template_is_model was proved for *)
  end.

(* text-only cell *)
Definition T (s : list N) : vcell := mkVCell s (match s with [] => true | _ => false end) None 0 0 false.

Fixpoint C06_model (c : c06_case) : list (res (list N * list nat)) :=
  match c with
  | CRenders v rs _ => map (fun r => html_exec (r_in v r)) rs
  | CDecode _ _ _ _ => []
  | CBoth a b => C06_model a ++ C06_model b
  | CHist ops _ => h_outputs ops
  | CTpl _ => []
  end.
