From Tab Require Export Run.Glue Model.Csv Spec.CsvParse Proofs.CsvProofs.

Definition recs_eqb := list_eqb (list_eqb bytes_eqb).

(* the property, judged on the implementation's own bytes *)
Definition C05_ok (v : view) (obs : res (list N)) : bool :=
  match obs with
  | Ok out =>
      negb (v_ncols v =? 0)
      && option_eqb recs_eqb (parse_csv out) (Some (csv_expected v))
      && forallb (fun r => length r =? v_ncols v) (csv_expected v)
  | Err => true
  | Panic => false
  end.

Definition C05_case (c : view * res (list N)) : N :=
  let '(v, obs) := c in
  code (res_eqb bytes_eqb (csv_render v) obs) (C05_ok v obs).

(* text-only cell *)
Definition T (s : list N) : vcell := mkVCell s (match s with [] => true | _ => false end) None 0 0 false.

Definition C05_model (c : view * res (list N)) : res (list N) := csv_render (fst c).
