From Tab Require Export Run.Glue Model.Csv Model.CsvSession Spec.CsvParse Proofs.CsvProofs.

Definition recs_eqb := list_eqb (list_eqb bytes_eqb).

(* the property, judged on the implementation's own bytes *)
Definition C05_ok (v : view) (obs : res (list N)) : bool :=
  match obs with
  | Ok out =>
      negb (v_ncols v =? 0)
      && option_eqb recs_eqb (parse_csv out) (Some (csv_expected v))
      && forallb (fun r => length r =? v_ncols v) (csv_expected v)
  | Err => true
  | Panic => false
  end.

Definition C05_case (c : view * res (list N)) : N :=
  let '(v, obs) := c in
  code (res_eqb bytes_eqb (csv_render v) obs) (C05_ok v obs).

(* text-only cell *)
Definition T (s : list N) : vcell := mkVCell s (match s with [] => true | _ => false end) None 0 0 false.

Definition C05_model (c : view * res (list N)) : res (list N) := csv_render (fst c).

(* A case is a SESSION: the tables as they stood at the moments they were
   rendered (each distinct view shipped once), and the renders in the order
   they happened, each naming its view and carrying what the implementation
   returned.  Every render is judged on its own: the property oracle on the
   implementation's bytes against that render's table, the correspondence
   against the model's call with a buffer of its own (Model/CsvSession.v). *)
Definition c05session := (list view * list (nat * res (list N)))%type.

Definition C05s_each (f : view -> res (list N) -> bool) (c : c05session) : bool :=
  let '(vs, steps) := c in
  forallb (fun st : nat * res (list N) =>
             match nth_error vs (fst st) with Some v => f v (snd st) | None => false end) steps.

Definition C05s_case (c : c05session) : N :=
  code (C05s_each (fun v obs => res_eqb bytes_eqb (csv_render_string v) obs) c)
       (C05s_each C05_ok c).

Definition C05s_model (c : c05session) : list (option (res (list N))) :=
  let '(vs, steps) := c in
  map (fun st : nat * res (list N) => option_map csv_render_string (nth_error vs (fst st))) steps.
