(* Evaluation of C07 cases.  A case is either a render case (a view, the
   harness-supplied oracle encodings json.Marshal(text) of every header cell
   and every body cell, and what json.Render really returned) or a parser
   self-validation case (some bytes with encoding/json's verdict on them). *)
From Tab Require Export Run.Glue Model.Json Spec.JsonParse Spec.JsonExpect Proofs.JsonFrame Proofs.JsonChecked Model.JsonString.

Inductive c07case :=
| CRender (v : view) (keys : list (list N)) (fbs : list (list (list N))) (obs : res (list N))
| CParse (input : list N) (go_valid : bool) (go_dump : option (list N)) (go_utf8 : bool)
(* a render case in compact form (wide tables): the string-encoding oracle as
   a table of the distinct texts *)
| CRenderT (v : view) (tbl : list (list N * list N)) (obs : res (list N))
(* a history of renders in ONE process, in the order they happened (several
   tables, or one table rendered again after it grew): per render the view the
   table must present at that moment, the string-encoding oracle, what Render
   returned, and the text Render returned ALONG WITH an error (must be none).
   Every render is judged on its own: what was rendered earlier in the process
   has no bearing on it. *)
| CMany (cs : list (view * list (list N * list N) * res (list N) * list N)).

(* abbreviations for the cells wide generated tables are made of; the harness
   uses one only for a cell whose observed text / emptiness / encoding are
   exactly these *)
Definition cE : vcell := mkVCell [] true (Some [34; 34]%N) 0 1 false.                 (* "" *)
Definition cN : vcell := mkVCell [] true (Some [110; 117; 108; 108]%N) 0 1 false.     (* nil *)
Definition cV : vcell := mkVCell [118]%N false (Some [34; 118; 34]%N) 1 1 false.      (* "v" *)
Definition cJ (s : list N) : vcell := mkVCell s false (Some s) 0 1 false.             (* text = encoding, non-empty *)
Definition cH (s : list N) : vcell :=                                                 (* header cell: only its text is read *)
  mkVCell s (match s with [] => true | _ => false end) None 0 1 false.
Definition sparse_skips (n : nat) (l : list (nat * skipv)) : list (option skipv) :=
  map (fun i => option_map snd (find (fun p => Nat.eqb (fst p) i) l)) (seq 0 (S n)).
Definition Q (s : list N) : list N * list N := (s, 34%N :: s ++ [34%N]).         (* table entry: text, "text" *)
Definition no_aligns (n : nat) : list (option align) := repeat None (S n).

(* ---- the string-encoding oracle, as a table text -> json.Marshal(text) *)
Definition enc_table (v : view) (keys : list (list N)) (fbs : list (list (list N)))
  : list (list N * list N) :=
  combine (map vc_text (header_cells v)) keys
  ++ concat (map (fun '(r, fb) => match r with Some cs => combine (map vc_text cs) fb | None => [] end)
                 (combine (v_rows v) fbs)).

Fixpoint lookup_enc (tbl : list (list N * list N)) (s : list N) : list N :=
  match tbl with
  | [] => []
  | (k, e) :: r => if bytes_eqb k s then e else lookup_enc r s
  end.

(* the table has an entry for every text (a miss would be a harness bug) *)
Definition shapes_ok (v : view) (keys : list (list N)) (fbs : list (list (list N))) : bool :=
  (length keys =? length (header_cells v))
  && (length fbs =? length (v_rows v))
  && forallb (fun '(r, fb) => match r with Some cs => length fb =? length cs | None => true end)
             (combine (v_rows v) fbs).

Definition has_key (tbl : list (list N * list N)) (s : list N) : bool :=
  existsb (fun p => bytes_eqb (fst p) s) tbl.
Definition tbl_covers (tbl : list (list N * list N)) (v : view) : bool :=
  forallb (fun c => has_key tbl (vc_text c)) (header_cells v)
  && forallb (forallb (fun c => has_key tbl (vc_text c))) (body_rows v).

(* ---- the expected value, from the input alone *)

(* the string a text's encoding denotes: the text itself when it is valid
   UTF-8 (the key-equality clause, DESIGN 13.9), else what the oracle encoding
   decodes to *)
Definition run_keyval (tbl : list (list N * list N)) (s : list N) : list N :=
  if valid_utf8 s then s else dec_str (lookup_enc tbl s).

Definition run_cellval (tbl : list (list N * list N)) : vcell -> jvalue :=
  cell_denotation (run_keyval tbl) dec_val.

(* Go's encoding of a valid UTF-8 text decodes (with this parser) to the text *)
Definition text_roundtrips (tbl : list (list N * list N)) (s : list N) : bool :=
  if valid_utf8 s then bytes_eqb (dec_str (lookup_enc tbl s)) s else true.

(* the premise of c07_valid_and_mirrors_checked, evaluated: every oracle
   encoding the expected value relies on is valid JSON for this parser (a
   failure is the machinery's or encoding/json's, never tabular's) *)
Definition oracles_ok (tbl : list (list N * list N)) (v : view) : bool :=
  encodings_validb (lookup_enc tbl) v
  && forallb (fun h => text_roundtrips tbl (vc_text h)) (header_cells v)
  && forallb (forallb (fun c => text_roundtrips tbl (vc_text c))) (body_rows v).

(* the property, judged on the implementation's own bytes *)
Definition C07_ok (v : view) (tbl : list (list N * list N)) (obs : res (list N)) : bool :=
  match obs with
  | Ok out =>
      negb (json_errb v)
      && match parse_json out with
         | Some x => jvalue_eqb x (json_expected (run_keyval tbl) (run_cellval tbl) v)
         | None => false
         end
  | Err => json_errb v
  | Panic => false
  end.

(* the Prop-level reading of the oracle *)
Lemma C07_ok_sound v tbl out : C07_ok v tbl (Ok out) = true ->
  ~ json_error_condition v
  /\ parse_json out = Some (json_expected (run_keyval tbl) (run_cellval tbl) v).
Proof.
  cbn [C07_ok]. intros H. apply andb_true_iff in H as [H1 H2]. split.
  - unfold json_error_condition. apply negb_true_iff in H1. congruence.
  - destruct (parse_json out) as [x|]; [|discriminate]. apply jvalue_eqb_sound in H2. congruence.
Qed.

Lemma C07_ok_err_sound v tbl : C07_ok v tbl Err = true -> json_error_condition v.
Proof. intros H. exact H. Qed.

Lemma C07_ok_no_panic v tbl : C07_ok v tbl Panic = false.
Proof. reflexivity. Qed.

Definition C07_model_of (v : view) (tbl : list (list N * list N)) : res (list N) :=
  json_render (lookup_enc tbl) v.

(* bit 2 (value 4): the machinery itself is at fault (oracle table incomplete,
   an oracle encoding this parser rejects, or the Coq parser disagreeing with
   encoding/json on a self-validation input) *)
Definition render_code (v : view) (tbl : list (list N * list N)) (shapes : bool) (obs : res (list N)) : N :=
  (code (res_eqb bytes_eqb (C07_model_of v tbl) obs
         (* every string encoding json.Marshal produced for this table is what the encoder model
            (Model/JsonString.v, c07_string_encoding) computes *)
         && forallb (fun p => bytes_eqb (go_json_string (fst p)) (snd p)) tbl)
        (C07_ok v tbl obs)
   + (if shapes && oracles_ok tbl v then 0 else 4))%N.

(* one render of a history: the render case proper, and "an error comes with no text" *)
Definition err_text_ok (obs : res (list N)) (errtext : list N) : bool :=
  match obs, errtext with
  | Err, _ :: _ => false
  | _, _ => true
  end.

Definition many_code (c : view * list (list N * list N) * res (list N) * list N) : N :=
  let '(v, tbl, obs, errtext) := c in
  N.lor (render_code v tbl (tbl_covers tbl v) obs) (if err_text_ok obs errtext then 0 else 2)%N.

Fixpoint first_bad (cs : list (view * list (list N * list N) * res (list N) * list N))
  : option (view * list (list N * list N) * res (list N) * list N) :=
  match cs with
  | [] => None
  | c :: r => if N.eqb (many_code c) 0 then first_bad r else Some c
  end.

Definition C07_case (c : c07case) : N :=
  match c with
  | CMany cs => fold_left N.lor (map many_code cs) 0%N
  | CRender v keys fbs obs => render_code v (enc_table v keys fbs) (shapes_ok v keys fbs) obs
  | CRenderT v tbl obs => render_code v tbl (tbl_covers tbl v) obs
  | CParse input go_valid go_dump go_utf8 =>
      let p := parse_json input in
      let agree :=
        Bool.eqb (match p with Some _ => true | None => false end) go_valid
        && match go_dump, p with
           | Some d, Some x => bytes_eqb d (jdump x)
           | Some _, None => false
           | None, _ => true
           end
        && Bool.eqb (valid_utf8 input) go_utf8 in
      if agree then 0%N else 4%N
  end.

(* for replays: what the model computes, and what the parser makes of the
   implementation's bytes *)
Definition render_model (v : view) (tbl : list (list N * list N)) (obs : res (list N))
  : res (list N) * option (list N) * option (list N) * bool :=
  (C07_model_of v tbl,
   match obs with Ok out => option_map jdump (parse_json out) | _ => None end,
   Some (jdump (json_expected (run_keyval tbl) (run_cellval tbl) v)),
   json_errb v).

Definition C07_model (c : c07case) : res (list N) * option (list N) * option (list N) * bool :=
  match c with
  | CMany cs =>      (* the first render of the history that does not check (else nothing to show) *)
      match first_bad cs with
      | Some (v, tbl, obs, _) => render_model v tbl obs
      | None => (Err, None, None, false)
      end
  | CRender v keys fbs obs => render_model v (enc_table v keys fbs) obs
  | CRenderT v tbl obs => render_model v tbl obs
  | CParse input _ _ _ => (Err, option_map jdump (parse_json input), None, valid_utf8 input)
  end.
