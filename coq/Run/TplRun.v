(* The template found in the source of the repository under test (harness/
   htmltpl.go) against the template the theorem Proofs/TplProofs.v
   template_is_model was proved for. *)
From Tab Require Export Run.Glue Model.Tpl.

Definition tpl_same (t : list tnode) : bool := tnodes_eqb t model_template.
Definition tpl_case (t : list tnode) : N := code (tpl_same t) true.
Definition tpl_model (t : list tnode) := (tpl_same t, model_template).
