(* C13 evaluation glue: the property judged on what the implementation's own
   recording callbacks logged (C13_ok, from Spec/CbTrace.v only) and the
   comparison of that log with the model's (corr). *)
From Tab Require Export Run.Glue Model.Callbacks Spec.CbTrace.

(* what the harness observed.  Registration results: 0 = registered, 1 = refused
   with an error, 2 = the owner could not be obtained through the public API
   (Column(n) nil, CellAt error). *)
Record obs := mkObs {
  ob_reg : list nat;
  ob_add : list event;
  ob_render : list event;
  ob_props : list (tgt * nat);    (* (target, key) pairs GetProperty finds afterwards, read through the table *)
  ob_add_view : list nat;         (* per add-time invocation: the number of cells the target's row had at that moment *)
  ob_render_view : list nat       (* the same per render-time invocation *)
}.

Definition evv_eqb (a b : event * nat) : bool := event_eqb (fst a) (fst b) && (snd a =? snd b).
Definition count_evv (l : list (event * nat)) (e : event * nat) : nat := length (filter (evv_eqb e) l).
Definition multiset_evv_eqb (a b : list (event * nat)) : bool :=
  forallb (fun e => count_evv a e =? count_evv b e) (a ++ b).

Definition count_ev (l : list event) (e : event) : nat := length (filter (event_eqb e) l).
Definition multiset_eqb (a b : list event) : bool :=
  forallb (fun e => count_ev a e =? count_ev b e) (a ++ b).
Definition events_eqb := list_eqb event_eqb.

Definition prop_eqb (a b : tgt * nat) : bool := tgt_eqb (fst a) (fst b) && (snd a =? snd b).
Definition prop_mem (p : tgt * nat) (l : list (tgt * nat)) : bool := existsb (prop_eqb p) l.
Definition props_sameb (a b : list (tgt * nat)) : bool :=
  forallb (fun p => prop_mem p b) a && forallb (fun p => prop_mem p a) b.

Definition input := (list op * nat)%type.

(* the property, on the implementation's own log, from the input alone *)
Definition C13_ok (i : input) (o : res obs) : bool :=
  let (h, k) := i in
  if negb (wf_hist h && shared_domain h) then true          (* outside the quantifier; the generator produces none *)
  else
    match o with
    | Ok ob =>
        let exp_add := spec_add h in
        let exp_render := spec_render h k in
        (* unsupported combinations refused, supported ones accepted *)
        list_eqb Nat.eqb (ob_reg ob) (map (fun b : bool => if b then 1 else 0) (spec_regerr h))
        (* render passes: the documented order, exactly *)
        && events_eqb (ob_render ob) exp_render
        (* add time: exactly once per matching target (order free) *)
        && multiset_eqb (ob_add ob) exp_add
        (* ... and each time on the row with its cells: what the callback could see *)
        && (length (ob_add_view ob) =? length (ob_add ob))
        && multiset_evv_eqb (combine (ob_add ob) (ob_add_view ob)) (combine exp_add (spec_add_views h))
        && list_eqb Nat.eqb (ob_render_view ob) (spec_render_views h k)
        (* live object: what each callback set on its target is visible afterwards, and nothing else is *)
        && forallb (fun e : event => prop_mem (snd e, fst e) (ob_props ob)) (exp_add ++ exp_render)
        && forallb (fun p : tgt * nat => existsb (event_eqb (snd p, fst p)) (exp_add ++ exp_render)) (ob_props ob)
    | _ => false
    end.

Definition C13_corr (i : input) (o : res obs) : bool :=
  let (h, k) := i in
  if negb (wf_hist h && shared_domain h) then true
  else
    match run h k, o with
    | Ok m, Ok ob =>
        list_eqb Nat.eqb (ob_reg ob) (map (fun b : bool => if b then 1 else 0) (oc_regerr m))
        && events_eqb (ob_render ob) (oc_render m)
        && multiset_eqb (ob_add ob) (oc_add m)
        && props_sameb (ob_props ob) (oc_props m)
    | Panic, Panic => true
    | _, _ => false
    end.

(* one table: (history, what its recording callbacks logged) *)
Definition C13_case1 := (input * res obs)%type.

(* a case is a table and, when callbacks of that table render other tables from
   inside a pass (a table in a cell), those tables too: every one of them is
   judged against its own history.  The same form carries two tables that
   share rows: each table's history names the other table's AddRow of a shared
   row as [OOtherAddRow] (no event of this table: c13_other_table), a
   registration made upon a shared row through the other table as the
   registration it is, and a row built on behalf of the other table as the
   detached row with its cells that it is for this one. *)
Definition C13_case (c : C13_case1 * list C13_case1) : N :=
  let (m, subs) := c in
  code (forallb (fun c : C13_case1 => C13_corr (fst c) (snd c)) (m :: subs))
       (forallb (fun c : C13_case1 => C13_ok (fst c) (snd c)) (m :: subs)).

Definition C13_model1 (c : C13_case1) := let (h, k) := fst c in (run h k, spec_add h, spec_render h k).
Definition C13_model (c : C13_case1 * list C13_case1) := map C13_model1 (fst c :: snd c).
