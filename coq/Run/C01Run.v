(* C01: evaluation of harness cases.  A case is a chain of nesting levels,
   innermost first: level 0 is a cell over the base item, level k+1 is a cell
   whose item is the level-k cell, by value (ICell, with the fields the real
   inner cell was OBSERVED to have) or by pointer (an object whose descriptor
   Go's own type assertions produced).  Every level records the cell right
   after NewCell and, per mutation round, before and after Update. *)
From Tab Require Export Run.Glue Model.Length Model.Cell Spec.CellText.

Record c01_obs := mkObs01 {
  o1_text  : list N;   (* String() *)
  o1_empty : bool;     (* Empty() *)
  o1_same  : bool;     (* Item() is the value that was stored *)
  o1_h     : Z;        (* Height() *)
  o1_w     : Z         (* TerminalCellWidth() *)
}.

Definition envl := list (N * obj).
Definition no_obj : obj := mkObj None None None None None [] None.
Definition env_of (l : envl) : env :=
  fun id => match find (fun p => N.eqb (fst p) id) l with Some p => snd p | None => no_obj end.

Record c01_level := mkLevel {
  l_item   : item;
  l_env0   : envl;                                      (* objects as they were at NewCell *)
  l_new    : res c01_obs;
  l_rounds : list (envl * res c01_obs * res c01_obs)    (* objects at Update; cell before it; cell after it *)
}.

Definition c01_case := (list (list N * nat) * list c01_level)%type.   (* StringCells of every line; levels *)

Definition W_of (tab : list (list N * nat)) (k : list N) : nat :=
  match find (fun p => bytes_eqb (fst p) k) tab with Some p => snd p | None => 0 end.

Definition obs01_eqb (a b : c01_obs) : bool :=
  bytes_eqb (o1_text a) (o1_text b) && Bool.eqb (o1_empty a) (o1_empty b) && Bool.eqb (o1_same a) (o1_same b)
  && Z.eqb (o1_h a) (o1_h b) && Z.eqb (o1_w a) (o1_w b).

(* ---- the property on one observation: text is the documented text of the
   item in the state [e] the cell last read it in; empty iff that text is
   empty; the item is handed back *)
Definition obs_ok (e : env) (it : item) (ob : res c01_obs) : bool :=
  match ob with
  | Ok o =>
      bytes_eqb (o1_text o) (documented_text e it)
      && match it with IRune r => is_char_text r (o1_text o) | _ => true end
      && Bool.eqb (o1_empty o) (is_nil (o1_text o))
      && o1_same o
  | _ => false
  end.

Fixpoint rounds_ok (e : env) (it : item) (rs : list (envl * res c01_obs * res c01_obs)) : bool :=
  match rs with
  | [] => true
  | (e1, before, after) :: rest =>
      obs_ok e it before                 (* mutated, not updated: still the snapshot *)
      && obs_ok (env_of e1) it after     (* updated: re-read *)
      && rounds_ok (env_of e1) it rest
  end.

Definition level_ok (l : c01_level) : bool :=
  obs_ok (env_of (l_env0 l)) (l_item l) (l_new l) && rounds_ok (env_of (l_env0 l)) (l_item l) (l_rounds l).

Definition C01_ok (c : c01_case) : bool := forallb level_ok (snd c).

(* ---- the model *)
Definition obs_of (c : cell) (orig : item) : c01_obs :=
  mkObs01 (cell_text c) (cell_empty c) true (cell_height c) (cell_width c).

Fixpoint rounds_model (W : list N -> nat) (c : cell) (rs : list (envl * res c01_obs * res c01_obs))
  : list (res c01_obs * res c01_obs) :=
  match rs with
  | [] => []
  | (e1, _, _) :: rest =>
      match update_r W (env_of e1) c with
      | Ok c' => (Ok (obs_of c (c_raw c)), Ok (obs_of c' (c_raw c'))) :: rounds_model W c' rest
      | Err => [(Ok (obs_of c (c_raw c)), Err)]
      | Panic => [(Ok (obs_of c (c_raw c)), Panic)]
      end
  end.

Definition level_model (W : list N -> nat) (l : c01_level) : res c01_obs * list (res c01_obs * res c01_obs) :=
  match new_cell_r W (env_of (l_env0 l)) (l_item l) with
  | Ok c => (Ok (obs_of c (l_item l)), rounds_model W c (l_rounds l))
  | Err => (Err, [])
  | Panic => (Panic, [])
  end.

Definition level_corr (W : list N -> nat) (l : c01_level) : bool :=
  let '(n, rs) := level_model W l in
  res_eqb obs01_eqb n (l_new l)
  && list_eqb (fun a b => res_eqb obs01_eqb (fst a) (fst b) && res_eqb obs01_eqb (snd a) (snd b))
              rs (map (fun r => (snd (fst r), snd r)) (l_rounds l)).

Definition C01_case (c : c01_case) : N :=
  code (forallb (level_corr (W_of (fst c))) (snd c)) (C01_ok c).

Definition C01_model (c : c01_case) := map (level_model (W_of (fst c))) (snd c).
