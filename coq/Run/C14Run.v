From Tab Require Export Run.Glue Run.C05Run Model.Wrap Model.Csv Proofs.WrapProofs.

(* one case: the table's view; the caller-observable snapshot (counts, texts,
   locations, user properties, errors - serialised by the harness) before the
   first and after the last render; the renders in order, each tagged with its
   slot (format + decoration + html settings) *)
Definition outcome_eqb14 := res_eqb bytes_eqb.

Fixpoint first_of (slot : nat) (l : list (nat * res (list N))) : option (res (list N)) :=
  match l with
  | [] => None
  | (s, o) :: r => if s =? slot then Some o else first_of slot r
  end.

Definition C14_ok (before after : list N) (renders : list (nat * res (list N))) : bool :=
  bytes_eqb before after
  && forallb (fun '(s, o) => match first_of s renders with Some f => outcome_eqb14 f o | None => false end) renders.

(* model: the csv slot (0) always yields csv_render of the view (c14_repeatable + c10_render_is_out) *)
Definition C14_corr (v : view) (renders : list (nat * res (list N))) : bool :=
  forallb (fun '(s, o) => if s =? 0 then outcome_eqb14 (csv_render v) o else true) renders.

Definition C14_case (c : view * list N * list N * list (nat * res (list N))) : N :=
  let '(v, before, after, renders) := c in code (C14_corr v renders) (C14_ok before after renders).

Definition C14_model (c : view * list N * list N * list (nat * res (list N))) :=
  let '(v, _, _, _) := c in csv_render v.

(* compact form: the distinct outcomes once, and for every render (in order)
   its slot and the index of its outcome *)
Definition expand14 (ds : list (res (list N))) (ix : list (nat * nat)) : list (nat * res (list N)) :=
  map (fun '(s, i) => (s, nth i ds Panic)) ix.

Definition C14_case2 (c : view * list N * list N * list (res (list N)) * list (nat * nat)) : N :=
  let '(v, before, after, ds, ix) := c in C14_case (v, before, after, expand14 ds ix).

Definition C14_model2 (c : view * list N * list N * list (res (list N)) * list (nat * nat)) :=
  let '(v, _, _, _, _) := c in csv_render v.

(* world form: several tables (each with its own wrappers) rendered in one
   history, renders of one table possibly in progress while another is rendered.
   [vs]: the view of every table; [csvs]: for every render id that is a CSV
   render of a table in the state [vs] describes, the index of that table.
   The oracle is the same (every render of an id gives what the first one
   gave; the serialised snapshots of ALL tables agree before and after); the
   model side: Model/WrapWorld.v (c14_world_render_is_out) says a render of
   table i is out k (view of table i) whatever happened to the other tables in
   between or meanwhile - evaluated here for k = csv. *)
Fixpoint assoc14 (k : nat) (l : list (nat * nat)) : option nat :=
  match l with
  | [] => None
  | (a, b) :: r => if a =? k then Some b else assoc14 k r
  end.

Definition C14_corr_w (vs : list view) (csvs : list (nat * nat)) (renders : list (nat * res (list N))) : bool :=
  forallb (fun '(s, o) =>
    match assoc14 s csvs with
    | Some t => match nth_error vs t with Some v => outcome_eqb14 (csv_render v) o | None => false end
    | None => true
    end) renders.

(* the snapshot after is shipped as (length of the prefix it shares with the
   snapshot before, the rest): the two are long and, when the property holds,
   equal; it is rebuilt here and compared as a whole *)
Definition after14 (before : list N) (a : nat * list N) : list N := firstn (fst a) before ++ snd a.

Definition C14_case_w (c : list view * list (nat * nat) * list N * (nat * list N) * list (res (list N)) * list (nat * nat)) : N :=
  let '(vs, csvs, before, a, ds, ix) := c in
  let renders := expand14 ds ix in
  code (C14_corr_w vs csvs renders) (C14_ok before (after14 before a) renders).

Definition C14_model_w (c : list view * list (nat * nat) * list N * (nat * list N) * list (res (list N)) * list (nat * nat)) :=
  let '(vs, _, _, _, _, _) := c in map csv_render vs.
