From Tab Require Export Run.Glue Run.C05Run Model.Wrap Model.Csv Proofs.WrapProofs.

(* one case: the table's view; the caller-observable snapshot (counts, texts,
   locations, user properties, errors - serialised by the harness) before the
   first and after the last render; the renders in order, each tagged with its
   slot (format + decoration + html settings) *)
Definition outcome_eqb14 := res_eqb bytes_eqb.

Fixpoint first_of (slot : nat) (l : list (nat * res (list N))) : option (res (list N)) :=
  match l with
  | [] => None
  | (s, o) :: r => if s =? slot then Some o else first_of slot r
  end.

Definition C14_ok (before after : list N) (renders : list (nat * res (list N))) : bool :=
  bytes_eqb before after
  && forallb (fun '(s, o) => match first_of s renders with Some f => outcome_eqb14 f o | None => false end) renders.

(* model: the csv slot (0) always yields csv_render of the view (c14_repeatable + c10_render_is_out) *)
Definition C14_corr (v : view) (renders : list (nat * res (list N))) : bool :=
  forallb (fun '(s, o) => if s =? 0 then outcome_eqb14 (csv_render v) o else true) renders.

Definition C14_case (c : view * list N * list N * list (nat * res (list N))) : N :=
  let '(v, before, after, renders) := c in code (C14_corr v renders) (C14_ok before after renders).

Definition C14_model (c : view * list N * list N * list (nat * res (list N))) :=
  let '(v, _, _, _) := c in csv_render v.

(* compact form: the distinct outcomes once, and for every render (in order)
   its slot and the index of its outcome *)
Definition expand14 (ds : list (res (list N))) (ix : list (nat * nat)) : list (nat * res (list N)) :=
  map (fun '(s, i) => (s, nth i ds Panic)) ix.

Definition C14_case2 (c : view * list N * list N * list (res (list N)) * list (nat * nat)) : N :=
  let '(v, before, after, ds, ix) := c in C14_case (v, before, after, expand14 ds ix).

Definition C14_model2 (c : view * list N * list N * list (res (list N)) * list (nat * nat)) :=
  let '(v, _, _, _, _) := c in csv_render v.
