(* C19 evaluation glue: one registry world (one child process): the registry
   as initialised, then after each registration the listing and a batch of
   style strings with what auto.New(style) turned out to be and how a good
   table rendered through it. *)
From Tab Require Export Run.C17Run.
From Tab Require Export Model.DecorCells.   (* round 6: a registered decoration arrives as its string fields, [abstract id (mkCD fields)] *)

Record c19_query := Q {
  q_style : bytes;
  q_first : bytes;          (* strings.Split(style, ".")[0], as Go computed it *)
  q_lower : bytes;          (* strings.ToLower of that: the oracle's answer for this call *)
  q_typed : bool;           (* was a renderer value seen?  true for auto.New / auto.Wrap; false for
                               auto.Render(t, style) / auto.RenderTo(t, w, style), which return only the rendering *)
  q_kind : kind;            (* dynamic type of auto.New(style) (meaningless when q_typed is false) *)
  q_res : res (bytes * bool) }.   (* Render() of the good table, canonicalised (Run/C17Run.v) *)

(* compact form used by the harness: the first section as a length when it is
   a prefix of the style; the ToLower answer only when it is not the ASCII
   lowering of the first section *)
Inductive rres := RK (id : N) | RE (empty : bool) | RP.
Definition rr (r : rres) : res (bytes * bool) :=
  match r with RK id => ROk id | RE e => RErr e | RP => RPanic end.
Definition QQ (style : bytes) (f : nat + bytes) (l : option bytes) (k : kind) (r : rres) : c19_query :=
  let first := match f with inl n => firstn n style | inr b => b end in
  Q style first (match l with Some b => b | None => map ascii_lower first end) true k (rr r).
(* the same question put to auto.Render / auto.RenderTo: only the rendering comes back *)
Definition QR (style : bytes) (f : nat + bytes) (l : option bytes) (r : rres) : c19_query :=
  let first := match f with inl n => firstn n style | inr b => b end in
  Q style first (match l with Some b => b | None => map ascii_lower first end) false KOther (rr r).

Record c19_step := StH {
  s_reg : option (bytes * decoration);     (* the registration that led here (None for the initial state) *)
  s_obs : bool;                            (* was anything observed here?  false for the registrations of a
                                              concurrent burst (distinct names, released together): only the
                                              state after the join is looked at *)
  s_listing : list bytes;                  (* auto.ListStyles() *)
  s_qs : list c19_query;
  s_held : list (nat * c19_query) }.       (* (k, q): the renderer auto.New(q_style) returned at step k (0-based,
                                              an earlier step of this world), which the application kept, rendered
                                              again NOW: a style is resolved when the renderer is made, so the
                                              answer is the one of step k's registry whatever was registered since *)
Definition St reg obs listing qs := StH reg obs listing qs [].

(* k_bad: the child crashed, or (burst worlds) one of the throw-away bursts the
   harness judges on the spot after the recorded part lost a registration *)
Record c19_case := mkC19 { k_bad : bool; k_init : registry; k_steps : list c19_step }.

(* direct Render() of the good table by the four other packages: the harness
   names an output by the package whose own Wrap(t).Render() gives these bytes *)
Definition rr_csv := ROk 101.
Definition rr_html := ROk 102.
Definition rr_markdown := ROk 103.
Definition rr_json := ROk 104.

Definition kind_eqb (a b : kind) : bool :=
  match a, b with
  | KCsv, KCsv | KHtml, KHtml | KMarkdown, KMarkdown | KJson, KJson | KText, KText | KOther, KOther => true
  | _, _ => false
  end.

Definition rr_eqb (a b : res (bytes * bool)) : bool :=
  res_eqb (fun x y : bytes * bool => bytes_eqb (fst x) (fst y) && Bool.eqb (snd x) (snd y)) a b.

Definition rendered (r : res (bytes * bool)) : bool :=
  match r with Ok (_, false) => true | _ => false end.

(* ---- the property on the implementation's own answers *)
Definition query_ok (init : registry) (ops : list op) (q : c19_query) : bool :=
  let '(k, r) := spec_resolve (fun _ => q_lower q) rr_csv rr_html rr_markdown rr_json run_body
                              (spec_named init ops) (q_style q) in
  (if q_typed q then kind_eqb (q_kind q) k else true) && rr_eqb (q_res q) r
  && match q_res q with Ok (out, true) => match out with [] => true | _ => false end | _ => true end.  (* an error comes with "" *)

Definition listed_work (l : list bytes) (qs : list c19_query) : bool :=
  forallb (fun n =>
    existsb (fun q => bytes_eqb (q_style q) n
                      && rendered (q_res q)) qs) l.
(* A registered name of the form "texttable.<more>" is listed but resolves to
   <more> (the documented guard of c19_listed_work); it is NOT exempted here:
   the property text has no such exception, so it is judged a violation and
   carried as a known finding (KNOWN_FINDINGS.txt, sig
   listed-name-under-texttable-prefix). *)

Definition step_ok (init : registry) (ops : list op) (s : c19_step) : bool :=
  styles_listing_ok (map fst init ++ flat_map (fun o => match o with OReg n _ => [n] | _ => [] end) ops) (s_listing s)
  && listed_work (s_listing s) (s_qs s)
  && forallb (query_ok init ops) (s_qs s).

(* past: the histories of the steps so far, oldest first (past[k] = the registrations up to step k) *)
Definition held_ok (init : registry) (past : list (list op)) (h : nat * c19_query) : bool :=
  match nth_error past (fst h) with
  | Some ops => query_ok init ops (snd h)
  | None => false
  end.

Fixpoint steps_ok (init : registry) (ops : list op) (past : list (list op)) (ss : list c19_step) : bool :=
  match ss with
  | [] => true
  | s :: r =>
      let ops' := match s_reg s with Some (n, d) => ops ++ [OReg n d] | None => ops end in
      let past' := past ++ [ops'] in
      (if s_obs s then step_ok init ops' s && forallb (held_ok init past') (s_held s) else true)
      && steps_ok init ops' past' r
  end.

Definition C19_ok (c : c19_case) : bool :=
  negb (k_bad c) && init_ok (k_init c) && steps_ok (k_init c) [] [] (k_steps c).

(* ---- the model on the same questions *)
Definition query_corr (reg : registry) (q : c19_query) : bool :=
  let lw := fun _ : bytes => q_lower q in
  match wrap lw reg (q_style q) with
  | Ok r => (if q_typed q then kind_eqb (q_kind q) (kind_of r) else true)
            && rr_eqb (q_res q) (render rr_csv rr_html rr_markdown rr_json run_body r)
  | _ => false
  end
  && bytes_eqb (q_first q) (first_section (q_style q))
  && option_eqb bytes_eqb (Some (q_first q)) (hd_error (split_dot (q_style q)))
  && (if forallb is_ascii (q_first q) then bytes_eqb (q_lower q) (map ascii_lower (q_first q)) else true).  (* the ToLower oracle on ASCII *)

(* the model's renderer is a value made by [wrap] from the registry of its own step: a kept
   renderer answers from past[k] *)
Definition held_corr (past : list registry) (h : nat * c19_query) : bool :=
  match nth_error past (fst h) with
  | Some reg => query_corr reg (snd h)
  | None => false
  end.

Fixpoint steps_corr (reg : registry) (past : list registry) (ss : list c19_step) : bool :=
  match ss with
  | [] => true
  | s :: r =>
      let reg' := match s_reg s with Some (n, d) => register n d reg | None => reg end in
      let past' := past ++ [reg'] in
      (if s_obs s
       then list_eqb bytes_eqb (list_styles reg') (s_listing s)       (* incl. the sort oracle *)
            && forallb (query_corr reg') (s_qs s)
            && forallb (held_corr past') (s_held s)
       else true)
      && steps_corr reg' past' r
  end.

Definition C19_corr (c : c19_case) : bool :=
  if k_bad c then true else steps_corr (k_init c) [] (k_steps c).

Definition C19_case (c : c19_case) : N := code (C19_corr c) (C19_ok c).

(* for replays: per step the model's listing and, per query (then per kept renderer), (kind, render) *)
Definition C19_model_q (reg : registry) (q : c19_query) : res kind * res (bytes * bool) :=
  let w := wrap (fun _ => q_lower q) reg (q_style q) in
  (bind w (fun x => Ok (kind_of x)), bind w (render rr_csv rr_html rr_markdown rr_json run_body)).

Fixpoint C19_model_from (reg : registry) (past : list registry) (ss : list c19_step)
  : list (list bytes * list (res kind * res (bytes * bool))) :=
  match ss with
  | [] => []
  | s :: r =>
      let reg' := match s_reg s with Some (n, d) => register n d reg | None => reg end in
      let past' := past ++ [reg'] in
      (list_styles reg',
       map (C19_model_q reg') (s_qs s)
       ++ map (fun h => match nth_error past' (fst h) with
                        | Some rg => C19_model_q rg (snd h)
                        | None => (Panic, Panic)
                        end) (s_held s))
      :: C19_model_from reg' past' r
  end.
Definition C19_model (c : c19_case) := C19_model_from (k_init c) [] (k_steps c).
