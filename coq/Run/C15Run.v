From Tab Require Export Run.Glue Model.Writer Proofs.WriterProofs.

(* scripts used by the harness's scripted writer; partial writes accept half
   of the payload (modes 3, 4) or all of it (modes 5, 6: n = len(p) together
   with an error) *)
Definition script_of (mode k : nat) : script := fun i p =>
  match mode with
  | 1 => if k <=? i then WFail else WAccept                       (* fails from call k on *)
  | 2 => if i =? k then WFail else WAccept                        (* fails only on call k *)
  | 3 => if i =? k then WPartial (length p / 2) else if k <? i then WFail else WAccept   (* partial at k, then keeps failing *)
  | 4 => if i =? k then WPartial (length p / 2) else WAccept      (* partial only at k *)
  | 5 => if i =? k then WPartial (length p) else if k <? i then WFail else WAccept   (* the whole payload accepted AND an error at k, then keeps failing *)
  | 6 => if i =? k then WPartial (length p) else WAccept          (* the whole payload accepted and an error, only at k *)
  | _ => WAccept
  end.

(* ---- constant work per call: script_of compares the call index with k at
   every call, which is linear in the index on unary numbers; on long write
   lists the scripts are evaluated through a countdown instead. *)
Fixpoint run_at (mode c : nat) (l : list (list N)) : bool * nat :=
  match l with
  | [] => (false, 0)
  | p :: r =>
      match c with
      | 0 => match mode with
             | 1 | 2 => (true, 0)
             | 3 | 4 => (true, Nat.min (length p / 2) (length p))
             | 5 | 6 => (true, Nat.min (length p) (length p))
             | _ => let '(e, n) := run_at mode 0 r in (e, length p + n)
             end
      | S c' => let '(e, n) := run_at mode c' r in (e, length p + n)
      end
  end.

Lemma script_of_before mode k i p : i < k -> script_of mode k i p = WAccept.
Proof.
  intros H. unfold script_of.
  destruct mode as [|[|[|[|[|[|[|m]]]]]]]; try reflexivity.
  - destruct (Nat.leb_spec k i); [lia | reflexivity].
  - destruct (Nat.eqb_spec i k); [lia | reflexivity].
  - destruct (Nat.eqb_spec i k); [lia|]. destruct (Nat.ltb_spec k i); [lia | reflexivity].
  - destruct (Nat.eqb_spec i k); [lia | reflexivity].
  - destruct (Nat.eqb_spec i k); [lia|]. destruct (Nat.ltb_spec k i); [lia | reflexivity].
  - destruct (Nat.eqb_spec i k); [lia | reflexivity].
Qed.

Lemma run_len_at mode k l : forall i, i <= k -> 1 <= mode <= 6 ->
  run_len (script_of mode k) i l = run_at mode (k - i) l.
Proof.
  induction l as [|p r IH]; intros i Hi Hm; cbn [run_len run_at]; [reflexivity|].
  destruct (Nat.eq_dec i k) as [->|Hne].
  - rewrite Nat.sub_diag. unfold script_of.
    destruct mode as [|[|[|[|[|[|[|m]]]]]]]; try lia.
    + rewrite Nat.leb_refl. reflexivity.
    + rewrite Nat.eqb_refl. reflexivity.
    + rewrite Nat.eqb_refl. reflexivity.
    + rewrite Nat.eqb_refl. reflexivity.
    + rewrite Nat.eqb_refl. reflexivity.
    + rewrite Nat.eqb_refl. reflexivity.
  - rewrite script_of_before by lia.
    replace (k - i) with (S (k - S i)) by lia.
    rewrite IH by lia. reflexivity.
Qed.

Lemma fails_within_at mode k l : forall i, i <= k -> 1 <= mode <= 6 ->
  fails_within (script_of mode k) i (checked l) = (k - i <? length l).
Proof.
  induction l as [|p r IH]; intros i Hi Hm; cbn [checked map fails_within length].
  - destruct (k - i); reflexivity.
  - fold (checked r). destruct (Nat.eq_dec i k) as [->|Hne].
    + rewrite Nat.sub_diag. unfold script_of.
      destruct mode as [|[|[|[|[|[|[|m]]]]]]]; try lia; rewrite ?Nat.leb_refl, ?Nat.eqb_refl; reflexivity.
    + rewrite script_of_before by lia. cbn [faulty orb]. rewrite IH by lia.
      replace (k - i) with (S (k - S i)) by lia. reflexivity.
Qed.

(* one scripted run as observed: Ok (error returned?, accepted bytes) | Panic *)
Definition obs := res (bool * list N).

Definition pair_eqb (a b : bool * list N) : bool := Bool.eqb (fst a) (fst b) && bytes_eqb (snd a) (snd b).

(* the property on the implementation's own behaviour: given ITS fault-free
   chunk list, a scripted run whose script faults on a call it makes must
   return an error and leave a prefix of the fault-free output; otherwise no
   error and the full output; never a panic *)
Definition C15_ok1 (chunks : list (list N)) (mode k : nat) (o : obs) : bool :=
  match o with
  | Ok (e, acc) =>
      prefixb acc (concat chunks)
      && (if fails_within (script_of mode k) 0 (checked chunks) then e
          else negb e && bytes_eqb acc (concat chunks))
  | _ => false
  end.

(* the model: every call checked, stop at the first error.  Evaluated through
   run_len (Proofs/WriterProofs.v, run_writes_len: the same result in linear
   time); an observation given as "the first n bytes of the fault-free output"
   is compared by n. *)
Definition C15_corr1 (chunks : list (list N)) (mode k : nat) (o : obs) : bool :=
  let '(e, n) := run_len (script_of mode k) 0 chunks in
  res_eqb pair_eqb (Ok (e, firstn n (concat chunks))) o.

(* accepted bytes arrive compressed: AP e n = "error e, accepted = the first n
   bytes of the fault-free output"; AB e b = explicit bytes *)
(* n is shipped as a binary number: a unary nat literal of several thousand
   would dominate the elaboration time *)
Inductive aobs := AP (e : bool) (n : N) | AB (e : bool) (b : list N) | APanic.
Definition decode_obs (chunks : list (list N)) (a : aobs) : obs :=
  match a with
  | AP e n => Ok (e, firstn (N.to_nat n) (concat chunks))
  | AB e b => Ok (e, b)
  | APanic => Panic
  end.
(* mode and call index arrive as binary numbers too *)
Definition decode_runs (c : list (list N) * list (N * N * aobs)) : list (list N) * list (nat * nat * obs) :=
  (fst c, map (fun '(m, k, a) => (N.to_nat m, N.to_nat k, decode_obs (fst c) a)) (snd c)).

Definition in_modes (mode : nat) : bool := (1 <=? mode) && (mode <=? 6).

Definition C15_corr_a (chunks : list (list N)) (total : nat) (mode k : nat) (a : aobs) : bool :=
  let '(e, n) := if in_modes mode then run_at mode k chunks else run_len (script_of mode k) 0 chunks in
  match a with
  | AP e' n' => Bool.eqb e e' && (Nat.min n total =? Nat.min (N.to_nat n') total)
  | AB e' b => Bool.eqb e e' && bytes_eqb (firstn n (concat chunks)) b
  | APanic => false
  end.

(* the property on a compressed observation: "the first n bytes of the
   fault-free output" is a prefix of it by construction (firstn_is_prefix
   below), so only the error flag and completeness remain to be judged; an
   explicit byte string goes through C15_ok1 *)
Lemma firstn_is_prefix n (out : list N) : prefixb (firstn n out) out = true.
Proof.
  apply prefixb_spec. exists (skipn n out). symmetry. apply firstn_skipn.
Qed.

Definition C15_ok_a (chunks : list (list N)) (total : nat) (mode k : nat) (a : aobs) : bool :=
  match a with
  | AP e n =>
      if (if in_modes mode then k <? length chunks else fails_within (script_of mode k) 0 (checked chunks)) then e
      else negb e && (total <=? N.to_nat n)
  | AB e b => C15_ok1 chunks mode k (Ok (e, b))
  | APanic => false
  end.

Definition C15_case (c0 : list (list N) * list (N * N * aobs)) : N :=
  let total := length (concat (fst c0)) in
  code (forallb (fun '(mode, k, a) => C15_corr_a (fst c0) total (N.to_nat mode) (N.to_nat k) a) (snd c0))
       (forallb (fun '(mode, k, a) => C15_ok_a (fst c0) total (N.to_nat mode) (N.to_nat k) a) (snd c0)).

(* C15_ok_a is C15_ok1 on the decoded observation *)
Lemma C15_ok_a_spec chunks mode k a :
  C15_ok_a chunks (length (concat chunks)) mode k a = C15_ok1 chunks mode k (decode_obs chunks a).
Proof.
  destruct a as [e n|e b|]; cbn [C15_ok_a decode_obs C15_ok1]; try reflexivity.
  rewrite firstn_is_prefix. cbn [andb].
  assert (Hf : (if in_modes mode then k <? length chunks else fails_within (script_of mode k) 0 (checked chunks))
               = fails_within (script_of mode k) 0 (checked chunks)).
  { unfold in_modes. destruct (Nat.leb_spec 1 mode); destruct (Nat.leb_spec mode 6); cbn [andb]; try reflexivity.
    rewrite fails_within_at by lia. rewrite Nat.sub_0_r. reflexivity. }
  rewrite Hf.
  destruct (fails_within (script_of mode k) 0 (checked chunks)); [reflexivity|].
  destruct e; cbn [negb andb]; [reflexivity|].
  destruct (Nat.leb_spec (length (concat chunks)) (N.to_nat n)) as [H|H].
  - rewrite firstn_all2 by exact H. symmetry. apply bytes_eqb_refl.
  - symmetry. apply Bool.not_true_iff_false. intros E. apply bytes_eqb_eq in E.
    apply (f_equal (@length N)) in E. rewrite firstn_length in E. lia.
Qed.

Definition C15_model (c0 : list (list N) * list (N * N * aobs)) :=
  let '(chunks, runs) := decode_runs c0 in
  map (fun '(mode, k, o) => (mode, k, run_len (script_of mode k) 0 chunks)) runs.


(* ---- compact shipping of the scripted runs: one 63-bit word per run
   (bits 0-2 mode, 3 error flag, 4-5 kind: 0 = AP, 1 = AB, 2 = panic,
   6-25 call index, 26-57 n); the rare explicit byte strings (AB) come in a side
   list in order of occurrence.  Long Coq list literals of tuples elaborate
   very slowly; primitive integers do not. *)
Definition w_field (w : int) (shift width : int) : N :=
  Z.to_N (Uint63.to_Z (Uint63.land (Uint63.lsr w shift) (Uint63.sub (Uint63.lsl 1%uint63 width) 1%uint63))).

Fixpoint decode_words (ws : list int) (side : list (list N)) : list (N * N * aobs) :=
  match ws with
  | [] => []
  | w :: r =>
      let mode := w_field w 0%uint63 3%uint63 in
      let e := N.eqb (w_field w 3%uint63 1%uint63) 1 in
      let kind := w_field w 4%uint63 2%uint63 in
      let k := w_field w 6%uint63 20%uint63 in
      let n := w_field w 26%uint63 32%uint63 in
      match kind with
      | 0%N => (mode, k, AP e n) :: decode_words r side
      | 1%N => match side with
               | b :: side' => (mode, k, AB e b) :: decode_words r side'
               | [] => (mode, k, APanic) :: decode_words r side
               end
      | _ => (mode, k, APanic) :: decode_words r side
      end
  end.

Definition C15_wcase (c : list (list N) * list int * list (list N)) : N :=
  let '(chunks, ws, side) := c in C15_case (chunks, decode_words ws side).
Definition C15_wmodel (c : list (list N) * list int * list (list N)) :=
  let '(chunks, ws, side) := c in C15_model (chunks, decode_words ws side).
