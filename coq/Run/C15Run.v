From Tab Require Export Run.Glue Model.Writer Proofs.WriterProofs.

(* scripts used by the harness's scripted writer; partial writes accept half
   of the payload *)
Definition script_of (mode k : nat) : script := fun i p =>
  match mode with
  | 1 => if k <=? i then WFail else WAccept                       (* fails from call k on *)
  | 2 => if i =? k then WFail else WAccept                        (* fails only on call k *)
  | 3 => if i =? k then WPartial (length p / 2) else if k <? i then WFail else WAccept   (* partial at k, then keeps failing *)
  | 4 => if i =? k then WPartial (length p / 2) else WAccept      (* partial only at k *)
  | _ => WAccept
  end.

(* one scripted run as observed: Ok (error returned?, accepted bytes) | Panic *)
Definition obs := res (bool * list N).

Definition pair_eqb (a b : bool * list N) : bool := Bool.eqb (fst a) (fst b) && bytes_eqb (snd a) (snd b).

(* the property on the implementation's own behaviour: given ITS fault-free
   chunk list, a scripted run whose script faults on a call it makes must
   return an error and leave a prefix of the fault-free output; otherwise no
   error and the full output; never a panic *)
Definition C15_ok1 (chunks : list (list N)) (mode k : nat) (o : obs) : bool :=
  match o with
  | Ok (e, acc) =>
      prefixb acc (concat chunks)
      && (if fails_within (script_of mode k) 0 (checked chunks) then e
          else negb e && bytes_eqb acc (concat chunks))
  | _ => false
  end.

(* the model: every call checked, stop at the first error *)
Definition C15_corr1 (chunks : list (list N)) (mode k : nat) (o : obs) : bool :=
  res_eqb pair_eqb (Ok (run_writes (script_of mode k) 0 (checked chunks) [])) o.

(* accepted bytes arrive compressed: AP e n = "error e, accepted = the first n
   bytes of the fault-free output"; AB e b = explicit bytes *)
Inductive aobs := AP (e : bool) (n : nat) | AB (e : bool) (b : list N) | APanic.
Definition decode_obs (chunks : list (list N)) (a : aobs) : obs :=
  match a with
  | AP e n => Ok (e, firstn n (concat chunks))
  | AB e b => Ok (e, b)
  | APanic => Panic
  end.
Definition decode_runs (c : list (list N) * list (nat * nat * aobs)) : list (list N) * list (nat * nat * obs) :=
  (fst c, map (fun '(m, k, a) => (m, k, decode_obs (fst c) a)) (snd c)).

Definition C15_case (c0 : list (list N) * list (nat * nat * aobs)) : N :=
  let '(chunks, runs) := decode_runs c0 in
  code (forallb (fun '(mode, k, o) => C15_corr1 chunks mode k o) runs)
       (forallb (fun '(mode, k, o) => C15_ok1 chunks mode k o) runs).

Definition C15_model (c0 : list (list N) * list (nat * nat * aobs)) :=
  let '(chunks, runs) := decode_runs c0 in
  map (fun '(mode, k, o) => (mode, k, run_writes (script_of mode k) 0 (checked chunks) [])) runs.
