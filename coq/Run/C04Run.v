(* C04 judged on the implementation's own output: every content line is
   byte-equal to the flattened spec line (each cell line unmodified in its own
   slot, padded per the effective alignment, declared width / height
   honoured), and there are as many lines as the layout says. *)
From Tab Require Export Run.C03Run Model.TextPass.

Fixpoint content_lines_ok (impl : list (list N)) (spec : list line) : bool :=
  match impl, spec with
  | [], [] => true
  | a :: impl', s :: spec' =>
      (match kind_of s with KContent => bytes_eqb a (flat_segs s) | KRule => true end)
      && content_lines_ok impl' spec'
  | _, _ => false
  end.

Definition C04_ok1 (t : wtab) (v : view) (dc : dcase) : bool :=
  let '(pre, d, obs) := dc in
  populate_ok pre d &&
  if in_domain t d v then
    match obs with
    | Ok out => content_lines_ok (lines_of out) (layout (Wof t) d v)
    | _ => false
    end
  else true.

(* A case is a text case plus the alignment writes the application's
   render-time callbacks made (in execution order, up to the moment the judged
   output was produced; the harness logs them as its callbacks perform them).
   The view of the case is the table as BUILT (computed from the spec); the
   render is judged - and the model run - on the view after the callbacks
   (Model/TextPass.v after_callbacks; c04_pass_refines, c04_pass_alignment). *)
Definition c04_case := (text_case * list cbwrite)%type.

Definition C04_case (c : c04_case) : N :=
  let '((t, v0, ds, flag), ws) := c in
  let v := after_callbacks ws v0 in
  code (forallb (corr1 t v) ds && domain_agrees t v ds flag) (forallb (C04_ok1 t v) ds).

Definition C04_model (c : c04_case) : list (res (list N)) :=
  let '((t, v0, ds, flag), ws) := c in C03_model (t, after_callbacks ws v0, ds, flag).
