(* C04 judged on the implementation's own output: every content line is
   byte-equal to the flattened spec line (each cell line unmodified in its own
   slot, padded per the effective alignment, declared width / height
   honoured), and there are as many lines as the layout says. *)
From Tab Require Export Run.C03Run.

Fixpoint content_lines_ok (impl : list (list N)) (spec : list line) : bool :=
  match impl, spec with
  | [], [] => true
  | a :: impl', s :: spec' =>
      (match kind_of s with KContent => bytes_eqb a (flat_segs s) | KRule => true end)
      && content_lines_ok impl' spec'
  | _, _ => false
  end.

Definition C04_ok1 (t : wtab) (v : view) (dc : dcase) : bool :=
  let '(pre, d, obs) := dc in
  populate_ok pre d &&
  if in_domain t d v then
    match obs with
    | Ok out => content_lines_ok (lines_of out) (layout (Wof t) d v)
    | _ => false
    end
  else true.

Definition C04_case (c : text_case) : N :=
  let '(t, v, ds, flag) := c in
  code (forallb (corr1 t v) ds && domain_agrees t v ds flag) (forallb (C04_ok1 t v) ds).

Definition C04_model (c : text_case) : list (res (list N)) := C03_model c.
