From Tab Require Export Run.Glue Run.C05Run Model.Wrap Model.Csv Proofs.WrapProofs.

(* one case: the target format, the table's view, and the outcome of rendering
   the same logical table to that format along many paths (creation path x
   nesting of wrappers x entry point); the first outcome is the reference
   (core-created table, format's own Wrap(t).Render()) *)
Definition outcome_eqb := res_eqb bytes_eqb.

Definition C10_ok (outs : list (res (list N))) : bool :=
  match outs with
  | [] => true
  | ref :: rest => forallb (outcome_eqb ref) rest
  end.

(* model: every path yields the format's output for the view (c10_render_is_out);
   the body is known to the development for the formats listed here *)
Definition C10_corr (k : nat) (v : view) (outs : list (res (list N))) : bool :=
  match k, outs with
  | 0, ref :: _ => outcome_eqb (csv_render v) ref
  | _, _ => true
  end.

Definition C10_case (c : nat * view * list (res (list N))) : N :=
  let '(k, v, outs) := c in code (C10_corr k v outs) (C10_ok outs).

Definition C10_model (c : nat * view * list (res (list N))) :=
  let '(k, v, outs) := c in match k with 0 => Some (csv_render v) | _ => None end.
