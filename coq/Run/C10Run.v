From Tab Require Export Run.Glue Run.C05Run Model.Wrap Model.Csv Proofs.WrapProofs.

(* one case: the target format, the table's view, and the outcome of rendering
   the same logical table to that format along many paths (creation path x
   nesting of wrappers x entry point); the first outcome is the reference
   (core-created table, format's own Wrap(t).Render()) *)
Definition outcome_eqb := res_eqb bytes_eqb.

Definition C10_ok (outs : list (res (list N))) : bool :=
  match outs with
  | [] => true
  | ref :: rest => forallb (outcome_eqb ref) rest
  end.

(* model: every path yields the format's output for the view (c10_render_is_out);
   the body is known to the development for the formats listed here *)
Definition C10_corr (k : nat) (v : view) (outs : list (res (list N))) : bool :=
  match k, outs with
  | 0, ref :: _ => outcome_eqb (csv_render v) ref
  | _, _ => true
  end.

Definition C10_case (c : nat * view * list (res (list N))) : N :=
  let '(k, v, outs) := c in code (C10_corr k v outs) (C10_ok outs).

Definition C10_model (c : nat * view * list (res (list N))) :=
  let '(k, v, outs) := c in match k with 0 => Some (csv_render v) | _ => None end.

(* compact form: the distinct outcomes once, and for every path (in order) the
   index of its outcome (the harness's indices are in range by construction; an
   index out of range would read as a panic) *)
Definition expand (ds : list (res (list N))) (ix : list nat) : list (res (list N)) :=
  map (fun i => nth i ds Panic) ix.

Definition C10_case2 (c : nat * view * list (res (list N)) * list nat) : N :=
  let '(k, v, ds, ix) := c in C10_case (k, v, expand ds ix).

Definition C10_model2 (c : nat * view * list (res (list N)) * list nat) :=
  let '(k, v, ds, ix) := c in C10_model (k, v, expand ds ix).
