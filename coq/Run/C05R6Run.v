(* C05 cases since round 6: a session whose render steps also say HOW the
   render was made - through a string-returning entry point or into a buffer
   (None), or RenderTo into a destination with room for b more bytes (Some b:
   a payload that does not fit is taken in part and the Write fails).  The
   oracle is the same for all: when the render reported success, what came out
   (what the destination holds) must parse back to exactly the table. *)
From Tab Require Export Run.C05Run Model.CsvWriter.

(* view index, destination, what the implementation returned (Ok = nil with
   these bytes out), what the destination holds after a render that failed *)
Definition c05step := (nat * option nat * res (list N) * list N)%type.
Definition c05x := (list view * list c05step)%type.

Definition S0 (p : nat * res (list N)) : c05step := (fst p, None, snd p, []).
(* the room is shipped as a binary number *)
Definition SW (vi : nat) (b : N) (obs : res (list N)) (held : list N) : c05step := (vi, Some (N.to_nat b), obs, held).

Definition C05x_step_ok (v : view) (st : c05step) : bool :=
  let '(_, _, obs, _) := st in C05_ok v obs.

Definition C05x_step_corr (v : view) (st : c05step) : bool :=
  let '(_, dest, obs, held) := st in
  match dest with
  | None => res_eqb bytes_eqb (csv_render_string v) obs
  | Some b =>
      let '(acc, r) := csv_render_to_budget v b in
      match r, obs with
      | Ok _, Ok out => bytes_eqb acc out
      | Err, Err => bytes_eqb acc held
      | Panic, Panic => true
      | _, _ => false
      end
  end.

Definition C05x_each (f : view -> c05step -> bool) (c : c05x) : bool :=
  let '(vs, steps) := c in
  forallb (fun st : c05step =>
             let '(vi, _, _, _) := st in
             match nth_error vs vi with Some v => f v st | None => false end) steps.

Definition C05x_case (c : c05x) : N := code (C05x_each C05x_step_corr c) (C05x_each C05x_step_ok c).

Definition C05x_model (c : c05x) : list (option (list N * res unit)) :=
  let '(vs, steps) := c in
  map (fun st : c05step =>
         let '(vi, dest, _, _) := st in
         match nth_error vs vi with
         | None => None
         | Some v =>
             Some (match dest with
                   | None => match csv_render_string v with Ok o => (o, Ok tt) | Err => ([], Err) | Panic => ([], Panic) end
                   | Some b => csv_render_to_budget v b
                   end)
         end) steps.
