(* The pipeline correspondence: the whole-table machine (Model/Table.v: core +
   cells made from items + column properties) against the real library on the
   same history of public-API calls.  The harness replays a history on a real
   table, reads back through the public API everything a renderer can see
   (NColumns, Headers, AllRows, every cell's String/Empty/Item-encoding/
   TerminalCellWidth/Height/TerminalCellWidther, every column's alignment and
   skipable property) and ships the history with the ITEMS as the caller gave
   them; here the machine runs the history and must produce exactly that view.
   This is the composition the end-to-end theorems (the `_history` statements
   of Props/C01, C03 .. C09) are about. *)
From Tab Require Export Run.Glue Model.Table Spec.TableHist Model.Csv Model.JsonString.

(* oracles of one case *)
Record pipe_oracle := mkPO {
  po_w     : list (list N * nat);        (* length.StringCells of every text line *)
  po_env   : list (N * obj);             (* descriptors of the object items, by id *)
  po_strj  : list (list N * list N);     (* json.Marshal of every string item *)
  po_runej : list (Z * list N)           (* json.Marshal of every rune item *)
}.

Fixpoint lookup_w (t : list (list N * nat)) (s : list N) : nat :=
  match t with [] => 0 | (k, n) :: r => if bytes_eqb k s then n else lookup_w r s end.
Fixpoint lookup_b (t : list (list N * list N)) (s : list N) : option (list N) :=
  match t with [] => None | (k, v) :: r => if bytes_eqb k s then Some v else lookup_b r s end.
Fixpoint lookup_z (t : list (Z * list N)) (z : Z) : option (list N) :=
  match t with [] => None | (k, v) :: r => if Z.eqb k z then Some v else lookup_z r z end.

Definition no_obj : obj := mkObj None None None None None [] None.
Definition env_of (l : list (N * obj)) : env :=
  fun id => match find (fun p => N.eqb (fst p) id) l with Some p => snd p | None => no_obj end.

(* encoding/json on the items that are not objects: nil is null; a Cell value
   (a struct without exported fields) is {}; strings and runes from the tables *)
Definition json_of (o : pipe_oracle) (it : item) : option (list N) :=
  match it with
  | INil => Some [110; 117; 108; 108]%N
  | IString s => lookup_b (po_strj o) s
  | IRune r => lookup_z (po_runej o) r
  | ICell _ => Some [123; 125]%N
  | IObj _ => None
  end.

(* a history as the harness writes it: nested Cell values are made by NewCell,
   so the term is a function of the measure and the environment *)
Definition pipe_hist := (list N -> nat) -> env -> list top.

Definition pipe_view (o : pipe_oracle) (h : pipe_hist) : view :=
  let W := lookup_w (po_w o) in
  let e := env_of (po_env o) in
  table_view (vcell_of_item W e (json_of o)) (trun (h W e)).

(* ---- equality of views *)
Definition vcell_eqb (a b : vcell) : bool :=
  bytes_eqb (vc_text a) (vc_text b) && Bool.eqb (vc_empty a) (vc_empty b)
  && option_eqb bytes_eqb (vc_json a) (vc_json b)
  && Z.eqb (vc_tw a) (vc_tw b) && Z.eqb (vc_h a) (vc_h b) && Bool.eqb (vc_widther a) (vc_widther b).
Definition align_eqb (a b : align) : bool :=
  match a, b with ALeft, ALeft | ARight, ARight | ACenter, ACenter => true | _, _ => false end.
Definition skipv_eqb (a b : skipv) : bool :=
  match a, b with SkBool x, SkBool y => Bool.eqb x y | SkOther, SkOther => true | _, _ => false end.
Definition view_eqb (a b : view) : bool :=
  (v_ncols a =? v_ncols b)
  && option_eqb (list_eqb vcell_eqb) (v_header a) (v_header b)
  && list_eqb (option_eqb (list_eqb vcell_eqb)) (v_rows a) (v_rows b)
  && list_eqb (option_eqb align_eqb) (v_align a) (v_align b)
  && list_eqb (option_eqb skipv_eqb) (v_skip a) (v_skip b).

(* one pipeline case: oracles, the history, the view read back from the real
   table, what csv.Render returned on it *)
Definition pipe_case := (pipe_oracle * pipe_hist * view * res (list N))%type.

(* corr: the history is one the theorems quantify over, the machine's view is
   the real table's, the CSV model on the MACHINE's view gives the real bytes,
   and json.Marshal of every string is what the encoder model computes *)
Definition pipe_corr (c : pipe_case) : bool :=
  let '(o, h, obs, csv) := c in
  let W := lookup_w (po_w o) in
  let e := env_of (po_env o) in
  twf_histb (h W e)
  && view_eqb (pipe_view o h) obs
  && res_eqb bytes_eqb (csv_render (pipe_view o h)) csv
  (* encoding/json on every string item is the modelled encoder (Model/JsonString.v) *)
  && forallb (fun p => bytes_eqb (go_json_string (fst p)) (snd p)) (po_strj o).

(* for replays: what the machine computes *)
Definition pipe_model (c : pipe_case) := let '(o, h, _, _) := c in (pipe_view o h, csv_render (pipe_view o h)).

(* ---- programs that mutate items and update cells (Model/TableMut.v): the
   view read back from the real table after the program must be the mutation
   machine's - texts and sizes as cached at the last read, encodings as the
   objects are now *)
From Tab Require Export Model.TableMut.

Definition pipe_mhist := (list N -> nat) -> env -> list mop.
Definition pipe_mcase := (pipe_oracle * pipe_mhist * view)%type.

Definition pipe_mview (o : pipe_oracle) (h : pipe_mhist) : view :=
  let W := lookup_w (po_w o) in
  let e := env_of (po_env o) in
  mview W (json_of o) (mrun e (h W e)).

Definition pipe_mcorr (c : pipe_mcase) : bool :=
  let '(o, h, obs) := c in view_eqb (pipe_mview o h) obs.
