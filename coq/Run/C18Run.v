(* C18: evaluation of harness cases.  The harness ships, per case, the string,
   what the real functions returned, and oracle tables filled from the real
   go-runewidth / uniseg: for the string and each of its lines the grapheme
   clusters (as runes), and RuneWidth for every rune that occurs. *)
From Tab Require Export Run.Glue Model.Length Model.Cell Model.CellFail Spec.Length Spec.CellText.

Definition seg_of (tab : list (list N * list (list Z))) (k : list N) : list (list Z) :=
  match find (fun p => bytes_eqb (fst p) k) tab with Some p => snd p | None => [] end.
Definition rw_of (tab : list (Z * nat)) (r : Z) : nat :=
  match find (fun p => Z.eqb (fst p) r) tab with Some p => snd p | None => 0 end.

Definition meas := (nat * nat * nat)%type.     (* bytes, runes, cells *)
Definition mB (m : meas) : nat := fst (fst m).
Definition mR (m : meas) : nat := snd (fst m).
Definition mC (m : meas) : nat := snd m.

(* what is read off one cell *)
Record c18_cellobs := mkCO18 {
  co_text  : list N;          (* String() *)
  co_lines : list (list N);   (* Lines() *)
  co_h     : Z;               (* Height() *)
  co_w     : Z;               (* TerminalCellWidth() *)
  co_lw    : list nat         (* length.StringCells of every line of String() *)
}.

Record c18_obs := mkObs18 {
  o_lines  : list (list N);   (* length.Lines(s) *)
  o_lmeas  : list meas;       (* StringBytes/Runes/Cells of every such line *)
  o_whole  : meas;            (* the same of s itself *)
  o_long   : meas;            (* LongestLineBytes/Runes/Cells(s) *)
  o_cell   : c18_cellobs;     (* the cell right after NewCell / AddRowItems *)
  o_steps  : list c18_cellobs;(* the same cell after every "item's text changed; Update()" *)
  o_render : list N;          (* i_rmode <> 0: a one-cell table holding the item, rendered by texttable (ascii-simple) *)
  o_render_last : list N;     (* kind 5: the table that holds the cell, rendered after the last step *)
  o_grid   : list (list N);   (* grid probe: the table rendered through ONE texttable wrapper (ascii-simple), once per stage *)
  o_gridw  : list (list N * nat); (* length.StringCells of every line of every text of the grid *)
  o_nocell : bool;            (* NewCell panicked (the item's text method did): there is no cell, o_cell is a dummy *)
  o_panicked : list bool      (* per step: that Update() call panicked *)
}.

(* grid probe: a whole table of texts (no item overrides its size).  A stage is
   the table as it stands - NColumns, the header texts if any, the rows' texts,
   short and empty rows included; stage k+1 is stage k after one change made in
   place (a cell's item changed + Update(), a cell added to a row, the headers
   replaced), rendered again through the same wrapper. *)
Record g_stage := mkStage {
  g_ncols  : nat;
  g_header : option (list (list N));
  g_rows   : list (list (list N))
}.

Record c18_in := mkIn18 {
  i_s    : list N;
  i_kind : nat;               (* how the cell's item carries s: 0 string, 1 Stringer, 2 error, 3 GoStringer,
                                 4 nested Cell of the string, 5 Stringer in a cell that lives in a table *)
  i_next : list (list N);     (* the texts the item is changed to, one Update() after each *)
  i_rmode : nat;              (* render probe: 0 none, 1 as the only body cell, 2 as the only header cell;
                                 one column of three cells - the item, the wide text [i_wide], and a twin item
                                 with the same text that declares display width [i_decl] -:
                                 3 body rows item, wide, twin; 4 item as header, body rows wide, twin;
                                 5 body rows twin, wide, item *)
  i_wide : list N;            (* printable ASCII, wider than everything else in the column *)
  i_decl : nat;
  i_seg  : list (list N * list (list Z));
  i_rw   : list (Z * nat);
  i_cw   : list (list Z * nat);  (* runewidth.StringWidth of every cluster on its own *)
  i_grid : list g_stage;
  i_fails : list bool         (* the item's text method panics when called: head = while the cell is created,
                                 then one per step; missing entries = it does not *)
}.

Definition meas_eqb (a b : meas) : bool :=
  (mB a =? mB b) && (mR a =? mR b) && (mC a =? mC b).
Definition lines_eqb := list_eqb bytes_eqb.

Definition meas_bounds (m : meas) : bool := (mR m <=? mB m) && (mC m <=? 2 * mR m).

(* a string item and a nested Cell cannot change; the objects can *)
Definition c18_mutable (kind : nat) : bool :=
  match kind with 0 | 4 => false | _ => true end.

(* the cell clause on one observation of a cell whose text must be [t]:
   Lines() are the lines of String(), Height() is their number,
   TerminalCellWidth() is the widest of them *)
Definition cellobs_ok (t : list N) (o : c18_cellobs) : bool :=
  bytes_eqb (co_text o) t
  && lines_eqb (co_lines o) (spec_lines (co_text o))
  && Z.eqb (co_h o) (Zlen (co_lines o))
  && (length (co_lw o) =? length (co_lines o))
  && Z.eqb (co_w o) (Z.of_nat (list_max (co_lw o))).

(* the same clause when the property does not say which text the cell shows
   (the item's text method panicked during this very call): whatever the cell
   shows now, its height and width are those of that text *)
Definition cellobs_consistent (o : c18_cellobs) : bool :=
  lines_eqb (co_lines o) (spec_lines (co_text o))
  && Z.eqb (co_h o) (Zlen (co_lines o))
  && (length (co_lw o) =? length (co_lines o))
  && Z.eqb (co_w o) (Z.of_nat (list_max (co_lw o))).

Definition fail_hd (fs : list bool) : bool := match fs with f :: _ => f | [] => false end.
Definition fail_tl (fs : list bool) : list bool := match fs with _ :: r => r | [] => [] end.

Fixpoint steps_ok (kind : nat) (s : list N) (nexts : list (list N)) (fails : list bool) (obs : list c18_cellobs) : bool :=
  match nexts, obs with
  | [], [] => true
  | t :: nexts', o :: obs' =>
      (if fail_hd fails then cellobs_consistent o else cellobs_ok (if c18_mutable kind then t else s) o)
      && steps_ok kind s nexts' (fail_tl fails) obs'
  | _, _ => false
  end.

(* ---- the text renderer on a one-cell table, ascii-simple decoration: what
   "the layout pass and the emit pass agree" looks like from outside.  With
   w = the widest line, every rule is + - ... - + over w+2 dashes and every
   content line is | SP line padding SP | with padding = w - StringCells(line);
   a cell without lines still gets one (blank) content line. *)
Definition r_rule (w : nat) : list N := [43%N] ++ repeat 45%N (w + 2) ++ [43%N; LF].
Definition r_content (w : nat) (p : list N * nat) : list N :=
  [124%N; SP] ++ fst p ++ repeat SP (w - snd p) ++ [SP; 124%N; LF].
Definition render_expected (mode : nat) (ls : list (list N)) (lw : list nat) : list N :=
  let w := list_max lw in
  let body := match combine ls lw with
              | [] => r_content w ([], 0)
              | ps => flat_map (r_content w) ps
              end in
  match mode with
  | 2 => r_rule w ++ body ++ r_rule w ++ r_rule w     (* header top, header lines, header/body rule, bottom *)
  | _ => r_rule w ++ body ++ r_rule w                 (* body top, lines, bottom *)
  end.

(* the column of three cells.  A twin with exactly one line is laid out with
   its declared width; otherwise its lines measure as they are. *)
Definition r_item (w : nat) (ls : list (list N)) (lw : list nat) : list N :=
  match combine ls lw with
  | [] => r_content w ([], 0)
  | ps => flat_map (r_content w) ps
  end.
Definition r_twin (w d : nat) (ls : list (list N)) (lw : list nat) : list N :=
  match ls with
  | [l] => r_content w (l, d)
  | _ => r_item w ls lw
  end.
Definition printable (b : N) : bool := (32 <=? b)%N && (b <=? 126)%N.
Definition render_expected3 (mode : nat) (ls : list (list N)) (lw : list nat) (wide : list N) (d : nat) : list N :=
  let w := Nat.max (Nat.max (list_max lw) (length wide)) d in
  let a := r_item w ls lw in
  let b := r_content w (wide, length wide) in
  let c := r_twin w d ls lw in
  match mode with
  | 4 => r_rule w ++ a ++ r_rule w ++ b ++ c ++ r_rule w
  | 5 => r_rule w ++ c ++ b ++ a ++ r_rule w
  | _ => r_rule w ++ a ++ b ++ c ++ r_rule w
  end.

Definition render_probe (i : c18_in) (lw : list nat) : list N :=
  match i_rmode i with
  | 0 => []
  | 1 | 2 => render_expected (i_rmode i) (spec_lines (i_s i)) lw
  | m => render_expected3 m (spec_lines (i_s i)) lw (i_wide i) (i_decl i)
  end.

(* ---- "the layout pass and the emit pass of the text renderer always agree",
   for a whole table, ascii-simple decoration.  [W] measures one line.
   layout: column j is as wide as the widest cell in it, a cell is as wide as
   its widest line; emit: every rule is + and, per column, width+2 dashes and
   +; a row has as many content lines as its tallest cell (at least one); on
   content line l column j shows line l of the row's cell j (nothing when the
   row has no such cell or the cell no such line) as SP text padding SP, with
   padding = column width - W text. *)
Section Grid.
  Variable W : list N -> nat.
  Definition g_cellw (t : list N) : nat := list_max (map W (spec_lines t)).
  Definition g_colws (ncols : nat) (rs : list (list (list N))) : list nat :=
    map (fun j => list_max (map (fun r => match nth_error r j with Some t => g_cellw t | None => 0 end) rs))
        (seq 0 ncols).
  Definition g_rule (ws : list nat) : list N :=
    match ws with
    | [] => [43%N; 43%N; LF]     (* no column at all: just the two corners *)
    | _ => [43%N] ++ flat_map (fun w => repeat 45%N (w + 2) ++ [43%N]) ws ++ [LF]
    end.
  Definition g_piece (r : list (list N)) (l : nat) (jw : nat * nat) : list N :=
    let ln := match nth_error r (fst jw) with
              | Some t => match nth_error (spec_lines t) l with Some x => x | None => [] end
              | None => []
              end in
    [SP] ++ ln ++ repeat SP (snd jw - W ln) ++ [SP; 124%N].
  Definition g_line (ws : list nat) (r : list (list N)) (l : nat) : list N :=
    [124%N] ++ flat_map (g_piece r l) (combine (seq 0 (length ws)) ws) ++ [LF].
  Definition g_row (ws : list nat) (r : list (list N)) : list N :=
    flat_map (g_line ws r) (seq 0 (Nat.max 1 (list_max (map (fun t => length (spec_lines t)) r)))).
  Definition g_expected (st : g_stage) : list N :=
    let all := match g_header st with Some h => h :: g_rows st | None => g_rows st end in
    let ws := g_colws (g_ncols st) all in
    match g_header st with
    | Some h => g_rule ws ++ g_row ws h ++ g_rule ws
    | None => g_rule ws
    end ++ flat_map (g_row ws) (g_rows st) ++ g_rule ws.
End Grid.

Definition g_texts (st : g_stage) : list (list N) :=
  concat (match g_header st with Some h => h :: g_rows st | None => g_rows st end).
Definition grid_lines (i : c18_in) : list (list N) :=
  flat_map (fun st => flat_map spec_lines (g_texts st)) (i_grid i).
Definition gridw_of (tab : list (list N * nat)) (k : list N) : nat :=
  match find (fun p => bytes_eqb (fst p) k) tab with Some p => snd p | None => 0 end.
(* the shape the column count stands for *)
Definition g_shape_ok (st : g_stage) : bool :=
  forallb (fun r => length r <=? g_ncols st) (match g_header st with Some h => h :: g_rows st | None => g_rows st end).

Definition grid_ok (i : c18_in) (o : c18_obs) : bool :=
  (length (o_grid o) =? length (i_grid i))
  && forallb (fun l => existsb (fun p => bytes_eqb (fst p) l) (o_gridw o)) (grid_lines i)
  && forallb (fun p => bytes_eqb (fst p) (g_expected (gridw_of (o_gridw o)) (snd p)) && g_shape_ok (snd p))
             (combine (o_grid o) (i_grid i)).

Definition last_text (i : c18_in) : list N :=
  if c18_mutable (i_kind i) then last (i_next i) (i_s i) else i_s i.

(* ---- the property, judged on the implementation's own numbers *)
Definition C18_ok (i : c18_in) (ob : res c18_obs) : bool :=
  match ob with
  | Ok o =>
      let s := i_s i in
      (* lines: exactly the specification's, nothing lost *)
      lines_eqb (o_lines o) (spec_lines s)
      && losslessb s (o_lines o)
      (* byte length is the length; per line and whole: runes <= bytes, cells <= 2 runes *)
      && list_eqb Nat.eqb (map mB (o_lmeas o)) (map (@length N) (o_lines o))
      && (mB (o_whole o) =? length s)
      && forallb meas_bounds (o_whole o :: o_lmeas o)
      (* longest = maximum of the per-line measure *)
      && meas_eqb (o_long o) (list_max (map mB (o_lmeas o)), list_max (map mR (o_lmeas o)), list_max (map mC (o_lmeas o)))
      (* the cell, fresh and after every Update *)
      && (if o_nocell o then
            (* no cell came into existence: nothing to hold, provided the item's method did fail *)
            fail_hd (i_fails i) && is_nil (o_steps o)
          else
            (if fail_hd (i_fails i) then cellobs_consistent (o_cell o)
             else cellobs_ok s (o_cell o) && list_eqb Nat.eqb (co_lw (o_cell o)) (map mC (o_lmeas o)))
            && steps_ok (i_kind i) s (i_next i) (fail_tl (i_fails i)) (o_steps o))
      (* the text renderer lays the cell out by exactly these numbers *)
      && match i_rmode i with
         | 0 => true
         | _ => bytes_eqb (o_render o) (render_probe i (map mC (o_lmeas o))) && forallb printable (i_wide i)
         end
      && match i_kind i with
         | 5 => let lo := last (o_steps o) (o_cell o) in
                (* after a call cut short by the item, the table shows whatever the cell shows *)
                let lt := if existsb (fun b => b) (i_fails i) then co_text lo else last_text i in
                bytes_eqb (o_render_last o) (render_expected 1 (spec_lines lt) (co_lw lo))
         | _ => true
         end
      (* whole tables: layout and emit agree, at every stage through one wrapper *)
      && grid_ok i o
  | Err => false
  | Panic => false
  end.

(* ---- the model, run with the shipped oracles *)
Definition c18_env_for (kind : nat) (t : list N) : env :=
  fun _ => match kind with
           | 1 | 5 => mkObj (Some t) None None None None [] None
           | 2 => mkObj None None (Some t) None None [] None
           | 3 => mkObj None (Some t) None None None [] None
           | _ => mkObj None None None None None [] None
           end.

Definition cellobs_of (W : list N -> nat) (c : cell) : res c18_cellobs :=
  bind (cell_lines c) (fun cl =>
  bind (layout_nlines c) (fun _ =>
  Ok (mkCO18 (cell_text c) cl (cell_height c) (cell_width c) (map W cl)))).

(* one Update() per step on the same cell; a step whose call panics (the
   caller recovers) leaves the cell as Model/CellFail.v says *)
Fixpoint steps_model (W : list N -> nat) (kind : nat) (c : cell) (nexts : list (list N)) (fails : list bool)
  : res (list c18_cellobs * list bool) :=
  match nexts with
  | [] => Ok ([], [])
  | t :: rest =>
      let e := c18_env_for kind t in
      let f := fail_hd fails in
      let c' := update_f W e f c in
      bind (match update_fr W e f c with Ok _ => Ok false | Panic => Ok true | Err => Err end) (fun p =>
      bind (cellobs_of W c') (fun o =>
      bind (steps_model W kind c' rest (fail_tl fails)) (fun r => Ok (o :: fst r, p :: snd r))))
  end.

Definition dummy_cellobs : c18_cellobs := mkCO18 [] [] 0 0 [].

Definition c18_run (i : c18_in) : res c18_obs :=
  let s := i_s i in
  let seg := seg_of (i_seg i) in
  let rw := rw_of (i_rw i) in
  let W := string_cells seg rw in
  let ms := fun l => (string_bytes l, string_runes l, W l) in
  let e := c18_env_for (i_kind i) s in
  let it := match i_kind i with
            | 0 => IString s
            | 4 => ICell (new_cell W e (IString s))
            | _ => IObj 0
            end in
  bind (lines s) (fun ls =>
  bind (longest_line_bytes s) (fun lb =>
  bind (longest_line_runes s) (fun lr =>
  bind (longest_line_cells seg rw s) (fun lc =>
  match new_cell_fr W e (fail_hd (i_fails i)) it with
  | Panic => Ok (mkObs18 ls (map ms ls) (ms s) (lb, lr, lc) dummy_cellobs [] [] [] [] [] true [])
  | Err => Err
  | Ok c =>
  bind (cellobs_of W c) (fun co =>
  bind (steps_model W (i_kind i) c (i_next i) (fail_tl (i_fails i))) (fun st =>
  Ok (mkObs18 ls (map ms ls) (ms s) (lb, lr, lc) co (fst st) [] [] [] [] false (snd st))))
  end)))).

Definition cellobs_eqb (a b : c18_cellobs) : bool :=
  bytes_eqb (co_text a) (co_text b)
  && lines_eqb (co_lines a) (co_lines b)
  && Z.eqb (co_h a) (co_h b)
  && Z.eqb (co_w a) (co_w b)
  && list_eqb Nat.eqb (co_lw a) (co_lw b).

(* the rendered bytes are judged by C18_ok only (the text renderer's model belongs to C03/C04) *)
Definition obs18_eqb (a b : c18_obs) : bool :=
  lines_eqb (o_lines a) (o_lines b)
  && list_eqb meas_eqb (o_lmeas a) (o_lmeas b)
  && meas_eqb (o_whole a) (o_whole b)
  && meas_eqb (o_long a) (o_long b)
  && cellobs_eqb (o_cell a) (o_cell b)
  && list_eqb cellobs_eqb (o_steps a) (o_steps b)
  && Bool.eqb (o_nocell a) (o_nocell b)
  && list_eqb Bool.eqb (o_panicked a) (o_panicked b).

(* every string that gets measured: s, the texts it is changed to, and all their lines *)
Definition c18_strings (i : c18_in) : list (list N) :=
  flat_map (fun t => t :: spec_lines t) (i_s i :: i_next i) ++ grid_lines i.

(* the three assumptions of c18_cells_le_2runes hold for the real library's
   data on every one of them *)
Definition c18_oracle_ok (i : c18_in) : bool :=
  forallb (oracle_okb (seg_of (i_seg i)) (rw_of (i_rw i))) (c18_strings i)
  (* the model's cluster measure is the library's, cluster by cluster *)
  && forallb (fun p => cluster_width (rw_of (i_rw i)) (fst p) =? snd p) (i_cw i)
  && forallb (fun k => forallb (fun cl => existsb (fun p => list_eqb Z.eqb (fst p) cl) (i_cw i)) (seg_of (i_seg i) k))
             (c18_strings i).

(* the display width the model computes (clusters and rune widths from the
   real libraries) is what length.StringCells said for every line of the grid *)
Definition grid_corr (i : c18_in) (ob : res c18_obs) : bool :=
  match ob with
  | Ok o => forallb (fun p => string_cells (seg_of (i_seg i)) (rw_of (i_rw i)) (fst p) =? snd p) (o_gridw o)
  | _ => true
  end.

Definition C18_case (c : c18_in * res c18_obs) : N :=
  let '(i, ob) := c in
  code (res_eqb obs18_eqb (c18_run i) ob && c18_oracle_ok i && grid_corr i ob) (C18_ok i ob).

(* for replays: what the model computes, whether the oracle assumptions held,
   and the rendering the probe expects *)
Definition C18_model (c : c18_in * res c18_obs) :=
  (c18_run (fst c), c18_oracle_ok (fst c),
   match snd c with
   | Ok o => (render_probe (fst c) (map mC (o_lmeas o)), map (g_expected (gridw_of (o_gridw o))) (i_grid (fst c)))
   | _ => ([], [])
   end).
