(* C18: evaluation of harness cases.  The harness ships, per case, the string,
   what the real functions returned, and oracle tables filled from the real
   go-runewidth / uniseg: for the string and each of its lines the grapheme
   clusters (as runes), and RuneWidth for every rune that occurs. *)
From Tab Require Export Run.Glue Model.Length Model.Cell Spec.Length Spec.CellText.

Definition seg_of (tab : list (list N * list (list Z))) (k : list N) : list (list Z) :=
  match find (fun p => bytes_eqb (fst p) k) tab with Some p => snd p | None => [] end.
Definition rw_of (tab : list (Z * nat)) (r : Z) : nat :=
  match find (fun p => Z.eqb (fst p) r) tab with Some p => snd p | None => 0 end.

Definition meas := (nat * nat * nat)%type.     (* bytes, runes, cells *)
Definition mB (m : meas) : nat := fst (fst m).
Definition mR (m : meas) : nat := snd (fst m).
Definition mC (m : meas) : nat := snd m.

Record c18_obs := mkObs18 {
  o_lines  : list (list N);   (* length.Lines(s) *)
  o_lmeas  : list meas;       (* StringBytes/Runes/Cells of every such line *)
  o_whole  : meas;            (* the same of s itself *)
  o_long   : meas;            (* LongestLineBytes/Runes/Cells(s) *)
  o_ctext  : list N;          (* NewCell(item).String() *)
  o_clines : list (list N);   (* .Lines() *)
  o_ch     : Z;               (* .Height() *)
  o_cw     : Z                (* .TerminalCellWidth() *)
}.

Record c18_in := mkIn18 {
  i_s    : list N;
  i_kind : nat;               (* how the cell's item carries s: 0 string, 1 Stringer, 2 error, 3 GoStringer, 4 nested Cell of the string *)
  i_seg  : list (list N * list (list Z));
  i_rw   : list (Z * nat);
  i_cw   : list (list Z * nat)   (* runewidth.StringWidth of every cluster on its own *)
}.

Definition meas_eqb (a b : meas) : bool :=
  (mB a =? mB b) && (mR a =? mR b) && (mC a =? mC b).
Definition lines_eqb := list_eqb bytes_eqb.

Definition meas_bounds (m : meas) : bool := (mR m <=? mB m) && (mC m <=? 2 * mR m).

(* ---- the property, judged on the implementation's own numbers *)
Definition C18_ok (i : c18_in) (ob : res c18_obs) : bool :=
  match ob with
  | Ok o =>
      let s := i_s i in
      (* lines: exactly the specification's, nothing lost *)
      lines_eqb (o_lines o) (spec_lines s)
      && losslessb s (o_lines o)
      (* byte length is the length; per line and whole: runes <= bytes, cells <= 2 runes *)
      && list_eqb Nat.eqb (map mB (o_lmeas o)) (map (@length N) (o_lines o))
      && (mB (o_whole o) =? length s)
      && forallb meas_bounds (o_whole o :: o_lmeas o)
      (* longest = maximum of the per-line measure *)
      && meas_eqb (o_long o) (list_max (map mB (o_lmeas o)), list_max (map mR (o_lmeas o)), list_max (map mC (o_lmeas o)))
      (* the cell: text s, its lines, height = number of lines, width = widest line *)
      && bytes_eqb (o_ctext o) s
      && lines_eqb (o_clines o) (spec_lines (o_ctext o))
      && Z.eqb (o_ch o) (Zlen (o_clines o))
      && Z.eqb (o_cw o) (Z.of_nat (list_max (map mC (o_lmeas o))))
  | Err => false
  | Panic => false
  end.

(* ---- the model, run with the shipped oracles *)
Definition c18_env (i : c18_in) : env :=
  fun _ => match i_kind i with
           | 1 => mkObj (Some (i_s i)) None None None None [] None
           | 2 => mkObj None None (Some (i_s i)) None None [] None
           | 3 => mkObj None (Some (i_s i)) None None None [] None
           | _ => mkObj None None None None None [] None
           end.

Definition c18_run (i : c18_in) : res c18_obs :=
  let s := i_s i in
  let seg := seg_of (i_seg i) in
  let rw := rw_of (i_rw i) in
  let W := string_cells seg rw in
  let ms := fun l => (string_bytes l, string_runes l, W l) in
  let e := c18_env i in
  let it := match i_kind i with
            | 0 => IString s
            | 4 => ICell (new_cell W e (IString s))
            | _ => IObj 0
            end in
  bind (lines s) (fun ls =>
  bind (longest_line_bytes s) (fun lb =>
  bind (longest_line_runes s) (fun lr =>
  bind (longest_line_cells seg rw s) (fun lc =>
  bind (new_cell_r W e it) (fun c =>
  bind (cell_lines c) (fun cl =>
  bind (layout_nlines c) (fun _ =>
  Ok (mkObs18 ls (map ms ls) (ms s) (lb, lr, lc) (cell_text c) cl (cell_height c) (cell_width c))))))))).

Definition obs18_eqb (a b : c18_obs) : bool :=
  lines_eqb (o_lines a) (o_lines b)
  && list_eqb meas_eqb (o_lmeas a) (o_lmeas b)
  && meas_eqb (o_whole a) (o_whole b)
  && meas_eqb (o_long a) (o_long b)
  && bytes_eqb (o_ctext a) (o_ctext b)
  && lines_eqb (o_clines a) (o_clines b)
  && Z.eqb (o_ch a) (o_ch b)
  && Z.eqb (o_cw a) (o_cw b).

(* the three assumptions of c18_cells_le_2runes hold for the real library's
   data on this string and on each of its lines *)
Definition c18_oracle_ok (i : c18_in) : bool :=
  forallb (oracle_okb (seg_of (i_seg i)) (rw_of (i_rw i))) (i_s i :: spec_lines (i_s i))
  (* the model's cluster measure is the library's, cluster by cluster *)
  && forallb (fun p => cluster_width (rw_of (i_rw i)) (fst p) =? snd p) (i_cw i)
  && forallb (fun k => forallb (fun cl => existsb (fun p => list_eqb Z.eqb (fst p) cl) (i_cw i)) (seg_of (i_seg i) k))
             (i_s i :: spec_lines (i_s i)).

Definition C18_case (c : c18_in * res c18_obs) : N :=
  let '(i, ob) := c in
  code (res_eqb obs18_eqb (c18_run i) ob && c18_oracle_ok i) (C18_ok i ob).

(* for replays: what the model computes, and whether the oracle assumptions held *)
Definition C18_model (c : c18_in * res c18_obs) : res c18_obs * bool :=
  (c18_run (fst c), c18_oracle_ok (fst c)).
