From Tab Require Export Run.Glue Base.PropsOps Base.PropsViaOps Model.Props Model.PropsHeap Model.PropsVia Spec.PropMap Spec.PropMapVia.

(* The observed trace is shipped as bytes (literal elaboration is the cost):
   per step the result, then per watched owner either 255 (no such owner) or
   the chain length followed by one byte per key of the universe.  A step whose
   result is R_PANIC ends the trace.  Decoding is glue; a malformed trace
   decodes to something no model or spec trace equals. *)
Fixpoint dec_vals (n : nat) (l : list N) : option (list nat * list N) :=
  match n with
  | 0 => Some ([], l)
  | S m => match l with
           | [] => None
           | x :: r => match dec_vals m r with
                       | Some (vs, r') => Some (N.to_nat x :: vs, r')
                       | None => None
                       end
           end
  end.

Fixpoint dec_dump (nw nk : nat) (l : list N) : option (dump * list N) :=
  match nw with
  | 0 => Some ([], l)
  | S w =>
      match l with
      | [] => None
      | x :: r =>
          if N.eqb x 255 then
            match dec_dump w nk r with Some (d, r') => Some (None :: d, r') | None => None end
          else
            match dec_vals nk r with
            | Some (vs, r1) =>
                match dec_dump w nk r1 with Some (d, r') => Some (Some (N.to_nat x, vs) :: d, r') | None => None end
            | None => None
            end
      end
  end.

Fixpoint dec_trace (fuel nw nk : nat) (l : list N) : list stepobs :=
  match fuel with
  | 0 => [(97, [])]
  | S f =>
      match l with
      | [] => []
      | x :: r =>
          if N.eqb x 98 then [(R_PANIC, [])]
          else match dec_dump nw nk r with
               | Some (d, r') => (N.to_nat x, d) :: dec_trace f nw nk r'
               | None => [(97, [])]
               end
      end
  end.

(* a case: key universe, watched owners (each read through a facade: 0 = the
   core table, S i = the i-th rendering wrapper made in the history), the
   history (every op called through a facade; VWrap makes a wrapper), and what
   the implementation was observed to do after every step *)
Definition c12_case := (list key * list vowner * list vop * list N)%type.

Definition c12_obs (c : c12_case) : list stepobs :=
  let '(U, watch, ops, tr) := c in dec_trace (S (length tr)) (length watch) (length U) tr.

(* the property, judged on the implementation's own trace: it is the trace the
   abstract maps predict from the history (Spec/PropMapVia.v over Spec/PropMap.v) *)
Definition C12_ok (U : list key) (watch : list vowner) (ops : list vop) (obs : list stepobs) : bool :=
  vuniverse_ok U ops && obs_eqb (vexpected U watch ops) obs.

Definition C12_model (c : c12_case) : list stepobs :=
  let '(U, watch, ops, _) := c in v_run v_init U watch ops.

Definition C12_case (c : c12_case) : N :=
  let '(U, watch, ops, _) := c in
  let obs := c12_obs c in
  code (obs_eqb (v_run v_init U watch ops) obs) (C12_ok U watch ops obs).
