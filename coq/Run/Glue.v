(* Evaluation glue for the correspondence check: byte strings arrive packed
   seven to a 63-bit primitive integer (literal elaboration, not evaluation,
   is what bounds the volume).  Nothing in Model/, Spec/, Proofs/ or Props/
   depends on this file. *)
From Coq Require Export Uint63.
From Tab Require Export Base.Bytes.

Fixpoint unpack_word (n : nat) (w : int) : list N :=
  match n with
  | 0 => []
  | S k => Z.to_N (Uint63.to_Z (Uint63.land w 255%uint63)) :: unpack_word k (Uint63.lsr w 8%uint63)
  end.

(* B len words *)
Definition B (len : nat) (ws : list int) : list N := firstn len (flat_map (unpack_word 7) ws).

Definition res_eqb {A} (eqb : A -> A -> bool) (a b : res A) : bool :=
  match a, b with
  | Ok x, Ok y => eqb x y
  | Err, Err => true
  | Panic, Panic => true
  | _, _ => false
  end.

(* result code per case: 0 = fine; bit 0 = correspondence (model <> impl);
   bit 1 = the property's own oracle rejects the implementation's output *)
Definition code (corr ok : bool) : N :=
  ((if corr then 0 else 1) + (if ok then 0 else 2))%N.

Fixpoint failing_from (i : nat) (l : list N) : list (nat * N) :=
  match l with
  | [] => []
  | c :: r => if N.eqb c 0 then failing_from (S i) r else (i, c) :: failing_from (S i) r
  end.
Definition failing (l : list N) : list (nat * N) := failing_from 0 l.
