From Tab Require Export Run.Glue Run.C05Run Model.Csv Run.PipeRun.

(* one case: the table's view and, for each target (renderer x style), what
   Render() did: 0 = returned a string and nil error, 1 = returned an error,
   2 = panicked; with the string it returned *)
Definition C09_ok (outs : list (nat * nat * list N)) : bool :=
  forallb (fun '(target, kind, s) =>
    match kind with
    | 0 => true
    | 1 => match s with [] => true | _ => false end     (* an error comes with no text *)
    | _ => false                                        (* never a panic *)
    end) outs.

(* model: outcome class of the renderers whose bodies are modelled (target 0 = csv) *)
Definition class_of {A} (r : res A) : nat := match r with Ok _ => 0 | Err => 1 | Panic => 2 end.

Definition C09_corr (v : view) (outs : list (nat * nat * list N)) : bool :=
  forallb (fun '(target, kind, s) =>
    match target with
    | 0 => (class_of (csv_render v) =? kind)
           && match csv_render v with Ok out => bytes_eqb out s | _ => true end
    | _ => true
    end) outs.

(* ---- tables that carry property callbacks of the application.
   The build is also written as a history of the callback machine
   (Model/Callbacks.v; registrations interleaved with the building calls at the
   places where the harness made them).  A callback is an opaque label there:
   the machine can do nothing with a callback but invoke it, whatever Go value
   (of whatever dynamic type, comparable or not) the application registered.
   Each test callback logs label*8 + (kind of object it received) on every
   invocation; the harness ships
     - per registration made, whether RegisterPropertyCallback refused it,
     - the add-time log of the build,
     - the distinct render-time logs of the judged renders, each with the
       outcome class of a render that produced it.
   A render makes exactly one pass, so its log is the model's pass; a render
   that returned an error may also have refused before the pass (no log). *)
From Tab Require Model.Callbacks Spec.CbTrace.

Definition cbo_owner (k a b : nat) : CbTypes.owner :=
  match k with 0 => CbTypes.OTable | 1 => CbTypes.OColumn a | 2 => CbTypes.ORow a | _ => CbTypes.OCell a b end.
Definition cbo_time (n : nat) : CbTypes.ctime :=
  match n with 0 => CbTypes.TAdd | 1 => CbTypes.TPre | 2 => CbTypes.TRender | _ => CbTypes.TPost end.
Definition cbo_target (n : nat) : CbTypes.target :=
  match n with 0 => CbTypes.GItself | 1 => CbTypes.GCell | _ => CbTypes.GRow end.
Definition cbo_new : CbTypes.op := CbTypes.ONewRow.
Definition cbo_add (r : nat) : CbTypes.op := CbTypes.ORowAdd r.
Definition cbo_addrow (r : nat) : CbTypes.op := CbTypes.OAddRow r.
Definition cbo_append : CbTypes.op := CbTypes.OAppendNewRow.
Definition cbo_items (n : nat) : CbTypes.op := CbTypes.OAddRowItems n.
Definition cbo_sep : CbTypes.op := CbTypes.OAddSeparator.
Definition cbo_headers (n : nat) : CbTypes.op := CbTypes.OAddHeaders n.
Definition cbo_reg (k a b tm g cb : nat) : CbTypes.op :=
  CbTypes.ORegister (cbo_owner k a b) (cbo_time tm) (cbo_target g) cb.

Definition cb_enc (e : CbTypes.event) : nat :=
  fst e * 8 + match snd e with
              | CbTypes.XTable => 0 | CbTypes.XCol _ => 1 | CbTypes.XRow _ => 2
              | CbTypes.XCell _ _ => 3 | CbTypes.XUnknown => 4
              end.

Fixpoint nats_eqb (a b : list nat) : bool :=
  match a, b with
  | [], [] => true
  | x :: a', y :: b' => (x =? y) && nats_eqb a' b'
  | _, _ => false
  end.
Fixpoint bools_eqb (a b : list bool) : bool :=
  match a, b with
  | [], [] => true
  | x :: a', y :: b' => Bool.eqb x y && bools_eqb a' b'
  | _, _ => false
  end.

(* history, refusals, add-time log, (outcome class, render-time log) of the judged renders *)
Definition cb_case := (list CbTypes.op * list bool * list nat * list (nat * list nat))%type.

Definition cb_corr (c : cb_case) : bool :=
  let '(h, refused, addlog, traces) := c in
  CbTrace.wf_hist h &&
  match Callbacks.run h 1 with
  | Ok oc =>
      bools_eqb (Callbacks.oc_regerr oc) refused
      && nats_eqb (map cb_enc (Callbacks.oc_add oc)) addlog
      && forallb (fun '(kind, tr) =>
           match kind with
           | 0 => nats_eqb tr (map cb_enc (Callbacks.oc_render oc))
           | 1 => nats_eqb tr (map cb_enc (Callbacks.oc_render oc)) || match tr with [] => true | _ => false end
           | _ => true      (* a render that panicked: the property oracle rejects it *)
           end) traces
  | _ => false
  end.

Definition cb_model (c : cb_case) :=
  let '(h, _, _, _) := c in
  (CbTrace.wf_hist h,
   match Callbacks.run h 1 with
   | Ok oc => Ok (Callbacks.oc_regerr oc, map cb_enc (Callbacks.oc_add oc), map cb_enc (Callbacks.oc_render oc))
   | Err => Err
   | Panic => Panic
   end).

(* a case: the table's view with all its renders; when the harness could
   write the build as a history of the table machine's operations, the
   pipeline case for the same table (Run/PipeRun.v); when the table carries
   callbacks, the callback case *)
Definition c09case := (view * list (nat * nat * list N) * option pipe_case * option cb_case * option pipe_mcase)%type.

Definition C09_case (c : c09case) : N :=
  let '(v, outs, p, cb, pm) := c in
  code (C09_corr v outs && match p with Some pc => pipe_corr pc | None => true end
                        && match cb with Some cc => cb_corr cc | None => true end
                        && match pm with Some mc => pipe_mcorr mc | None => true end)
       (C09_ok outs).

Definition C09_model (c : c09case) :=
  let '(v, outs, p, cb, pm) := c in
  (class_of (csv_render v), option_map pipe_model p, option_map cb_model cb,
   option_map (fun mc => pipe_mview (fst (fst mc)) (snd (fst mc))) pm).
