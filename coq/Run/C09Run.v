From Tab Require Export Run.Glue Run.C05Run Model.Csv Run.PipeRun.

(* one case: the table's view and, for each target (renderer x style), what
   Render() did: 0 = returned a string and nil error, 1 = returned an error,
   2 = panicked; with the string it returned *)
Definition C09_ok (outs : list (nat * nat * list N)) : bool :=
  forallb (fun '(target, kind, s) =>
    match kind with
    | 0 => true
    | 1 => match s with [] => true | _ => false end     (* an error comes with no text *)
    | _ => false                                        (* never a panic *)
    end) outs.

(* model: outcome class of the renderers whose bodies are modelled (target 0 = csv) *)
Definition class_of {A} (r : res A) : nat := match r with Ok _ => 0 | Err => 1 | Panic => 2 end.

Definition C09_corr (v : view) (outs : list (nat * nat * list N)) : bool :=
  forallb (fun '(target, kind, s) =>
    match target with
    | 0 => (class_of (csv_render v) =? kind)
           && match csv_render v with Ok out => bytes_eqb out s | _ => true end
    | _ => true
    end) outs.

(* a case: the table's view with all its renders, and - when the harness could
   write the build as a history of the table machine's operations - the
   pipeline case for the same table (Run/PipeRun.v) *)
Definition c09case := (view * list (nat * nat * list N) * option pipe_case)%type.

Definition C09_case (c : c09case) : N :=
  let '(v, outs, p) := c in
  code (C09_corr v outs && match p with Some pc => pipe_corr pc | None => true end) (C09_ok outs).

Definition C09_model (c : c09case) :=
  let '(v, outs, p) := c in (class_of (csv_render v), option_map pipe_model p).
