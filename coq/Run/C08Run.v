From Tab Require Export Run.Glue Model.Markdown Spec.MdSplit.

(* The display-width oracle for evaluation: a table measured by the harness
   with the real length.StringCells.  A miss means that the model's md_escape
   (or control cell) is not the string the harness escaped with the real
   html.EscapeString: that is a model/implementation disagreement and is
   reported on the correspondence bit. *)
Fixpoint W_lookup (tbl : list (list N * nat)) (s : list N) : option nat :=
  match tbl with
  | [] => None
  | (k, w) :: r => if bytes_eqb k s then Some w else W_lookup r s
  end.

Definition W_of (tbl : list (list N * nat)) (s : list N) : nat :=
  match W_lookup tbl s with Some w => w | None => 0 end.

(* every string the model measures *)
Definition W_queries (v : view) : list (list N) :=
  map md_escape (header_texts v ++ concat (body_texts v)).

Definition W_misses (tbl : list (list N * nat)) (v : view) : list (list N) :=
  filter (fun s => match W_lookup tbl s with Some _ => false | None => true end) (W_queries v).

(* control cells are measured too; the model never pads them unless the
   oracle says they are narrower than the column, so look them up as well *)
Definition ctl_misses (tbl : list (list N * nat)) (v : view) : list (list N) :=
  match v_header v with
  | None => []
  | Some h =>
      match bind (widths_row w_set (repeat 0%Z (v_ncols v)) 0 h) (fun ws0 =>
            bind (widths_rows (v_ncols v) ws0 (v_rows v)) (fun ws =>
            md_control (v_align v) ws 0 (v_ncols v))) with
      | Ok (ctl, _) => filter (fun s => match W_lookup tbl s with Some _ => false | None => true end) ctl
      | _ => []
      end
  end.

(* the property, judged on the implementation's own bytes; independent of the
   model.  A view that is not well formed (a row longer than the column count:
   C02's concern) may be refused. *)
Definition C08_ok (v : view) (obs : res (list N)) : bool :=
  match obs with
  | Ok out => md_okb v out
  | Err => (v_ncols v =? 0) || (match v_header v with None => true | Some _ => false end) || negb (wf_viewb v)
  | Panic => false
  end.

Definition C08_case (c : (view * list (list N * nat)) * res (list N)) : N :=
  let '((v, tbl), obs) := c in
  let no_miss := match W_misses tbl v ++ ctl_misses tbl v with [] => true | _ => false end in
  code (no_miss && res_eqb bytes_eqb (md_render (W_of tbl) v) obs) (C08_ok v obs).

(* cell with text and Cell.TerminalCellWidth() *)
Definition TW (s : list N) (w : Z) : vcell :=
  mkVCell s (match s with [] => true | _ => false end) None w 0 false.

(* for replays: the model's output, the strings the oracle table lacks, and
   the oracle's judgement of the model's own output *)
Definition C08_model (c : (view * list (list N * nat)) * res (list N))
  : res (list N) * list (list N) * bool :=
  let '((v, tbl), obs) := c in
  (md_render (W_of tbl) v, W_misses tbl v ++ ctl_misses tbl v, C08_ok v (md_render (W_of tbl) v)).
