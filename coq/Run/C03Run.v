(* Evaluation glue for C03 (and shared by C04): the width oracle as a lookup
   table, the case type, the property judged on the implementation's own
   bytes, and the correspondence bit. *)
From Tab Require Export Run.Glue Model.Text Spec.TextLayout.

(* length.StringCells of every text line and glyph of the case, as measured
   by the real library *)
Definition wtab := list (list N * nat).
Fixpoint wlookup (t : wtab) (s : list N) : option nat :=
  match t with
  | [] => None
  | (k, n) :: r => if bytes_eqb k s then Some n else wlookup r s
  end.
Definition Wof (t : wtab) (s : list N) : nat := match wlookup t s with Some n => n | None => 0 end.

(* text cell: text, TerminalCellWidth(), Height(), implements TerminalCellWidther *)
Definition TC (s : list N) (tw h : Z) (widther : bool) : vcell := mkVCell s false None tw h widther.

(* compact literals: the table grouped by width, keys joined by LF (a text line
   never contains LF); a decoration as its 22 fields joined by LF *)
Definition WT (groups : list (nat * list N)) : wtab :=
  flat_map (fun g => map (fun k => (k, fst g)) (split_lf (snd g))) groups.
Definition DP (boxless : bool) (s : list N) : decoration :=
  match split_lf s with
  | [f1; f2; f3; f4; f5; f6; f7; f8; f9; f10; f11; f12; f13; f14; f15; f16; f17; f18; f19; f20; f21; f22] =>
      mkDecor f1 f2 f3 f4 f5 f6 f7 f8 f9 f10 f11 f12 f13 f14 f15 f16 f17 f18 f19 f20 f21 f22 boxless
  | _ => mkDecor [] [] [] [] [] [] [] [] [] [] [] [] [] [] [] [] [] [] [] [] [] [] false
  end.

(* one decoration of a case: its fields before Populate (custom ones only),
   the decoration handed to SetDecoration, the observed Render() outcome *)
Definition dcase := (option decoration * decoration * res (list N))%type.
(* the last component: whether the harness counted the case as inside the
   statements' domain; the Coq side must agree, so the oracle cannot be
   vacuously true without the correspondence bit saying so *)
Definition text_case := (wtab * view * list dcase * bool)%type.

Definition has_key (t : wtab) (s : list N) : bool := match wlookup t s with Some _ => true | None => false end.

(* every string the model or the spec will measure is in the table *)
Definition keys_present (t : wtab) (v : view) (d : decoration) : bool :=
  forallb (fun c => forallb (has_key t) (cell_lines c)) (all_cells v)
  && forallb (has_key t) (d_fields d).

(* the statements' domain (DESIGN 13.7, 13.10) *)
Definition in_domain (t : wtab) (d : decoration) (v : view) : bool :=
  (1 <=? v_ncols v)
  && (length (v_align v) =? S (v_ncols v))   (* rows may be longer than the column count (D21): c03_refines_any_rows *)
  && ((completeb d && glyphs_w1b (Wof t) d) || noboxb d)
  && forallb (cell_okb (Wof t)) (all_cells v)
  && forallb (width_coversb (Wof t)) (all_cells v).

Definition kind_eqb (a b : kind) : bool :=
  match a, b with KRule, KRule => true | KContent, KContent => true | _, _ => false end.

(* widths of the per-column bodies between dividers, boxed lines only *)
Fixpoint body_widths_from (acc : nat) (started : bool) (l : line) : list nat :=
  match l with
  | [] => []
  | Glyph _ :: r => if started then acc :: body_widths_from 0 true r else body_widths_from 0 true r
  | s :: r => body_widths_from (acc + seg_width s) started r
  end.
Definition line_body_widths (l : line) : list nat := body_widths_from 0 false l.

Definition geometry_ok (t : wtab) (d : decoration) (v : view) : bool :=
  let W := Wof t in
  let L := layout W d v in
  all_same_width L && all_same_dividers L
  && list_eqb kind_eqb (map kind_of L) (expected_shape_with d v (row_height v))
  && (noboxb d
      || forallb (fun l => list_eqb Nat.eqb (line_body_widths l)
                                    (map (fun i => colw W v i + 2) (seq 0 (v_ncols v)))) L).

(* C03 on the implementation's own output: the bytes are the flattened
   layout computed from the input alone, and that layout is a rectangle with
   fitted columns, aligned dividers and the documented line pattern. *)
(* What Populate promises (DESIGN section 6 C03: "a custom one after its defaults
   are filled in"), judged on the decoration the library handed back, without
   the model: no glyph left empty, nothing the caller had set changed. *)
Definition populate_ok (pre : option decoration) (d : decoration) : bool :=
  match pre with
  | None => true
  | Some p =>
      completeb d
      && Bool.eqb (d_boxless p) (d_boxless d)
      && list_eqb (fun a b => nilb a || bytes_eqb a b) (d_fields p) (d_fields d)
  end.

Definition C03_ok1 (t : wtab) (v : view) (dc : dcase) : bool :=
  let '(pre, d, obs) := dc in
  populate_ok pre d &&
  if in_domain t d v then
    match obs with
    | Ok out => bytes_eqb out (render_spec (Wof t) d v) && geometry_ok t d v
    | _ => false
    end
  else true.

Definition corr1 (t : wtab) (v : view) (dc : dcase) : bool :=
  let '(pre, d, obs) := dc in
  keys_present t v d
  && res_eqb bytes_eqb (text_render (Wof t) d v) obs
  && match pre with Some p => decoration_eqb (populate p) d | None => true end.

Definition domain_agrees (t : wtab) (v : view) (ds : list dcase) (flag : bool) : bool :=
  Bool.eqb (forallb (fun dc => in_domain t (snd (fst dc)) v) ds) flag.

Definition C03_case (c : text_case) : N :=
  let '(t, v, ds, flag) := c in
  code (forallb (corr1 t v) ds && domain_agrees t v ds flag) (forallb (C03_ok1 t v) ds).

Definition C03_model (c : text_case) : list (res (list N)) :=
  let '(t, v, ds, _) := c in map (fun dc => text_render (Wof t) (snd (fst dc)) v) ds.

(* ------------------------------------------------------------------ *)
(* Histories of renders whose render-time callbacks change cells
   (Model/TextLive.v): the case carries the cells with their successive
   contents, the registrations in registration order, and what each of the
   successive Render() calls through the one wrapper returned. *)
From Tab Require Export Model.TextLive Spec.TextPassSpec.

(* a live cell from its successive contents, the first being what it holds
   when the history starts; never measured yet *)
Definition LCl (states : list vcell) : pcell :=
  match states with
  | [] => (mkLC blank_vcell [], None)
  | c :: r => (mkLC c r, None)
  end.

Definition live_case := (wtab * ptable * list reg * decoration * list (res (list N)) * bool)%type.

Definition pcell_states (pc : pcell) : list vcell := lc_cur (fst pc) :: lc_next (fst pc).
Definition pt_all_cells (t : ptable) : list pcell :=
  (match pt_header t with Some h => h | None => [] end)
  ++ flat_map (fun r => match r with Some cs => cs | None => [] end) (pt_rows t).

Definition live_keys_present (tb : wtab) (t : ptable) (d : decoration) : bool :=
  forallb (fun pc => forallb (fun c => forallb (has_key tb) (cell_lines c)) (pcell_states pc)) (pt_all_cells t)
  && forallb (has_key tb) (d_fields d).

Fixpoint judge_renders (f : nat -> res (list N) -> bool) (j : nat) (obs : list (res (list N))) : bool :=
  match obs with
  | [] => true
  | o :: r => f j o && judge_renders f (S j) r
  end.

(* C03 on what every render of the history really returned: the bytes are the
   flattened layout - a rectangle with fitted columns - of the table whose
   cells are as the last measuring callback of that render found them
   (Spec/TextPassSpec.v), computed from the input alone *)
Definition C03_live_ok (c : live_case) : bool :=
  let '(tb, t, regs, d, obs, _) := c in
  judge_renders (fun j o => C03_ok1 tb (spec_view regs t j) (None, d, o)) 0 obs.

Definition C03_live_corr (c : live_case) : bool :=
  let '(tb, t, regs, d, obs, flag) := c in
  live_keys_present tb t d
  && list_eqb (res_eqb bytes_eqb) (render_seq (Wof tb) d regs t (length obs)) obs
  && judge_renders (fun j _ => Bool.eqb (in_domain tb d (spec_view regs t j)) flag) 0 obs.

Inductive c03_case := CPlain (c : text_case) | CLive (c : live_case).

Definition C03_case_all (c : c03_case) : N :=
  match c with
  | CPlain x => C03_case x
  | CLive x => code (C03_live_corr x) (C03_live_ok x)
  end.

Definition C03_model_all (c : c03_case) : list (res (list N)) :=
  match c with
  | CPlain x => C03_model x
  | CLive x => let '(tb, t, regs, d, obs, _) := x in render_seq (Wof tb) d regs t (length obs)
  end.
