(* C02 evaluation glue: the harness ships (history, dump) where dump is the
   byte encoding (Base/Ops.v enc_obs) of what the real table showed after
   every op of the history. *)
From Tab Require Export Run.Glue Model.Core Spec.History Model.CoreSegs Spec.HistorySegs.

(* A case is (history, schedule, dump).  The schedule says when the table was
   dumped: after every op; only after the last one (long histories); or after
   every SEGMENT of the given lengths - a segment is one call made by the
   program together with the building calls which its add-time callbacks made
   from inside it (Spec/HistorySegs.v).
   Histories arrive run-length compressed: *)
Inductive sched := Every | Last | After (ns : list nat).
Definition spec_dump_at (s : sched) (h : list (op N)) : list N :=
  match s with Every => spec_dump h | Last => spec_dump_last h | After ns => spec_dump_segs h ns end.
Definition model_dump_at (s : sched) (h : list (op N)) : list N :=
  match s with Every => model_dump h | Last => model_dump_last h | After ns => model_dump_segs h ns end.
Definition adds (ref : rref) (xs : list N) : list (op N) := map (RowAdd ref) xs.    (* a burst of Row.Add on one row *)
Definition times (n : nat) (seg : list (op N)) : list (op N) := concat (repeat seg n).

(* the property, judged on the implementation's own dump: it must be exactly
   what the history spec expects (counts, order, locations, CellAt over the
   bounding box +-1, Column handles), recomputed from the history without the
   model *)
Definition C02_ok (h : list (op N)) (every : sched) (o : res (list N)) : bool :=
  match o with
  | Ok d => bytes_eqb (spec_dump_at every h) d
  | _ => false                       (* a building or observing call panicked *)
  end.

Definition C02_case1 (c : list (op N) * sched * res (list N)) : N :=
  let '(h, every, o) := c in
  code (res_eqb bytes_eqb (Ok (model_dump_at every h)) o) (C02_ok h every o).

(* A case is one Go program; it has one (history, every, dump) per table it
   builds.  With two tables that pass a *Row between them, each table's history
   holds the calls on that table, the Row.Add calls on the rows it can reach,
   and OtherAddRow where the other table's AddRow takes (or has held) a row. *)
Definition C02_case (cs : list (list (op N) * sched * res (list N))) : N :=
  fold_left (fun acc c => N.lor acc (C02_case1 c)) cs 0%N.

(* for replays: well-formedness of the history, its length, whether model and
   spec agree on it, and - for a short history - the model's and the spec's
   last dump (the readable form of the implementation's last dump is in the
   case description) *)
Definition hist_size (h : list (op N)) : nat :=
  fold_left (fun n o => match o with AddRowItems xs | AddHeaders xs => S (n + length xs) | _ => S n end) h 0.
Definition C02_model1 (c : list (op N) * sched * res (list N)) :=
  let h := fst (fst c) in
  (wf_histb h, hist_size h, bytes_eqb (model_dump_last h) (spec_dump_last h),
   if hist_size h <=? 40 then Some (observe (run h), expected (spec_run h)) else None).
Definition C02_model (cs : list (list (op N) * sched * res (list N))) := map C02_model1 cs.
