(* C02 evaluation glue: the harness ships (history, dump) where dump is the
   byte encoding (Base/Ops.v enc_obs) of what the real table showed after
   every op of the history. *)
From Tab Require Export Run.Glue Model.Core Spec.History.

(* the property, judged on the implementation's own dump: it must be exactly
   what the history spec expects (counts, order, locations, CellAt over the
   bounding box +-1, Column handles), recomputed from the history without the
   model *)
Definition C02_ok (h : list (op N)) (o : res (list N)) : bool :=
  match o with
  | Ok d => bytes_eqb (spec_dump h) d
  | _ => false                       (* a building or observing call panicked *)
  end.

Definition C02_case (c : list (op N) * res (list N)) : N :=
  let '(h, o) := c in
  code (res_eqb bytes_eqb (Ok (model_dump h)) o) (C02_ok h o).

(* for replays: well-formedness of the history, the model's and the spec's
   last dump *)
Definition C02_model (c : list (op N) * res (list N)) :=
  (wf_histb (fst c), observe (run (fst c)), expected (spec_run (fst c))).
