(* C17 evaluation glue: judges what the implementation did in one registry
   world (one child process of the harness). *)
From Tab Require Export Run.Glue Model.Registry Spec.RegistrySpec.

(* Canonical form of a Render() result, as shipped by the harness: the output
   is named by the palette decoration whose direct rendering of the same table
   (SetDecoration, no registry involved) produced exactly these bytes. *)
Definition ROk (id : N) : res (bytes * bool) := Ok ([id], false).
Definition RErr (empty : bool) : res (bytes * bool) := Ok (if empty then [] else [9998%N], true).
Definition RPanic : res (bytes * bool) := Panic.

(* the rest of the text renderer on the good table: usable decorations render
   (validated by the harness when it builds its palette: it panics otherwise) *)
Definition run_body (d : decoration) : res bytes :=
  match d with
  | DEmpty => Err
  | DVal id u => if u then Ok [id] else Err
  end.

(* The tables of one world all have the same shape: the good table, or one
   without columns (no rows at all; separators only; a row left empty; rows of
   no items).  The renderer past its guard then gives several palette
   decorations the same bytes (nothing to draw but the frame), so for such a
   world an output is named by the SMALLEST palette decoration producing it,
   and [rep] maps every palette decoration to that representative (pairs are
   given only where it differs from the decoration itself). *)
Definition rep_of (rep : list (N * N)) (id : N) : N :=
  match find (fun p => N.eqb (fst p) id) rep with Some p => snd p | None => id end.

Definition run_body_rep (rep : list (N * N)) (d : decoration) : res bytes :=
  match d with
  | DEmpty => Err
  | DVal id u => if u then Ok [rep_of rep id] else Err
  end.

Record c17_case := mkC17s {
  c_rep : list (N * N);    (* output classes of the world's table shape (empty for the good table) *)
  c_seq : bool;            (* sequential history (exact comparison) or time-stamped concurrent one *)
  c_bad : bool;            (* the child reported a data race / crashed / the unstamped pass was inconsistent *)
  c_init : registry;       (* the registry as the library initialised it *)
  c_evs : list event }.

Definition mkC17 := mkC17s [].

Definition c17_trace (c : c17_case) : list (nat * op) := map (fun e => (e_g e, e_op e)) (c_evs c).

(* all six documented built-ins are there, non-empty, and the dump has no duplicate key *)
Definition init_ok (init : registry) : bool :=
  forallb (fun b => negb (dec_is_empty (init_named init b))) builtin_names
  && nodupb (map fst init).

(* Concurrent cases: the harness appends, as events of one more goroutine
   stamped after the join, a lookup of every name and one listing.  For such a
   read every registration has ended before it started, so [read_ok] accepts
   its result d only if some registration w of (n, d) has no registration of n
   starting after w ended - in particular none later in w's own program: the
   name holds one of the per-goroutine last writes (DESIGN 13.13), or the
   initial content when nobody registered it. *)
Definition C17_ok (c : c17_case) : bool :=
  negb (c_bad c)
  && init_ok (c_init c)
  && (if c_seq c
      then seq_ok (run_body_rep (c_rep c)) (c_init c) (c17_trace c) (map e_obs (c_evs c))
      else C17_obs_ok (run_body_rep (c_rep c)) (c_init c) (c_evs c)).

Definition C17_corr (c : c17_case) : bool :=
  if c_bad c then true
  else if c_seq c
  then list_eqb obs_eqb (run (run_body_rep (c_rep c)) (init_state (c_init c)) (c17_trace c)) (map e_obs (c_evs c))
       && list_eqb bytes_eqb (names (c_init c)) (map fst (c_init c))     (* sort oracle: the dump is the library's own sorted listing *)
  else true.   (* a concurrent run has no single model run to compare with; the checker above is the judge *)

Definition C17_case (c : c17_case) : N := code (C17_corr c) (C17_ok c).

Definition C17_model (c : c17_case) : list obs * list bool :=
  (if c_seq c then run (run_body_rep (c_rep c)) (init_state (c_init c)) (c17_trace c) else [],
   map (event_ok (run_body_rep (c_rep c)) (c_init c) (c_evs c)) (c_evs c)).
