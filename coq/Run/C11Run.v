(* C11, evaluation of harness cases.  A case carries the history and, after
   every step, what the implementation's own Errors() calls returned (error
   values mapped back to ids, a nil entry = None; a returned nil slice = None,
   a returned empty non-nil slice = Some []; a panic = Panic, and the history
   stops there).
     corr : the model (Model/ErrCont.v, Model/ErrRoute.v) predicts exactly these observations
     ok   : the observations are what Spec/ErrLog.v says they must be, computed from
            the history alone (the model is not consulted)
   A table case may involve a second table (CTab2): the other table's Errors()
   is then part of every step's observation; it and the lists of the rows it
   took are compared with the model (corr), the property's oracle (ok) judges
   the table under test and the rows outside both tables.
   result code: Run/Glue.v [code], plus 4 when a table history is not well-formed
   (a harness bug, never a verdict on the code). *)
From Tab Require Export Run.Glue Model.ErrCont Model.ErrRoute Spec.ErrLog Model.ErrBulk Spec.ErrBulk.

Definition err_eqb : err -> err -> bool := option_eqb N.eqb.
Definition errs_eqb : option (list err) -> option (list err) -> bool := option_eqb (list_eqb err_eqb).

(* ---- container cases *)

(* Errors() after the step, and Errors() again after the caller has overwritten
   the slice it passed to AddErrorList (equal to the first for other steps) *)
Definition cobs := res (option (list err) * option (list err)).

Definition cobs_eqb (a b : cobs) : bool :=
  res_eqb (fun x y => errs_eqb (fst x) (fst y) && errs_eqb (snd x) (snd y)) a b.

Fixpoint cont_model (c : cont) (ops : list cop) : list cobs :=
  match ops with
  | [] => []
  | o :: r => let c' := cont_step c o in Ok (errors c', errors c') :: cont_model c' r
  end.

Fixpoint cont_ok (m : cmode) (pre : list cop) (steps : list (cop * cobs)) : bool :=
  match steps with
  | [] => true
  | (o, ob) :: r =>
      let pre' := pre ++ [o] in
      let v := view (cont_expected m pre') in
      match ob with
      | Ok (a, b) => errs_eqb a v && errs_eqb b v
      | _ => false
      end && cont_ok m pre' r
  end.

(* ---- table cases *)

(* t.Errors(), and r.Errors() for every row the harness holds *)
Definition tobs := res (option (list err) * list (nat * option (list err))).

Definition rows_eqb (a b : list (nat * option (list err))) : bool :=
  list_eqb (fun x y => Nat.eqb (fst x) (fst y) && errs_eqb (snd x) (snd y)) a b.

Definition tobs_eqb (a b : tobs) : bool :=
  res_eqb (fun x y => errs_eqb (fst x) (fst y) && rows_eqb (snd x) (snd y)) a b.

(* a step: the events, what was read from the table and the rows, and what
   the other table's Errors() returned (None while there is no other table:
   the model's other table is tabular.New(), which shows nil) *)
Definition tstep := (list event * tobs * option (list err))%type.

Fixpoint tab_model (st : tstate) (steps : list tstep) : list (tobs * option (list err)) :=
  match steps with
  | [] => []
  | (evs, ob, _) :: r =>
      let st' := run_from st evs in
      let rows := match ob with Ok (_, rows) => map fst rows | _ => [] end in
      (Ok (table_errors st', map (fun k => (k, row_errors st' k)) rows), other_errors st') :: tab_model st' r
  end.

Fixpoint tab_ok (pre : list event) (steps : list tstep) : bool :=
  match steps with
  | [] => true
  | (evs, ob, _) :: r =>
      let pre' := pre ++ evs in
      match ob with
      | Ok (t, rows) =>
          errs_eqb t (view (expected_errors pre'))
          (* a row outside the table shows its own pending errors; what a row inside
             the table, or one the other table has taken, shows is not the
             property's business (corr compares it, and the other table's list) *)
          && forallb (fun p => joined pre' (fst p) || taken pre' (fst p)
                               || errs_eqb (snd p) (view (expected_row pre' (fst p)))) rows
      | _ => false
      end && tab_ok pre' r
  end.

(* ---- cases at volume (round 6): bulk operations (Model/ErrBulk.v), one
   observation per bulk step, every Errors() result given by its runs of
   consecutive ids.
     corr : the loops of Model/ErrBulk.v predict the observations
     ok   : container - the observation is the view of Spec/ErrBulk.v's log of the
            bulk history; table - [tab_ok] on the expanded history *)
Definition vview := option (list seg).
Definition unview (v : vview) : option (list err) := option_map unruns v.

Definition vcobs := res (vview * vview).
Definition unvcobs (o : vcobs) : cobs :=
  match o with
  | Ok (a, b) => Ok (unview a, unview b)
  | Err => Err
  | Panic => Panic
  end.

Fixpoint vcont_model (c : cont) (ops : list vop) : list cobs :=
  match ops with
  | [] => []
  | o :: r => let c' := vstep c o in Ok (errors c', errors c') :: vcont_model c' r
  end.

Fixpoint vcont_ok (m : cmode) (pre : list vop) (steps : list (vop * vcobs)) : bool :=
  match steps with
  | [] => true
  | (o, ob) :: r =>
      let pre' := pre ++ [o] in
      let v := view (vexpected m pre') in
      match unvcobs ob with
      | Ok (a, b) => errs_eqb a v && errs_eqb b v
      | _ => false
      end && vcont_ok m pre' r
  end.

Definition vtobs := res (vview * list (nat * vview)).
Definition unvtobs (o : vtobs) : tobs :=
  match o with
  | Ok (t, rows) => Ok (unview t, map (fun p => (fst p, unview (snd p))) rows)
  | Err => Err
  | Panic => Panic
  end.
Definition vtstep := (list bev * vtobs)%type.
Definition unvtstep (s : vtstep) : tstep := (bexpand_all (fst s), unvtobs (snd s), None).

Fixpoint vtab_model (st : tstate) (steps : list vtstep) : list tobs :=
  match steps with
  | [] => []
  | (bh, ob) :: r =>
      let st' := brun_from st bh in
      let rows := match ob with Ok (_, rows) => map fst rows | _ => [] end in
      Ok (table_errors st', map (fun k => (k, row_errors st' k)) rows) :: vtab_model st' r
  end.

(* judged by the running-state form of the spec (Spec/ErrBulk.v): the table's
   list is the log; a row outside the table shows its pending errors *)
Fixpoint vtab_ok (s : sst) (steps : list vtstep) : bool :=
  match steps with
  | [] => true
  | (bh, ob) :: r =>
      let s' := fold_left sstep bh s in
      match unvtobs ob with
      | Ok (t, rows) =>
          errs_eqb t (view (s_log s'))
          && forallb (fun p => is_joined s' (fst p) || errs_eqb (snd p) (view (pend_of (s_pend s') (fst p)))) rows
      | _ => false
      end && vtab_ok s' r
  end.

(* well-formedness of a bulk history: [wf_event] looks at the kind and the row
   of an event, never at its error, so one event stands for a whole run *)
Definition brep (b : bev) : list event :=
  match b with
  | BOne ev => [ev]
  | BRowErrs r k _ => [RowAddError r (Some k)]
  | BTableErrs k _ => [TableAddError (Some k)]
  | BCallbacks s r k _ => [CallbackFails s r (Some k)]
  end.

Inductive c11_case :=
| CCont (m : cmode) (steps : list (cop * cobs))
| CTab (steps : list (list event * tobs))
| CTab2 (steps : list tstep)
| CContV (m : cmode) (steps : list (vop * vcobs))
| CTabV (steps : list vtstep).

Definition no_other (steps : list (list event * tobs)) : list tstep := map (fun s => (s, None)) steps.

Definition C11_ok (c : c11_case) : bool :=
  match c with
  | CCont m steps => cont_ok m [] steps
  | CTab steps => tab_ok [] (no_other steps)
  | CTab2 steps => tab_ok [] steps
  | CContV m steps => vcont_ok m [] steps
  | CTabV steps => vtab_ok s_init steps
  end.

Definition tab_corr (steps : list tstep) : bool :=
  list_eqb (fun a b => tobs_eqb (fst a) (fst b) && errs_eqb (snd a) (snd b))
           (tab_model init steps) (map (fun s => (snd (fst s), snd s)) steps).

Definition C11_corr (c : c11_case) : bool :=
  match c with
  | CCont m steps => list_eqb cobs_eqb (cont_model (create m) (map fst steps)) (map snd steps)
  | CTab steps => tab_corr (no_other steps)
  | CTab2 steps => tab_corr steps
  | CContV m steps => list_eqb cobs_eqb (vcont_model (create m) (map fst steps)) (map (fun s => unvcobs (snd s)) steps)
  | CTabV steps => list_eqb tobs_eqb (vtab_model init steps) (map (fun s => unvtobs (snd s)) steps)
  end.

Definition C11_wf (c : c11_case) : bool :=
  match c with
  | CCont _ _ => true
  | CTab steps => wf_histb (concat (map fst steps))
  | CTab2 steps => wf_histb (concat (map (fun s => fst (fst s)) steps))
  | CContV _ _ => true
  | CTabV steps => wf_histb (flat_map brep (concat (map fst steps)))
  end.

Definition C11_case (c : c11_case) : N :=
  ((if C11_wf c then 0 else 4) + code (C11_corr c) (C11_ok c))%N.

(* what the model computes, for replays: its observations, and the log the spec expects *)
Definition C11_model (c : c11_case) : list cobs * list (tobs * option (list err)) * list errid :=
  match c with
  | CCont m steps => (cont_model (create m) (map fst steps), [], cont_expected m (map fst steps))
  | CTab steps => ([], tab_model init (no_other steps), expected_errors (concat (map fst steps)))
  | CTab2 steps => ([], tab_model init steps, expected_errors (concat (map (fun s => fst (fst s)) steps)))
  | CContV m steps => ([], [], vexpected m (map fst steps))
  | CTabV steps => ([], [], s_log (srun (concat (map fst steps))))
  end.

(* short forms for cases.v (elaborating the literals is what a run costs) *)
Definition s1 (o : cop) (v : option (list err)) : cop * cobs := (o, Ok (v, v)).
Definition s2 (o : cop) (v w : option (list err)) : cop * cobs := (o, Ok (v, w)).
Definition e (n : N) : err := Some n.
Notation CF := CallbackFails (only parsing).
Definition v1 (o : vop) (v : vview) : vop * vcobs := (o, Ok (v, v)).
Definition v2 (o : vop) (v w : vview) : vop * vcobs := (o, Ok (v, w)).
Definition g (k n : N) : seg := (Some k, n).
Definition gn (n : N) : seg := (None, n).
