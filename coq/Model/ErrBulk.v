(* C11 at volume: loops of the operations of Model/ErrCont.v and
   Model/ErrRoute.v.  A history of thousands of errors is written with bulk
   operations - "n calls of AddError with the errors k, k+1, ..., k+n-1", "one
   AddErrorList of a long list", "a callback that fails for each of the n
   cells of a row" - and an Errors() result as runs of consecutive ids.  The
   bulk operations are modelled as the loops they are (the Go harness runs
   exactly these loops against the library); [vexpand] / [bexpand] say which
   plain history a bulk history stands for, and Proofs/ErrBulkProofs.v shows
   that the loops compute what the plain model computes on it. *)
From Tab Require Export Model.ErrRoute.

(* the ids k, k+1, ..., k+n-1 *)
Fixpoint ids_from (k : N) (n : nat) : list errid :=
  match n with
  | O => []
  | S n' => k :: ids_from (N.succ k) n'
  end.

(* a run of an Errors() result or of a list handed in: (Some k, n) = the n
   errors k ... k+n-1, (None, n) = n nil entries *)
Definition seg := (option N * N)%type.

Definition seg_errs (g : seg) : list err :=
  match fst g with
  | Some k => map Some (ids_from k (N.to_nat (snd g)))
  | None => repeat None (N.to_nat (snd g))
  end.

Definition unruns (gs : list seg) : list err := flat_map seg_errs gs.

(* ---- the container *)

Inductive vop :=
| VOp (o : cop)                  (* one plain operation *)
| VAddMany (k n : N)             (* for i := 0; i < n; i++ { ec.AddError(e_(k+i)) } *)
| VAddList (gs : list seg).      (* ec.AddErrorList(el), el given by its runs; the caller overwrites el afterwards *)

Fixpoint add_many (c : cont) (k : N) (n : nat) : cont :=
  match n with
  | O => c
  | S n' => add_many (add_error c (Some k)) (N.succ k) n'
  end.

Definition vstep (c : cont) (o : vop) : cont :=
  match o with
  | VOp o => cont_step c o
  | VAddMany k n => add_many c k (N.to_nat n)
  | VAddList gs => add_error_list c (Some (unruns gs))
  end.

Definition vrun (m : cmode) (ops : list vop) : cont := fold_left vstep ops (create m).

(* the plain history a bulk history stands for *)
Definition vexpand (o : vop) : list cop :=
  match o with
  | VOp o => [o]
  | VAddMany k n => map (fun i => OpAdd (Some i)) (ids_from k (N.to_nat n))
  | VAddList gs => [OpAddList (Some (unruns gs))]
  end.
Definition vexpand_all (ops : list vop) : list cop := flat_map vexpand ops.

(* ---- the table *)

Inductive bev :=
| BOne (ev : event)
| BRowErrs (r : nat) (k n : N)                 (* n times row.AddError, errors k ... *)
| BTableErrs (k n : N)                         (* n times t.AddError *)
| BCallbacks (s : site) (r : nat) (k n : N).   (* n firings in a row at site s for row r (one per cell), each returning a fresh error *)

Fixpoint loop {S : Type} (f : S -> errid -> S) (st : S) (k : N) (n : nat) : S :=
  match n with
  | O => st
  | S n' => loop f (f st k) (N.succ k) n'
  end.

Definition bstep (st : tstate) (b : bev) : tstate :=
  match b with
  | BOne ev => step st ev
  | BRowErrs r k n => loop (fun st i => row_add_error st r (Some i)) st k (N.to_nat n)
  | BTableErrs k n => loop (fun st i => table_add_error st (Some i)) st k (N.to_nat n)
  | BCallbacks s r k n => loop (fun st i => invoke_fail st s r (Some i)) st k (N.to_nat n)
  end.

Definition brun_from (st : tstate) (bh : list bev) : tstate := fold_left bstep bh st.
Definition brun (bh : list bev) : tstate := brun_from init bh.

Definition bexpand (b : bev) : list event :=
  match b with
  | BOne ev => [ev]
  | BRowErrs r k n => map (fun i => RowAddError r (Some i)) (ids_from k (N.to_nat n))
  | BTableErrs k n => map (fun i => TableAddError (Some i)) (ids_from k (N.to_nat n))
  | BCallbacks s r k n => map (fun i => CallbackFails s r (Some i)) (ids_from k (N.to_nat n))
  end.
Definition bexpand_all (bh : list bev) : list event := flat_map bexpand bh.
