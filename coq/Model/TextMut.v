(* The text renderer over tables whose items CHANGE (Model/TableMut.v: the
   whole-table machine over cells that remember when their item was last read).

   What an item can change about itself is its text and - when its type has
   the methods - the width and the height it declares, in any combination.
   cell.go caches text, width and height together at NewCell / Update, so a
   cell shows ALL of them as of its last read: Update re-reads the declared
   width and height whether or not the text moved, and a mutation without
   Update shows nothing of the new state.  texttable reads Item().(
   TerminalCellWidther) on the live item at render time; an object's method SET
   is fixed by its Go type and cannot change under mutation, so that assertion
   answers at render time what it answered at the last read ([methods_static]),
   and the cell as the text renderer meets it is [vcell_of_item] in the
   environment of the last read.

   A cell whose item is itself a cell (ICell: NewCell(NewCell(x)), or an
   application handing ready-made cells to AddRowItems / AddHeaders, to any
   depth) copies the inner cell's cached text and sizes: [wrap_cell]. *)
From Tab Require Export Model.TableMut Model.Text.

Section TextMut.
  Variable W : bytes -> nat.
  Variable json : item -> option bytes.

  (* a stored cell as the text renderer meets it *)
  Definition shown (s : snap) : vcell := vcell_of_item W (snd s) json (fst s).

  Definition tmview (st : mstate) : view := table_view shown (m_tab st).

  (* Render() through a text wrapper at any point of the caller's program *)
  Definition mtext_render (d : decoration) (st : mstate) : res bytes := text_render W d (tmview st).
End TextMut.

(* Go: the method set of an item does not depend on the item's state *)
Definition methods_static (e_read e_now : env) (it : item) : Prop :=
  item_is_widther e_now it = item_is_widther e_read it.

(* an item held in n cells, one inside the other: NewCell(NewCell(... x)) *)
Fixpoint wrap_cell (W : bytes -> nat) (e : env) (n : nat) (it : item) : item :=
  match n with
  | O => it
  | S k => ICell (new_cell W e (wrap_cell W e k it))
  end.
