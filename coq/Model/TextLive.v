(* Model of a text render whose render-time callbacks CHANGE the cells:
   render_callbacks.go (InvokeRenderCallbacks, Row.invokeRenderCallbacks) as
   far as cells are concerned, texttable/wrap.go (Wrap registers the measuring
   callback on the table), texttable/properties.go (the measuring callback
   stores what it measured ON the cell) and texttable/render.go (RenderTo reads
   ONLY what was stored: CellPropertyExtractDimensions for the column widths,
   CellPropertyExtractLinesWidths for the lines).

   A cell is live: its item may be given its next content by an application
   callback (which then calls Cell.Update, as the Cell documentation asks).
   Callbacks are registered on the table, a column, a row or the cell itself,
   for one of the three render times; every registration list is kept in
   registration order.  The measuring callback of a text wrapper is one more
   registration (table, at render, on cells) - wherever in the order
   texttable.Wrap was called. *)
From Tab Require Export Model.Text.

Local Open Scope nat_scope.

Inductive cb_time := TPre | TRender | TPost.            (* CB_AT_RENDER_PRECELL, CB_AT_RENDER, CB_AT_RENDER_POSTCELL *)
(* who holds the registration (target: cells).  Rows: 0 = the header row,
   S k = AllRows()[k]; columns are numbered from 1 (column 0, the defaults
   column, is never consulted for a cell); cells by row and 0-based position *)
Inductive cb_owner := OwTable | OwColumn (n : nat) | OwRow (r : nat) | OwCell (r c : nat).
(* what the callback does to the cell it is given *)
Inductive cb_act :=
| AMeasure      (* texttable's dimensionSetter: store width, height and lines of the cell as it is now *)
| AAdvance.     (* the application's: the item gets its next content, then cell.Update() *)
Record reg := mkReg { rg_owner : cb_owner; rg_time : cb_time; rg_act : cb_act }.

Definition time_eqb (a b : cb_time) : bool :=
  match a, b with TPre, TPre => true | TRender, TRender => true | TPost, TPost => true | _, _ => false end.
Definition owner_eqb (a b : cb_owner) : bool :=
  match a, b with
  | OwTable, OwTable => true
  | OwColumn n, OwColumn m => n =? m
  | OwRow r, OwRow s => r =? s
  | OwCell r c, OwCell s e => (r =? s) && (c =? e)
  | _, _ => false
  end.

(* one callback list: the registrations of this owner for this time, in
   registration order *)
Definition sel (regs : list reg) (o : cb_owner) (t : cb_time) : list cb_act :=
  map rg_act (filter (fun g => owner_eqb (rg_owner g) o && time_eqb (rg_time g) t) regs).

(* Row.invokeRenderCallbacks, for the cell at position c of row r:
     table, column, row     at PRECELL
     table, the cell itself at RENDER
     row, column, table     at POSTCELL
   (col := ptr.columnOfTable() is nil beyond the table's column count) *)
Definition cell_events (regs : list reg) (ncols r c : nat) : list cb_act :=
  let col t := if c <? ncols then sel regs (OwColumn (S c)) t else [] in
  sel regs OwTable TPre ++ col TPre ++ sel regs (OwRow r) TPre
  ++ sel regs OwTable TRender ++ sel regs (OwCell r c) TRender
  ++ sel regs (OwRow r) TPost ++ col TPost ++ sel regs OwTable TPost.

(* a live cell: what it holds now, and what its item will become *)
Record lcell := mkLC { lc_cur : vcell; lc_next : list vcell }.
Definition advance (lc : lcell) : lcell :=
  match lc_next lc with [] => lc | n :: r => mkLC n r end.

(* a cell of the table: the live cell and what the last measuring callback
   stored on it (None: never measured) *)
Definition pcell := (lcell * option vcell)%type.

(* CellPropertyExtractDimensions / ...LinesWidths of a cell never measured:
   dimensions{0,0} and no lines - which is what measuring a cell without text
   gives (blank_is_unmeasured below) *)
Definition blank_vcell : vcell := mkVCell [] true None 0%Z 0%Z false.
Definition shown (pc : pcell) : vcell := match snd pc with Some c => c | None => blank_vcell end.

Lemma blank_is_unmeasured W : dimension_setter W blank_vcell = Ok (mkMC 0%Z 0%Z []).
Proof. reflexivity. Qed.

Definition step_cell (pc : pcell) (a : cb_act) : pcell :=
  match a with
  | AMeasure => (fst pc, Some (lc_cur (fst pc)))
  | AAdvance => (advance (fst pc), snd pc)
  end.
(* for i := range cbList { cbList[i].UpdateProperties(cell) }, list after list *)
Definition run_cell (evs : list cb_act) (pc : pcell) : pcell := fold_left step_cell evs pc.

Record ptable := mkPT {
  pt_ncols  : nat;
  pt_header : option (list pcell);
  pt_rows   : list (option (list pcell));       (* None: separator *)
  pt_align  : list (option align);
  pt_skip   : list (option skipv)
}.

(* for i := range row.cells *)
Fixpoint imap_cells {A B} (f : nat -> A -> B) (c : nat) (cs : list A) : list B :=
  match cs with
  | [] => []
  | x :: r => f c x :: imap_cells f (S c) r
  end.
(* for _, row := range t.rows : row k of AllRows() is row S k *)
Fixpoint imap_rows {A B} (f : nat -> nat -> A -> B) (k : nat) (rows : list (option (list A))) : list (option (list B)) :=
  match rows with
  | [] => []
  | None :: rest => None :: imap_rows f (S k) rest
  | Some cs :: rest => Some (imap_cells (f (S k)) 0 cs) :: imap_rows f (S k) rest
  end.

Definition imap_table (f : nat -> nat -> pcell -> pcell) (t : ptable) : ptable :=
  mkPT (pt_ncols t) (option_map (imap_cells (f 0) 0) (pt_header t)) (imap_rows f 0 (pt_rows t))
       (pt_align t) (pt_skip t).

(* what a reader of the table's cells is given, cell by cell *)
Definition view_with (g : nat -> nat -> pcell -> vcell) (t : ptable) : view :=
  mkView (pt_ncols t) (option_map (imap_cells (g 0) 0) (pt_header t)) (imap_rows g 0 (pt_rows t))
         (pt_align t) (pt_skip t).

(* InvokeRenderCallbacks: the header row, then every row, cell by cell *)
Definition invoke_render_callbacks (regs : list reg) (t : ptable) : ptable :=
  imap_table (fun r c => run_cell (cell_events regs (pt_ncols t) r c)) t.

(* what RenderTo reads after the callbacks: the stored measurements only *)
Definition shown_view (t : ptable) : view := view_with (fun _ _ => shown) t.

Section WithW.
  Variable W : bytes -> nat.

  (* TextTable.Render(): the callbacks run, then the table is laid out from
     what the measuring callback stored; the cells keep what the callbacks did *)
  Definition render_pass (d : decoration) (regs : list reg) (t : ptable) : res bytes * ptable :=
    let t' := invoke_render_callbacks regs t in
    (text_render W d (shown_view t'), t').

  (* n renders in a row through the same wrapper *)
  Fixpoint render_seq (d : decoration) (regs : list reg) (t : ptable) (n : nat) : list (res bytes) :=
    match n with
    | 0 => []
    | S m => let (o, t') := render_pass d regs t in o :: render_seq d regs t' m
    end.
End WithW.
