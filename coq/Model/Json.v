(* Model of json/json.go (as repaired: comma look-ahead): RenderTo, the header
   validation loop, the row loop, emitRowAsJSONObject, Render.  One function
   per Go function / loop; RenderTo yields the list of Write payloads it
   issues.  Every Go index expression goes through idx.

   encoding/json is an oracle: the encoding of an item is the view's vc_json
   (None = Marshal returned an error); the encoding of a Go string
   (json.Marshal(s), which has no error path) is the function strenc. *)
From Tab Require Export Model.View.
Local Open Scope N_scope.

Definition js_open : bytes := [91; 10].          (* "[\n" *)
Definition js_close : bytes := [10; 93; 10].     (* "\n]\n" *)
Definition js_comma_nl : bytes := [44; 10].      (* ",\n" *)
Definition js_nl : bytes := [10].                (* "\n" *)
Definition js_lbrace : bytes := [123].           (* "{" *)
Definition js_rbrace : bytes := [125].           (* "}" *)
Definition js_empty_obj : bytes := [123; 125].   (* "{}" *)
Definition js_comma_sp : bytes := [44; 32].      (* ", " *)
Definition js_colon_sp : bytes := [58; 32].      (* ':', ' ' appended to each key *)

Definition nonempty {A} (l : list A) : bool := match l with [] => false | _ => true end.

Section JsonModel.
  Variable strenc : bytes -> bytes.     (* json.Marshal(string) *)

  (* the type switch on a Skipable property value; dflt when the property is unset *)
  Definition json_skip_value (raw : option skipv) (dflt : bool) : res bool :=
    match raw with
    | None => Ok dflt
    | Some (SkBool b) => Ok b
    | Some SkOther => Err
    end.

  (* jt.Column(0).GetProperty(properties.Skipable) *)
  Definition json_default_skipable (v : view) : res bool :=
    bind (idx (v_skip v) 0) (fun raw => json_skip_value raw false).

  (* for i := 0; i < columnCount; i++ { ... }: n = iterations left, seen = the
     keys of the map `seen` *)
  Fixpoint json_header_loop (v : view) (headers : list vcell) (dflt : bool)
           (n i : nat) (seen : list bytes) : res (list bool * list bytes) :=
    match n with
    | O => Ok ([], [])
    | S n' =>
        bind (idx headers i) (fun h =>
        let s := vc_text h in
        if negb (nonempty s) then Err
        else if existsb (bytes_eqb s) seen then Err
        else
          let key := strenc s ++ js_colon_sp in
          bind (idx (v_skip v) (i + 1)) (fun raw =>
          bind (json_skip_value raw dflt) (fun sk =>
          bind (json_header_loop v headers dflt n' (S i) (s :: seen)) (fun '(sks, keys) =>
          Ok (sk :: sks, key :: keys)))))
    end.

  (* t, err := json.Marshal(cells[i].Item()); the {} -> text fallback *)
  Definition json_cell_value (c : vcell) : res bytes :=
    match vc_json c with
    | None => Err
    | Some t =>
        if bytes_eqb t js_empty_obj && nonempty (vc_text c)
        then Ok (strenc (vc_text c))
        else Ok t
    end.

  (* for i = 0; i < max; i++ { ... cells[i] ... }: cells = cells[i:], first
     means separator == "{"; returns the writes and the final `first` *)
  Fixpoint json_emit_cells (skips : list bool) (keys : list bytes) (cells : list vcell)
           (i : nat) (first : bool) : res (list bytes * bool) :=
    match cells with
    | [] => Ok ([], first)
    | c :: rest =>
        bind (idx skips i) (fun sk =>
        if sk && vc_empty c then json_emit_cells skips keys rest (S i) first
        else
          bind (idx keys i) (fun key =>
          bind (json_cell_value c) (fun t =>
          bind (json_emit_cells skips keys rest (S i) false) (fun '(ws, f) =>
          Ok ((if first then js_lbrace else js_comma_sp) :: key :: t :: ws, f)))))
    end.

  (* emitRowAsJSONObject *)
  Definition json_emit_row_object (skips : list bool) (keys : list bytes) (cells : list vcell)
    : res (list bytes) :=
    if (length keys <? length cells)%nat then Err
    else bind (json_emit_cells skips keys cells 0 true) (fun '(ws, first) =>
         Ok (ws ++ [if first then js_empty_obj else js_rbrace])).

  (* lastObject := -1; for i, r := range rows { if !r.IsSeparator() { lastObject = i } } *)
  Fixpoint json_last_object (rows : list vrow) (i : nat) (acc : Z) : Z :=
    match rows with
    | [] => acc
    | None :: rest => json_last_object rest (S i) acc
    | Some _ :: rest => json_last_object rest (S i) (Z.of_nat i)
    end.

  (* for i, r := range rows { ... } *)
  Fixpoint json_emit_rows (skips : list bool) (keys : list bytes) (rows : list vrow)
           (i : nat) (last : Z) : res (list bytes) :=
    match rows with
    | [] => Ok []
    | None :: rest =>
        bind (json_emit_rows skips keys rest (S i) last) (fun ws => Ok (js_nl :: ws))
    | Some cells :: rest =>
        bind (json_emit_row_object skips keys cells) (fun w =>
        bind (json_emit_rows skips keys rest (S i) last) (fun ws =>
        Ok (w ++ (if (Z.of_nat i <? last)%Z then [js_comma_nl] else []) ++ ws)))
    end.

  (* RenderTo, as the list of writes *)
  Definition json_render_writes (v : view) : res (list bytes) :=
    if (v_ncols v <? 1)%nat then Err
    else
      bind (json_default_skipable v) (fun dflt =>
      match v_header v with
      | None => Err
      | Some headers =>
          if (length headers <? v_ncols v)%nat then Err
          else
            bind (json_header_loop v headers dflt (v_ncols v) 0 []) (fun '(skips, keys) =>
            let rows := v_rows v in
            let last := json_last_object rows 0 (-1)%Z in
            bind (json_emit_rows skips keys rows 0 last) (fun ws =>
            Ok ([js_open] ++ ws ++ [js_close])))
      end).

  (* RenderTo into a buffer *)
  Definition json_render (v : view) : res bytes :=
    bind (json_render_writes v) (fun ws => Ok (concat ws)).

  (* Render(): the string it returns ("" with an error) *)
  Definition json_render_string (v : view) : bytes :=
    match json_render v with Ok out => out | _ => [] end.
End JsonModel.
