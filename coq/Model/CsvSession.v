(* Model of csv/csv.go at the level of ONE CALL AFTER ANOTHER.

   Model/Csv.v says what one render of one table yields.  This file says how the
   call runs - which writes RenderTo has already issued when it stops with an
   error - and what the string-returning entry points (CSVTable.Render,
   csv.Render) do with them: a buffer of their own, fresh for every call, whose
   content is returned on success and dropped on failure.  A session is any
   sequence of such calls, over any tables, failing or not. *)
From Tab Require Export Model.Csv.

(* RenderTo as it runs: the writes issued so far, and how the loop ended.
   emitRow refuses a record that does not fit BEFORE writing any of its fields,
   so what has been written when RenderTo stops is a whole number of records. *)
Fixpoint csv_emit_rows_tr (ncols : nat) (rows : list (list bytes)) : list bytes * res unit :=
  match rows with
  | [] => ([], Ok tt)
  | r :: rest =>
      match csv_emit_row ncols r with
      | Ok w => let '(ws, e) := csv_emit_rows_tr ncols rest in (w ++ ws, e)
      | Err => ([], Err)
      | Panic => ([], Panic)
      end
  end.

Definition csv_render_to_tr (v : view) : list bytes * res unit :=
  if v_ncols v <? 1 then ([], Err) else csv_emit_rows_tr (v_ncols v) (csv_records v).

(* a *bytes.Buffer as destination: every Write appends and succeeds *)
Definition buf_writes (buf : bytes) (ws : list bytes) : bytes := buf ++ concat ws.

(* CSVTable.Render (pointer receiver):
     b := &bytes.Buffer{}; err := ct.RenderTo(b)
     if err != nil { return "", err }; return b.String(), nil *)
Definition csv_render_string (v : view) : res bytes :=
  let '(ws, e) := csv_render_to_tr v in
  match e with
  | Ok _ => Ok (buf_writes [] ws)
  | Err => Err
  | Panic => Panic
  end.

(* any sequence of renders, of any tables: one fresh buffer per call, so a
   call's result is a function of the table it is given and of nothing else *)
Definition csv_session (vs : list view) : list (res bytes) := map csv_render_string vs.
