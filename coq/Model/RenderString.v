(* Model of the Render() methods (csv, json, markdown, html, texttable: the
   same five lines each): RenderTo into a bytes.Buffer - a writer that never
   fails - then ("", err) on error, else (buffer contents, nil). *)
From Tab Require Export Base.Bytes.

(* result of Render(): Ok (text, error returned?) | Panic *)
Definition render_string (render_to_buffer : res bytes) : res (bytes * bool) :=
  match render_to_buffer with
  | Ok out => Ok (out, false)
  | Err => Ok ([], true)
  | Panic => Panic
  end.
