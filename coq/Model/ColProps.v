(* C08 (round 6) - the column records as they are: every column (index 0 = the
   all-columns default) holds a PROPERTY CHAIN (Model/Props.v: the value model of
   properties.go, one Gallina function per Go function - SetProperty,
   stripReturnValue, stripChainReturnValue, copyChainWithout, withValue,
   GetProperty), and a caller may set, re-set and remove ANY key on it, in any
   order, interleaved with the building calls.  Model/Table.v keeps only the two
   properties the renderers read, as positional lists; this machine keeps the
   chains and reads the alignment / skipable values out of them the way the
   renderers do (markdown.go: Column(i).GetProperty(align.PropertyType)).

   Keys are Go interface values (Base/PropsOps.v: dynamic type, value); the two
   keys of the library are pointers to distinct package-level structs. *)
From Tab Require Import Model.Props.
From Tab Require Import Model.Table.

Definition align_key : key := (3, 0%N).      (* align.PropertyType *)
Definition skip_key  : key := (3, 1%N).      (* properties.Skipable *)

(* values (Base/PropsOps.v: a non-nil interface value is a number) stored under
   the alignment key: 1 align.Left, 2 align.Right, 3 align.Center; any other
   value is not an align.Alignment (the renderers' unchecked type assertion on
   it is outside the domain, DESIGN 13) *)
Definition enc_align (a : align) : val := match a with ALeft => 1 | ARight => 2 | ACenter => 3 end.
Definition dec_align (v : val) : option align :=
  match v with 1 => Some ALeft | 2 => Some ARight | 3 => Some ACenter | _ => None end.
(* under properties.Skipable: 1 true, 2 false, anything else a non-bool *)
Definition dec_skip (v : val) : skipv :=
  match v with 1 => SkBool true | 2 => SkBool false | _ => SkOther end.

Inductive gptop (A : Type) :=
| PCore (o : Ops.op A)                              (* a building call *)
| PSet (n : nat) (k : key) (v : option val).         (* if c := t.Column(n); c != nil { c.SetProperty(k, v) } ; None = nil *)
Arguments PCore {A} o.
Arguments PSet {A} n k v.

Record gpstate (A : Type) := mkP {
  p_core : Core.state A;
  p_cols : list chain          (* t.columns: nColumns+1 records, each with its property chain *)
}.
Arguments mkP {A}.
Arguments p_core {A}.
Arguments p_cols {A}.

(* resizeColumnsAtLeast appends fresh records: no properties *)
Definition pad_nil (l : list chain) (n : nat) : list chain := l ++ repeat [] (n - length l).

Section Machine.
Context {A : Type}.

Definition pinit : gpstate A := mkP Core.init [[]].

Definition pstep (st : gpstate A) (o : gptop A) : res (gpstate A) :=
  match o with
  | PCore c =>
      let core' := Core.step (p_core st) c in
      Ok (mkP core' (pad_nil (p_cols st) (S (t_ncols core'))))
  | PSet n k v =>
      if has_column (p_core st) n then
        match nth_error (p_cols st) n with              (* t.columns[n] *)
        | Some m => bind (set_property m k v) (fun m' => Ok (mkP (p_core st) (upd (p_cols st) n m')))
        | None => Panic                                 (* index out of range *)
        end
      else Ok st
  end.

Fixpoint prun_from (st : gpstate A) (h : list (gptop A)) : res (gpstate A) :=
  match h with
  | [] => Ok st
  | o :: r => bind (pstep st o) (fun st' => prun_from st' r)
  end.
Definition prun (h : list (gptop A)) : res (gpstate A) := prun_from pinit h.

(* what the renderers read off a column record *)
Definition col_align (m : chain) : option align :=
  match get_property m align_key with Some v => dec_align v | None => None end.
Definition col_skip (m : chain) : option skipv := option_map dec_skip (get_property m skip_key).

(* the table a renderer meets (Model/Table.v's state, so that table_view and
   every renderer model apply unchanged) *)
Definition ptable (st : gpstate A) : gtstate A :=
  mkT (p_core st) (map col_align (p_cols st)) (map col_skip (p_cols st)).
End Machine.

Notation ptop := (gptop item).
Notation pstate := (gpstate item).
