(* C16 - interleaving semantics for goroutines that each own their tables and
   only read the decoration registry, and the shared-state inventory judged
   on the Go source (shared_ok).

   A global state is the registry plus, per goroutine, one local state (its
   tables, wrappers, outputs) and one observation list (what it read from the
   registry).  An action is executed by a goroutine t:

     Local f       any transformer of the WHOLE vector of local states; that it
                   only touches component t is a hypothesis (confined_fn), not
                   something the syntax enforces
     RegRead n k   decoration.Named(n): the value read is recorded as an
                   observation and handed to the goroutine's own state (k)
     RegNames k    decoration.RegisteredDecorationNames(), likewise
     RegWrite n d  decoration.RegisterDecorationName(n, d) (outside C16's
                   quantifier; present so that "registry only read" is a
                   hypothesis that can fail)

   Programs are lists of actions, a schedule is a list of goroutine ids (each
   step runs the next action of that goroutine), so the schedules of a program
   vector are exactly its merges. *)
From Tab Require Export Base.Bytes.

Section Sched.
  Variables L R K D : Type.
  Variable lookup : R -> K -> D.
  Variable names : R -> list K.
  Variable write : R -> K -> D -> R.

  Inductive obsv := ORead (n : K) (d : D) | ONames (l : list K).

  Definition lvec := nat -> L.

  Inductive action :=
  | Local (f : lvec -> lvec)
  | RegRead (n : K) (k : D -> L -> L)
  | RegNames (k : list K -> L -> L)
  | RegWrite (n : K) (d : D).

  Record gstate := mkG { g_reg : R; g_loc : nat -> L; g_obs : nat -> list obsv }.

  Definition upd {A} (f : nat -> A) (t : nat) (x : A) : nat -> A :=
    fun u => if Nat.eqb u t then x else f u.

  (* goroutine t executes a *)
  Definition step (t : nat) (a : action) (G : gstate) : gstate :=
    match a with
    | Local f => mkG (g_reg G) (f (g_loc G)) (g_obs G)
    | RegRead n k =>
        let d := lookup (g_reg G) n in
        mkG (g_reg G) (upd (g_loc G) t (k d (g_loc G t))) (upd (g_obs G) t (g_obs G t ++ [ORead n d]))
    | RegNames k =>
        let l := names (g_reg G) in
        mkG (g_reg G) (upd (g_loc G) t (k l (g_loc G t))) (upd (g_obs G) t (g_obs G t ++ [ONames l]))
    | RegWrite n d => mkG (write (g_reg G) n d) (g_loc G) (g_obs G)
    end.

  (* a program vector: goroutine id -> remaining program *)
  Definition pvec := nat -> list action.

  (* a scheduled goroutine with nothing left to run is skipped; complete
     schedules never do that *)
  Fixpoint run_sched (sched : list nat) (progs : pvec) (G : gstate) : gstate :=
    match sched with
    | [] => G
    | s :: r =>
        match progs s with
        | [] => run_sched r progs G
        | a :: rest => run_sched r (upd progs s rest) (step s a G)
        end
    end.

  (* goroutine t runs p with every other goroutine idle: the same machine, the
     only possible schedule *)
  Definition only (t : nat) (p : list action) : pvec := upd (fun _ => []) t p.
  Definition run_alone (t : nat) (p : list action) (G : gstate) : gstate :=
    run_sched (repeat t (length p)) (only t p) G.

  (* --- the hypotheses of C16 (DESIGN 13.13) --- *)

  (* f, run by goroutine t, leaves every other component alone and computes
     its own component from its own component only *)
  Definition confined_fn (t : nat) (f : lvec -> lvec) : Prop :=
    (forall ls u, u <> t -> f ls u = ls u) /\
    (forall ls ls', ls t = ls' t -> f ls t = f ls' t).

  Definition confined_action (t : nat) (a : action) : Prop :=
    match a with Local f => confined_fn t f | _ => True end.

  Definition read_only (a : action) : Prop :=
    match a with RegWrite _ _ => False | _ => True end.

  Definition confined (progs : pvec) : Prop := forall t, Forall (confined_action t) (progs t).
  Definition reads_registry_only (progs : pvec) : Prop := forall t, Forall read_only (progs t).

  (* sched is a merge of the programs: it schedules every goroutine exactly as
     often as its program is long *)
  Definition complete (sched : list nat) (progs : pvec) : Prop :=
    forall t, count_occ Nat.eq_dec sched t = length (progs t).

  (* program vectors given as a list *)
  Definition pvec_of (ps : list (list action)) : pvec :=
    fun t => match nth_error ps t with Some p => p | None => [] end.

  (* what goroutine t computes by itself, as a fold over its own pair
     (local state, observations): used by the proofs only *)
  Definition step_alone (t : nat) (a : action) (r : R) (s : L * list obsv) : L * list obsv :=
    match a with
    | Local f => (f (fun _ => fst s) t, snd s)
    | RegRead n k => (k (lookup r n) (fst s), snd s ++ [ORead n (lookup r n)])
    | RegNames k => (k (names r) (fst s), snd s ++ [ONames (names r)])
    | RegWrite _ _ => s
    end.

  Fixpoint fold_alone (t : nat) (p : list action) (r : R) (s : L * list obsv) : L * list obsv :=
    match p with
    | [] => s
    | a :: rest => fold_alone t rest r (step_alone t a r s)
    end.

  Definition proj (t : nat) (G : gstate) : L * list obsv := (g_loc G t, g_obs G t).
End Sched.

Arguments ORead {K D}.
Arguments ONames {K D}.
Arguments Local {L K D}.
Arguments RegRead {L K D}.
Arguments RegNames {L K D}.
Arguments RegWrite {L K D}.
Arguments mkG {L R K D}.
Arguments g_reg {L R K D}.
Arguments g_loc {L R K D}.
Arguments g_obs {L R K D}.
Arguments upd {A}.
Arguments step {L R K D}.
Arguments run_sched {L R K D}.
Arguments run_alone {L R K D}.
Arguments only {L K D}.
Arguments confined_fn {L}.
Arguments confined_action {L K D}.
Arguments read_only {L K D}.
Arguments confined {L K D}.
Arguments reads_registry_only {L K D}.
Arguments complete {L K D}.
Arguments pvec_of {L K D}.
Arguments step_alone {L R K D}.
Arguments fold_alone {L R K D}.
Arguments proj {L R K D}.


(* ------------------------------------------------------------------ *)
(* The shared-state inventory of the Go source.

   tools/srcfacts (the same walk is compiled into the harness) parses every
   non-test .go file of the repository under test and emits one FVar per
   package-level `var` and one FAcc per place OUTSIDE init functions and
   package-level initialisers where such a variable is
     AAssign       assigned as a whole (=, op=, ++, --, range =)
     AAddr         has its address (or the address of a part) taken
     AFieldAssign  has a field / element / pointee assigned, or is the target
                   of delete / copy / clear
     AAppendDst    is the destination (first argument) of append
     APtrCall      has a pointer-receiver method called on it or on a part
     ARead         (recorded for the non-sync fields of mutex-carrying
                   variables only: registry.table) is read.
   a_path is the selector path from the variable to the part touched
   ("table"), a_meth the method of an APtrCall.
   a_sync says that this is synchronisation: the variable's declared type, or
   the method called, is declared in package sync or sync/atomic, or the
   method belongs to a standard-library type documented as safe for
   concurrent use - strings.Replacer, and regexp.Regexp except Longest: an
   assumption about the standard library, listed in harness/c16_srcfacts.go
   and in the evidence).
   a_locked says that the place is covered by the variable's OWN mutex:
   lexically between <var>.Lock() and <var>.Unlock() (or after a Lock whose
   Unlock is deferred) of the same function - a mutation needs Lock, under
   RLock only reads count - or inside an unexported function whose value is
   never taken and all of whose call sites in the package lie in such a
   region or in another such function ("the caller must hold the lock";
   greatest fixpoint, computed by the walk). *)

Inductive akind := AAssign | AAddr | AFieldAssign | AAppendDst | APtrCall | ARead.

Inductive fact :=
| FVar (pkg name ty : bytes) (sync : bool)
| FAcc (pkg var path meth : bytes) (k : akind) (fn : bytes) (line : nat) (sync locked : bool).

Definition s_decoration : bytes :=
  [116; 101; 120; 116; 116; 97; 98; 108; 101; 47; 100; 101; 99; 111; 114; 97; 116; 105; 111; 110]%N.
Definition s_registry : bytes := [114; 101; 103; 105; 115; 116; 114; 121]%N.
Definition s_table : bytes := [116; 97; 98; 108; 101]%N.

(* a field (non-empty path) of a package-level variable; [locked] says the
   access lies between Lock and Unlock of THAT variable's own mutex in the
   same function, so this is "state guarded by the mutex it is declared
   with" - registry.table on the current tree, and whatever a rewrite of the
   registry chooses to keep under the same discipline *)
Definition is_guarded_field (pkg var path : bytes) : bool :=
  match path with [] => false | _ => true end.

Definition mutating (k : akind) : bool :=
  match k with ARead => false | _ => true end.

(* one fact is acceptable when
   - it is a declaration, or
   - it is synchronisation (a sync-typed variable or a sync method), or
   - it touches a field of a mutex-carrying package-level variable under that
     variable's own lock and does not leak its address. *)
Definition fact_ok (f : fact) : bool :=
  match f with
  | FVar _ _ _ _ => true
  | FAcc pkg var path _ k _ _ sy locked =>
      match k with
      | ARead => locked
      | AAddr => sy
      | _ => sy || (is_guarded_field pkg var path && locked)
      end
  end.

Definition shared_ok (fs : list fact) : bool := forallb fact_ok fs.

Definition offending (fs : list fact) : list fact := filter (fun f => negb (fact_ok f)) fs.
