(* C09 on tables that carry property callbacks of the application.

   Every RenderTo (csv, html, json, markdown, texttable) begins with
   t.InvokeRenderCallbacks() - one pass of the callback machine
   (Model/Callbacks.v) over the table - and then runs the renderer's body over
   what the table shows.  A callback in that machine is an opaque label: the
   only thing the machine (RegisterPropertyCallback appends; the pass walks the
   lists) ever does with a registered value is to invoke it.  It is never
   compared, hashed or inspected, so the model is the same for a callback of
   any Go dynamic type - empty struct, pointer, function value behind an
   adapter type, struct holding a slice, a map or a func, named slice / map /
   array types - and the totality statements below hold for all of them.  (Go's
   == on two interface values of one uncomparable dynamic type is a run-time
   panic; an implementation that compared registered callbacks would leave this
   model, and the correspondence check runs callbacks of such types, two and
   more of one type in one list, to see that.)

   User callbacks are total (DESIGN section 13, decision 3): an invocation
   returns nil or an error, which goes to an error container (C11) and has no
   bearing on the pass or on the renderer's body. *)
From Tab Require Export Base.Bytes Model.RenderString.
From Tab Require Model.Callbacks.

(* RenderTo: the pass, then the body (which the pass cannot make fail: a
   completed pass returns nothing) *)
Definition render_to_after_pass {A} (pass : res A) (body : res bytes) : res bytes :=
  match pass with
  | Ok _ => body
  | Err => Err
  | Panic => Panic
  end.

(* Render() of a wrapper around the table that history h built, callbacks and
   all: build, one pass, body, the five-line Render wrapper *)
Definition render_cb (h : list CbTypes.op) (body : res bytes) : res (bytes * bool) :=
  render_string
    (match Callbacks.run_build h with
     | Ok r => render_to_after_pass (Callbacks.render_pass (fst (fst r))) body
     | Err => Err
     | Panic => Panic
     end).
