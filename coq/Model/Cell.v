(* Model of cell.go as it is after the planned repairs (DESIGN section 7, D1: the rune
   arm of Update sets string(rune)).

   Items.  What the library can observe of an interface{} value is its
   dynamic type class and, for "every other type", which of the five optional
   interfaces the type implements and what those methods / fmt %v return.
   An object is referred to by identity; its current observable state is
   looked up in an environment [env : N -> obj], so "the caller mutates the
   item" is a change of environment and nothing else.  A *Cell stored as an
   item is such an object too: its method set is String, GoString, Height,
   TerminalCellWidth.  A Cell stored BY VALUE is a nested cell (ICell). *)
From Tab Require Export Base.Bytes Base.Utf8 Model.Length Model.View.

Record obj := mkObj {
  m_string   : option bytes;   (* Some s: the type has String(), which returns s *)
  m_gostring : option bytes;   (* GoString() *)
  m_error    : option bytes;   (* Error() *)
  m_height   : option Z;       (* Height() int *)
  m_width    : option Z;       (* TerminalCellWidth() int *)
  fmt_v      : bytes;          (* fmt.Sprintf("%v", x) *)
  json_enc   : option bytes    (* json.Marshal(x); None = it failed *)
}.

Inductive item :=
| INil                       (* untyped nil *)
| IString (s : bytes)
| IRune (r : Z)              (* rune = int32 *)
| ICell (inner : cell)       (* a tabular.Cell by value *)
| IObj (id : N)              (* any other dynamic type, by identity *)
with cell :=
| mkCell (raw : item) (str : bytes) (width height : Z) (empty : bool).

Definition c_raw (c : cell) : item := let 'mkCell r _ _ _ _ := c in r.
Definition c_str (c : cell) : bytes := let 'mkCell _ s _ _ _ := c in s.
Definition c_width (c : cell) : Z := let 'mkCell _ _ w _ _ := c in w.
Definition c_height (c : cell) : Z := let 'mkCell _ _ _ h _ := c in h.
Definition c_empty (c : cell) : bool := let 'mkCell _ _ _ _ e := c in e.

Definition env := N -> obj.

(* strings.Count(s, "\n") *)
Fixpoint count_lf (s : bytes) : nat :=
  match s with
  | [] => 0
  | b :: r => if N.eqb b LF then S (count_lf r) else count_lf r
  end.

(* strings.HasSuffix(s, "\n") *)
Fixpoint has_suffix_lf (s : bytes) : bool :=
  match s with
  | [] => false
  | [b] => N.eqb b LF
  | _ :: r => has_suffix_lf r
  end.

(* c.raw.(Heighter) / c.raw.(TerminalCellWidther) after the early returns of
   the nil and Cell arms: only an object can satisfy them *)
Definition as_heighter (e : env) (raw : item) : option Z :=
  match raw with IObj id => m_height (e id) | _ => None end.
Definition as_widther (e : env) (raw : item) : option Z :=
  match raw with IObj id => m_width (e id) | _ => None end.

Section Update.
  (* length.StringCells, the display-width oracle *)
  Variable W : bytes -> nat.
  Variable e : env.

  (* Cell.Update (pointer receiver), arm by arm in source order.  The receiver's previous
     str / width / height are threaded through so that "this arm assigns
     nothing" would be visible. *)
  Definition update_r (c : cell) : res cell :=
    let raw := c_raw c in
    (* c.empty = false; c.mustCalc = false *)
    match raw with
    | INil => Ok (mkCell raw [] 0 0 true)                                     (* case nil *)
    | ICell o => Ok (mkCell raw (c_str o) (c_width o) (c_height o) (c_empty o)) (* case Cell *)
    | _ =>
      let str :=
        match raw with
        | IString s => s                                                     (* case string *)
        | IRune r => utf8_of_rune r                                          (* case rune: string(o) *)
        | IObj id =>
            let o := e id in
            match m_string o with
            | Some s => s                                                    (* case Stringer *)
            | None =>
              match m_gostring o with
              | Some g => g                                                  (* case GoStringer *)
              | None =>
                match m_error o with
                | Some x => x                                                (* case error *)
                | None => fmt_v o                                            (* default: %v *)
                end
              end
            end
        | _ => c_str c                                                       (* not reached *)
        end in
      let overrideOnly := is_nil str in
      (* if c.str == "" { c.width = 0; c.height = 0; c.empty = true; overrideOnly = true } *)
      let width0 := if overrideOnly then 0%Z else c_width c in
      let height0 := if overrideOnly then 0%Z else c_height c in
      let empty := overrideOnly in
      let height1 :=
        match as_heighter e raw with
        | Some h => h
        | None =>
          if overrideOnly then height0
          else (1 + Z.of_nat (count_lf str) - (if has_suffix_lf str then 1 else 0))%Z
        end in
      match as_widther e raw with
      | Some w => Ok (mkCell raw str w height1 empty)
      | None =>
        if overrideOnly then Ok (mkCell raw str width0 height1 empty)
        else bind (longest_line_with W str) (fun n => Ok (mkCell raw str (Z.of_nat n) height1 empty))
      end
    end.

  (* NewCell: c := Cell{raw: object, empty: false}; c.Update() *)
  Definition new_cell_r (it : item) : res cell := update_r (mkCell it [] 0 0 false).

  (* total versions for statements (update_r never panics: Proofs/CellProofs.v) *)
  Definition update (c : cell) : cell := match update_r c with Ok c' => c' | _ => c end.
  Definition new_cell (it : item) : cell := update (mkCell it [] 0 0 false).
End Update.

(* ---- accessors.  mustCalc is never set to true anywhere in the package, so
   the updateCache branches are dead and String() returns c.str. *)
Definition cell_item (c : cell) : item := c_raw c.
Definition cell_text (c : cell) : bytes := c_str c.
Definition cell_empty (c : cell) : bool := c_empty c.
Definition cell_lines (c : cell) : res (list bytes) := lines (cell_text c).

(* TerminalCellWidth: if c.width < 0 { return 0 }; return c.width *)
Definition cell_width (c : cell) : Z := if (c_width c <? 0)%Z then 0%Z else c_width c.

(* Height: if c.height < 1 { if c.TerminalCellWidth() > 0 { return 1 }; return 0 }; return c.height *)
Definition cell_height (c : cell) : Z :=
  if (c_height c <? 1)%Z then (if (0 <? cell_width c)%Z then 1%Z else 0%Z) else c_height c.

(* ---- what the renderers' view of a cell is, derived from the item *)

(* Item().(TerminalCellWidther): Cell has the method with a value receiver, so
   a nested Cell satisfies it as well *)
Definition item_is_widther (e : env) (it : item) : bool :=
  match it with
  | ICell _ => true
  | IObj id => match m_width (e id) with Some _ => true | None => false end
  | _ => false
  end.

Definition vc_tw_of (W : bytes -> nat) (e : env) (it : item) : Z := cell_width (new_cell W e it).
Definition vc_h_of (W : bytes -> nat) (e : env) (it : item) : Z := cell_height (new_cell W e it).

(* [json] is the encoding/json oracle for items that are not objects *)
Definition vcell_of_item (W : bytes -> nat) (e : env) (json : item -> option bytes) (it : item) : vcell :=
  let c := new_cell W e it in
  mkVCell (cell_text c) (cell_empty c)
          (match it with IObj id => json_enc (e id) | _ => json it end)
          (cell_width c) (cell_height c) (item_is_widther e it).

(* texttable's dimensionSetter sizes its line array as
     nLines := cell.Height(); if len(lines) > nLines { nLines = len(lines) } *)
Definition layout_nlines (c : cell) : res Z :=
  bind (cell_lines c) (fun ls =>
  let h := cell_height c in
  Ok (if (h <? Zlen ls)%Z then Zlen ls else h)).
