(* Model of html/html.go: the template rawTableTemplateStr hand-translated into
   a function, one definition per template construct, same loop structure
   ({{range}} = structural recursion, {{with}}/{{if}} = a match).

   What html/template does to the three kinds of interpolation in this
   template was read from $GOROOT/src/html/template (go1.23: escape.go
   escapeAction, html.go htmlEscaper / attrEscaper / htmlReplacer /
   htmlReplacementTable) and probed on the real library:

   * {{.}} of a Go string between tags (state text)          -> htmlEscaper
   * {{.}} of a Go string inside a quoted class / id value    -> attrEscaper
   * {{RowClass n}} (a template.HTMLAttr) inside a quoted class value -> attrEscaper
     (class and id are contentTypePlain attributes; the delimiter is the
     double quote, so escapeAction appends _html_template_attrescaper; the
     value's type HTMLAttr is not contentTypeHTML, so attrEscaper takes the
     same branch as for a plain string)

   and both escapers are htmlReplacer(s, htmlReplacementTable, badRunes=true):
   rune by rune, a rune below len(table) with a non-empty entry is replaced,
   every other rune -- multi-byte, or an invalid byte (decoded as U+FFFD of
   width 1, which is not below len(table)) -- is copied.  Over-long encodings
   of the seven ASCII runes are invalid in Go's decoder, so the replacement is
   exactly byte-wise. *)
From Tab Require Export Model.View Base.HtmlLit.

(* The literal text of the template between its actions, after the trim
   markers ({{- and -}}) have removed the adjacent white space.  Evaluated to
   plain numeral lists here, so nothing downstream depends on String. *)
Module Tpl.
  Import Coq.Strings.String Coq.Strings.Ascii.
  Local Open Scope string_scope.
  Local Notation nl := (String "010"%char EmptyString).
  Local Notation lit s := (bytes_of_string s) (only parsing).
  Definition table_open   := Eval vm_compute in lit "<table".
  Definition class_open   := Eval vm_compute in lit " class=""".
  Definition id_open      := Eval vm_compute in lit " id=""".
  Definition quote        := Eval vm_compute in lit """".
  Definition gt           := Eval vm_compute in lit ">".
  Definition caption_open := Eval vm_compute in lit (nl ++ "  <caption>").
  Definition caption_close := Eval vm_compute in lit "</caption>".
  Definition thead_tr     := Eval vm_compute in lit (nl ++ "  <thead>" ++ nl ++ "    <tr").
  Definition th_open      := Eval vm_compute in lit "<th>".
  Definition th_close     := Eval vm_compute in lit "</th>".
  Definition thead_end    := Eval vm_compute in lit ("</tr>" ++ nl ++ "  </thead>" ++ nl ++ "  <tbody>").
  Definition tr_open      := Eval vm_compute in lit (nl ++ "    <tr").
  Definition td_open      := Eval vm_compute in lit "<td>".
  Definition td_close     := Eval vm_compute in lit "</td>".
  Definition tr_close     := Eval vm_compute in lit "</tr>".
  Definition table_end    := Eval vm_compute in lit (nl ++ "  </tbody>" ++ nl ++ "</table>" ++ nl).
End Tpl.

(* ---- html/template: htmlReplacementTable (seven entries) *)
Definition html_repl (b : N) : option bytes :=
  if N.eqb b 0 then Some [239; 191; 189]%N            (* NUL -> U+FFFD *)
  else if N.eqb b 34 then Some [38; 35; 51; 52; 59]%N  (* dquote -> &#34; *)
  else if N.eqb b 38 then Some [38; 97; 109; 112; 59]%N (* &  -> &amp; *)
  else if N.eqb b 39 then Some [38; 35; 51; 57; 59]%N  (* squote -> &#39; *)
  else if N.eqb b 43 then Some [38; 35; 52; 51; 59]%N  (* +  -> &#43; *)
  else if N.eqb b 60 then Some [38; 108; 116; 59]%N    (* <  -> &lt; *)
  else if N.eqb b 62 then Some [38; 103; 116; 59]%N    (* >  -> &gt; *)
  else None.

(* htmlReplacer(s, table, true) *)
Definition esc_byte (b : N) : bytes :=
  match html_repl b with Some r => r | None => [b] end.
Definition html_replacer (s : bytes) : bytes := flat_map esc_byte s.

(* htmlEscaper on a string; attrEscaper on a string or an HTMLAttr *)
Definition html_escape (s : bytes) : bytes := html_replacer s.
Definition attr_escape (s : bytes) : bytes := html_replacer s.

(* ---- the wrapper's fields and the row-class generator *)
Record html_in := mkHtmlIn {
  h_id      : bytes;
  h_class   : bytes;
  h_caption : bytes;
  h_have_rc : bool;        (* rowClassGenerator != nil *)
  h_rcs     : list bytes;  (* what the generator returns, call by call *)
  h_view    : view
}.

(* {{with .X}} PRE{{.}}POST{{end}} : a string is "true" when non-empty *)
Definition tpl_with (x pre post : bytes) (esc : bytes -> bytes) : bytes :=
  match x with [] => [] | _ => pre ++ esc x ++ post end.

(* {{if .HaveRowClass}} class=(quoted){{RowClass n}}{{end}}: one generator call,
   consuming its next return value.  (The generator is external code; a
   script that runs out is the model's analogue of an index out of range.) *)
Definition tpl_row_class (have : bool) (n : nat) (rcs : list bytes)
  : res (bytes * list nat * list bytes) :=
  if have then
    match rcs with
    | [] => Panic
    | c :: rest => Ok (Tpl.class_open ++ attr_escape c ++ Tpl.quote, [n], rest)
    end
  else Ok ([], [], rcs).

(* {{range Headers}}<th>{{.}}</th>{{end}} / {{range CellsOf $row}}<td>{{.}}</td>{{end}} *)
Fixpoint tpl_cells (open close : bytes) (cells : list bytes) : bytes :=
  match cells with
  | [] => []
  | c :: rest => open ++ html_escape c ++ close ++ tpl_cells open close rest
  end.

(* {{range $i, $row := Rows}}{{if $row.IsSeparator | not}} ... {{end}}{{end}};
   i is the 0-based index of the row in AllRows(), RowClass gets OnePlus $i *)
Fixpoint tpl_rows (have : bool) (i : nat) (rows : list vrow) (rcs : list bytes)
  : res (bytes * list nat) :=
  match rows with
  | [] => Ok ([], [])
  | None :: rest => tpl_rows have (S i) rest rcs
  | Some cells :: rest =>
      bind (tpl_row_class have (S i) rcs) (fun '(cls, calls, rcs') =>
      bind (tpl_rows have (S i) rest rcs') (fun '(out, calls') =>
      Ok (Tpl.tr_open ++ cls ++ Tpl.gt
          ++ tpl_cells Tpl.td_open Tpl.td_close (row_texts cells)
          ++ Tpl.tr_close ++ out,
          calls ++ calls')))
  end.

(* cellsToStringArray(ht.Table.Headers()): a nil header is an empty range *)
Definition header_texts (v : view) : list bytes :=
  match v_header v with Some h => row_texts h | None => [] end.

(* Execute: output bytes and the row numbers the generator was called with.
   Err would be a template execution error; with total callbacks there is
   none (an empty or nil Headers() is just an empty range). *)
Definition html_exec (x : html_in) : res (bytes * list nat) :=
  let v := h_view x in
  bind (tpl_row_class (h_have_rc x) 0 (h_rcs x)) (fun '(hcls, hcalls, rcs') =>
  bind (tpl_rows (h_have_rc x) 0 (v_rows v) rcs') (fun '(body, bcalls) =>
  Ok (Tpl.table_open
      ++ tpl_with (h_class x) Tpl.class_open Tpl.quote attr_escape
      ++ tpl_with (h_id x) Tpl.id_open Tpl.quote attr_escape
      ++ Tpl.gt
      ++ tpl_with (h_caption x) Tpl.caption_open Tpl.caption_close html_escape
      ++ Tpl.thead_tr ++ hcls ++ Tpl.gt
      ++ tpl_cells Tpl.th_open Tpl.th_close (header_texts v)
      ++ Tpl.thead_end
      ++ body
      ++ Tpl.table_end,
      hcalls ++ bcalls))).

Definition html_render (x : html_in) : res bytes :=
  bind (html_exec x) (fun r => Ok (fst r)).
Definition html_rc_calls (x : html_in) : res (list nat) :=
  bind (html_exec x) (fun r => Ok (snd r)).
