(* The text renderer's measuring pass with a line measure that is CODE, not an
   oracle (texttable/properties.go dimensionSetter.UpdateProperties, run by
   InvokeRenderCallbacks on every header cell and every body cell before the
   renderer's body looks at the table).

   Model/Text.v takes the display-width measure as a total function
   W : bytes -> nat.  Whatever computes the width of a line in the Go code is
   a loop over the line's bytes that can index out of range like any other
   loop; here the measure is Wr : bytes -> option nat, None standing for "the
   measuring code panics on this line".  One Gallina function per Go function,
   same loop structure as Model/Text.v; the renderer's body after the pass is
   Model/Text.v's, unchanged (it never measures). *)
From Tab Require Export Model.Text.

Local Open Scope Z_scope.

(* the renderer's body after the measuring pass: Model/Text.v
   text_render_writes from the column count on, word for word *)
Definition text_body (d : decoration) (v : view)
           (headers : option (list mcell)) (rows : list (option (list mcell))) : res (list bytes) :=
  let columnCount := v_ncols v in
  let cw0 := repeat 0 columnCount in
  let cw1 := match headers with Some hs => header_widths cw0 hs | None => cw0 end in
  bind (body_widths columnCount rows cw1) (fun cws =>
  bind (column_aligns v) (fun als =>
  bind (match headers with
        | Some hs =>
            bind (line_header_top d cws) (fun top =>
            bind (rendered_block (header_dividers d) cws als columnCount hs) (fun hl =>
            bind (line_header_body_sep d cws) (fun sep => Ok (top :: hl ++ [sep]))))
        | None => bind (line_body_top d cws) (fun top => Ok [top])
        end) (fun w1 =>
  bind (body_writes d cws als columnCount rows) (fun w2 =>
  bind (line_bottom d cws) (fun w3 =>
  Ok (w1 ++ w2 ++ [w3])))))).

Section MeasureR.
  Variable Wr : bytes -> option nat.

  (* W: l  ->  the call of the line measure *)
  Definition measure_line (l : bytes) : res nat :=
    match Wr l with Some w => Ok w | None => Panic end.

  (* for i, l := range lines { linesWidths[i] = WidthString{S: l, W: <measure>(l)} } *)
  Fixpoint fill_lines_r (i : nat) (ls : list bytes) (arr : list wstr) : res (list wstr) :=
    match ls with
    | [] => Ok arr
    | l :: r => bind (measure_line l) (fun w =>
                bind (upd arr i (mkWS l (Z.of_nat w))) (fill_lines_r (S i) r))
    end.

  Definition dimension_setter_r (c : vcell) : res mcell :=
    let cellWidth := vc_tw c in
    let height := vc_h c in
    bind (lines (vc_text c)) (fun ls =>
    let nLines := if height <? Zlen ls then Zlen ls else height in
    if nLines <? 0 then Panic else
    bind (fill_lines_r 0 ls (repeat ws_zero (Z.to_nat nLines))) (fun lw =>
    bind (if (length ls =? 1)%nat && vc_widther c
          then bind (idx lw 0) (fun x => upd lw 0 (mkWS (ws_s x) cellWidth))
          else Ok lw) (fun lw =>
    Ok (mkMC cellWidth height lw)))).

  Definition measure_row_r (cs : list vcell) : res (list mcell) := mapM dimension_setter_r cs.
  Definition measure_opt_r (r : option (list vcell)) : res (option (list mcell)) :=
    match r with
    | None => Ok None
    | Some cs => bind (measure_row_r cs) (fun m => Ok (Some m))
    end.

  (* RenderTo: the decoration check, the pass (header, then the rows in
     order; a panic propagates), the body *)
  Definition text_render_writes_r (d : decoration) (v : view) : res (list bytes) :=
    if is_empty_decoration d then Err else
    bind (measure_opt_r (v_header v)) (fun headers =>
    bind (mapM measure_opt_r (v_rows v)) (fun rows =>
    text_body d v headers rows)).

  Definition text_render_r (d : decoration) (v : view) : res bytes :=
    bind (text_render_writes_r d v) (fun ws => Ok (concat ws)).

  (* the total function a measure that never panics is *)
  Definition total_of (l : bytes) : nat := match Wr l with Some w => w | None => 0%nat end.
End MeasureR.

(* the measure of Model/Text.v, as code that never panics *)
Definition never_panics (W : bytes -> nat) : bytes -> option nat := fun l => Some (W l).
