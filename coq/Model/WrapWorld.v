(* Several tables in one programme (C14, world histories).

   Model/Wrap.v describes what wraps and renders do to ONE core table.  An
   application holds several tables, each with its own wrappers, and a render
   of one table may be IN PROGRESS - its render-callback pass is done, its
   output is being produced (a writer, a row-class generator, a user callback
   is running) - while other renders, of other tables or of the same one, run
   to completion.  A world is a list of table states; an operation names the
   table it acts on; a render in progress is [WDuring i k inner]: the pass of
   table i happens, then the operations of [inner] (arbitrarily nested), and
   only then is the output emitted, from whatever state table i is in by then.

   In the model, tables share nothing: an operation on table j touches entry j
   of the world only.  That the Go code has no state outside its tables which a
   render reads (pools, memos, templates shared between wrappers) is exactly
   what the correspondence check of C14 exercises with its world histories. *)
From Tab Require Export Model.Wrap.

Section World.
  Variable U : Type.
  Variable out : kind -> view -> res bytes.
  Variable degraded : kind -> mstate -> view -> res bytes.

  Definition world := list (tstate U).

  (* what a render of kind k, its pass already made, emits when it reads table state s *)
  Definition emit (s : tstate U) (k : kind) : res bytes :=
    match k with
    | KText => match st_text s with MFresh => out k (st_view s) | m => degraded k m (st_view s) end
    | KMd => match st_md s with MFresh => out k (st_view s) | m => degraded k m (st_view s) end
    | _ => out k (st_view s)
    end.

  Inductive wop :=
  | WOn (i : nat) (o : op U)                          (* a building call, a Wrap or a whole render, on table i *)
  | WDuring (i : nat) (k : kind) (inner : list wop).  (* a render of table i through kind k, [inner] happening meanwhile *)

  Fixpoint upd (i : nat) (f : tstate U -> tstate U) (w : world) : world :=
    match w, i with
    | [], _ => []
    | s :: r, O => f s :: r
    | s :: r, S j => s :: upd j f r
    end.

  (* the log: which table, which kind, what came out *)
  Definition entry : Type := nat * kind * res bytes.

  Fixpoint wstep (w : world) (o : wop) {struct o} : world * list entry :=
    match o with
    | WOn i p =>
        (upd i (fun s => step s p) w,
         match p, nth_error w i with
         | ORender k, Some s => [(i, k, render out degraded s k)]
         | _, _ => []
         end)
    | WDuring i k inner =>
        let r := (fix go (l : list wop) (w : world) {struct l} : world * list entry :=
                    match l with
                    | [] => (w, [])
                    | x :: l' => let a := wstep w x in let b := go l' (fst a) in (fst b, snd a ++ snd b)
                    end) inner (upd i invoke w) in
        (fst r, snd r ++ match nth_error (fst r) i with Some s => [(i, k, emit s k)] | None => [] end)
    end.

  Fixpoint wrun (l : list wop) (w : world) {struct l} : world * list entry :=
    match l with
    | [] => (w, [])
    | x :: l' => let a := wstep w x in let b := wrun l' (fst a) in (fst b, snd a ++ snd b)
    end.

  (* no building call reaches table i, however deeply nested *)
  Fixpoint no_build (i : nat) (o : wop) {struct o} : bool :=
    match o with
    | WOn j p => negb (j =? i) || negb (is_build p)
    | WDuring _ _ inner => forallb (no_build i) inner
    end.
End World.

Arguments WOn {U}.
Arguments WDuring {U}.
Arguments upd {U}.
Arguments emit {U}.
Arguments wstep {U}.
Arguments wrun {U}.
Arguments no_build {U}.
