(* C16, round 6 - goroutines that each own their tables and, while rendering,
   go through SYNCHRONISED package-level state: a cache, a memo, a pool (what
   sync.Map, atomic.Value, sync.Pool or a mutex-guarded map give a renderer).
   Such state has no data race; Model/Sched.v counted it as synchronisation
   and had no action for it.  Here it is an action of its own.

   The shared cell has a state c : C.  A goroutine t asks it a question q
   computed from its own local state; the cell answers and moves on:

        ask : C -> Q -> A * C           (one atomic step: the cell is
                                         synchronised, that is not in doubt)

   Actions of goroutine t:

        SLocal f      its own state l becomes f l  (confined by construction)
        SAsk q k      a := answer of the cell to (q l); the cell moves on;
                      l becomes k a l

   Schedules, program vectors, complete, run_alone are those of Model/Sched.v
   (a schedule is a list of goroutine ids; the schedules of a program vector
   are its merges).

   "Equals what the same table produces when rendered alone" is: the local
   state of t after ANY complete schedule is the local state after t ran its
   program with nobody else there, from the same initial cell.

   What makes that true is a property of the cell, [transparent]: there is
   an invariant of the cell's states, holding initially and kept by every
   ask, under which the answer to q is a FUNCTION of q alone ([pure q]).  A
   memo keyed by the whole question is transparent (memo_ask, for every
   eviction policy); a memo keyed by less than the question (coarse_ask: by a
   class of the question) is not, and neither is a one-entry memo whose key
   and value are stored in two steps (torn_ask): SchedSharedProofs has the
   schedules that show it. *)
From Tab Require Export Model.Sched.

Section Shared.
  Variables L C Q A : Type.
  Variable ask : C -> Q -> A * C.

  Inductive saction :=
  | SLocal (f : L -> L)
  | SAsk (q : L -> Q) (k : A -> L -> L).

  Record sstate := mkS { s_cell : C; s_loc : nat -> L }.

  Definition sstep (t : nat) (a : saction) (G : sstate) : sstate :=
    match a with
    | SLocal f => mkS (s_cell G) (upd (s_loc G) t (f (s_loc G t)))
    | SAsk q k =>
        let '(ans, c') := ask (s_cell G) (q (s_loc G t)) in
        mkS c' (upd (s_loc G) t (k ans (s_loc G t)))
    end.

  Definition spvec := nat -> list saction.

  Fixpoint srun_sched (sched : list nat) (progs : spvec) (G : sstate) : sstate :=
    match sched with
    | [] => G
    | s :: r =>
        match progs s with
        | [] => srun_sched r progs G
        | a :: rest => srun_sched r (upd progs s rest) (sstep s a G)
        end
    end.

  Definition sonly (t : nat) (p : list saction) : spvec := upd (fun _ => []) t p.
  Definition srun_alone (t : nat) (p : list saction) (G : sstate) : sstate :=
    srun_sched (repeat t (length p)) (sonly t p) G.

  Definition scomplete (sched : list nat) (progs : spvec) : Prop :=
    forall t, count_occ Nat.eq_dec sched t = length (progs t).

  Definition spvec_of (ps : list (list saction)) : spvec :=
    fun t => match nth_error ps t with Some p => p | None => [] end.

  (* the cell is transparent: under an invariant that every ask keeps, the
     answer is a function of the question *)
  Definition transparent (Inv : C -> Prop) (pure : Q -> A) : Prop :=
    forall c q, Inv c -> fst (ask c q) = pure q /\ Inv (snd (ask c q)).

  (* what goroutine t computes when every answer is [pure]: no cell at all *)
  Definition sstep_pure (pure : Q -> A) (a : saction) (l : L) : L :=
    match a with
    | SLocal f => f l
    | SAsk q k => k (pure (q l)) l
    end.

  Fixpoint sfold_pure (pure : Q -> A) (p : list saction) (l : L) : L :=
    match p with
    | [] => l
    | a :: rest => sfold_pure pure rest (sstep_pure pure a l)
    end.
End Shared.

Arguments SLocal {L Q A}.
Arguments SAsk {L Q A}.
Arguments mkS {L C}.
Arguments s_cell {L C}.
Arguments s_loc {L C}.
Arguments sstep {L C Q A}.
Arguments srun_sched {L C Q A}.
Arguments srun_alone {L C Q A}.
Arguments sonly {L Q A}.
Arguments scomplete {L Q A}.
Arguments spvec_of {L Q A}.
Arguments transparent {C Q A}.
Arguments sstep_pure {L Q A}.
Arguments sfold_pure {L Q A}.

(* ------------------------------------------------------------------ *)
(* Three cells.

   memo_ask   a memo of f keyed by the WHOLE question: an association list
              of (question, answer); a miss computes f, and stores the pair
              through [keep] - any eviction policy: keep may drop entries
              (size bound, one entry only, nothing kept at all) but not invent
              them.

   coarse_ask a memo keyed by a CLASS of the question (cls q): what the cell
              learned about one question it answers to every question of the
              same class.  (A cache per item type of what holds for one item
              value.)

   torn_ask   a one-entry memo kept in two registers, key and value, each
              written by a step of its own: TLook q answers the value register
              when the key register holds q; a miss is followed by TPutVal
              (f q) and then TPutKey q.  Every step is atomic; the pair is
              not. *)
Section Cells.
  Variables Q A : Type.
  Variable qeqb : Q -> Q -> bool.
  Variable f : Q -> A.

  Fixpoint assoc (c : list (Q * A)) (q : Q) : option A :=
    match c with
    | [] => None
    | (k, v) :: r => if qeqb k q then Some v else assoc r q
    end.

  Variable keep : list (Q * A) -> list (Q * A).

  Definition memo_ask (c : list (Q * A)) (q : Q) : A * list (Q * A) :=
    match assoc c q with
    | Some v => (v, c)
    | None => (f q, keep ((q, f q) :: c))
    end.

  Definition memo_inv (c : list (Q * A)) : Prop := Forall (fun kv => snd kv = f (fst kv)) c.

  Variable K : Type.
  Variable keqb : K -> K -> bool.
  Variable cls : Q -> K.

  Fixpoint kassoc (c : list (K * A)) (k : K) : option A :=
    match c with
    | [] => None
    | (k', v) :: r => if keqb k' k then Some v else kassoc r k
    end.

  Definition coarse_ask (c : list (K * A)) (q : Q) : A * list (K * A) :=
    match kassoc c (cls q) with
    | Some v => (v, c)
    | None => (f q, (cls q, f q) :: c)
    end.
End Cells.

Arguments assoc {Q A}.
Arguments memo_ask {Q A}.
Arguments memo_inv {Q A}.

(* the torn memo, over nat for the witness schedule *)
Inductive tq := TLook (q : nat) | TPutVal (v : nat) | TPutKey (q : nat) | TNop.

(* cell = (key register, value register); answers: Some v on a hit *)
Definition torn_ask (c : option nat * option nat) (q : tq) : option nat * (option nat * option nat) :=
  match q with
  | TLook x =>
      match fst c, snd c with
      | Some k, Some v => if Nat.eqb k x then (Some v, c) else (None, c)
      | _, _ => (None, c)
      end
  | TPutVal v => (None, (fst c, Some v))
  | TPutKey k => (None, (Some k, snd c))
  | TNop => (None, c)
  end.

(* goroutine-local state of "result := memoised f x": the argument, whether the
   lookup missed, the result *)
Record tl := mkT { t_arg : nat; t_miss : bool; t_res : option nat }.

(* the program of one memoised call of f, as the renderer's code does it: look;
   on a miss compute, store the value, store the key *)
Definition torn_call (f : nat -> nat) : list (saction tl tq (option nat)) :=
  [ SAsk (fun l => TLook (t_arg l))
         (fun a l => match a with
                     | Some v => mkT (t_arg l) false (Some v)
                     | None => mkT (t_arg l) true (Some (f (t_arg l)))
                     end);
    SAsk (fun l => if t_miss l then TPutVal (f (t_arg l)) else TNop) (fun _ l => l);
    SAsk (fun l => if t_miss l then TPutKey (t_arg l) else TNop) (fun _ l => l) ].
