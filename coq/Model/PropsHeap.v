(* C12, stage 2 - explicit-heap model of properties.go as repaired, and the
   owner machine (table, columns, rows, cells, detached cell copies, column
   handles) over it.

   Chain links (the valueProperty structs) live in a heap [list node]; a pointer is an
   index, nil / noProperty is None.  Allocation appends (the Go allocator never
   hands out a live address twice), nothing is freed.  An owner holds a head
   pointer; a by-value copy of a Cell copies the head pointer, so copies share
   links.  Every Go pointer dereference goes through [deref] (Panic when
   dangling); the walks carry fuel = the heap size, which is enough on every
   well-formed heap (Proofs/PropsHeapProofs.v) - running out would be a cyclic
   chain, on which the Go code does not terminate. *)
From Tab Require Export Base.PropsOps.

Definition ptr := option nat.
Record node := mkNode { n_key : key; n_val : val; n_next : ptr }.
Definition heap := list node.

Definition deref (h : heap) (p : nat) : res node :=
  match nth_error h p with Some n => Ok n | None => Panic end.

(* &valueProperty{...}: a fresh address, existing links untouched *)
Definition alloc (h : heap) (n : node) : heap * nat := (h ++ [n], length h).

(* func (v *valueProperty) Value(key) *)
Fixpoint hvalue (fuel : nat) (h : heap) (p : nat) (k : key) : res (option val) :=
  match fuel with
  | 0 => Panic
  | S f =>
      bind (deref h p) (fun n =>
        if key_eqb (n_key n) k then Ok (Some (n_val n))
        else match n_next n with
             | None => Ok None
             | Some q => hvalue f h q k
             end)
  end.

(* func (pi *propertyImpl) GetProperty(key) *)
Definition hget_property (h : heap) (p : ptr) (k : key) : res (option val) :=
  match p with
  | None => Ok None
  | Some i => hvalue (length h) h i k
  end.

(* func copyChainWithout(from, drop *valueProperty) propertySet *)
Fixpoint hcopy_chain_without (fuel : nat) (h : heap) (from : ptr) (drop : nat) : res (heap * ptr) :=
  match fuel with
  | 0 => Panic
  | S f =>
      match from with
      | None => Panic                                  (* from.chain on a nil from *)
      | Some i =>
          bind (deref h i) (fun n =>
            if Nat.eqb i drop then Ok (h, n_next n)    (* from == drop: return from.chain *)
            else
              bind (hcopy_chain_without f h (n_next n) drop) (fun hc =>
                let '(h2, a) := alloc (fst hc) (mkNode (n_key n) (n_val n) (snd hc)) in
                Ok (h2, Some a)))
      end
  end.

(* func stripChainReturnValue(top, parent, this_, key) *)
Fixpoint hstrip_chain_return_value (fuel : nat) (h : heap) (top : nat) (this_ : ptr) (k : key)
  : res (option val * (heap * ptr)) :=
  match fuel with
  | 0 => Panic
  | S f =>
      match this_ with
      | None => Ok (None, (h, Some top))               (* !ok *)
      | Some i =>
          bind (deref h i) (fun n =>
            if key_eqb (n_key n) k then
              bind (hcopy_chain_without (length h) h (Some top) i) (fun hc => Ok (Some (n_val n), hc))
            else match n_next n with
                 | None => Ok (None, (h, Some top))
                 | Some _ => hstrip_chain_return_value f h top (n_next n) k
                 end)
      end
  end.

(* func stripReturnValue(ps, key) *)
Definition hstrip_return_value (h : heap) (ps : ptr) (k : key) : res (option val * (heap * ptr)) :=
  match ps with
  | None => Ok (None, (h, ps))
  | Some t =>
      bind (deref h t) (fun n =>
        if key_eqb (n_key n) k then Ok (Some (n_val n), (h, n_next n))
        else match n_next n with
             | None => Ok (None, (h, ps))
             | Some _ => hstrip_chain_return_value (length h) h t (n_next n) k
             end)
  end.

(* func (pi *propertyImpl) SetProperty(key, value): returns the new heap and
   the new value of pi.properties *)
Definition hset_property (h : heap) (ps : ptr) (k : key) (v : option val) : res (heap * ptr) :=
  bind (hstrip_return_value h ps k) (fun vr =>
    match v with
    | None => Ok (snd vr)
    | Some x => let '(h2, a) := alloc (fst (snd vr)) (mkNode k x (snd (snd vr))) in Ok (h2, Some a)
    end).

(* chain length, as %#v prints it *)
Fixpoint hlen (fuel : nat) (h : heap) (p : ptr) : res nat :=
  match p with
  | None => Ok 0
  | Some i =>
      match fuel with
      | 0 => Panic
      | S f => bind (deref h i) (fun n => bind (hlen f h (n_next n)) (fun l => Ok (S l)))
      end
  end.
Definition hchain_len (h : heap) (p : ptr) : res nat := hlen (length h) h p.

(* ------------------------------------------------------------------ owners *)

Record hrow := mkRow { r_props : ptr; r_cells : list ptr; r_in_table : bool }.

Record mstate := mkSt {
  m_heap : heap;
  m_table : ptr;               (* ATable.propertyImpl.properties *)
  m_cols : list ptr;           (* ATable.columns ([]*column): entry n is column n's properties *)
  m_ncols : nat;               (* ATable.nColumns *)
  m_rows : list hrow;          (* every Row made so far, by creation index *)
  m_dets : list ptr;           (* detached Cell values held by the caller *)
  m_handles : list nat         (* *column handles: with []*column a handle is the column object, named by its number *)
}.

(* tabular.New() *)
Definition m_init : mstate := mkSt [] None [None] 0 [] [] [].

Fixpoint upd {A} (l : list A) (i : nat) (x : A) : list A :=
  match l, i with
  | [], _ => []
  | _ :: r, 0 => x :: r
  | y :: r, S j => y :: upd r j x
  end.

(* func (t *ATable) resizeColumnsAtLeast(newCount) *)
Definition resize_columns_at_least (st : mstate) (newCount : nat) : mstate :=
  if newCount <=? m_ncols st then st
  else mkSt (m_heap st) (m_table st)
            (m_cols st ++ repeat None (newCount + 1 - length (m_cols st)))
            newCount (m_rows st) (m_dets st) (m_handles st).

(* func (t *ATable) Column(n): Ok None = nil *)
Definition column (st : mstate) (n : nat) : res (option nat) :=
  if m_ncols st <? n then Ok None
  else bind (idx (m_cols st) n) (fun _ => Ok (Some n)).

(* the head pointer an owner holds; Ok None = there is no such owner *)
Definition head_of (st : mstate) (o : owner) : res (option ptr) :=
  match o with
  | OTable => Ok (Some (m_table st))
  | OCol n =>
      bind (column st n) (fun c =>
        match c with
        | None => Ok None
        | Some n => bind (idx (m_cols st) n) (fun p => Ok (Some p))
        end)
  | OHandle hd =>
      match nth_error (m_handles st) hd with
      | None => Ok None
      | Some n => bind (idx (m_cols st) n) (fun p => Ok (Some p))      (* the column object itself *)
      end
  | ORow r =>
      match nth_error (m_rows st) r with
      | None => Ok None
      | Some rw => Ok (Some (r_props rw))
      end
  | OCell r c =>
      match nth_error (m_rows st) r with
      | None => Ok None
      | Some rw =>
          match nth_error (r_cells rw) c with       (* CellAt / Cells(): range-checked, no panic *)
          | None => Ok None
          | Some p => Ok (Some p)
          end
      end
  | ODet d =>
      match nth_error (m_dets st) d with
      | None => Ok None
      | Some p => Ok (Some p)
      end
  end.

Definition with_heap (st : mstate) (h : heap) : mstate :=
  mkSt h (m_table st) (m_cols st) (m_ncols st) (m_rows st) (m_dets st) (m_handles st).

(* pi.properties = p, for the owner's own propertyImpl *)
Definition set_head (st : mstate) (o : owner) (p : ptr) : mstate :=
  match o with
  | OTable => mkSt (m_heap st) p (m_cols st) (m_ncols st) (m_rows st) (m_dets st) (m_handles st)
  | OCol n => mkSt (m_heap st) (m_table st) (upd (m_cols st) n p) (m_ncols st) (m_rows st) (m_dets st) (m_handles st)
  | OHandle hd =>
      match nth_error (m_handles st) hd with
      | None => st
      | Some n => mkSt (m_heap st) (m_table st) (upd (m_cols st) n p) (m_ncols st) (m_rows st) (m_dets st) (m_handles st)
      end
  | ORow r =>
      match nth_error (m_rows st) r with
      | None => st
      | Some rw => mkSt (m_heap st) (m_table st) (m_cols st) (m_ncols st)
                        (upd (m_rows st) r (mkRow p (r_cells rw) (r_in_table rw))) (m_dets st) (m_handles st)
      end
  | OCell r c =>
      match nth_error (m_rows st) r with
      | None => st
      | Some rw => mkSt (m_heap st) (m_table st) (m_cols st) (m_ncols st)
                        (upd (m_rows st) r (mkRow (r_props rw) (upd (r_cells rw) c p) (r_in_table rw))) (m_dets st) (m_handles st)
      end
  | ODet d => mkSt (m_heap st) (m_table st) (m_cols st) (m_ncols st) (m_rows st) (upd (m_dets st) d p) (m_handles st)
  end.

Definition is_cell_owner (o : owner) : bool :=
  match o with OCell _ _ | ODet _ => true | _ => false end.

(* one step: new state and the step's own result.  The SetProperty
   implementation is a parameter only so that Findings/PropsLegacy.v can run the
   same machine over the pinned tree's in-place unlink; the model is [m_step]. *)
Definition setter := heap -> ptr -> key -> option val -> res (heap * ptr).

Definition m_step_gen (setf : setter) (st : mstate) (o : op) : res (mstate * nat) :=
  match o with
  | SetP ow k v =>
      bind (head_of st ow) (fun hp =>
        match hp with
        | None => Ok (st, R_INVALID)
        | Some p => bind (setf (m_heap st) p k v) (fun hp' =>
                      Ok (set_head (with_heap st (fst hp')) ow (snd hp'), R_OK))
        end)
  | GetP ow k =>
      bind (head_of st ow) (fun hp =>
        match hp with
        | None => Ok (st, R_INVALID)
        | Some p => bind (hget_property (m_heap st) p k) (fun v => Ok (st, enc v))
        end)
  | CopyCell ow =>
      if is_cell_owner ow then
        bind (head_of st ow) (fun hp =>
          match hp with
          | None => Ok (st, R_INVALID)
          | Some p =>           (* c2 := *cellPtr copies propertyImpl, i.e. the head pointer *)
              Ok (mkSt (m_heap st) (m_table st) (m_cols st) (m_ncols st) (m_rows st) (m_dets st ++ [p]) (m_handles st), R_OK)
          end)
      else Ok (st, R_INVALID)
  | NewCell =>
      Ok (mkSt (m_heap st) (m_table st) (m_cols st) (m_ncols st) (m_rows st) (m_dets st ++ [None]) (m_handles st), R_OK)
  | NewRow =>
      Ok (mkSt (m_heap st) (m_table st) (m_cols st) (m_ncols st) (m_rows st ++ [mkRow None [] false]) (m_dets st) (m_handles st), R_OK)
  | RowAdd r d =>
      match nth_error (m_rows st) r, nth_error (m_dets st) d with
      | Some rw, Some p =>
          if r_in_table rw then Ok (st, R_INVALID)
          else                  (* r.cells = append(r.cells, c): the row's cell is a copy of the caller's value *)
            Ok (mkSt (m_heap st) (m_table st) (m_cols st) (m_ncols st)
                     (upd (m_rows st) r (mkRow (r_props rw) (r_cells rw ++ [p]) false)) (m_dets st) (m_handles st), R_OK)
      | _, _ => Ok (st, R_INVALID)
      end
  | AddRow r =>
      match nth_error (m_rows st) r with
      | Some rw =>
          if r_in_table rw then Ok (st, R_INVALID)
          else
            let st1 := mkSt (m_heap st) (m_table st) (m_cols st) (m_ncols st)
                            (upd (m_rows st) r (mkRow (r_props rw) (r_cells rw) true)) (m_dets st) (m_handles st) in
            Ok (resize_columns_at_least st1 (length (r_cells rw)), R_OK)
      | None => Ok (st, R_INVALID)
      end
  | AddRowItems n =>
      let st1 := mkSt (m_heap st) (m_table st) (m_cols st) (m_ncols st)
                      (m_rows st ++ [mkRow None (repeat None n) true]) (m_dets st) (m_handles st) in
      Ok (resize_columns_at_least st1 n, R_OK)
  | TakeColumn n =>
      bind (column st n) (fun c =>
        match c with
        | None => Ok (st, R_INVALID)
        | Some n => Ok (mkSt (m_heap st) (m_table st) (m_cols st) (m_ncols st) (m_rows st) (m_dets st) (m_handles st ++ [n]), R_OK)
        end)
  | AddHeaders n =>             (* t.resizeColumnsAtLeast(len(items)); the header row holds no owner of the op language *)
      Ok (resize_columns_at_least st n, R_OK)
  | Touch ow =>                 (* no modelled function writes pi.properties except SetProperty *)
      bind (head_of st ow) (fun hp =>
        match hp with
        | None => Ok (st, R_INVALID)
        | Some _ => Ok (st, R_OK)
        end)
  | AddSeparator =>             (* sep := newSeparator(); t.rows = append(t.rows, sep): a fresh Row each time, no cells, columns untouched *)
      Ok (mkSt (m_heap st) (m_table st) (m_cols st) (m_ncols st)
               (m_rows st ++ [mkRow None [] true]) (m_dets st) (m_handles st), R_OK)
  | NewCellOf ow =>             (* NewCell(c): Cell{raw: c}; the new cell's own propertyImpl is the zero value *)
      if is_cell_owner ow then
        bind (head_of st ow) (fun hp =>
          match hp with
          | None => Ok (st, R_INVALID)
          | Some _ =>
              Ok (mkSt (m_heap st) (m_table st) (m_cols st) (m_ncols st) (m_rows st) (m_dets st ++ [None]) (m_handles st), R_OK)
          end)
      else Ok (st, R_INVALID)
  end.

Definition m_step : mstate -> op -> res (mstate * nat) := m_step_gen hset_property.

(* what is read off one owner: chain length and the value under every key *)
Fixpoint m_gets (h : heap) (p : ptr) (keys : list key) : res (list nat) :=
  match keys with
  | [] => Ok []
  | k :: ks => bind (hget_property h p k) (fun v => bind (m_gets h p ks) (fun l => Ok (enc v :: l)))
  end.

Definition m_entry (st : mstate) (keys : list key) (o : owner) : res (option (nat * list nat)) :=
  bind (head_of st o) (fun hp =>
    match hp with
    | None => Ok None
    | Some p => bind (hchain_len (m_heap st) p) (fun n =>
                  bind (m_gets (m_heap st) p keys) (fun l => Ok (Some (n, l))))
    end).

Fixpoint m_dump (st : mstate) (keys : list key) (watch : list owner) : res dump :=
  match watch with
  | [] => Ok []
  | o :: ws => bind (m_entry st keys o) (fun e => bind (m_dump st keys ws) (fun l => Ok (e :: l)))
  end.

(* a history: after every step, the step's result and the dump; a panic ends
   the trace with (R_PANIC, []) *)
Fixpoint m_run_gen (setf : setter) (st : mstate) (keys : list key) (watch : list owner) (ops : list op) : list stepobs :=
  match ops with
  | [] => []
  | o :: rest =>
      match m_step_gen setf st o with
      | Ok (st', r) =>
          match m_dump st' keys watch with
          | Ok d => (r, d) :: m_run_gen setf st' keys watch rest
          | _ => [(R_PANIC, [])]
          end
      | _ => [(R_PANIC, [])]
      end
  end.
Definition m_run : mstate -> list key -> list owner -> list op -> list stepobs := m_run_gen hset_property.
