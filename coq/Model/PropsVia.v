(* C12 - the owner machine of Model/PropsHeap.v behind rendering wrappers.

   Go: every wrapper type is   struct { tabular.Table; <render options> }   and
   declares only render / option methods of its own, so AddRow, AddRowItems,
   AddHeaders, AddSeparator, CellAt, Column, SetProperty and GetProperty are
   the methods PROMOTED from the embedded interface value: a call on the
   wrapper is the call on the table it embeds.  Wrap(t) stores t; texttable
   and markdown also register a render-time callback on t, which touches no
   property until a render runs (renders through those two are not part of the
   history language).  <pkg>.New() is Wrap(tabular.New()).

   A wrapper's own state (decoration, field separator, caption, ...) holds no
   properties; it is modelled by its kind only. *)
From Tab Require Export Base.PropsViaOps Model.PropsHeap.

Record wrapper := mkW { w_kind : nat }.

Record vstate := mkV {
  v_core : mstate;              (* the one ATable of the history *)
  v_wraps : list wrapper        (* every wrapper made so far; each embeds that table *)
}.

Definition v_init : vstate := mkV m_init [].

(* facade w, if there is one: Some None = the core table, Some (Some x) = a wrapper *)
Definition facade (vs : vstate) (w : nat) : option (option wrapper) :=
  match w with
  | 0 => Some None
  | S i => match nth_error (v_wraps vs) i with Some x => Some (Some x) | None => None end
  end.

(* the op o with its Table methods called on the given facade *)
Definition call_on (vs : vstate) (f : option wrapper) (o : op) : res (vstate * nat) :=
  match f with
  | None => bind (m_step (v_core vs) o) (fun sr => Ok (mkV (fst sr) (v_wraps vs), snd sr))
  | Some _ =>
      (* promoted method: x.Table.<method>(...) on the embedded table *)
      bind (m_step (v_core vs) o) (fun sr => Ok (mkV (fst sr) (v_wraps vs), snd sr))
  end.

Definition v_step (vs : vstate) (o : vop) : res (vstate * nat) :=
  match o with
  | VWrap kind => Ok (mkV (v_core vs) (v_wraps vs ++ [mkW kind]), R_OK)
  | VOp w x =>
      match facade vs w with
      | None => Ok (vs, R_INVALID)
      | Some f => call_on vs f x
      end
  end.

(* reading a watched owner through facade w *)
Definition v_entry (vs : vstate) (keys : list key) (vo : vowner) : res (option (nat * list nat)) :=
  match facade vs (fst vo) with
  | None => Ok None
  | Some _ => m_entry (v_core vs) keys (snd vo)
  end.

Fixpoint v_dump (vs : vstate) (keys : list key) (watch : list vowner) : res dump :=
  match watch with
  | [] => Ok []
  | o :: ws => bind (v_entry vs keys o) (fun e => bind (v_dump vs keys ws) (fun l => Ok (e :: l)))
  end.

Fixpoint v_run (vs : vstate) (keys : list key) (watch : list vowner) (ops : list vop) : list stepobs :=
  match ops with
  | [] => []
  | o :: rest =>
      match v_step vs o with
      | Ok (vs', r) =>
          match v_dump vs' keys watch with
          | Ok d => (r, d) :: v_run vs' keys watch rest
          | _ => [(R_PANIC, [])]
          end
      | _ => [(R_PANIC, [])]
      end
  end.

Fixpoint v_steps (vs : vstate) (ops : list vop) : res vstate :=
  match ops with
  | [] => Ok vs
  | o :: rest => bind (v_step vs o) (fun sr => v_steps (fst sr) rest)
  end.
