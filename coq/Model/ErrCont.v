(* error_containers.go, as repaired (fix 11e5d71): the container alone.

   An error value is [option errid]: [None] is a nil error, [Some k] the k-th
   distinct non-nil error of a history.  A [*ErrorContainer] is
     None            the nil pointer,
     Some None       the zero value &ErrorContainer{} (errors_ is the nil slice),
     Some (Some l)   errors_ is the (possibly empty, non-nil) slice l.
   The slice holds [err], not [errid]: that no nil entry ever gets in is a
   theorem about the code (Proofs/ErrContProofs.v), not a typing accident.

   Storage: after the repair AddErrorList copies element by element, so the
   container's backing array is never the caller's; a container is therefore
   a plain value and [cont_step] returns, for AddErrorList, the same view
   before and after the caller overwrites its own slice (the harness does
   overwrite it and re-reads Errors()). *)
From Tab Require Export Base.Bytes.

(* An error value is opaque to the library: it is never unwrapped, compared,
   sorted or otherwise looked into, so its identity is all the model keeps
   (the harness raises plain, joined, wrapping, cause-less and non-comparable
   error values alike, and reads the lists back after %#v / GoString dumps). *)
Definition errid := N.
Definition err := option errid.

Definition slice := option (list err).
Definition cont := option slice.

Inductive cmode := MNil | MZero | MNew.

(* var ec *ErrorContainer | &ErrorContainer{} | NewErrorContainer() *)
Definition create (m : cmode) : cont :=
  match m with
  | MNil => None
  | MZero => Some None
  | MNew => Some (Some [])          (* make([]error, 0, 10) *)
  end.

(* func (ec *ErrorContainer) AddError(err error) *)
Definition add_error (c : cont) (e : err) : cont :=
  match c with
  | None => None                                        (* if ec == nil { return } *)
  | Some s =>
      match e with
      | None => Some s                                  (* if err == nil { return } *)
      | Some _ =>
          let l := match s with
                   | None => []                         (* if ec.errors_ == nil { make } *)
                   | Some l => l
                   end in
          Some (Some (l ++ [e]))                        (* append *)
      end
  end.

(* func (ec *ErrorContainer) AddErrorList(el []error); el = None is a nil slice *)
Definition add_error_list (c : cont) (el : option (list err)) : cont :=
  match c with
  | None => None                                        (* if ec == nil { return } *)
  | Some _ =>
      match el with
      | None => c                                       (* range over a nil slice *)
      | Some l => fold_left add_error l c               (* for i := range el { ec.AddError(el[i]) } *)
      end
  end.

(* func (ec *ErrorContainer) Errors() []error; None = nil *)
Definition errors (c : cont) : option (list err) :=
  match c with
  | None => None                                        (* if ec == nil *)
  | Some None => None                                   (* len(nil) == 0 *)
  | Some (Some []) => None                              (* len(ec.errors_) == 0 *)
  | Some (Some l) => Some l
  end.

(* operations of a container history *)
Inductive cop :=
| OpAdd (e : err)                          (* ec.AddError(e) *)
| OpAddList (el : option (list err))       (* ec.AddErrorList(el), then the caller overwrites el *)
| OpErrors                                 (* ec.Errors() *)
| OpAddSelf.                               (* ec.AddErrorList(ec.Errors()) as errors_test.go does *)

Definition cont_step (c : cont) (o : cop) : cont :=
  match o with
  | OpAdd e => add_error c e
  | OpAddList el => add_error_list c el
  | OpErrors => c
  | OpAddSelf => add_error_list c (errors c)
  end.

Definition cont_run (m : cmode) (ops : list cop) : cont := fold_left cont_step ops (create m).
