(* Model of encoding/json on a Go string (json.Marshal(s), which the JSON
   renderer uses for every header key, for the text fallback of a cell and -
   through Marshal of the item - for every string item): encodeState's
   appendString with HTML escaping on, as in the Go release this sandbox has.

     dquote                          opening quote
     for each byte b below 0x80:
        b itself                     when b is in htmlSafeSet: 0x20..0x7F except dquote, backslash, <, >, &
        backslash + the byte         for backslash and dquote
        backslash b / f / n / r / t  for 0x08 0x0C 0x0A 0x0D 0x09
        backslash u 0 0 X Y          every other byte below 0x20, and < > &  (lower-case hex)
     for each rune starting at a byte of 0x80 or more (utf8.DecodeRuneInString):
        backslash u fffd             an invalid byte (RuneError of width 1)
        backslash u 2028 / 2029      the two line separators
        the bytes as they are        otherwise
     dquote                          closing quote

   [utf8_sanitize] is the string such an encoding denotes: every invalid byte
   replaced by U+FFFD (EF BF BD), everything else kept. *)
From Tab Require Export Base.Bytes Base.Utf8.
Local Open Scope N_scope.

Definition hexdig (n : N) : N := if n <? 10 then 48 + n else 87 + n.    (* the n-th of 0123456789abcdef *)

Definition json_safe_ascii (b : N) : bool :=
  (32 <=? b) && negb (b =? 34) && negb (b =? 92) && negb (b =? 60) && negb (b =? 62) && negb (b =? 38).

Definition json_esc_ascii (b : N) : bytes :=
  if (b =? 92) || (b =? 34) then [92; b]
  else if b =? 8 then [92; 98]
  else if b =? 12 then [92; 102]
  else if b =? 10 then [92; 110]
  else if b =? 13 then [92; 114]
  else if b =? 9 then [92; 116]
  else [92; 117; 48; 48; hexdig (b / 16); hexdig (b mod 16)].

Definition u_fffd : bytes := [92; 117; 102; 102; 102; 100].           (* backslash u fffd *)
Definition u_202x (r : Z) : bytes := [92; 117; 50; 48; 50; hexdig (Z.to_N r - 8224)].   (* backslash u 2028 / 2029 *)
Definition FFFD3 : bytes := [239; 191; 189].

Definition is_bad_byte (rn : Z * nat) : bool := (fst rn =? RuneError)%Z && (snd rn =? 1)%nat.
Definition is_linesep (r : Z) : bool := ((r =? 8232) || (r =? 8233))%Z.

(* the loop over the string; the fuel is the number of bytes left *)
Fixpoint json_str_body (f : nat) (s : bytes) : bytes :=
  match f with
  | O => []
  | S f' =>
    match s with
    | [] => []
    | b :: t =>
      if b <? 128 then (if json_safe_ascii b then [b] else json_esc_ascii b) ++ json_str_body f' t
      else
        let rn := decode1 s in
        if is_bad_byte rn then u_fffd ++ json_str_body f' t
        else if is_linesep (fst rn) then u_202x (fst rn) ++ json_str_body f' (skipn (snd rn) s)
        else firstn (snd rn) s ++ json_str_body f' (skipn (snd rn) s)
    end
  end.

(* json.Marshal(s) for a Go string s *)
Definition go_json_string (s : bytes) : bytes := DQ :: json_str_body (length s) s ++ [DQ].

(* what it denotes *)
Fixpoint sanitize_fuel (f : nat) (s : bytes) : bytes :=
  match f with
  | O => []
  | S f' =>
    match s with
    | [] => []
    | b :: t =>
      if b <? 128 then b :: sanitize_fuel f' t
      else
        let rn := decode1 s in
        if is_bad_byte rn then FFFD3 ++ sanitize_fuel f' t
        else firstn (snd rn) s ++ sanitize_fuel f' (skipn (snd rn) s)
    end
  end.
Definition utf8_sanitize (s : bytes) : bytes := sanitize_fuel (length s) s.
