(* Histories that also contain the calls which change table state that is NOT
   content: a column record's exported Name field, properties an application
   keeps on the table / a column / a cell under keys of its own, errors parked
   on the table.  The table object carries all of it; csv.RenderTo reads
   NColumns(), Headers() and AllRows() and nothing else. *)
From Tab Require Export Model.Csv Model.Table Spec.TableHist Spec.CellText Proofs.E2EProofs.

Inductive mowner := OTable | OColumn (n : nat) | OCell (row col : nat) | OHeaderCell (col : nat).

Inductive mop :=
| MTop (o : top)                                     (* a building call or an alignment / skipable setting (Model/Table.v) *)
| MColName (n : nat) (s : bytes)                     (* if c := t.Column(n); c != nil { c.Name = s } *)
| MSetProp (w : mowner) (key : N) (val : option bytes) (* SetProperty(a key of the application's, v) on an owner that exists *)
| MAddError (s : bytes).                             (* t.AddError(errors.New(s)) *)

(* the table object after a history: what the renderers' view is computed from,
   plus everything else it holds *)
Record mtable := mkMT {
  mt_tops  : list top;                         (* the building history so far, in order *)
  mt_names : list (nat * bytes);               (* column number -> Name, latest first *)
  mt_props : list (mowner * N * option bytes); (* latest first *)
  mt_errs  : list bytes
}.

Definition mt_init : mtable := mkMT [] [] [] [].

Definition mt_step (t : mtable) (o : mop) : mtable :=
  match o with
  | MTop x => mkMT (mt_tops t ++ [x]) (mt_names t) (mt_props t) (mt_errs t)
  | MColName n s =>
      (* Column(n) is nil beyond the column count the table has reached by now *)
      if n <=? hist_ncols (mt_tops t) then mkMT (mt_tops t) ((n, s) :: mt_names t) (mt_props t) (mt_errs t) else t
  | MSetProp w k v => mkMT (mt_tops t) (mt_names t) ((w, k, v) :: mt_props t) (mt_errs t)
  | MAddError s => mkMT (mt_tops t) (mt_names t) (mt_props t) (mt_errs t ++ [s])
  end.

Definition mt_run (h : list mop) : mtable := fold_left mt_step h mt_init.

(* the building calls of a history, the rest erased *)
Definition m_tops (h : list mop) : list top :=
  flat_map (fun o => match o with MTop x => [x] | _ => [] end) h.

(* the Name a column carries (what Column(n).Name reads) *)
Definition mt_name (t : mtable) (n : nat) : bytes :=
  match assoc n (mt_names t) with Some s => s | None => [] end.

Section Render.
  Variable W : list N -> nat.
  Variable e : env.
  Variable json : item -> option (list N).

  (* RenderTo on the table object: column count, header row, rows - through
     the view of the building history; names, properties and errors are not read *)
  Definition csv_render_mt (t : mtable) : res bytes := csv_render (hview W e json (mt_tops t)).
End Render.
