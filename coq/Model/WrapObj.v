(* Wrappers as OBJECTS (C10, second model layer over Model/Wrap.v).

   Model/Wrap.v knows a wrapper only by its kind.  The real wrappers are
   mutable, caller-visible objects: an HTMLTable carries Id / Class / Caption /
   TemplateName and a row-class generator, a TextTable its decoration; whoever
   holds one may set these at any time.  Several holders may have wrappers of
   the same kind around the same table, and the package-level Render/RenderTo
   functions and auto.Render/RenderTo make a wrapper of their own on every
   call ("default options, plus what the style string says").

   Here the state is the table state of Model/Wrap.v plus a heap of wrapper
   objects (identity = index; objects are allocated, never freed).  The
   options type O, the default options of each kind and the renderer bodies
   (now taking the options of the wrapper rendered through) are parameters.

   Operations:
     PBuild v u   building calls (as OBuild)
     PUpdate v    items changed in place and their cells updated (Cell.Update):
                  a new view, everything else the caller can see unchanged
     PWrap k      X.Wrap(t) / auto.Wrap(t, style) / X.New(): a NEW object with
                  the kind's default options
     PTune i o    the holder of wrapper i sets its options
     PRender i    wrapper i's Render / RenderTo
     PFresh k     package-level Render / RenderTo, auto.Render / RenderTo:
                  Wrap followed by Render of the new object, which is dropped
                  (its measuring callback stays on the table) *)
From Tab Require Export Model.Wrap.

Section WrapObj.
  Variable U O : Type.
  Variable dflt : kind -> O.
  Variable out : kind -> O -> view -> res bytes.
  Variable degraded : kind -> O -> mstate -> view -> res bytes.

  Record wobj := mkW { w_kind : kind; w_opts : O }.
  Record ostate := mkO { o_tab : tstate U; o_heap : list wobj }.

  Inductive oop :=
  | PBuild (v : view) (u : U)
  | PUpdate (v : view)
  | PWrap (k : kind)
  | PTune (i : nat) (o : O)
  | PRender (i : nat)
  | PFresh (k : kind).

  Definition oinit (v : view) (u : U) : ostate := mkO (init v u) [].

  Fixpoint set_opts (i : nat) (o : O) (h : list wobj) : list wobj :=
    match h, i with
    | [], _ => []
    | w :: r, 0 => mkW (w_kind w) o :: r
    | w :: r, S j => w :: set_opts j o r
    end.

  (* what an operation does to the table underneath *)
  Definition table_ops (s : ostate) (p : oop) : list (op U) :=
    match p with
    | PBuild v u => [OBuild v u]
    | PUpdate v => [OBuild v (st_user (o_tab s))]
    | PWrap k => [OWrap k]
    | PTune _ _ => []
    | PRender i => match nth_error (o_heap s) i with Some w => [ORender (w_kind w)] | None => [] end
    | PFresh k => [OWrap k; ORender k]
    end.

  Definition heap_after (h : list wobj) (p : oop) : list wobj :=
    match p with
    | PWrap k | PFresh k => h ++ [mkW k (dflt k)]
    | PTune i o => set_opts i o h
    | _ => h
    end.

  Definition ostep (s : ostate) (p : oop) : ostate :=
    mkO (run (o_tab s) (table_ops s p)) (heap_after (o_heap s) p).

  Definition orun (s : ostate) (ps : list oop) : ostate := fold_left ostep ps s.

  (* Render / RenderTo through wrapper object i (None: no such object) *)
  Definition orender (s : ostate) (i : nat) : option (res bytes) :=
    match nth_error (o_heap s) i with
    | Some w => Some (render (fun k v => out k (w_opts w) v) (fun k m v => degraded k (w_opts w) m v)
                             (o_tab s) (w_kind w))
    | None => None
    end.

  (* what PFresh k returns in state s: Wrap, then Render through the new object *)
  Definition fresh_render (s : ostate) (k : kind) : option (res bytes) :=
    orender (ostep s (PWrap k)) (length (o_heap s)).

  (* the history with everything OTHER holders set on THEIR wrappers left out *)
  Definition forget (i : nat) (ps : list oop) : list oop :=
    filter (fun p => match p with PTune j _ => Nat.eqb j i | _ => true end) ps.
End WrapObj.

Arguments mkW {O}.
Arguments w_kind {O}.
Arguments w_opts {O}.
Arguments mkO {U O}.
Arguments o_tab {U O}.
Arguments o_heap {U O}.
Arguments PBuild {U O}.
Arguments PUpdate {U O}.
Arguments PWrap {U O}.
Arguments PTune {U O}.
Arguments PRender {U O}.
Arguments PFresh {U O}.
Arguments oinit {U O}.
Arguments set_opts {O}.
Arguments table_ops {U O}.
Arguments heap_after {U O}.
Arguments ostep {U O}.
Arguments orun {U O}.
Arguments orender {U O}.
Arguments fresh_render {U O}.
Arguments forget {U O}.
