(* Executable model of the property-callback machinery of tabular, as it is
   after the planned repairs (DESIGN section 7): properties.go
   (RegisterPropertyCallback, invokePropertyCallbacks), render_callbacks.go,
   the add-time call sites of atable.go (AddRow, AddHeaders) and row.go
   (Row.Add), cell.go (columnOfTable).

   Representation.  Objects are addressed by identity (DESIGN section 3): a row
   by its allocation id, a cell by (row id, position+1), a column by its number.
   The callbackSet structs that Go embeds in ATable / column / Row / Cell are
   kept in one table keyed by the identity of the embedding field ([slot]); a
   set that was never written is the zero value [cbset0], exactly like the
   embedded zero-value struct.  The same holds for the properties a recording
   callback sets on its target ([st_props], keyed by target identity).  What a
   cell does carry is what columnOfTable reads: columnNum and inRow.

   Error routing (errTaker) is C11's subject and is not modelled here: the
   recording callbacks of C13 return nil. *)
From Tab Require Export Base.CbTypes.

(* ---- callbackSet *)
Record cbset := mkCbset { cs_add : list nat; cs_pre : list nat; cs_render : list nat; cs_post : list nat }.
Definition cbset0 : cbset := mkCbset [] [] [] [].

(* the switch on callbackTime in invokePropertyCallbacks / RegisterPropertyCallback *)
Definition cblist (s : cbset) (tm : ctime) : list nat :=
  match tm with TAdd => cs_add s | TPre => cs_pre s | TRender => cs_render s | TPost => cs_post s end.

(* *cbListPtr = append( *cbListPtr, theNewCallback) *)
Definition cb_append (s : cbset) (tm : ctime) (cb : nat) : cbset :=
  match tm with
  | TAdd => mkCbset (cs_add s ++ [cb]) (cs_pre s) (cs_render s) (cs_post s)
  | TPre => mkCbset (cs_add s) (cs_pre s ++ [cb]) (cs_render s) (cs_post s)
  | TRender => mkCbset (cs_add s) (cs_pre s) (cs_render s ++ [cb]) (cs_post s)
  | TPost => mkCbset (cs_add s) (cs_pre s) (cs_render s) (cs_post s ++ [cb])
  end.

(* which embedded callbackSet *)
Inductive slot :=
| SlTableSelf              (* ATable.tableItselfCallbacks *)
| SlTableCell              (* ATable.tableCellCallbacks *)
| SlTableRow               (* ATable.tableRowAdditionCallbacks *)
| SlColSelf (n : nat)      (* column.columnItselfCallbacks *)
| SlColCell (n : nat)      (* column.cellCallbacks *)
| SlRowSelf (r : nat)      (* Row.rowItselfCallbacks *)
| SlRowCell (r : nat)      (* Row.rowCellCallbacks *)
| SlCellSelf (r c : nat).  (* Cell.callbacks *)

Definition slot_eqb (a b : slot) : bool :=
  match a, b with
  | SlTableSelf, SlTableSelf | SlTableCell, SlTableCell | SlTableRow, SlTableRow => true
  | SlColSelf n, SlColSelf m | SlColCell n, SlColCell m
  | SlRowSelf n, SlRowSelf m | SlRowCell n, SlRowCell m => n =? m
  | SlCellSelf r c, SlCellSelf s d => (r =? s) && (c =? d)
  | _, _ => false
  end.

(* ---- state *)
Record mcell := mkCell { cl_columnNum : nat; cl_inRow : nat }.
(* cells = None: the nil slice of a separator row *)
Record mrow := mkRow { rw_cells : option (list mcell); rw_inTable : bool }.

Record state := mkState {
  st_rows : list mrow;            (* row store: every *Row ever allocated, by id *)
  st_order : list nat;            (* t.rows *)
  st_header : option nat;         (* t.headerRow *)
  st_ncols : nat;                 (* t.nColumns *)
  st_lencols : nat;               (* len(t.columns) *)
  st_sets : list (slot * cbset);  (* the embedded callbackSets that have been written *)
  st_props : list (tgt * nat)     (* properties set by recording callbacks: (owner identity, key) *)
}.

(* tabular.New(): columns has the one entry for column 0 *)
Definition init : state := mkState [] [] None 0 1 [] [].

Definition set_rows st v := mkState v (st_order st) (st_header st) (st_ncols st) (st_lencols st) (st_sets st) (st_props st).
Definition set_order st v := mkState (st_rows st) v (st_header st) (st_ncols st) (st_lencols st) (st_sets st) (st_props st).
Definition set_header st v := mkState (st_rows st) (st_order st) v (st_ncols st) (st_lencols st) (st_sets st) (st_props st).
Definition set_cols st n l := mkState (st_rows st) (st_order st) (st_header st) n l (st_sets st) (st_props st).
Definition set_sets st v := mkState (st_rows st) (st_order st) (st_header st) (st_ncols st) (st_lencols st) v (st_props st).
Definition set_props st v := mkState (st_rows st) (st_order st) (st_header st) (st_ncols st) (st_lencols st) (st_sets st) v.

(* bounds check of an index expression into a slice of which only the length matters *)
Definition idx_n (len i : nat) : res nat := if i <? len then Ok i else Panic.

Fixpoint find_set (sets : list (slot * cbset)) (sl : slot) : cbset :=
  match sets with
  | [] => cbset0
  | (k, s) :: r => if slot_eqb k sl then s else find_set r sl
  end.
Definition get_set (st : state) (sl : slot) : cbset := find_set (st_sets st) sl.
Definition put_set (st : state) (sl : slot) (s : cbset) : state := set_sets st ((sl, s) :: st_sets st).

(* ---- invokePropertyCallbacks(set, t, owner, errTaker): for i := range cbList *)
Fixpoint invoke_list (cbs : list nat) (x : tgt) : list event :=
  match cbs with
  | [] => []
  | cb :: r => (cb, x) :: invoke_list r x
  end.
Definition invoke (st : state) (sl : slot) (tm : ctime) (x : tgt) : list event :=
  invoke_list (cblist (get_set st sl) tm) x.

(* the effect of a recording callback: SetProperty(key = its id) on its target;
   SetProperty strips an existing entry for the key, then links the new one *)
Definition prop_is (x : tgt) (k : nat) (p : tgt * nat) : bool := tgt_eqb (fst p) x && (snd p =? k).
Definition set_prop (x : tgt) (k : nat) (ps : list (tgt * nat)) : list (tgt * nat) :=
  (x, k) :: filter (fun p => negb (prop_is x k p)) ps.
Definition get_prop (ps : list (tgt * nat)) (x : tgt) (k : nat) : bool := existsb (prop_is x k) ps.
Definition apply_events (evs : list event) (ps : list (tgt * nat)) : list (tgt * nat) :=
  fold_left (fun ps e => set_prop (snd e) (fst e) ps) evs ps.
Definition with_effects (r : res (state * list event)) : res (state * list event) :=
  bind r (fun se => Ok (set_props (fst se) (apply_events (snd se) (st_props (fst se))), snd se)).

(* ---- resizeColumnsAtLeast *)
Definition resize_columns_at_least (st : state) (newCount : nat) : state :=
  if newCount <=? st_ncols st then st
  else set_cols st newCount (st_lencols st + (newCount + 1 - st_lencols st)).

(* ---- Cell.columnOfTable: Some n = &t.columns[n], None = nil *)
Definition column_of_table (st : state) (c : mcell) : res (option nat) :=
  if cl_columnNum c <? 1 then Ok None
  else bind (idx (st_rows st) (cl_inRow c)) (fun row =>
    if negb (rw_inTable row) then Ok None
    else if st_ncols st <? cl_columnNum c then Ok None
    else bind (idx_n (st_lencols st) (cl_columnNum c)) (fun n => Ok (Some n))).

Definition invoke_col (st : state) (col : option nat) (tm : ctime) (x : tgt) : list event :=
  match col with
  | Some n => invoke st (SlColCell n) tm x     (* if col != nil *)
  | None => []
  end.

(* ---- NewRow / NewRowWithCapacity / NewRowSizedFor: a detached row with an empty, non-nil cell slice *)
Definition new_row (st : state) : state * nat :=
  (set_rows st (st_rows st ++ [mkRow (Some []) false]), length (st_rows st)).

(* ---- Row.Add *)
Definition row_add (st : state) (r : nat) : res (state * list event) :=
  bind (idx (st_rows st) r) (fun row =>
    match rw_cells row with
    | None => Ok (st, [])             (* "can't add cells to a non-cell row": an error, no cell *)
    | Some cells =>
        let column := S (length cells) in
        let cell := mkCell column r in
        let st1 := set_rows st (set_nth (st_rows st) r (mkRow (Some (cells ++ [cell])) (rw_inTable row))) in
        let x := XCell r column in
        let e1 := invoke st1 (SlRowCell r) TAdd x in
        if rw_inTable row then
          let st2 := resize_columns_at_least st1 column in
          bind (column_of_table st2 cell) (fun col =>
            Ok (st2, e1 ++ invoke_col st2 col TAdd x ++ invoke st2 SlTableCell TAdd x))
        else Ok (st1, e1)
    end).

Fixpoint row_add_n (st : state) (r : nat) (n : nat) : res (state * list event) :=
  match n with
  | 0 => Ok (st, [])
  | S k => bind (row_add st r) (fun se1 =>
           bind (row_add_n (fst se1) r k) (fun se2 => Ok (fst se2, snd se1 ++ snd se2)))
  end.

(* the loop `for i := range row.cells` shared by AddRow and AddHeaders *)
Fixpoint add_cells_loop (st : state) (r : nat) (cells : list mcell) (i : nat) : res (list event) :=
  match cells with
  | [] => Ok []
  | c :: rest =>
      bind (column_of_table st c) (fun col =>
      bind (add_cells_loop st r rest (S i)) (fun er =>
        let x := XCell r (S i) in
        Ok (invoke_col st col TAdd x ++ invoke st SlTableCell TAdd x ++ er)))
  end.

Definition cells_of (row : mrow) : list mcell := match rw_cells row with Some l => l | None => [] end.

(* ---- ATable.AddRow *)
Definition add_row (st : state) (r : nat) : res (state * list event) :=
  bind (idx (st_rows st) r) (fun row =>
    let st1 := set_order st (st_order st ++ [r]) in
    let st2 := set_rows st1 (set_nth (st_rows st1) r (mkRow (rw_cells row) true)) in
    let st3 := resize_columns_at_least st2 (length (cells_of row)) in
    let e1 := invoke st3 (SlRowSelf r) TAdd (XRow r) in
    let e2 := invoke st3 SlTableRow TAdd (XRow r) in
    bind (add_cells_loop st3 r (cells_of row) 0) (fun e3 => Ok (st3, e1 ++ e2 ++ e3))).

(* ---- ATable.AddSeparator *)
Definition add_separator (st : state) : state :=
  let id := length (st_rows st) in
  set_order (set_rows st (st_rows st ++ [mkRow None true])) (st_order st ++ [id]).

(* ---- ATable.AppendNewRow *)
Definition append_new_row (st : state) : res (state * list event) :=
  let (st1, id) := new_row st in add_row st1 id.

(* ---- ATable.AddRowItems *)
Definition add_row_items (st : state) (n : nat) : res (state * list event) :=
  let (st1, id) := new_row st in
  bind (row_add_n st1 id n) (fun se1 =>
  bind (add_row (fst se1) id) (fun se2 => Ok (fst se2, snd se1 ++ snd se2))).

(* ---- ATable.AddHeaders *)
Definition add_headers (st : state) (n : nat) : res (state * list event) :=
  let st0 := resize_columns_at_least st n in
  let (st1, id) := new_row st0 in
  bind (row_add_n st1 id n) (fun se1 =>
    let st2 := fst se1 in
    bind (idx (st_rows st2) id) (fun hr =>
      (* hr.inTable = t; t.headerRow = hr *)
      let st3 := set_header (set_rows st2 (set_nth (st_rows st2) id (mkRow (rw_cells hr) true))) (Some id) in
      let e2 := invoke st3 SlTableRow TAdd (XRow id) in
      bind (add_cells_loop st3 id (cells_of hr) 0) (fun e3 => Ok (st3, snd se1 ++ e2 ++ e3)))).

(* ---- RegisterPropertyCallback *)
(* the two nested switches; None = `set` stays nil *)
Definition select_set (o : owner) (g : target) : option slot :=
  match o with
  | OTable =>
      match g with
      | GItself => Some SlTableSelf
      | GCell => Some SlTableCell
      | GRow => Some SlTableRow
      end
  | OColumn n =>
      match g with
      | GItself => Some (SlColSelf n)
      | GCell => Some (SlColCell n)
      | GRow => None
      end
  | ORow r =>
      match g with
      | GItself | GRow => Some (SlRowSelf r)
      | GCell => Some (SlRowCell r)
      end
  | OCell r c =>
      match g with
      | GItself | GCell => Some (SlCellSelf r c)
      | GRow => None
      end
  end.

(* the owner pointer the caller passes must denote a live object: t.Column(n)
   (nil out of range, and &nil.field panics), a *Row of the store, &row.cells[c-1] *)
Definition deref_owner (st : state) (o : owner) : res unit :=
  match o with
  | OTable => Ok tt
  | OColumn n => if st_ncols st <? n then Panic else bind (idx_n (st_lencols st) n) (fun _ => Ok tt)
  | ORow r => bind (idx (st_rows st) r) (fun _ => Ok tt)
  | OCell r c =>
      bind (idx (st_rows st) r) (fun row =>
        match rw_cells row, c with
        | Some cells, S c' => bind (idx cells c') (fun _ => Ok tt)
        | _, _ => Panic
        end)
  end.

Definition register (st : state) (o : owner) (tm : ctime) (g : target) (cb : nat) : res state :=
  match select_set o g with
  | None => Err                                   (* "unable to register a %v-targetted callback upon a %T" *)
  | Some sl =>
      bind (deref_owner st o) (fun _ =>
        Ok (put_set st sl (cb_append (get_set st sl) tm cb)))
  end.

(* ---- one operation of a build history: new state, add-time events, and for a
   registration whether it was refused *)
Definition step (st : state) (o : op) : res (state * list event * list bool) :=
  let plain (r : res (state * list event)) := bind (with_effects r) (fun se => Ok (se, [])) in
  match o with
  | ONewRow => Ok (fst (new_row st), [], [])
  | ORowAdd r => plain (row_add st r)
  | OAddRow r => plain (add_row st r)
  | OAppendNewRow => plain (append_new_row st)
  | OAddRowItems n => plain (add_row_items st n)
  | OAddSeparator => Ok (add_separator st, [], [])
  | OAddHeaders n => plain (add_headers st n)
  | ORegister ow tm g cb =>
      match register st ow tm g cb with
      | Ok st' => Ok (st', [], [false])
      | Err => Ok (st, [], [true])
      | Panic => Panic
      end
  (* other.AddRow(rows[r]) appends the pointer to the OTHER table's rows, grows
     the other table's columns and invokes the row's own add-time callbacks
     and the other table's - all of it the other table's history (the harness
     logs those invocations in the other table's log and judges them against
     the other table's history).  Of this table nothing is read or written:
     t.rows, t.headerRow, t.columns, the callback sets.  (The one field of the
     row that AddRow overwrites, Row.inTable, is not part of this state: the
     render pass takes the table from its receiver; Cell.columnOfTable does
     follow the row's pointer, which is why the pair histories of the harness
     keep column-level cell callbacks of the two render times out - see
     harness/c13_more.go.) *)
  | OOtherAddRow _ => Ok (st, [], [])
  end.

Fixpoint run_from (st : state) (log : list event) (errs : list bool) (h : list op) : res (state * list event * list bool) :=
  match h with
  | [] => Ok (st, log, errs)
  | o :: rest =>
      bind (step st o) (fun r =>
        run_from (fst (fst r)) (log ++ snd (fst r)) (errs ++ snd r) rest)
  end.
Definition run_build (h : list op) := run_from init [] [] h.

(* ---- render_callbacks.go *)
Fixpoint render_cells (st : state) (r : nat) (cells : list mcell) (i : nat) : res (list event) :=
  match cells with
  | [] => Ok []
  | c :: rest =>
      bind (column_of_table st c) (fun col =>
      bind (render_cells st r rest (S i)) (fun er =>
        let x := XCell r (S i) in
        Ok (invoke st SlTableCell TPre x
            ++ invoke_col st col TPre x
            ++ invoke st (SlRowCell r) TPre x
            ++ invoke st SlTableCell TRender x
            ++ invoke st (SlCellSelf r (S i)) TRender x
            ++ invoke st (SlRowCell r) TPost x
            ++ invoke_col st col TPost x
            ++ invoke st SlTableCell TPost x
            ++ er)))
  end.

(* Row.invokeRenderCallbacks; the row is reached through a pointer held by the table *)
Definition row_render (st : state) (r : nat) : res (list event) :=
  bind (idx (st_rows st) r) (fun row =>
  bind (render_cells st r (cells_of row) 0) (fun ec =>
    Ok (invoke st (SlRowSelf r) TPre (XRow r) ++ ec ++ invoke st (SlRowSelf r) TPost (XRow r)))).

Fixpoint rows_render (st : state) (order : list nat) : res (list event) :=
  match order with
  | [] => Ok []
  | r :: rest => bind (row_render st r) (fun e1 => bind (rows_render st rest) (fun e2 => Ok (e1 ++ e2)))
  end.

(* for _, col := range t.columns *)
Fixpoint cols_invoke (st : state) (tm : ctime) (from n : nat) : list event :=
  match n with
  | 0 => []
  | S k => invoke st (SlColSelf from) tm (XCol from) ++ cols_invoke st tm (S from) k
  end.

Definition invoke_render_callbacks (st : state) : res (list event) :=
  bind (match st_header st with Some h => row_render st h | None => Ok [] end) (fun eh =>
  bind (rows_render st (st_order st)) (fun er =>
    Ok (invoke st SlTableSelf TPre XTable
        ++ cols_invoke st TPre 0 (st_lencols st)
        ++ eh ++ er
        ++ cols_invoke st TPost 0 (st_lencols st)
        ++ invoke st SlTableSelf TPost XTable))).

Definition render_pass (st : state) : res (state * list event) :=
  with_effects (bind (invoke_render_callbacks st) (fun e => Ok (st, e))).

Fixpoint render_passes (st : state) (k : nat) : res (state * list event) :=
  match k with
  | 0 => Ok (st, [])
  | S k' => bind (render_pass st) (fun se1 =>
            bind (render_passes (fst se1) k') (fun se2 => Ok (fst se2, snd se1 ++ snd se2)))
  end.

(* ---- a whole history: build, then k render passes *)
Record outcome := mkOutcome {
  oc_regerr : list bool;          (* per registration: was it refused *)
  oc_add : list event;            (* add-time invocations *)
  oc_render : list event;         (* render-time invocations, all passes *)
  oc_props : list (tgt * nat)     (* properties readable afterwards *)
}.

Definition run (h : list op) (k : nat) : res outcome :=
  bind (run_build h) (fun r =>
  bind (render_passes (fst (fst r)) k) (fun se =>
    Ok (mkOutcome (snd r) (snd (fst r)) (snd se) (st_props (fst se))))).
