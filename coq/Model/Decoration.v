(* Model of texttable/decoration/box_drawing.go: the Decoration record and
   Populate.  A decoration is an INPUT: the harness dumps the fields of every
   registered decoration and of random custom ones; nothing is hard-coded. *)
From Tab Require Export Base.Bytes.

Record decoration := mkDecor {
  d_Horizontal    : bytes;   (* unused for render *)
  d_Vertical      : bytes;   (* unused for render *)
  d_CrossPiece    : bytes;
  d_TopDown       : bytes;   (* unused for render *)
  d_VBorder       : bytes;   (* unused for render *)
  d_HOuter        : bytes;
  d_HRule         : bytes;
  d_VHeader       : bytes;
  d_VBodyBorder   : bytes;
  d_VBodyInner    : bytes;
  d_TopLeft       : bytes;
  d_TopRight      : bytes;
  d_BottomLeft    : bytes;
  d_BottomRight   : bytes;
  d_LeftBodyRule  : bytes;
  d_RightBodyRule : bytes;
  d_HTopDown      : bytes;
  d_BTopDown      : bytes;
  d_BBottomUp     : bytes;
  d_HBCross       : bytes;
  d_HBLeft        : bytes;
  d_HBRight       : bytes;
  d_boxless       : bool     (* isBoxless *)
}.

Definition nilb {A} (l : list A) : bool := match l with [] => true | _ => false end.

Lemma nilb_false {A} (l : list A) : nilb l = false <-> l <> [].
Proof. destruct l; simpl; split; congruence. Qed.

(* the 22 string fields, in declaration order *)
Definition d_fields (d : decoration) : list bytes :=
  [ d_Horizontal d; d_Vertical d; d_CrossPiece d; d_TopDown d; d_VBorder d;
    d_HOuter d; d_HRule d; d_VHeader d; d_VBodyBorder d; d_VBodyInner d;
    d_TopLeft d; d_TopRight d; d_BottomLeft d; d_BottomRight d;
    d_LeftBodyRule d; d_RightBodyRule d; d_HTopDown d; d_BTopDown d;
    d_BBottomUp d; d_HBCross d; d_HBLeft d; d_HBRight d ].

(* d == decoration.EmptyDecoration (struct equality with the zero value) *)
Definition is_empty_decoration (d : decoration) : bool :=
  forallb nilb (d_fields d) && negb (d_boxless d).

(* every glyph present: what Populate guarantees *)
Definition complete (d : decoration) : Prop := Forall (fun f => f <> []) (d_fields d).
Definition completeb (d : decoration) : bool := forallb (fun f => negb (nilb f)) (d_fields d).

Lemma completeb_spec d : completeb d = true <-> complete d.
Proof.
  unfold completeb, complete. rewrite forallb_forall, Forall_forall.
  split; intros H x Hx; specialize (H x Hx); destruct x; simpl in *; congruence.
Qed.

(* NoBox(): no glyph at all, isBoxless set *)
Definition nobox (d : decoration) : Prop := Forall (fun f => f = []) (d_fields d) /\ d_boxless d = true.
Definition noboxb (d : decoration) : bool := forallb nilb (d_fields d) && d_boxless d.

Lemma noboxb_spec d : noboxb d = true <-> nobox d.
Proof.
  unfold noboxb, nobox. rewrite andb_true_iff, forallb_forall, Forall_forall.
  split; intros [H1 H2]; split; auto; intros x Hx; specialize (H1 x Hx); destruct x; simpl in *; congruence.
Qed.

(* decorateDefaultTo(d, toFill, src): if target.Len() > 0 return; target.Set(origin) *)
Definition dflt (target src : bytes) : bytes := if nilb target then src else target.

Lemma dflt_ne t s : s <> [] -> dflt t s <> [].
Proof. unfold dflt. destruct t; simpl; congruence. Qed.

(* Populate, field by field, in the order of the Go source (later defaults
   read fields filled in earlier). *)
Definition populate (d : decoration) : decoration :=
  let horizontal := if nilb (d_Horizontal d) then [72%N] else d_Horizontal d in   (* "H" *)
  let vertical   := if nilb (d_Vertical d)   then [86%N] else d_Vertical d in     (* "V" *)
  let crossPiece := if nilb (d_CrossPiece d) then [88%N] else d_CrossPiece d in   (* "X" *)
  let topDown       := dflt (d_TopDown d) crossPiece in
  let vBorder       := dflt (d_VBorder d) vertical in
  let hOuter        := dflt (d_HOuter d) horizontal in
  let hRule         := dflt (d_HRule d) horizontal in
  let vHeader       := dflt (d_VHeader d) vBorder in
  let vBodyBorder   := dflt (d_VBodyBorder d) vBorder in
  let vBodyInner    := dflt (d_VBodyInner d) vertical in
  let topLeft       := dflt (d_TopLeft d) crossPiece in
  let topRight      := dflt (d_TopRight d) crossPiece in
  let bottomLeft    := dflt (d_BottomLeft d) crossPiece in
  let bottomRight   := dflt (d_BottomRight d) crossPiece in
  let leftBodyRule  := dflt (d_LeftBodyRule d) crossPiece in
  let rightBodyRule := dflt (d_RightBodyRule d) crossPiece in
  let hTopDown      := dflt (d_HTopDown d) topDown in
  let bTopDown      := dflt (d_BTopDown d) topDown in
  let bBottomUp     := dflt (d_BBottomUp d) crossPiece in
  let hBCross       := dflt (d_HBCross d) crossPiece in
  let hBLeft        := dflt (d_HBLeft d) leftBodyRule in
  let hBRight       := dflt (d_HBRight d) rightBodyRule in
  mkDecor horizontal vertical crossPiece topDown vBorder hOuter hRule vHeader
          vBodyBorder vBodyInner topLeft topRight bottomLeft bottomRight
          leftBodyRule rightBodyRule hTopDown bTopDown bBottomUp hBCross hBLeft
          hBRight (d_boxless d).

Definition decoration_eqb (a b : decoration) : bool :=
  list_eqb bytes_eqb (d_fields a) (d_fields b) && Bool.eqb (d_boxless a) (d_boxless b).
