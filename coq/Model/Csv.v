(* Model of csv/csv.go: csvEscape, emitRow, RenderTo.  One function per Go
   function; RenderTo yields the list of Write payloads it issues (each
   fmt.Fprint / Fprintln is one Write on the destination). *)
From Tab Require Export Model.View.

(* csvEscape: byte loop doubling the quote, wrapped in quotes *)
Fixpoint csv_escape_body (s : bytes) : bytes :=
  match s with
  | [] => []
  | b :: r => if N.eqb b DQ then DQ :: DQ :: csv_escape_body r else b :: csv_escape_body r
  end.
Definition csv_escape (s : bytes) : bytes := DQ :: csv_escape_body s ++ [DQ].
Arguments csv_escape : simpl never.

(* emitRow.  `cells[i]` after the first loop is a checked index. *)
Definition csv_emit_row (ncols : nat) (cells : list bytes) : res (list bytes) :=
  let max := length cells in
  if ncols <? max then Err else
  let w1 := map (fun c => csv_escape c ++ [COMMA]) (firstn (max - 1) cells) in
  bind (if 0 <? max
        then bind (idx cells (max - 1)) (fun c => Ok ([csv_escape c], max))
        else if 0 <? ncols then Ok ([[DQ; DQ]], 1) else Ok ([], 0))
       (fun '(w2, i) => Ok (w1 ++ w2 ++ repeat [COMMA; DQ; DQ] (ncols - i) ++ [[LF]])).

Fixpoint csv_emit_rows (ncols : nat) (rows : list (list bytes)) : res (list bytes) :=
  match rows with
  | [] => Ok []
  | r :: rest =>
      bind (csv_emit_row ncols r) (fun w =>
      bind (csv_emit_rows ncols rest) (fun ws => Ok (w ++ ws)))
  end.

(* the records RenderTo emits: header if any, then every non-separator row *)
Definition csv_records (v : view) : list (list bytes) :=
  match v_header v with Some h => [row_texts h] | None => [] end
  ++ map row_texts (body_rows v).

(* RenderTo as the list of writes *)
Definition csv_render_writes (v : view) : res (list bytes) :=
  if v_ncols v <? 1 then Err else csv_emit_rows (v_ncols v) (csv_records v).

Definition csv_render (v : view) : res bytes :=
  bind (csv_render_writes v) (fun ws => Ok (concat ws)).
