(* Model of csv/csv.go RenderTo against ANY destination.

   Model/CsvSession.v runs RenderTo into a *bytes.Buffer (every Write takes
   everything and succeeds).  RenderTo takes an io.Writer: a destination is a
   state machine which, offered a payload, takes the first n bytes of it and
   says whether the call failed.  RenderTo hands it one payload after another
   (each fmt.Fprint / Fprintln is one Write) and stops at the first call that
   reports an error, returning that error; it never looks at n and never offers
   anything again.  What the destination HOLDS is what it took. *)
From Tab Require Export Model.CsvSession.

Section Writer.
  Variable St : Type.
  (* Write(p) in state s: new state, n, failed? *)
  Variable wr : St -> bytes -> St * nat * bool.

  (* the io.Writer contract: 0 <= n <= len(p); a non-nil error when n < len(p) *)
  Definition honours_contract : Prop :=
    forall s p, let '(_, n, failed) := wr s p in n <= length p /\ (failed = false -> n = length p).

  (* the writes of one RenderTo, offered in order until one fails:
     the destination's state afterwards, what it took, and whether all went through *)
  Fixpoint wr_run (s : St) (ws : list bytes) : St * bytes * bool :=
    match ws with
    | [] => (s, [], true)
    | p :: rest =>
        let '(s1, n, failed) := wr s p in
        if failed then (s1, firstn n p, false)
        else let '(s2, acc, ok) := wr_run s1 rest in (s2, firstn n p ++ acc, ok)
    end.

  (* RenderTo(w): a failed write is returned at once; otherwise the loop's own end *)
  Definition csv_render_to_wr (v : view) (s : St) : St * bytes * res unit :=
    let '(ws, e) := csv_render_to_tr v in
    let '(s1, acc, ok) := wr_run s ws in
    (s1, acc, if ok then e else Err).
End Writer.

(* a destination with room for `budget` more bytes (a full disk, a quota, a pipe
   whose reader went away, a non-blocking descriptor): a payload that fits is
   taken whole; of one that does not, the part that fits is taken and the call
   fails - with whatever error, temporary or final: RenderTo does not ask. *)
Definition budget_wr (b : nat) (p : bytes) : nat * nat * bool :=
  if length p <=? b then (b - length p, length p, false) else (0, b, true).

Definition csv_render_to_budget (v : view) (b : nat) : bytes * res unit :=
  let '(_, acc, r) := csv_render_to_wr nat budget_wr v b in (acc, r).
