(* Model of the table core: atable.go (New, resizeColumnsAtLeast, Column,
   AddRow, AddSeparator, NColumns, NRows, Headers, AddHeaders, AllRows,
   CellAt), row.go (NewRow, NewRowSizedFor, AppendNewRow, Row.Add,
   AddRowItems, newSeparator, IsSeparator), location.go (Cell.Location,
   Row.Location), as the code is after the planned repairs (DESIGN section 7, D2:
   Row.Add on an attached row grows the table's columns).

   Representation (DESIGN section 12): rows that are in the table are held by
   value in the table's row list; a row handle held by the program is
   `Detached cells | Attached i`; attaching moves the row (sound because a
   pre-built row is attached at most once, DESIGN section 13.1).  A cell
   carries its item (type A: whatever identifies it) and its cached column
   number; a row in the table carries its cached row number.  Errors,
   properties and callbacks are other properties' business. *)
From Tab Require Export Base.Ops Model.View.

(* tabular.Cell: the item and columnNum.  inRow is the containing row. *)
Record cell (A : Type) := mkCell { c_item : A; c_col : nat }.
Arguments mkCell {A}.
Arguments c_item {A}.
Arguments c_col {A}.

(* Row.cells: nil for a separator (newSeparator), a slice otherwise *)
Inductive rowv (A : Type) := RSep | RCells (cs : list (cell A)).
Arguments RSep {A}.
Arguments RCells {A}.

(* a *Row that is in t.rows: rowNum, whether row.inTable is this table (a
   *Row can be handed to another table's AddRow, which re-points it), and
   the body *)
Record trow (A : Type) := mkTRow { r_num : nat; r_here : bool; r_body : rowv A }.
Arguments mkTRow {A}.
Arguments r_num {A}.
Arguments r_here {A}.
Arguments r_body {A}.

(* what a program-held *Row refers to *)
Inductive handle (A : Type) := Detached (cs : list (cell A)) | Attached (i : nat).
Arguments Detached {A}.
Arguments Attached {A}.

Record state (A : Type) := mkState {
  t_rows    : list (trow A);             (* t.rows *)
  t_ncols   : nat;                       (* t.nColumns *)
  t_cols    : nat;                       (* len(t.columns) *)
  t_header  : option (list (cell A));    (* t.headerRow (its cells; rowNum stays 0) *)
  t_handles : list (nat * handle A);     (* the program's row variables *)
  t_panic   : bool                       (* a building call panicked *)
}.
Arguments mkState {A}.
Arguments t_rows {A}.
Arguments t_ncols {A}.
Arguments t_cols {A}.
Arguments t_header {A}.
Arguments t_handles {A}.
Arguments t_panic {A}.

Section Core.
Context {A : Type}.
Notation state := (state A).
Notation cell := (cell A).

(* New(): no rows, no columns, the one record for column 0 *)
Definition init : state := mkState [] 0 1 None [] false.

Definition with_rows (st : state) rows := mkState rows (t_ncols st) (t_cols st) (t_header st) (t_handles st) (t_panic st).
Definition with_header (st : state) h := mkState (t_rows st) (t_ncols st) (t_cols st) h (t_handles st) (t_panic st).
Definition bind_handle (st : state) r h := mkState (t_rows st) (t_ncols st) (t_cols st) (t_header st) ((r, h) :: t_handles st) (t_panic st).

(* resizeColumnsAtLeast: grow-only.  make() with a negative length panics. *)
Definition resize_columns_at_least (st : state) (new_count : nat) : state :=
  if new_count <=? t_ncols st then st
  else if S new_count <? t_cols st
       then mkState (t_rows st) (t_ncols st) (t_cols st) (t_header st) (t_handles st) true
       else mkState (t_rows st) new_count (t_cols st + (S new_count - t_cols st)) (t_header st) (t_handles st) (t_panic st).

(* the cell part of Row.Add: append, column := len(r.cells), columnNum := column *)
Definition row_add_cell (cs : list cell) (x : A) : list cell := cs ++ [mkCell x (S (length cs))].

Definition body_size (b : rowv A) : nat := match b with RSep => 0 | RCells cs => length cs end.

(* AddRow on a row value: append, rowNum := len(t.rows), resizeColumnsAtLeast(len(row.cells)) *)
Definition add_row_cells (st : state) (cs : list cell) : state :=
  let rows := t_rows st ++ [mkTRow (S (length (t_rows st))) true (RCells cs)] in
  resize_columns_at_least (with_rows st rows) (length cs).

(* AddSeparator: append, rowNum := len(t.rows); no resize *)
Definition add_separator (st : state) : state :=
  with_rows st (t_rows st ++ [mkTRow (S (length (t_rows st))) true RSep]).

(* Row.Add on the row at index i of t.rows (r.inTable != nil) *)
Definition row_add_attached (st : state) (i : nat) (x : A) : state :=
  match nth_error (t_rows st) i with
  | Some tr =>
      match r_body tr with
      | RSep => st                                  (* cells == nil: misuse, an error is recorded, no cell *)
      | RCells cs =>
          let cs' := row_add_cell cs x in
          let st' := with_rows st (upd (t_rows st) i (mkTRow (r_num tr) (r_here tr) (RCells cs'))) in
          if r_here tr then resize_columns_at_least st' (length cs')
          else st'                                  (* r.inTable is another table: that one is resized *)
      end
  | None => st
  end.

Definition row_add (st : state) (ref : rref) (x : A) : state :=
  match ref with
  | RIdx i => row_add_attached st i x
  | RName r =>
      match assoc r (t_handles st) with
      | Some (Detached cs) => bind_handle st r (Detached (row_add_cell cs x))   (* inTable == nil *)
      | Some (Attached i) => row_add_attached st i x
      | None => st
      end
  end.

(* t.AddRow(r) for a pre-built row; a handle that is not detached: no-op
   (outside wf_hist, DESIGN section 13.1) *)
Definition add_row (st : state) (r : nat) : state :=
  match assoc r (t_handles st) with
  | Some (Detached cs) => bind_handle (add_row_cells st cs) r (Attached (length (t_rows st)))
  | _ => st
  end.

(* other.AddRow(row) for a row held in this table's row list: the one *Row now
   says inTable = other, rowNum = its position there.  (This table keeps it in
   its list; what it shows from then on is what the code does, and is outside
   wf_hist, DESIGN section 13.1.)  A row that is not in this table: nothing of
   this table changes. *)
Definition taken_by_other (st : state) (i k : nat) : state :=
  match nth_error (t_rows st) i with
  | Some tr => with_rows st (upd (t_rows st) i (mkTRow k false (r_body tr)))
  | None => st
  end.

Definition other_add_row (st : state) (ref : rref) (k : nat) : state :=
  match ref with
  | RIdx i => taken_by_other st i k
  | RName r =>
      match assoc r (t_handles st) with
      | Some (Attached i) => taken_by_other st i k
      | _ => st
      end
  end.

Definition append_new_row (st : state) (r : nat) : state :=
  bind_handle (add_row_cells st []) r (Attached (length (t_rows st))).

Definition add_row_items (st : state) (xs : list A) : state :=
  add_row_cells st (fold_left row_add_cell xs []).

(* AddHeaders: resize first, then a fresh header row filled by Row.Add *)
Definition add_headers (st : state) (xs : list A) : state :=
  with_header (resize_columns_at_least st (length xs)) (Some (fold_left row_add_cell xs [])).

Definition step (st : state) (o : op A) : state :=
  match o with
  | NewRow r | NewRowSizedFor r => bind_handle st r (Detached [])
  | AppendNewRow r => append_new_row st r
  | RowAdd ref x => row_add st ref x
  | AddRow r => add_row st r
  | AddRowItems xs => add_row_items st xs
  | AddSeparator => add_separator st
  | AddHeaders xs => add_headers st xs
  | MutateAllRowsCopy => st          (* the caller's slice is a copy: nothing of the table is reachable from it *)
  | OtherAddRow ref k => other_add_row st ref k
  end.

Definition run (h : list (op A)) : state := fold_left step h init.

(* ---- observers *)
Definition nrows (st : state) : nat := length (t_rows st).
Definition ncols (st : state) : nat := t_ncols st.
Definition all_rows (st : state) : list (trow A) := t_rows st.       (* make + copy *)
Definition headers (st : state) : option (list cell) := t_header st.
Definition is_separator (tr : trow A) : bool := match r_body tr with RSep => true | RCells _ => false end.
Definition row_cells (tr : trow A) : option (list cell) := match r_body tr with RSep => None | RCells cs => Some cs end.
Definition row_location (tr : trow A) : nat * nat := (r_num tr, 0).
(* the items of a row in order; None for a separator *)
Definition row_items (tr : trow A) : option (list A) := option_map (map c_item) (row_cells tr).
Definition row_size (tr : trow A) : nat := body_size (r_body tr).      (* len(Row.Cells()) *)

(* CellAt: Err = NoSuchCellError.  The result is the cell together with the
   rowNum of the row it sits in (what the returned pointer's inRow shows). *)
Local Open Scope Z_scope.
Definition cell_at (st : state) (r c : Z) : res (nat * cell) :=
  if (r <? 1) || (c <? 1) || (Z.of_nat (length (t_rows st)) <? r) then Err else
  bind (idx (t_rows st) (Z.to_nat (r - 1))) (fun tr =>
    match r_body tr with
    | RSep => Err
    | RCells cs =>
        if Z.of_nat (length cs) <? c then Err
        else bind (idx cs (Z.to_nat (c - 1))) (fun x => Ok (r_num tr, x))
    end).

(* Cell.Location() of a cell reached through its row *)
Definition cell_location (rc : nat * cell) : nat * nat := (fst rc, c_col (snd rc)).

(* Column(n) != nil; the index t.columns[n] is checked *)
Definition column_exists (st : state) (n : Z) : res bool :=
  if (n <? 0) || (Z.of_nat (t_ncols st) <? n) then Ok false
  else if Nat.ltb (Z.to_nat n) (t_cols st) then Ok true else Panic.
Close Scope Z_scope.

(* ---- what a renderer sees *)
Definition view_of (f : A -> vcell) (st : state) : view :=
  mkView (t_ncols st)
         (option_map (map (fun c => f (c_item c))) (t_header st))
         (map (fun tr => option_map (map (fun c => f (c_item c))) (row_cells tr)) (t_rows st))
         (repeat None (S (t_ncols st)))
         (repeat None (S (t_ncols st))).

End Core.

(* text-only cells *)
Definition text_vcell (s : bytes) : vcell := mkVCell s (match s with [] => true | _ => false end) None 0 0 false.
Definition view_of_texts (st : state bytes) : view := view_of text_vcell st.

(* ---- one dump of a table whose cells carry ids, as the harness takes it *)
Definition ocell_of (rn : nat) (c : cell N) : ocell := (Z.of_nat rn, Z.of_nat (c_col c), c_item c).

Definition observe (st : state N) : obs :=
  let w := Nat.max (ncols st) (list_max (map row_size (all_rows st))) in
  mkObs (Z.of_nat (nrows st)) (Z.of_nat (ncols st))
        (option_map (map (ocell_of 0)) (headers st))
        (map (fun tr => mkORow (is_separator tr)
                               (match row_cells tr with None => true | Some _ => false end)
                               (Z.of_nat (fst (row_location tr)), Z.of_nat (snd (row_location tr)))
                               (match row_cells tr with None => [] | Some cs => map (ocell_of (r_num tr)) cs end))
             (all_rows st))
        (flat_map (fun r => flat_map (fun c =>
             match cell_at st r c with
             | Ok rc => [(r, c, (Z.of_nat (fst (cell_location rc)), Z.of_nat (snd (cell_location rc)), c_item (snd rc)))]
             | Err => []
             | Panic => [(r, c, ((-9)%Z, (-9)%Z, 0%N))]
             end) (zrange (-1) (w + 3))) (zrange (-1) (nrows st + 3)))
        (map (fun n => match column_exists st n with Ok b => b | _ => false end) (zrange (-1) (ncols st + 3))).

(* the dumps after every op of a history *)
Fixpoint trace_from (st : state N) (h : list (op N)) : list obs :=
  match h with
  | [] => []
  | o :: r => let st' := step st o in observe st' :: trace_from st' r
  end.
Definition model_dump (h : list (op N)) : list N := flat_map enc_obs (trace_from init h).
(* ... or only the dump after the last op (long histories: rows of hundreds of cells) *)
Definition model_dump_last (h : list (op N)) : list N := enc_obs (observe (run h)).
