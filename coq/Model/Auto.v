(* Model of auto/auto.go (after the D19 repair): Wrap's dispatch on the style
   string, decorationName, ListStyles.  The table being wrapped is fixed; a
   renderer other than texttable is represented by what its Render() returns
   on that table (section variables: C05-C08's business).

   strings.ToLower is an oracle ([lower]); the theorems that need it assume
   only its behaviour on ASCII input.  sort.Strings is [isort]
   (Model/Registry.v), validated on every run. *)
From Tab Require Export Model.Registry.

Local Open Scope N_scope.
Definition DOT : N := 46.
(* s_csv, s_html, s_markdown, s_json and list_styles (ListStyles) live in Model/Registry.v *)
Definition s_texttable : bytes := [116;101;120;116;116;97;98;108;101].

(* ASCII part of unicode.ToLower *)
Definition ascii_lower (b : N) : N := if (65 <=? b) && (b <=? 90) then b + 32 else b.
Definition is_ascii (b : N) : bool := b <? 128.
Local Close Scope N_scope.

(* strings.Split(s, "."): never empty *)
Fixpoint split_dot (s : bytes) : list bytes :=
  match s with
  | [] => [[]]
  | c :: r =>
      if N.eqb c DOT then [] :: split_dot r
      else match split_dot r with
           | [] => [[c]]
           | h :: t => (c :: h) :: t
           end
  end.

(* decorationName:
     for n := len(sections); n > 1; n-- {
         candidate := strings.Join(sections[:n], ".")
         if decoration.Named(candidate) != decoration.EmptyDecoration { return candidate } }
     return sections[0] *)
Fixpoint dn_loop (reg : registry) (sections : list bytes) (n : nat) : res bytes :=
  match n with
  | S (S _ as m) =>
      let candidate := join [DOT] (firstn n sections) in
      if negb (dec_is_empty (named reg candidate)) then Ok candidate
      else dn_loop reg sections m
  | _ => idx sections 0
  end.

Definition decoration_name (reg : registry) (sections : list bytes) : res bytes :=
  dn_loop reg sections (length sections).

Inductive renderer := RCsv | RHtml | RMarkdown | RJson | RText (t : texttable).

Inductive kind := KCsv | KHtml | KMarkdown | KJson | KText | KOther.
Definition kind_of (r : renderer) : kind :=
  match r with RCsv => KCsv | RHtml => KHtml | RMarkdown => KMarkdown | RJson => KJson | RText _ => KText end.

(* tt := texttable.Wrap(t); tt.SetDecorationNamed(name)  (the error is dropped by Wrap) *)
Definition text_named (reg : registry) (name : bytes) : texttable :=
  fst (set_decoration_named reg name text_wrap).

Section Auto.
  Variable lower : bytes -> bytes.                         (* strings.ToLower *)
  Variables r_csv r_html r_markdown r_json : res (bytes * bool).  (* Render() of the four other renderers on the table *)
  Variable body : decoration -> res bytes.                 (* the text renderer past its guard *)

  Definition wrap (reg : registry) (style : bytes) : res renderer :=
    let sections := split_dot style in
    bind (idx sections 0) (fun s0 =>
      let l := lower s0 in
      if bytes_eqb l s_csv then Ok RCsv
      else if bytes_eqb l s_html then Ok RHtml
      else if bytes_eqb l s_markdown then Ok RMarkdown
      else if bytes_eqb l s_json then Ok RJson
      else if bytes_eqb l s_texttable then
        (if Nat.ltb 1 (length sections)
         then bind (decoration_name reg (skipn 1 sections)) (fun dn => Ok (RText (text_named reg dn)))
         else Ok (RText text_wrap))
      else bind (decoration_name reg sections) (fun dn => Ok (RText (text_named reg dn)))).

  Definition render (r : renderer) : res (bytes * bool) :=
    match r with
    | RCsv => r_csv
    | RHtml => r_html
    | RMarkdown => r_markdown
    | RJson => r_json
    | RText t => text_render body t
    end.

  (* auto.Render(t, style) / auto.New(style) + fill + Render() *)
  Definition render_auto (reg : registry) (style : bytes) : res (bytes * bool) :=
    bind (wrap reg style) render.
End Auto.
