(* The whole table as a renderer meets it: the core (Model/Core.v) holding
   ITEMS (Model/Cell.v: what NewCell makes of each is part of the model), plus
   the two column properties the renderers read - alignment and skipable -
   set through column handles (atable.go Column(n), properties.go SetProperty
   on a column).  One machine, one op language: this is the composition the
   end-to-end theorems (Props/*, the `_history` statements) and the pipeline
   correspondence (Run/PipeRun.v) speak about.

   Column records (atable.go): t.columns has nColumns+1 entries, index 0 is the
   all-columns default; resizeColumnsAtLeast only ever appends fresh records,
   and (since the D14/D15 repair) records are held by pointer, so a property
   set on column n stays with column n as the table grows.  In the model the
   two properties are positional lists, padded with None whenever a building
   call widens the table. *)
From Tab Require Export Model.Core Model.Cell.

(* The machine is generic in what a cell carries (A): the end-to-end theorems
   use A = item (one unchanging environment); Model/TableMut.v uses A = an item
   together with the environment it was last read in, to speak about items
   that are mutated and cells that are updated in place. *)
Inductive gtop (A : Type) :=
| TCore (o : op A)                             (* a building call, items as given by the caller *)
| TSetAlign (n : nat) (a : option align)       (* if c := t.Column(n); c != nil { c.SetProperty(align.PropertyType, a) } *)
| TSetSkip (n : nat) (s : option skipv).       (* ... SetProperty(properties.Skipable, s) *)
Arguments TCore {A} o.
Arguments TSetAlign {A} n a.
Arguments TSetSkip {A} n s.

Record gtstate (A : Type) := mkT {
  tb_core  : Core.state A;
  tb_align : list (option align);      (* per column record, index 0 = the defaults column *)
  tb_skip  : list (option skipv)
}.
Arguments mkT {A}.
Arguments tb_core {A}.
Arguments tb_align {A}.
Arguments tb_skip {A}.

(* fresh column records carry no property *)
Definition pad_none {B} (l : list (option B)) (n : nat) : list (option B) := l ++ repeat None (n - length l).

Section Machine.
Context {A : Type}.

Definition tinit : gtstate A := mkT Core.init [None] [None].

(* Column(n) != nil, read off the core model (never a panic inside wf histories) *)
Definition has_column (st : Core.state A) (n : nat) : bool :=
  match column_exists st (Z.of_nat n) with Ok b => b | _ => false end.

Definition tstep (st : gtstate A) (o : gtop A) : gtstate A :=
  match o with
  | TCore c =>
      let core' := Core.step (tb_core st) c in
      mkT core' (pad_none (tb_align st) (S (t_ncols core'))) (pad_none (tb_skip st) (S (t_ncols core')))
  | TSetAlign n a =>
      if has_column (tb_core st) n then mkT (tb_core st) (upd (tb_align st) n a) (tb_skip st) else st
  | TSetSkip n s =>
      if has_column (tb_core st) n then mkT (tb_core st) (tb_align st) (upd (tb_skip st) n s) else st
  end.

Definition trun (h : list (gtop A)) : gtstate A := fold_left tstep h tinit.

(* what a renderer sees (Model/View.v); f is what a cell shows of what it carries *)
Definition table_view (f : A -> vcell) (st : gtstate A) : view :=
  let core := tb_core st in
  mkView (t_ncols core)
         (option_map (map (fun c => f (c_item c))) (t_header core))
         (map (fun tr => option_map (map (fun c => f (c_item c))) (row_cells tr)) (t_rows core))
         (tb_align st) (tb_skip st).

(* the building calls of a history *)
Definition core_ops (h : list (gtop A)) : list (op A) :=
  flat_map (fun o => match o with TCore c => [c] | _ => [] end) h.
End Machine.

(* the machine over items *)
Notation top := (gtop item).
Notation tstate := (gtstate item).
