(* Cell VALUES in the callback model (round 6).

   tabular.Cell is a value type.  A program can hold a Cell in a local variable
   - fresh from NewCell, or copied out of a row (c := *cellAt, c :=
   row.Cells()[i], c := t.Headers()[i]; the same from another table) - register
   callbacks upon &c, and hand c to Row.Add, which stores a further copy.  The
   value carries its embedded callbackSet (Cell.callbacks) and the two fields
   Cell.columnNum and Cell.inRow, which still say where it was copied from
   until Row.Add overwrites them in the stored copy.

   This file extends the machine of Model/Callbacks.v by a store of such
   variables, function by function:
     - RegisterPropertyCallback with a *Cell owner writes [base.callbacks] of
       the object the pointer denotes - for &c that is the variable, whatever
       c.inRow / c.columnNum say (properties.go, case *Cell);
     - Row.Add(c) appends the value to r.cells (the stored cell carries the
       value's callback set), sets inRow / columnNum of the stored copy, then
       runs the add-time callbacks exactly as for a fresh cell (row.go). *)
From Tab Require Export Model.Callbacks.

(* a Cell held in a local variable: its embedded callbackSet and what it records
   of its origin (cv_inRow = None: nil, or a row that is not of this store) *)
Record cval := mkCval { cv_set : cbset; cv_columnNum : nat; cv_inRow : option nat }.

Record vstate := mkV { v_st : state; v_vals : list cval }.
Definition vinit : vstate := mkV init [].

Inductive vop :=
| VOp (o : op)                                       (* an operation of Model/Callbacks.v *)
| VNewCell                                           (* v := tabular.NewCell(..) *)
| VCopyCell (r c : nat)                              (* v := rows[r].cells[c-1]   (a value copy, through CellAt / Cells() / Headers()) *)
| VForeignCell (c : nat)                             (* v := the value of cell c of a row of another table *)
| VRegister (n : nat) (tm : ctime) (g : target) (cb : nat)   (* t.RegisterPropertyCallback(&v_n, tm, g, recorder cb) *)
| VRowAddVal (r n : nat).                            (* rows[r].Add(v_n) *)

(* v := rows[r].cells[c-1]: a struct copy *)
Definition copy_cell (st : state) (r c : nat) : res cval :=
  bind (idx (st_rows st) r) (fun row =>
    match rw_cells row, c with
    | Some cells, S c' =>
        bind (idx cells c') (fun cell =>
          Ok (mkCval (get_set st (SlCellSelf r c)) (cl_columnNum cell) (Some (cl_inRow cell))))
    | _, _ => Panic
    end).

(* RegisterPropertyCallback(&v, ..): case *Cell: set = &base.callbacks for
   itself / cell, nil (an error) for row; base is the variable *)
Definition register_val (v : cval) (tm : ctime) (g : target) (cb : nat) : res cval :=
  match g with
  | GRow => Err
  | GItself | GCell => Ok (mkCval (cb_append (cv_set v) tm cb) (cv_columnNum v) (cv_inRow v))
  end.

(* Row.Add(v): r.cells = append(r.cells, v); ptr.inRow = r; ptr.columnNum =
   column; then the add-time callbacks as for any cell.  The stored cell's
   embedded callbackSet is the value's. *)
Definition row_add_val (st : state) (r : nat) (v : cval) : res (state * list event) :=
  bind (idx (st_rows st) r) (fun row =>
    match rw_cells row with
    | None => Ok (st, [])
    | Some cells => row_add (put_set st (SlCellSelf r (S (length cells))) (cv_set v)) r
    end).

Definition vstep (vs : vstate) (o : vop) : res (vstate * list event * list bool) :=
  match o with
  | VOp o' => bind (step (v_st vs) o') (fun r => Ok (mkV (fst (fst r)) (v_vals vs), snd (fst r), snd r))
  | VNewCell => Ok (mkV (v_st vs) (v_vals vs ++ [mkCval cbset0 0 None]), [], [])
  | VCopyCell r c => bind (copy_cell (v_st vs) r c) (fun v => Ok (mkV (v_st vs) (v_vals vs ++ [v]), [], []))
  | VForeignCell c => Ok (mkV (v_st vs) (v_vals vs ++ [mkCval cbset0 c None]), [], [])
  | VRegister n tm g cb =>
      bind (idx (v_vals vs) n) (fun v =>
        match register_val v tm g cb with
        | Ok v' => Ok (mkV (v_st vs) (set_nth (v_vals vs) n v'), [], [false])
        | Err => Ok (vs, [], [true])
        | Panic => Panic
        end)
  | VRowAddVal r n =>
      bind (idx (v_vals vs) n) (fun v =>
      bind (with_effects (row_add_val (v_st vs) r v)) (fun se => Ok (mkV (fst se) (v_vals vs), snd se, [])))
  end.

Fixpoint vrun_from (vs : vstate) (log : list event) (errs : list bool) (h : list vop) : res (vstate * list event * list bool) :=
  match h with
  | [] => Ok (vs, log, errs)
  | o :: rest =>
      bind (vstep vs o) (fun r =>
        vrun_from (fst (fst r)) (log ++ snd (fst r)) (errs ++ snd r) rest)
  end.
Definition vrun_build (h : list vop) := vrun_from vinit [] [] h.

(* build, then k render passes of the table *)
Definition vrun (h : list vop) (k : nat) : res outcome :=
  bind (vrun_build h) (fun r =>
  bind (render_passes (v_st (fst (fst r))) k) (fun se =>
    Ok (mkOutcome (snd r) (snd (fst r)) (snd se) (st_props (fst se))))).

(* operations that only concern local Cell variables *)
Definition value_only (o : vop) : bool :=
  match o with
  | VNewCell | VCopyCell _ _ | VForeignCell _ | VRegister _ _ _ _ => true
  | VOp _ | VRowAddVal _ _ => false
  end.

(* the registrations that rebuild a callback set from the empty one, list by list *)
Definition set_entries (s : cbset) : list (ctime * nat) :=
  map (fun cb => (TAdd, cb)) (cs_add s) ++ map (fun cb => (TPre, cb)) (cs_pre s)
  ++ map (fun cb => (TRender, cb)) (cs_render s) ++ map (fun cb => (TPost, cb)) (cs_post s).

(* what Row.Add of a value amounts to in the history language of
   Model/Callbacks.v: Row.Add of a fresh cell, then one registration upon the new
   cell for every callback the value carried *)
Definition desugar_add (r column : nat) (v : cval) : list op :=
  ORowAdd r :: map (fun e => ORegister (OCell r column) (fst e) GItself (snd e)) (set_entries (cv_set v)).
