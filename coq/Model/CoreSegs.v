(* Model side of Spec/HistorySegs.v: the dumps of the model when the table is
   looked at after every SEGMENT of the history (one segment = one call made
   by the program, together with the building calls which its add-time
   callbacks made from inside it), and the one building call of the library
   which no op of Base/Ops.v names: Row.Add on the HEADER row.

   The program has no accessor for the header row (Headers() hands out the
   cells), but AddHeaders passes it to the table's add-time row callbacks
   (atable.go, AddHeaders: invokePropertyCallbacks(t.tableRowAdditionCallbacks,
   CB_AT_ADD, hr, ...)), which may append to it there and may keep the pointer
   and append later.  hr.inTable is the table by then, so Row.Add (row.go)
   appends the cell, numbers it and calls t.resizeColumnsAtLeast(column). *)
From Tab Require Export Model.Core.

Section HeaderRow.
Context {A : Type}.

(* hr.Add(NewCell(x)) for the row that IS the table's header now *)
Definition header_add (st : state A) (x : A) : state A :=
  match t_header st with
  | Some cs =>
      let cs' := row_add_cell cs x in
      resize_columns_at_least (with_header st (Some cs')) (length cs')
  | None => st
  end.

(* old.Add(NewCell(x)) for a header row which a later AddHeaders has replaced
   (it held n cells): the table no longer shows it, but the row still says
   inTable = t, and the table's columns grow to hold its new cell *)
Definition stale_header_add (st : state A) (n : nat) : state A :=
  resize_columns_at_least st (S n).

End HeaderRow.

Fixpoint trace_segs (st : state N) (h : list (op N)) (ns : list nat) : list obs :=
  match ns with
  | [] => []
  | n :: ns' =>
      let st' := fold_left step (firstn n h) st in
      observe st' :: trace_segs st' (skipn n h) ns'
  end.

Definition model_dump_segs (h : list (op N)) (ns : list nat) : list N :=
  flat_map enc_obs (trace_segs init h ns).
