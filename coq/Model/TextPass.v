(* RenderTo as a PASS over the table (texttable/render.go RenderTo):

     if t.decor == decoration.EmptyDecoration { return error }
     t.InvokeRenderCallbacks()
     columnCount, headers, widths ... alignments are read, lines are written

   The application's render-time property callbacks (registered on the table,
   a column, a row or a cell, for the pre-cell, cell or post-cell time) run
   inside InvokeRenderCallbacks, i.e. BEFORE the renderer reads anything.  A
   callback is handed a PropertyOwner and may reach any column handle
   (t.Column(n)); of what the text renderer reads, what it can change without
   building calls is the column properties.  So a pass is: the alignment
   writes the callbacks make, in execution order, applied to the table
   (Model/Table.v tstep, the same step a direct SetProperty takes), and then
   Model/Text.v on what the table presents afterwards.  The alignments of a
   render are therefore the ones in force when the callbacks have finished -
   not the ones of the moment RenderTo was entered, nor those of an earlier
   render through the same wrapper. *)
From Tab Require Export Model.Table Model.Text.

(* one write of a callback: if c := t.Column(n); c != nil { c.SetProperty(align.PropertyType, a) } *)
Definition cbwrite := (nat * option align)%type.

Definition cb_ops (ws : list cbwrite) : list top := map (fun w => TSetAlign (fst w) (snd w)) ws.

(* t.InvokeRenderCallbacks(), as far as the text renderer's inputs go *)
Definition invoke_render_callbacks (st : tstate) (ws : list cbwrite) : tstate :=
  fold_left tstep (cb_ops ws) st.

(* RenderTo / Render through a wrapper: the output and the table afterwards
   (an unknown decoration is refused before the callbacks run) *)
Definition text_render_to (W : bytes -> nat) (d : decoration) (f : item -> vcell)
           (st : tstate) (ws : list cbwrite) : res bytes * tstate :=
  if is_empty_decoration d then (Err, st) else
  let st' := invoke_render_callbacks st ws in
  (text_render W d (table_view f st'), st').

(* The same writes said on the view (what Column(n).GetProperty reports once
   the callbacks are done): a handle exists for 0 .. NColumns(). *)
Definition view_set_align (v : view) (n : nat) (a : option align) : view :=
  if n <=? v_ncols v
  then mkView (v_ncols v) (v_header v) (v_rows v) (Ops.upd (v_align v) n a) (v_skip v)
  else v.

Definition after_callbacks (ws : list cbwrite) (v : view) : view :=
  fold_left (fun v w => view_set_align v (fst w) (snd w)) ws v.

(* the value of the last write to column n, if the callbacks wrote it at all *)
Definition last_write (ws : list cbwrite) (n : nat) : option (option align) := Ops.assoc n (rev ws).
