(* Where an error goes inside a table: row.go (AddError, the misuse branch and
   the errTaker of Add), atable.go (AddRow swallow-and-divert, AddSeparator,
   AddHeaders), properties.go (invokePropertyCallbacks: `if e != nil {
   errTaker.AddError(e) }`) and render_callbacks.go, as repaired (fixes
   11e5d71, 8c5f97e, 826ea59, b511d3d, d407bbf, cf151b4).

   The history language is at the level of error events: what a callback
   does besides returning an error, which cells exist and which callbacks
   fire is C13's subject; here a firing that returns [e] at invoke site [s]
   for row [r] is the event [CallbackFails s r e].  Rows are named by
   numbers; a number never mentioned before is a row just made by NewRow
   (no container, not in a table).  Separator rows and header rows are made
   by the table and get their number from the event that makes them.

   A second table [u] exists beside the table [t] under test (DESIGN 13.1
   keeps a row in one table; the harness reaches past that edge, and so does
   the model): [u.AddRow(r)] may take a row that is still outside [t] or one
   that already belongs to [t].  AddRow reads [row.Errors()] - for a row of
   [t] that is [t]'s whole list - hands it to its own container and re-points
   [row.ErrorContainer]; [t]'s container is not touched. *)
From Tab Require Export Model.ErrCont.

(* every call of invokePropertyCallbacks in the repaired source *)
Inductive site :=
(* row.go, Row.Add *)
| SRowCellAdd            (* row.go:72   r.rowCellCallbacks      CB_AT_ADD  errTaker r *)
| SColCellRowAdd         (* row.go:78   col.cellCallbacks       CB_AT_ADD  errTaker r   (row already in a table) *)
| STblCellRowAdd         (* row.go:80   t.tableCellCallbacks    CB_AT_ADD  errTaker r   (row already in a table) *)
(* atable.go, AddRow *)
| SRowItselfAddRow       (* atable.go:98   row.rowItselfCallbacks         errTaker t.ErrorContainer *)
| STblRowAddRow          (* atable.go:99   t.tableRowAdditionCallbacks    errTaker t.ErrorContainer *)
| SColCellAddRow         (* atable.go:104  col.cellCallbacks              errTaker row.ErrorContainer *)
| STblCellAddRow         (* atable.go:106  t.tableCellCallbacks           errTaker row.ErrorContainer *)
(* atable.go, AddHeaders *)
| STblRowAddHeaders      (* atable.go:156  errTaker t.ErrorContainer *)
| SColCellAddHeaders     (* atable.go:160  errTaker t.ErrorContainer *)
| STblCellAddHeaders     (* atable.go:162  errTaker t.ErrorContainer *)
(* render_callbacks.go, InvokeRenderCallbacks: ec := t.ErrorContainer *)
| STblItselfPre          (* :14 ec *)
| SColItselfPre          (* :16 ec *)
| SRowItselfPre          (* :31 ec *)
| STblCellPre            (* :35 ec *)
| SColCellPre            (* :37 row.ErrorContainer *)
| SRowCellPre            (* :39 ec *)
| STblCellRender         (* :41 ec *)
| SCellRender            (* :42 ptr.callbacks, ec *)
| SRowCellPost           (* :44 ec *)
| SColCellPost           (* :46 row.ErrorContainer *)
| STblCellPost           (* :48 ec *)
| SRowItselfPost         (* :50 ec *)
| SColItselfPost         (* :25 ec *)
| STblItselfPost.        (* :27 ec *)

Inductive event :=
| RowAddError (r : nat) (e : err)                  (* r.AddError(e) *)
| TableAddError (e : err)                          (* t.AddError(e) *)
| TableAddErrorList (es : option (list err))       (* t.AddErrorList(es) *)
| AttachRow (r : nat)                              (* t.AddRow(r): the error part, before its callbacks *)
| AddSeparator (r : nat)                           (* t.AddSeparator(); r names the new separator row *)
| AddHeaders (r : nat)                             (* t.AddHeaders(...); r names the new header row *)
| RowAddOnSeparator (r : nat) (e : errid)          (* r.Add(cell) on a separator: errors.New(...) = e *)
| CallbackFails (s : site) (r : nat) (e : err)     (* a callback invoked at s, for row r, returned e *)
| OtherAttachRow (r : nat)                         (* u.AddRow(r) on the OTHER table u: the error part *)
| OtherAddError (e : err)                          (* u.AddError(e) *)
| OtherRowAddError (r : nat) (e : err).            (* e handed to row r - r.AddError(e), or r / r.ErrorContainer as the
                                                      errTaker of a callback - while r reports to the other table *)

(* ---- the model proper *)

(* the three things invokePropertyCallbacks is handed as errTaker *)
Inductive taker :=
| TkRow          (* the Row pointer itself: Row.AddError, creates the container on demand *)
| TkRowEC        (* row.ErrorContainer, whatever it is at that moment (nil drops) *)
| TkTable.       (* t.ErrorContainer *)

Definition site_taker (s : site) : taker :=
  match s with
  | SRowCellAdd | SColCellRowAdd | STblCellRowAdd => TkRow
  | SColCellAddRow | STblCellAddRow | SColCellPre | SColCellPost => TkRowEC
  | _ => TkTable
  end.

(* Row.ErrorContainer: the embedded pointer *)
Inductive rowec :=
| ECNil                   (* nil *)
| ECOwn (c : cont)        (* a container of the row's own *)
| ECTable                 (* the table's container (same pointer) *)
| ECOther.                (* the other table's container (same pointer) *)

Record rowst := mkRow { r_ec : rowec; r_in_table : bool; r_sep : bool }.
(* what NewRow(), NewRowWithCapacity(n) and t.NewRowSizedFor() all return: no
   container, not in a table (NewRowSizedFor reads only t.NColumns()) *)
Definition fresh_row := mkRow ECNil false false.

Record tstate := mkT {
  t_ec : cont;                        (* t.ErrorContainer *)
  t_rows : list (nat * rowst);        (* row store, newest binding first *)
  t_hdr : option nat;                 (* t.headerRow *)
  t_oec : cont                        (* u.ErrorContainer, u the other table *)
}.

(* t := tabular.New(); u := tabular.New() *)
Definition init : tstate := mkT (create MNew) [] None (create MNew).

Fixpoint lookup (l : list (nat * rowst)) (r : nat) : rowst :=
  match l with
  | [] => fresh_row
  | (k, v) :: l' => if k =? r then v else lookup l' r
  end.
Definition get_row (st : tstate) (r : nat) : rowst := lookup (t_rows st) r.
Definition set_row (st : tstate) (r : nat) (rs : rowst) : tstate :=
  mkT (t_ec st) ((r, rs) :: t_rows st) (t_hdr st) (t_oec st).
Definition set_tec (st : tstate) (c : cont) : tstate := mkT c (t_rows st) (t_hdr st) (t_oec st).
Definition set_hdr (st : tstate) (r : nat) : tstate := mkT (t_ec st) (t_rows st) (Some r) (t_oec st).
Definition set_oec (st : tstate) (c : cont) : tstate := mkT (t_ec st) (t_rows st) (t_hdr st) c.
Definition with_ec (rs : rowst) (ec : rowec) : rowst := mkRow ec (r_in_table rs) (r_sep rs).

(* t.AddError(e), promoted from the embedded *ErrorContainer *)
Definition table_add_error (st : tstate) (e : err) : tstate := set_tec st (add_error (t_ec st) e).

(* t.AddErrorList(es) *)
Definition table_add_error_list (st : tstate) (es : option (list err)) : tstate :=
  set_tec st (add_error_list (t_ec st) es).

(* u.AddError(e) *)
Definition other_add_error (st : tstate) (e : err) : tstate := set_oec st (add_error (t_oec st) e).

(* r.ErrorContainer.AddError(e): through the embedded pointer as it stands *)
Definition rowec_add_error (st : tstate) (r : nat) (e : err) : tstate :=
  let rs := get_row st r in
  match r_ec rs with
  | ECNil => st                                               (* nil receiver: returns *)
  | ECOwn c => set_row st r (with_ec rs (ECOwn (add_error c e)))
  | ECTable => table_add_error st e
  | ECOther => other_add_error st e
  end.

(* func (r *Row) AddError(e error) *)
Definition row_add_error (st : tstate) (r : nat) (e : err) : tstate :=
  let rs := get_row st r in
  let st1 := match r_ec rs with
             | ECNil => set_row st r (with_ec rs (ECOwn (create MNew)))   (* r.ErrorContainer = NewErrorContainer() *)
             | _ => st
             end in
  rowec_add_error st1 r e.

(* r.Errors(), promoted from the embedded pointer *)
Definition row_errors (st : tstate) (r : nat) : option (list err) :=
  match r_ec (get_row st r) with
  | ECNil => None
  | ECOwn c => errors c
  | ECTable => errors (t_ec st)
  | ECOther => errors (t_oec st)
  end.

(* t.Errors() *)
Definition table_errors (st : tstate) : option (list err) := errors (t_ec st).

(* u.Errors() *)
Definition other_errors (st : tstate) : option (list err) := errors (t_oec st).

(* AddRow, atable.go:84-96: swallow existing errors, divert new ones *)
Definition table_add_row (st : tstate) (r : nat) : tstate :=
  let es := row_errors st r in
  let st1 := match es with
             | Some l => table_add_error_list st (Some l)     (* if es != nil { t.AddErrorList(es) } *)
             | None => st
             end in
  set_row st1 r (mkRow ECTable true (r_sep (get_row st1 r))). (* row.ErrorContainer = t.ErrorContainer *)

(* the same AddRow, called on the other table: es := row.Errors() is whatever
   the row shows now (t's whole list for a row of t); t.ErrorContainer is
   neither read through any other path nor written *)
Definition other_add_row (st : tstate) (r : nat) : tstate :=
  let es := row_errors st r in
  let st1 := match es with
             | Some l => set_oec st (add_error_list (t_oec st) (Some l))   (* if es != nil { u.AddErrorList(es) } *)
             | None => st
             end in
  set_row st1 r (mkRow ECOther true (r_sep (get_row st1 r))).   (* row.ErrorContainer = u.ErrorContainer *)

(* AddSeparator: sep.ErrorContainer = t.ErrorContainer *)
Definition add_separator (st : tstate) (r : nat) : tstate := set_row st r (mkRow ECTable true true).

(* AddHeaders: hr.ErrorContainer = t.ErrorContainer; ...; t.headerRow = hr *)
Definition add_headers (st : tstate) (r : nat) : tstate :=
  set_hdr (set_row st r (mkRow ECTable true false)) r.

(* Row.Add on a row without cells: r.AddError(errors.New(...)) *)
Definition row_add_misuse (st : tstate) (r : nat) (e : errid) : tstate := row_add_error st r (Some e).

(* invokePropertyCallbacks, the error line: e := cb.UpdateProperties(owner);
   if e != nil { errTaker.AddError(e) } *)
Definition invoke_fail (st : tstate) (s : site) (r : nat) (e : err) : tstate :=
  match e with
  | None => st
  | Some _ =>
      match site_taker s with
      | TkRow => row_add_error st r e
      | TkRowEC => rowec_add_error st r e
      | TkTable => table_add_error st e
      end
  end.

Definition step (st : tstate) (ev : event) : tstate :=
  match ev with
  | RowAddError r e => row_add_error st r e
  | TableAddError e => table_add_error st e
  | TableAddErrorList es => table_add_error_list st es
  | AttachRow r => table_add_row st r
  | AddSeparator r => add_separator st r
  | AddHeaders r => add_headers st r
  | RowAddOnSeparator r e => row_add_misuse st r e
  | CallbackFails s r e => invoke_fail st s r e
  | OtherAttachRow r => other_add_row st r
  | OtherAddError e => other_add_error st e
  | OtherRowAddError r e => row_add_error st r e    (* r.ErrorContainer is non-nil here, so r and r.ErrorContainer take alike *)
  end.

Definition run_from (st : tstate) (h : list event) : tstate := fold_left step h st.
Definition run (h : list event) : tstate := run_from init h.
