(* Model of length/length.go, part 1: line splitting.  (Rune and display-cell
   measures are added for C18.) *)
From Tab Require Export Base.Bytes.

(* strings.Split(s, "\n"): never empty *)
Fixpoint split_lf (s : bytes) : list bytes :=
  match s with
  | [] => [[]]
  | b :: r =>
      if N.eqb b LF then [] :: split_lf r
      else match split_lf r with
           | [] => [[b]]                 (* unreachable: split_lf is never empty *)
           | l :: ls => (b :: l) :: ls
           end
  end.

Lemma split_lf_nonempty s : split_lf s <> [].
Proof.
  induction s as [|b r IH]; cbn [split_lf]; [discriminate|].
  destruct (N.eqb b LF); [discriminate|]. destruct (split_lf r); discriminate.
Qed.

Definition is_nil {A} (l : list A) : bool := match l with [] => true | _ => false end.

(* length.Lines: ss := Split(s, "\n"); if ss[len(ss)-1] == "" { ss = ss[:len(ss)-1] } *)
Definition lines (s : bytes) : res (list bytes) :=
  let ss := split_lf s in
  bind (idx ss (length ss - 1)) (fun lastl =>
  Ok (if is_nil lastl then firstn (length ss - 1) ss else ss)).

Lemma lines_ok s : exists ls, lines s = Ok ls.
Proof.
  unfold lines. pose proof (split_lf_nonempty s) as H.
  destruct (idx_lt (split_lf s) (length (split_lf s) - 1)) as (a & Ha & _).
  - destruct (split_lf s); [congruence | simpl; lia].
  - rewrite Ha. cbn [bind]. eauto.
Qed.

(* total version, for specs and statements *)
Definition lines_of (s : bytes) : list bytes :=
  match lines s with Ok ls => ls | _ => [] end.
