(* Model of length/length.go: line splitting, the three string measures and
   the three longest-line functions. *)
From Tab Require Export Base.Bytes Base.Utf8.

(* strings.Split(s, "\n"): never empty *)
Fixpoint split_lf (s : bytes) : list bytes :=
  match s with
  | [] => [[]]
  | b :: r =>
      if N.eqb b LF then [] :: split_lf r
      else match split_lf r with
           | [] => [[b]]                 (* unreachable: split_lf is never empty *)
           | l :: ls => (b :: l) :: ls
           end
  end.

Lemma split_lf_nonempty s : split_lf s <> [].
Proof.
  induction s as [|b r IH]; cbn [split_lf]; [discriminate|].
  destruct (N.eqb b LF); [discriminate|]. destruct (split_lf r); discriminate.
Qed.

Definition is_nil {A} (l : list A) : bool := match l with [] => true | _ => false end.

(* length.Lines: ss := Split(s, "\n"); if ss[len(ss)-1] == "" { ss = ss[:len(ss)-1] } *)
Definition lines (s : bytes) : res (list bytes) :=
  let ss := split_lf s in
  bind (idx ss (length ss - 1)) (fun lastl =>
  Ok (if is_nil lastl then firstn (length ss - 1) ss else ss)).

Lemma lines_ok s : exists ls, lines s = Ok ls.
Proof.
  unfold lines. pose proof (split_lf_nonempty s) as H.
  destruct (idx_lt (split_lf s) (length (split_lf s) - 1)) as (a & Ha & _).
  - destruct (split_lf s); [congruence | simpl; lia].
  - rewrite Ha. cbn [bind]. eauto.
Qed.

(* total version, for specs and statements *)
Definition lines_of (s : bytes) : list bytes :=
  match lines s with Ok ls => ls | _ => [] end.

(* ---- the three measures *)

(* StringBytes: len(s) *)
Definition string_bytes (s : bytes) : nat := length s.

(* StringRunes: utf8.RuneCountInString(s) *)
Definition string_runes (s : bytes) : nat := rune_count s.

(* StringCells: runewidth.StringWidth(s) (go-runewidth v0.0.14, runewidth.go):

     g := uniseg.NewGraphemes(s)
     for g.Next() {
         var chWidth int
         for _, r := range g.Runes() {
             chWidth = c.RuneWidth(r)
             if chWidth > 0 { break }
         }
         width += chWidth
     }

   The grapheme segmentation (uniseg) and the per-rune width table are
   external: [seg s] is the list of clusters of s, each a list of runes, and
   [rw] is RuneWidth.  Nothing is assumed about them here; the theorems that
   need it state their hypotheses (Spec/Length.v). *)
Section Cells.
  Variable seg : bytes -> list (list Z).
  Variable rw : Z -> nat.

  (* inner loop: the width of the first rune of non-zero width, else 0 *)
  Fixpoint cluster_width (cl : list Z) : nat :=
    match cl with
    | [] => 0
    | r :: rest => let w := rw r in if 0 <? w then w else cluster_width rest
    end.

  Definition string_cells (s : bytes) : nat :=
    fold_left (fun width cl => width + cluster_width cl) (seg s) 0.
End Cells.

(* ---- LongestLineBytes / LongestLineRunes / LongestLineCells: the three Go
   functions are the same text with a different measure [m]:

     ss := Lines(s)
     switch len(ss) { case 0: return 0; case 1: return m(ss[0]) }
     max := 0
     for i := range ss { t := m(ss[i]); if t > max { max = t } }
     return max *)
Definition longest_line_with (m : bytes -> nat) (s : bytes) : res nat :=
  bind (lines s) (fun ss =>
  match length ss with
  | 0 => Ok 0
  | 1 => bind (idx ss 0) (fun l => Ok (m l))
  | _ =>
      fold_left
        (fun acc i =>
           bind acc (fun mx =>
           bind (idx ss i) (fun l =>
           let t := m l in Ok (if mx <? t then t else mx))))
        (seq 0 (length ss)) (Ok 0)
  end).

Definition longest_line_bytes (s : bytes) : res nat := longest_line_with string_bytes s.
Definition longest_line_runes (s : bytes) : res nat := longest_line_with string_runes s.
Definition longest_line_cells (seg : bytes -> list (list Z)) (rw : Z -> nat) (s : bytes) : res nat :=
  longest_line_with (string_cells seg rw) s.
