(* A process, as far as cells go: the cells it has made so far (in order) and
   the current state of every object.  Nothing else - cell.go has no
   package-level state, so a cell is made and updated from its own item and
   the objects' current state alone.  This is the model side of the harness's
   "items that went first" and "a process of its own" cases (harness/c01.go,
   c01_more.go): whatever a process did to other cells before, NewCell and
   Update behave as on the first day. *)
From Tab Require Export Model.Cell.

Inductive pop :=
| PNew (it : item)       (* cells = append(cells, NewCell(item)) *)
| PUpdate (k : nat)      (* cells[k].Update(); no such cell: nothing happens *)
| PMutate (e' : env).    (* the caller changes its objects behind the cells' back *)

Record pstate := mkP { p_env : env; p_cells : list cell }.

Fixpoint upd_nth {A} (f : A -> A) (k : nat) (l : list A) : list A :=
  match l, k with
  | [], _ => []
  | x :: r, O => f x :: r
  | x :: r, S k' => x :: upd_nth f k' r
  end.

Section Proc.
  Variable W : bytes -> nat.

  Definition pstep (st : pstate) (o : pop) : pstate :=
    match o with
    | PNew it => mkP (p_env st) (p_cells st ++ [new_cell W (p_env st) it])
    | PUpdate k => mkP (p_env st) (upd_nth (update W (p_env st)) k (p_cells st))
    | PMutate e' => mkP e' (p_cells st)
    end.

  Definition prun (e0 : env) (h : list pop) : pstate := fold_left pstep h (mkP e0 []).
End Proc.
