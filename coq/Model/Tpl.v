(* The HTML renderer's template AS DATA, and an interpreter for it.

   html/html.go hands one string constant to html/template.  Model/Html.v is
   the hand translation of that template into Gallina functions, which the
   C06 theorems are about.  Here the template itself is a value: the tree the
   library's own parser (text/template/parse, trim markers applied) makes of
   the string, with every pipeline kept in the parser's canonical spelling -
   the harness reads it from the SOURCE of the repository under test on every
   run (harness/htmltpl.go) - and [tpl_run] executes such a tree the way
   text/template + html/template do, as far as this template goes:

   * text nodes are copied; {{with}} / {{if}} test their pipeline for
     emptiness / truth; {{with}} and {{range}} rebind dot; {{range $i, $row :=
     Rows}} also binds the two variables; no {{else}};
   * the pipelines are the ones the wrapper's data and FuncMap give meaning to
     (.Class .Id .Caption .HaveRowClass $.HaveRowClass . Headers Rows
     `CellsOf $row` `RowClass 0` `RowClass (OnePlus $i)`
     `$row.IsSeparator | not`); any other spelling is an execution error;
   * html/template's contextual escaping: the context of an action is decided
     by the template TEXT before it (inside a tag, inside a double-quoted
     attribute value, or in element content), never by data; a string in
     content goes through the HTML escaper, a string or an HTMLAttr in a quoted
     attribute value through the attribute escaper.

   Proofs/TplProofs.v: for the template this file records ([model_template])
   the interpretation IS Model/Html.v's html_exec, for every input.  Each run
   checks that the template found in the source is that very tree. *)
From Tab Require Export Model.Html.

Inductive tnode :=
| NText (s : bytes)
| NAction (p : bytes)
| NWith (p : bytes) (body : list tnode)
| NIf (p : bytes) (body : list tnode)
| NRange (p : bytes) (body : list tnode).

(* run-time values *)
Inductive tval :=
| VData                         (* the struct handed to Execute *)
| VStr (s : bytes)
| VAttr (s : bytes)             (* template.HTMLAttr: what the row-class generator returns *)
| VBool (b : bool)
| VStrs (l : list bytes)        (* []string *)
| VRows (l : list vrow)         (* []*tabular.Row *)
| VRow (r : vrow).

Record tenv := mkTEnv { e_dot : tval; e_i : nat; e_row : option vrow }.

(* html/template's context, as far as this template needs it *)
Inductive hctx := CText | CTag | CAttr.
Definition ctx_byte (c : hctx) (b : N) : hctx :=
  match c with
  | CText => if N.eqb b 60 then CTag else CText                                    (* < *)
  | CTag => if N.eqb b 62 then CText else if N.eqb b 34 then CAttr else CTag       (* >, dquote *)
  | CAttr => if N.eqb b 34 then CTag else CAttr
  end.
Definition ctx_after (c : hctx) (s : bytes) : hctx := fold_left ctx_byte s c.

Record tstate := mkTS { s_out : bytes; s_calls : list nat; s_rcs : list bytes; s_ctx : hctx }.

(* the canonical spellings *)
Module P.
  Import Coq.Strings.String.
  Local Open Scope string_scope.
  Local Notation lit s := (bytes_of_string s) (only parsing).
  Definition dot      := Eval vm_compute in lit ".".
  Definition class    := Eval vm_compute in lit ".Class".
  Definition id       := Eval vm_compute in lit ".Id".
  Definition caption  := Eval vm_compute in lit ".Caption".
  Definition have     := Eval vm_compute in lit ".HaveRowClass".
  Definition have_top := Eval vm_compute in lit "$.HaveRowClass".
  Definition rc0      := Eval vm_compute in lit "RowClass 0".
  Definition rci      := Eval vm_compute in lit "RowClass (OnePlus $i)".
  Definition headers  := Eval vm_compute in lit "Headers".
  Definition rows     := Eval vm_compute in lit "$i, $row := Rows".
  Definition cellsof  := Eval vm_compute in lit "CellsOf $row".
  Definition notsep   := Eval vm_compute in lit "$row.IsSeparator | not".
End P.

Section Exec.
  Variable x : html_in.

  (* one generator call: consumes its next scripted return value *)
  Definition call_rc (n : nat) (st : tstate) : res (tval * tstate) :=
    match s_rcs st with
    | [] => Panic
    | c :: rest => Ok (VAttr c, mkTS (s_out st) (s_calls st ++ [n]) rest (s_ctx st))
    end.

  Definition field_of (env : tenv) (v : tval) : res tval :=
    match e_dot env with VData => Ok v | _ => Err end.

  Definition eval (env : tenv) (st : tstate) (p : bytes) : res (tval * tstate) :=
    if bytes_eqb p P.dot then Ok (e_dot env, st)
    else if bytes_eqb p P.class then bind (field_of env (VStr (h_class x))) (fun v => Ok (v, st))
    else if bytes_eqb p P.id then bind (field_of env (VStr (h_id x))) (fun v => Ok (v, st))
    else if bytes_eqb p P.caption then bind (field_of env (VStr (h_caption x))) (fun v => Ok (v, st))
    else if bytes_eqb p P.have then bind (field_of env (VBool (h_have_rc x))) (fun v => Ok (v, st))
    else if bytes_eqb p P.have_top then Ok (VBool (h_have_rc x), st)
    else if bytes_eqb p P.rc0 then call_rc 0 st
    else if bytes_eqb p P.rci then call_rc (S (e_i env)) st
    else if bytes_eqb p P.headers then Ok (VStrs (header_texts (h_view x)), st)
    else if bytes_eqb p P.rows then Ok (VRows (v_rows (h_view x)), st)
    else if bytes_eqb p P.cellsof then
      match e_row env with
      | Some (Some cells) => Ok (VStrs (row_texts cells), st)
      | Some None => Ok (VStrs [], st)             (* Cells() of a separator is nil *)
      | None => Err
      end
    else if bytes_eqb p P.notsep then
      match e_row env with
      | Some (Some _) => Ok (VBool true, st)
      | Some None => Ok (VBool false, st)
      | None => Err
      end
    else Err.

  (* text/template's truth: the zero value of the type is false *)
  Definition truthy (v : tval) : bool :=
    match v with
    | VData => true
    | VStr s | VAttr s => match s with [] => false | _ => true end
    | VBool b => b
    | VStrs l => negb (match l with [] => true | _ => false end)
    | VRows l => negb (match l with [] => true | _ => false end)
    | VRow _ => true
    end.

  (* {{pipeline}}: print the value through the escaper its context selects *)
  Definition emit (v : tval) (st : tstate) : res tstate :=
    match s_ctx st, v with
    | CText, VStr s => Ok (mkTS (s_out st ++ html_escape s) (s_calls st) (s_rcs st) (s_ctx st))
    | CAttr, VStr s | CAttr, VAttr s => Ok (mkTS (s_out st ++ attr_escape s) (s_calls st) (s_rcs st) (s_ctx st))
    | _, _ => Err
    end.

  Definition put_text (s : bytes) (st : tstate) : tstate :=
    mkTS (s_out st ++ s) (s_calls st) (s_rcs st) (ctx_after (s_ctx st) s).

  (* {{range}} over a []string rebinds dot; over the rows it also binds $i, $row *)
  Fixpoint each_str (run : tenv -> tstate -> res tstate) (env : tenv) (l : list bytes) (st : tstate) : res tstate :=
    match l with
    | [] => Ok st
    | s :: r => bind (run (mkTEnv (VStr s) (e_i env) (e_row env)) st) (each_str run env r)
    end.

  Fixpoint each_row (run : tenv -> tstate -> res tstate) (i : nat) (l : list vrow) (st : tstate) : res tstate :=
    match l with
    | [] => Ok st
    | row :: r => bind (run (mkTEnv (VRow row) i (Some row)) st) (each_row run (S i) r)
    end.

  (* one node; run_body executes a nested node list *)
  Definition step (run_body : list tnode -> tenv -> tstate -> res tstate)
             (n : tnode) (env : tenv) (st : tstate) : res tstate :=
    match n with
    | NText s => Ok (put_text s st)
    | NAction p => bind (eval env st p) (fun '(v, st1) => emit v st1)
    | NWith p body =>
        bind (eval env st p) (fun '(v, st1) =>
        if truthy v then run_body body (mkTEnv v (e_i env) (e_row env)) st1 else Ok st1)
    | NIf p body =>
        bind (eval env st p) (fun '(v, st1) =>
        if truthy v then run_body body env st1 else Ok st1)
    | NRange p body =>
        bind (eval env st p) (fun '(v, st1) =>
        match v with
        | VStrs l => each_str (run_body body) env l st1
        | VRows l => each_row (run_body body) 0 l st1
        | _ => Err
        end)
    end.

  (* a node list, with d levels of nesting to spare (a deeper template is an
     execution error here) *)
  Fixpoint execd (d : nat) : list tnode -> tenv -> tstate -> res tstate :=
    match d with
    | 0 => fun _ _ _ => Err
    | S d' =>
        fix go (ns : list tnode) (env : tenv) (st : tstate) {struct ns} : res tstate :=
          match ns with
          | [] => Ok st
          | n :: r => bind (step (execd d') n env st) (fun st' => go r env st')
          end
    end.

  (* Execute(w, data): output and the row numbers the generator was called with *)
  Definition tpl_depth : nat := 16.
  Definition tpl_run (tpl : list tnode) : res (bytes * list nat) :=
    bind (execd tpl_depth tpl (mkTEnv VData 0 None) (mkTS [] [] (h_rcs x) CText))
         (fun st => Ok (s_out st, s_calls st)).
End Exec.

(* decidable equality of templates *)
Fixpoint tnode_eqb (a b : tnode) {struct a} : bool :=
  let list_eq :=
    fix go (l1 l2 : list tnode) {struct l1} : bool :=
      match l1, l2 with
      | [], [] => true
      | x :: r1, y :: r2 => tnode_eqb x y && go r1 r2
      | _, _ => false
      end in
  match a, b with
  | NText s, NText t => bytes_eqb s t
  | NAction p, NAction q => bytes_eqb p q
  | NWith p b1, NWith q b2 => bytes_eqb p q && list_eq b1 b2
  | NIf p b1, NIf q b2 => bytes_eqb p q && list_eq b1 b2
  | NRange p b1, NRange q b2 => bytes_eqb p q && list_eq b1 b2
  | _, _ => false
  end.
Fixpoint tnodes_eqb (l1 l2 : list tnode) : bool :=
  match l1, l2 with
  | [], [] => true
  | x :: r1, y :: r2 => tnode_eqb x y && tnodes_eqb r1 r2
  | _, _ => false
  end.

(* ---- the template of html/html.go as the theorems know it (written by
   tools/gen_tpl_model.sh from the source; Proofs/TplProofs.v proves that its
   interpretation is html_exec; every run compares the source with it) *)
Module T.
  Definition cells (open close : bytes) : list tnode := [NText open; NAction P.dot; NText close].
  Definition cls (p : bytes) : list tnode := [NText Tpl.class_open; NAction p; NText Tpl.quote].
End T.

Definition model_template : list tnode :=
  [ NText Tpl.table_open;
    NWith P.class [NText Tpl.class_open; NAction P.dot; NText Tpl.quote];
    NWith P.id [NText Tpl.id_open; NAction P.dot; NText Tpl.quote];
    NText Tpl.gt;
    NWith P.caption [NText Tpl.caption_open; NAction P.dot; NText Tpl.caption_close];
    NText Tpl.thead_tr;
    NIf P.have (T.cls P.rc0);
    NText Tpl.gt;
    NRange P.headers (T.cells Tpl.th_open Tpl.th_close);
    NText Tpl.thead_end;
    NRange P.rows
      [NIf P.notsep
         [NText Tpl.tr_open;
          NIf P.have_top (T.cls P.rci);
          NText Tpl.gt;
          NRange P.cellsof (T.cells Tpl.td_open Tpl.td_close);
          NText Tpl.tr_close]];
    NText Tpl.table_end ].
