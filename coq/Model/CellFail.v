(* Cell.Update when the item's own text method panics (C18).

   Update has a pointer receiver and works in place:

     c.empty = false; c.mustCalc = false
     switch o := c.raw.(type) { ... case Stringer: c.str = o.String() ...

   The nil, Cell, string and rune arms call nothing of the item; the default
   arm goes through fmt, which recovers a panicking method itself.  The three
   method arms call foreign code.  When that call panics, the assignment to
   c.str never happens and the measuring code below the switch is never
   reached: the only thing that has happened to the cell is c.empty = false.
   The panic then travels on to the caller of Update (NewCell hands back no
   cell at all).  [fails] says that the item's text method panics at this
   call; it is a fact about the item, like the rest of [obj]. *)
From Tab Require Export Model.Cell.

Definition has_text_method (o : obj) : bool :=
  match m_string o, m_gostring o, m_error o with
  | None, None, None => false
  | _, _, _ => true
  end.

(* does Update call a method of the item to obtain the text? *)
Definition calls_text_method (e : env) (raw : item) : bool :=
  match raw with
  | IObj id => has_text_method (e id)
  | _ => false
  end.

(* the cell as a panic in the item's text method leaves it *)
Definition interrupted (c : cell) : cell :=
  mkCell (c_raw c) (c_str c) (c_width c) (c_height c) false.

Section UpdateF.
  Variable W : bytes -> nat.

  (* what the caller of Update sees *)
  Definition update_fr (e : env) (fails : bool) (c : cell) : res cell :=
    if fails && calls_text_method e (c_raw c) then Panic else update_r W e c.

  (* the cell as the call leaves it, whether it returned or panicked *)
  Definition update_f (e : env) (fails : bool) (c : cell) : cell :=
    if fails && calls_text_method e (c_raw c) then interrupted c else update W e c.

  (* NewCell: c := Cell{raw: object}; c.Update(); return c - a panic leaves the
     caller without a cell *)
  Definition new_cell_fr (e : env) (fails : bool) (it : item) : res cell :=
    update_fr e fails (mkCell it [] 0 0 false).

  (* a long-lived cell: one Update() per step, each under the item's state at
     that moment, failing or not *)
  Definition ustep := (env * bool)%type.
  Definition run_updates (c : cell) (h : list ustep) : cell :=
    fold_left (fun c s => update_f (fst s) (snd s) c) h c.
End UpdateF.
