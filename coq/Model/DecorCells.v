(* C19, round 6: a Decoration as the application writes it - its string fields -
   below the abstract [decoration] of Model/Registry.v.

   texttable/decoration/box_drawing.go documents the fields: "if non-empty, the
   contents must render as one terminal cell width.  Multiple runes are allowed
   (combining chars, etc)".  Nothing in the registry, in SetDecorationNamed, in
   auto.Wrap or in the render guard looks INSIDE a field: the only observation
   is the struct comparison with EmptyDecoration (the zero value: every string
   field "", every bool field false), and the emitter (emit.go, commonTemplateLine) only concatenates and
   repeats the strings.  [abstract] is that observation; [template_line] is
   commonTemplateLine for a boxed decoration, without the end-of-line string. *)
From Tab Require Export Model.Auto.

Record cdecor := mkCD {
  cd_flags : list bool;      (* the bool fields (the unexported isBoxless that NoBox() sets), in the struct's order *)
  cd_fields : list bytes }.  (* the string fields, in the struct's order *)

Definition field_empty (f : bytes) : bool := match f with [] => true | _ => false end.

(* d == decoration.EmptyDecoration *)
Definition cd_is_empty (d : cdecor) : bool := forallb negb (cd_flags d) && forallb field_empty (cd_fields d).

(* what the registry, the lookup and the guard see of a concrete value (id: which value it is) *)
Definition abstract (id : N) (d : cdecor) : decoration :=
  if cd_is_empty d then DEmpty else DVal id true.

(* utf8.RuneCountInString on valid UTF-8: the bytes that are not continuation bytes *)
Local Open Scope N_scope.
Definition is_cont (b : N) : bool := (128 <=? b) && (b <? 192).
Local Close Scope N_scope.
Definition rune_count (s : bytes) : nat := length (filter (fun b => negb (is_cont b)) s).

(* strings.Repeat *)
Fixpoint str_repeat (piece : bytes) (n : nat) : bytes :=
  match n with 0 => [] | S k => piece ++ str_repeat piece k end.

(* commonTemplateLine(left, horiz, cross, right) over the column widths:
     fields = [left]; for each width: Repeat(horiz, 2+w), cross; the last cross replaced by right
     (no column: [left, right]); strings.Join(fields, "") *)
Fixpoint template_tail (horiz cross right : bytes) (widths : list nat) : bytes :=
  match widths with
  | [] => right
  | [w] => str_repeat horiz (2 + w) ++ right
  | w :: r => str_repeat horiz (2 + w) ++ cross ++ template_tail horiz cross right r
  end.
Definition template_line (left horiz cross right : bytes) (widths : list nat) : bytes :=
  left ++ template_tail horiz cross right widths.
