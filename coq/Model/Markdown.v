(* Model of markdown/markdown.go (as repaired: D4 zero-cell rows, D6 column-0
   alignment default, D18 checked opener write) and markdown/properties.go.
   One function per Go function, same loop structure.  RenderTo yields the
   list of Write payloads it issues (io.WriteString / fmt.Fprint = one Write
   each); Render is their concatenation.

   Display width of the *escaped* text (length.StringCells(baseline) in
   mdPaddedCellEscape) is an oracle W : bytes -> nat (go-runewidth).  The
   width a cell asks for is Cell.TerminalCellWidth() (vc_tw), which is what
   the widthSetter render callback stores under propWidth and what
   CellPropertyExtractWidth reads back. *)
From Tab Require Export Model.View.

Definition PIPE  : N := 124.
Definition AMP   : N := 38.
Definition LTc   : N := 60.
Definition GTc   : N := 62.
Definition SQ    : N := 39.   (* single quote *)
Definition DASH  : N := 45.
Definition COLON : N := 58.

(* ---- mdCellEscape:
     strings.Replace(strings.Replace(html.EscapeString(in), "|", "&#x7c;", -1), "\n", "&#x0a;", -1)
   html.EscapeString is a strings.Replacer over five single bytes; the two
   strings.Replace calls have a one-byte pattern: three byte-wise passes. *)
Definition ent_amp  : bytes := [38%N; 97%N; 109%N; 112%N; 59%N].      (* &amp;  *)
Definition ent_sq   : bytes := [38%N; 35%N; 51%N; 57%N; 59%N].        (* &#39;  *)
Definition ent_lt   : bytes := [38%N; 108%N; 116%N; 59%N].          (* &lt;   *)
Definition ent_gt   : bytes := [38%N; 103%N; 116%N; 59%N].          (* &gt;   *)
Definition ent_dq   : bytes := [38%N; 35%N; 51%N; 52%N; 59%N].        (* &#34;  *)
Definition ent_pipe : bytes := [38%N; 35%N; 120%N; 55%N; 99%N; 59%N].   (* &#x7c; *)
Definition ent_lf   : bytes := [38%N; 35%N; 120%N; 48%N; 97%N; 59%N].   (* &#x0a; *)

Definition html_esc_byte (b : N) : bytes :=
  if N.eqb b AMP then ent_amp
  else if N.eqb b SQ then ent_sq
  else if N.eqb b LTc then ent_lt
  else if N.eqb b GTc then ent_gt
  else if N.eqb b DQ then ent_dq
  else [b].

Definition html_escape (s : bytes) : bytes := flat_map html_esc_byte s.

(* strings.Replace(s, string(old), new, -1) for a one-byte pattern *)
Definition replace_byte (old : N) (new : bytes) (s : bytes) : bytes :=
  flat_map (fun b => if N.eqb b old then new else [b]) s.

Definition md_escape (s : bytes) : bytes :=
  replace_byte LF ent_lf (replace_byte PIPE ent_pipe (html_escape s)).

(* ---- the width pass of RenderTo.  widths[i] = ... is a checked index. *)
Fixpoint upd {A} (l : list A) (i : nat) (f : A -> A) : res (list A) :=
  match l, i with
  | [], _ => Panic
  | x :: r, 0 => Ok (f x :: r)
  | x :: r, S k => bind (upd r k f) (fun r' => Ok (x :: r'))
  end.

(* for i := range cells { widths[i] = f(width(cells[i]), widths[i]) } *)
Fixpoint widths_row (f : Z -> Z -> Z) (ws : list Z) (i : nat) (cells : list vcell) : res (list Z) :=
  match cells with
  | [] => Ok ws
  | c :: r => bind (upd ws i (f (vc_tw c))) (fun ws' => widths_row f ws' (S i) r)
  end.

Definition w_set (w _old : Z) : Z := w.                                   (* header loop *)
Definition w_max (w old : Z) : Z := if Z.ltb old w then w else old.       (* body loop: if w > widths[i] *)

Fixpoint widths_rows (ncols : nat) (ws : list Z) (rows : list vrow) : res (list Z) :=
  match rows with
  | [] => Ok ws
  | None :: rest => widths_rows ncols ws rest                             (* separator: continue *)
  | Some cells :: rest =>
      if ncols <? length cells then Err                                   (* "structural bug" *)
      else bind (widths_row w_max ws 0 cells) (fun ws' => widths_rows ncols ws' rest)
  end.

(* ---- delimiter ("control") row.
   al = the alignment property of column 0, 1, ..., ncols.  Column i+1's own
   setting, else column 0's. *)
Definition eff_align (al : list (option align)) (i : nat) : res (option align) :=
  bind (idx al 0) (fun dflt =>
  bind (idx al (S i)) (fun own =>
  Ok (match own with Some a => Some a | None => dflt end))).

Definition md_control_content (width : Z) (a : option align) : bytes :=
  let w := Z.to_nat (if Z.ltb width 3 then 3%Z else width) in
  match a with
  | None | Some ALeft => [SP] ++ repeat DASH w ++ [SP]
  | Some ARight       => [SP] ++ repeat DASH w ++ [COLON]
  | Some ACenter      => [COLON] ++ repeat DASH w ++ [COLON]
  end.

(* for i := 0; i < columnCount; i++ : the control cells and alignments[] *)
Fixpoint md_control (al : list (option align)) (ws : list Z) (i n : nat)
  : res (list bytes * list (option align)) :=
  match n with
  | 0 => Ok ([], [])
  | S k =>
      bind (idx ws i) (fun w =>
      bind (eff_align al i) (fun a =>
      bind (md_control al ws (S i) k) (fun '(cs, als) =>
      Ok (md_control_content w a :: cs, a :: als))))
  end.

Section WithWidth.
  Variable W : bytes -> nat.      (* length.StringCells *)

  (* mdPaddedCellEscape(cells, widths, alignments, i) *)
  Definition md_padded (cells : list bytes) (ws : list Z) (als : list (option align)) (i : nat) : res bytes :=
    bind (idx cells i) (fun c =>
    let baseline := md_escape c in
    bind (idx ws i) (fun want =>
    let have := Z.of_nat (W baseline) in
    if Z.leb want have then Ok baseline else
    let pad := Z.to_nat (want - have) in
    bind (idx als i) (fun a =>
    match a with
    | None | Some ALeft => Ok (baseline ++ repeat SP pad)
    | Some ARight => Ok (repeat SP pad ++ baseline)
    | Some ACenter =>
        let left := Nat.div pad 2 in
        let right := pad - left in
        Ok (repeat SP left ++ baseline ++ repeat SP right)
    end))).

  (* for i = i0; i < i0 + n; i++ { Fprint(w, padded(i), bar) } *)
  Fixpoint md_emit_loop (cells : list bytes) (ws : list Z) (als : list (option align))
           (bar : bytes) (i n : nat) : res (list bytes) :=
    match n with
    | 0 => Ok []
    | S k =>
        bind (md_padded cells ws als i) (fun p =>
        bind (md_emit_loop cells ws als bar (S i) k) (fun r =>
        Ok ((p ++ bar) :: r)))
    end.

  (* emitRow *)
  Definition md_emit_row (ncols : nat) (cells : list bytes) (ws : list Z)
             (als : list (option align)) (addPads : bool) : res (list bytes) :=
    let max := length cells in
    if ncols <? max then Err else
    let barLeft   := if addPads then [PIPE; SP] else [PIPE] in
    let barRight  := if addPads then [SP; PIPE] else [PIPE] in
    let barCenter := if addPads then [SP; PIPE; SP] else [PIPE] in
    bind (md_emit_loop cells ws als barCenter 0 (max - 1)) (fun w1 =>
    bind (if 0 <? max
          then bind (md_padded cells ws als (max - 1)) (fun p => Ok ([p ++ barRight], max))
          else if 0 <? ncols then Ok ([[PIPE]], 1) else Ok ([], 0))
         (fun '(w2, i) =>
    Ok ([barLeft] ++ w1 ++ w2 ++ repeat [SP; PIPE] (ncols - i) ++ [[LF]]))).

  Fixpoint md_emit_rows (ncols : nat) (rows : list vrow) (ws : list Z)
           (als : list (option align)) : res (list bytes) :=
    match rows with
    | [] => Ok []
    | None :: rest => md_emit_rows ncols rest ws als
    | Some cells :: rest =>
        bind (md_emit_row ncols (row_texts cells) ws als true) (fun w =>
        bind (md_emit_rows ncols rest ws als) (fun r => Ok (w ++ r)))
    end.

  (* RenderTo as the list of writes *)
  Definition md_render_writes (v : view) : res (list bytes) :=
    let n := v_ncols v in
    if n <? 1 then Err else
    match v_header v with
    | None => Err
    | Some h =>
        if n <? length h then Err else
        bind (widths_row w_set (repeat 0%Z n) 0 h) (fun ws0 =>
        bind (widths_rows n ws0 (v_rows v)) (fun ws =>
        bind (md_control (v_align v) ws 0 n) (fun '(ctl, als) =>
        bind (md_emit_row n (row_texts h) ws als true) (fun w1 =>
        bind (md_emit_row n ctl ws als false) (fun w2 =>
        bind (md_emit_rows n (v_rows v) ws als) (fun w3 =>
        Ok (w1 ++ w2 ++ w3)))))))
    end.

  Definition md_render (v : view) : res bytes :=
    bind (md_render_writes v) (fun ws => Ok (concat ws)).
End WithWidth.
