(* Rendering a table whose items are NOT in the state their cells last read.

   Model/TableMut.v runs the whole-table machine over cells that remember when
   their item was last read (building calls, MMutate = the application changes
   an object in place, MUpdateAt / MUpdateHeader = Cell.Update()).
   Model/Wrap.v says what the five Wraps and a render pass do to ONE table
   whose view is given.  This file puts the two together: a program is a list
   of

     RProg o     a step of the application (building call, column setting,
                 mutation of an item, Update of a cell)
     RWrap k     X.Wrap(t) / X.New()
     RRender k   Render / RenderTo through a wrapper of kind k

   and the state is the mutation machine's state plus the wrapper machine's
   private part (registered measuring callbacks, freshness of the private
   measurements).  A render pass is Wrap.v's: it re-measures for every
   registered callback - FROM WHAT THE CELLS HAVE CACHED - and emits [out k]
   of the view; it never makes a cell read its item again (only Update does
   that, and only the application calls Update): [rstep] leaves [r_m] alone on
   RWrap and RRender.  What a renderer meets is [mview]: text, emptiness,
   width, height as cached at the cell's last read; JSON encoding and method
   set of the item as they are now. *)
From Tab Require Export Model.TableMut.
From Tab Require Model.Wrap.

Inductive rop :=
| RProg (o : mop)
| RWrap (k : Wrap.kind)
| RRender (k : Wrap.kind).

(* the application's own steps, renders and wraps erased *)
Fixpoint prog_of (p : list rop) : list mop :=
  match p with
  | [] => []
  | RProg o :: r => o :: prog_of r
  | _ :: r => prog_of r
  end.

(* a step that is not a step of the application at all *)
Definition quiet (o : rop) : bool := match o with RProg _ => false | _ => true end.

(* ... or at most a change of an item's state behind the table's back *)
Definition no_read (o : rop) : bool :=
  match o with
  | RProg (MMutate _ _) => true
  | RProg _ => false
  | _ => true
  end.

Definition rwrapped (k : Wrap.kind) (p : list rop) : Prop := In (RWrap k) p.

Section RenderMut.
  Variable W : bytes -> nat.
  Variable json : item -> option bytes.
  Variable out : Wrap.kind -> view -> res bytes.
  Variable degraded : Wrap.kind -> Wrap.mstate -> view -> res bytes.

  Record rstate := mkR { r_m : mstate; r_w : Wrap.tstate unit }.

  Definition rinit (e : env) : rstate := mkR (minit e) (Wrap.init (mview W json (minit e)) tt).

  Definition rstep (s : rstate) (o : rop) : rstate :=
    match o with
    | RProg p => let m' := mstep (r_m s) p in mkR m' (Wrap.step (r_w s) (Wrap.OBuild (mview W json m') tt))
    | RWrap k => mkR (r_m s) (Wrap.step (r_w s) (Wrap.OWrap k))
    | RRender k => mkR (r_m s) (Wrap.step (r_w s) (Wrap.ORender k))
    end.

  Definition rrun (s : rstate) (p : list rop) : rstate := fold_left rstep p s.

  (* what a render through a wrapper of kind k returns in state s *)
  Definition rrender (s : rstate) (k : Wrap.kind) : res bytes := Wrap.render out degraded (r_w s) k.

  (* every render of a program with what it returned, in order *)
  Fixpoint rlog (s : rstate) (p : list rop) : list (Wrap.kind * res bytes) :=
    match p with
    | [] => []
    | RRender k :: r => (k, rrender s k) :: rlog (rstep s (RRender k)) r
    | o :: r => rlog (rstep s o) r
    end.

  (* the wrapper machine looks at the table the mutation machine holds *)
  Definition consistent (s : rstate) : Prop := Wrap.st_view (r_w s) = mview W json (r_m s).

  (* a format that reads of a cell only what the cell has cached (text,
     emptiness, sizes) - CSV, HTML, Markdown, the text table; not JSON *)
  Definition cache_only (k : Wrap.kind) : Prop :=
    forall v v', view_cached v = view_cached v' -> out k v = out k v'.
End RenderMut.
