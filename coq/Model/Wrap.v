(* Model of the rendering wrappers around one core table (csv/html/json/
   markdown/texttable Wrap and New, the package-level Render/RenderTo
   functions, auto.Wrap/New/Render) and of what a render pass does to the
   table's state.

   Two formats (text, Markdown) lay cells out from per-cell measurements which
   a render-time callback stores on the cells as private properties.  That
   callback is registered on the core table by the format's Wrap (with the
   table it was handed as the owner; since the repair of D9 a wrapper stands
   for its table).  Every render pass (InvokeRenderCallbacks) runs all
   registered callbacks over all cells.  The other three formats read cell
   texts only.

   The renderer bodies are parameters: [out k v] is what format k emits for
   view v when its measurements (if it needs any) are fresh; [degraded k m v]
   is whatever it emits when they are absent or stale.  The theorems hold for
   every choice of them; Model/Csv.v etc. are the instances. *)
From Tab Require Export Model.View.

Inductive kind := KCsv | KHtml | KJson | KMd | KText.

Definition kind_eqb (a b : kind) : bool :=
  match a, b with
  | KCsv, KCsv | KHtml, KHtml | KJson, KJson | KMd, KMd | KText, KText => true
  | _, _ => false
  end.

Definition measuring (k : kind) : bool := match k with KMd | KText => true | _ => false end.

Inductive mstate := MAbsent | MStale | MFresh.
Definition stale_of (m : mstate) : mstate := match m with MFresh => MStale | x => x end.

Section Wrap.
  Variable U : Type.                                  (* everything else a caller can observe: user properties, errors, locations *)
  Variable out : kind -> view -> res bytes.
  Variable degraded : kind -> mstate -> view -> res bytes.

  Record tstate := mkT {
    st_view : view;
    st_user : U;
    st_cbs  : list kind;       (* measuring callbacks registered on the core table, in order *)
    st_text : mstate;          (* texttable's private per-cell properties *)
    st_md   : mstate           (* markdown's private per-cell property *)
  }.

  Inductive op :=
  | OBuild (v : view) (u : U)   (* any sequence of building calls: new view, new user-visible state *)
  | OWrap (k : kind)            (* X.Wrap(t) for t the core table or any wrapper around it; X.New() = New + Wrap *)
  | ORender (k : kind).         (* Render/RenderTo through a wrapper of kind k *)

  Definition init (v : view) (u : U) : tstate := mkT v u [] MAbsent MAbsent.

  (* InvokeRenderCallbacks: every registered measuring callback re-measures every cell *)
  Definition invoke (s : tstate) : tstate :=
    mkT (st_view s) (st_user s) (st_cbs s)
        (if existsb (kind_eqb KText) (st_cbs s) then MFresh else st_text s)
        (if existsb (kind_eqb KMd) (st_cbs s) then MFresh else st_md s).

  Definition step (s : tstate) (o : op) : tstate :=
    match o with
    | OBuild v u => mkT v u (st_cbs s) (stale_of (st_text s)) (stale_of (st_md s))
    | OWrap k => if measuring k then mkT (st_view s) (st_user s) (st_cbs s ++ [k]) (st_text s) (st_md s) else s
    | ORender _ => invoke s
    end.

  (* what a render through a wrapper of kind k returns in state s *)
  Definition render (s : tstate) (k : kind) : res bytes :=
    let s' := invoke s in
    match k with
    | KText => match st_text s' with MFresh => out k (st_view s') | m => degraded k m (st_view s') end
    | KMd => match st_md s' with MFresh => out k (st_view s') | m => degraded k m (st_view s') end
    | _ => out k (st_view s')
    end.

  Definition run (s : tstate) (ops : list op) : tstate := fold_left step ops s.

  (* a wrapper of kind k has been made *)
  Definition wrapped (k : kind) (ops : list op) : Prop := In (OWrap k) ops.

  (* the caller-observable part: everything but the private measurements and the callback list *)
  Definition observable (s : tstate) : view * U := (st_view s, st_user s).

  Definition is_render (o : op) : bool := match o with ORender _ => true | _ => false end.
  Definition is_build (o : op) : bool := match o with OBuild _ _ => true | _ => false end.
End Wrap.

Arguments mkT {U}.
Arguments st_view {U}.
Arguments st_user {U}.
Arguments st_cbs {U}.
Arguments st_text {U}.
Arguments st_md {U}.
Arguments OBuild {U}.
Arguments OWrap {U}.
Arguments ORender {U}.
Arguments init {U}.
Arguments invoke {U}.
Arguments step {U}.
Arguments render {U}.
Arguments run {U}.
Arguments wrapped {U}.
Arguments observable {U}.
Arguments is_render {U}.
Arguments is_build {U}.
