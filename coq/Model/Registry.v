(* Model of texttable/decoration/registry.go, texttable/style.go and the
   EmptyDecoration guard of texttable/render.go (shared by C17 and C19).

   A decoration is abstract: what the registry, SetDecorationNamed and the
   render guard can observe of a Decoration value is (a) whether it equals
   EmptyDecoration (Go struct ==) and (b) which value it is.  [DVal id usable]
   is a non-empty decoration identified by [id]; [usable] records "complete
   (all 22 glyph fields non-empty, as Populate guarantees) or boxless" (DESIGN
   section 13, item 7), which is what the rest of the text renderer needs.

   The registry (a Go map guarded by a mutex) is an association list with
   overwrite.  Every operation is one atomic step: that is the mutex's doing
   and is validated by -race runs, not proved (C17 is partial for that). *)
From Tab Require Export Base.Bytes.

Inductive decoration :=
| DEmpty                                  (* decoration.EmptyDecoration *)
| DVal (id : N) (usable : bool).

Definition dec_eqb (a b : decoration) : bool :=
  match a, b with
  | DEmpty, DEmpty => true
  | DVal i u, DVal j v => N.eqb i j && Bool.eqb u v
  | _, _ => false
  end.

(* d == decoration.EmptyDecoration *)
Definition dec_is_empty (d : decoration) : bool :=
  match d with DEmpty => true | DVal _ _ => false end.

Definition dec_usable (d : decoration) : bool :=
  match d with DEmpty => false | DVal _ u => u end.

Definition registry := list (bytes * decoration).

(* registry.table[name] = decor *)
Fixpoint register (n : bytes) (d : decoration) (reg : registry) : registry :=
  match reg with
  | [] => [(n, d)]
  | (k, v) :: r => if bytes_eqb k n then (n, d) :: r else (k, v) :: register n d r
  end.

(* Named: d, ok := registry.table[n]; if ok { return d }; return EmptyDecoration *)
Fixpoint named (reg : registry) (n : bytes) : decoration :=
  match reg with
  | [] => DEmpty
  | (k, v) :: r => if bytes_eqb k n then v else named r n
  end.

(* Go's string order: byte-wise lexicographic *)
Fixpoint bytes_leb (a b : bytes) : bool :=
  match a, b with
  | [], _ => true
  | _ :: _, [] => false
  | x :: a', y :: b' => if N.ltb x y then true else if N.eqb x y then bytes_leb a' b' else false
  end.

(* sort.Strings, modelled as insertion sort; validated on every run against
   the implementation's listing *)
Fixpoint insert (x : bytes) (l : list bytes) : list bytes :=
  match l with
  | [] => [x]
  | y :: r => if bytes_leb x y then x :: l else y :: insert x r
  end.

Fixpoint isort (l : list bytes) : list bytes :=
  match l with
  | [] => []
  | x :: r => insert x (isort r)
  end.

(* RegisteredDecorationNames: the keys, sorted *)
Definition names (reg : registry) : list bytes := isort (map fst reg).

(* auto.ListStyles (modelled here because C17's histories interleave it with
   the registry's own listing):
     l := decoration.RegisteredDecorationNames(); l = append(l, "csv", "html", "json", "markdown"); sort.Strings(l) *)
Local Open Scope N_scope.
Definition s_csv : bytes := [99;115;118].
Definition s_html : bytes := [104;116;109;108].
Definition s_markdown : bytes := [109;97;114;107;100;111;119;110].
Definition s_json : bytes := [106;115;111;110].
Local Close Scope N_scope.
Definition list_styles (reg : registry) : list bytes :=
  isort (names reg ++ [s_csv; s_html; s_json; s_markdown]).

(* ---- texttable: what matters of a TextTable is its decoration *)
Record texttable := mkTT { tt_decor : decoration }.

(* the six documented built-ins are palette entries 1..6 of the harness, in
   the order of styles.go; texttable.Wrap starts from decoration.UTF8BoxHeavy() *)
Definition default_decoration : decoration := DVal 5 true.
Definition text_wrap : texttable := mkTT default_decoration.

(* SetDecorationNamed: stores whatever Named returned; error iff it is Empty *)
Definition set_decoration_named (reg : registry) (n : bytes) (t : texttable) : texttable * bool :=
  let d := named reg n in (mkTT d, dec_is_empty d).

Section Render.
  (* the rest of TextTable.RenderTo on the (fixed) wrapped table, as a function
     of the decoration: C03/C04/C09's business, a parameter here *)
  Variable body : decoration -> res bytes.

  (* RenderTo: if t.decor == decoration.EmptyDecoration { return errors.New(...) } ... *)
  Definition text_render_to (t : texttable) : res bytes :=
    if dec_is_empty (tt_decor t) then Err else body (tt_decor t).

  (* Render: err := t.RenderTo(b); if err != nil { return "", err }; return b.String(), nil
     - the result is (text, error?) *)
  Definition text_render (t : texttable) : res (bytes * bool) :=
    match text_render_to t with
    | Ok b => Ok (b, false)
    | Err => Ok ([], true)
    | Panic => Panic
    end.
End Render.

(* ---- histories.  An action is tagged with its goroutine; the global state is
   the registry plus, per goroutine, the text tables it made (DESIGN section 3,
   "Concurrency"). *)
Inductive op :=
| OReg (n : bytes) (d : decoration)    (* decoration.RegisterDecorationName(n, d) *)
| ONamed (n : bytes)                   (* decoration.Named(n) *)
| ONames                               (* decoration.RegisteredDecorationNames() *)
| OStyles                              (* auto.ListStyles() *)
| OSet (n : bytes)                     (* tt := texttable.Wrap(t); tt.SetDecorationNamed(n); tt.Render() *)
| OAutoNew (n : bytes)                 (* tt := auto.New(n) for a dot-free n that names no sub-package, or
                                          auto.New("texttable." ++ n) for any dot-free n: the same selection through
                                          auto (Props/C19.v, c19_plain_is_set, c19_texttable_qualified), the error
                                          is dropped by auto; tt.Render() *)
| ORender (k : nat)                    (* the k-th table this goroutine made: Render() again *)
| OReSet (k : nat) (n : bytes)         (* the k-th table: SetDecorationNamed(n); Render() *)
| OSetDec (k : nat) (d : decoration).  (* the k-th table: SetDecoration(d); Render() *)

Inductive obs :=
| VUnit
| VDec (d : decoration)
| VNames (l : list bytes)
| VSet (err : bool) (r : res (bytes * bool))
| VRender (r : res (bytes * bool))
| VNone.                               (* no such table *)

Record gstate := mkG { g_reg : registry; g_tabs : nat -> list texttable }.

(* tabs[k] = v (no change when there is no such table) *)
Fixpoint set_nth {A} (k : nat) (v : A) (l : list A) : list A :=
  match l, k with
  | [], _ => []
  | _ :: r, 0 => v :: r
  | x :: r, S j => x :: set_nth j v r
  end.

Definition upd (f : nat -> list texttable) (g : nat) (v : list texttable) : nat -> list texttable :=
  fun x => if Nat.eqb x g then v else f x.

Section Step.
  Variable body : decoration -> res bytes.

  Definition step (st : gstate) (a : nat * op) : gstate * obs :=
    let '(g, o) := a in
    match o with
    | OReg n d => (mkG (register n d (g_reg st)) (g_tabs st), VUnit)
    | ONamed n => (st, VDec (named (g_reg st) n))
    | ONames => (st, VNames (names (g_reg st)))
    | OStyles => (st, VNames (list_styles (g_reg st)))
    | OSet n =>
        let '(t1, err) := set_decoration_named (g_reg st) n text_wrap in
        (mkG (g_reg st) (upd (g_tabs st) g (g_tabs st g ++ [t1])), VSet err (text_render body t1))
    | OAutoNew n =>
        let '(t1, _) := set_decoration_named (g_reg st) n text_wrap in
        (mkG (g_reg st) (upd (g_tabs st) g (g_tabs st g ++ [t1])), VRender (text_render body t1))
    | ORender k =>
        match nth_error (g_tabs st g) k with
        | Some t1 => (st, VRender (text_render body t1))
        | None => (st, VNone)
        end
    | OReSet k n =>
        match nth_error (g_tabs st g) k with
        | Some t0 =>
            let '(t1, err) := set_decoration_named (g_reg st) n t0 in
            (mkG (g_reg st) (upd (g_tabs st) g (set_nth k t1 (g_tabs st g))), VSet err (text_render body t1))
        | None => (st, VNone)
        end
    | OSetDec k d =>
        match nth_error (g_tabs st g) k with
        | Some _ =>
            let t1 := mkTT d in      (* SetDecoration: t.decor = decor *)
            (mkG (g_reg st) (upd (g_tabs st) g (set_nth k t1 (g_tabs st g))), VRender (text_render body t1))
        | None => (st, VNone)
        end
    end.

  Fixpoint run (st : gstate) (tr : list (nat * op)) : list obs :=
    match tr with
    | [] => []
    | a :: r => let '(st', v) := step st a in v :: run st' r
    end.

  Fixpoint final (st : gstate) (tr : list (nat * op)) : gstate :=
    match tr with
    | [] => st
    | a :: r => final (fst (step st a)) r
    end.
End Step.

Definition init_state (reg : registry) : gstate := mkG reg (fun _ => []).

(* all interleavings of per-goroutine programs *)
Inductive is_merge {A : Type} : list (list A) -> list A -> Prop :=
| merge_done : forall ps, Forall (fun p => p = []) ps -> is_merge ps []
| merge_step : forall ps1 a p ps2 tr,
    is_merge (ps1 ++ p :: ps2) tr -> is_merge (ps1 ++ (a :: p) :: ps2) (a :: tr).
