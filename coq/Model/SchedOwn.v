(* C16 - goroutines that REGISTER decorations of their own.

   "In any formats and decorations" includes the decorations an application
   registers for itself: a goroutine that builds its own table may also give it
   a house style, register that style under a name nobody else uses and select
   it by name - all while other goroutines do the same with their names.  The
   registry is then written concurrently, but every key has at most one
   writer, and a goroutine looks up only keys it owns or keys nobody writes
   (the built-in names, names that name nothing).

   This file adds to the interleaving machine of Model/Sched.v the discipline
   under which such programs are still schedule independent:

     owner n = Some t   name n is goroutine t's own (only t registers it)
     owner n = None     nobody registers n while the goroutines run
     visible t n        n is t's own or nobody's

   own_action t a: a RegWrite of t writes one of t's own names, a RegRead of t
   reads a name visible to t, and what t does with a listing (RegNames)
   depends only on which of the names visible to t are listed.

   The registry itself stays abstract (lookup, names, write); what is assumed
   of it are the map laws (reg_laws), which Model/Registry.v's association
   list and the instance used by Run/C16Run.v satisfy. *)
From Tab Require Export Model.Sched.

Section SchedOwn.
  Variables L R K D : Type.
  Variable lookup : R -> K -> D.
  Variable names : R -> list K.
  Variable write : R -> K -> D -> R.

  (* the laws of a map with a key listing *)
  Definition reg_laws : Prop :=
    (forall r n d, lookup (write r n d) n = d) /\
    (forall r n d m, m <> n -> lookup (write r n d) m = lookup r m) /\
    (forall r n d m, In m (names (write r n d)) <-> m = n \/ In m (names r)).

  Variable owner : K -> option nat.

  Definition visible (t : nat) (n : K) : Prop := owner n = None \/ owner n = Some t.

  (* two listings that agree on the names goroutine t may look at *)
  Definition names_eqv (t : nat) (l l' : list K) : Prop :=
    forall n, visible t n -> (In n l <-> In n l').

  Definition own_action (t : nat) (a : action L K D) : Prop :=
    match a with
    | Local _ => True
    | RegRead n _ => visible t n
    | RegNames k => forall l l' x, names_eqv t l l' -> k l x = k l' x
    | RegWrite n _ => owner n = Some t
    end.

  Definition own_keys (progs : pvec L K D) : Prop := forall t, Forall (own_action t) (progs t).

  (* two registries that goroutine t cannot tell apart *)
  Definition reg_eqv (t : nat) (r r' : R) : Prop :=
    (forall n, visible t n -> lookup r n = lookup r' n) /\ names_eqv t (names r) (names r').

  (* the lookups among a goroutine's observations (a whole listing is not
     schedule independent once other goroutines register names; what a
     goroutine may do with one is restricted by own_action instead) *)
  Definition is_read (o : obsv K D) : bool := match o with ORead _ _ => true | ONames _ => false end.
  Definition reads (os : list (obsv K D)) : list (obsv K D) := filter is_read os.

  (* goroutine t by itself, on its own triple (local state, observations,
     registry): used by the proofs *)
  Definition step_solo (t : nat) (a : action L K D) (s : L * list (obsv K D) * R) : L * list (obsv K D) * R :=
    let '(l, o, r) := s in
    match a with
    | Local f => (f (fun _ => l) t, o, r)
    | RegRead n k => (k (lookup r n) l, o ++ [ORead n (lookup r n)], r)
    | RegNames k => (k (names r) l, o ++ [ONames (names r)], r)
    | RegWrite n d => (l, o, write r n d)
    end.

  Fixpoint fold_solo (t : nat) (p : list (action L K D)) (s : L * list (obsv K D) * R) : L * list (obsv K D) * R :=
    match p with
    | [] => s
    | a :: rest => fold_solo t rest (step_solo t a s)
    end.

  (* the registry after the writes of one program, nothing else happening *)
  Fixpoint writes_of (p : list (action L K D)) (r : R) : R :=
    match p with
    | [] => r
    | RegWrite n d :: rest => writes_of rest (write r n d)
    | _ :: rest => writes_of rest r
    end.
End SchedOwn.

Arguments reg_laws {R K D}.
Arguments visible {K}.
Arguments names_eqv {K}.
Arguments own_action {L K D}.
Arguments own_keys {L K D}.
Arguments reg_eqv {R K D}.
Arguments is_read {K D}.
Arguments reads {K D}.
Arguments step_solo {L R K D}.
Arguments fold_solo {L R K D}.
Arguments writes_of {L R K D}.


(* ------------------------------------------------------------------ *)
(* The registry instance the run-time oracle computes with (Run/C16Run.v):
   names and decorations are numbers, the registry is an association list in
   which the newest entry of a name wins; 0 is "no such decoration". *)
Definition areg := list (N * N).
Definition a_lookup (r : areg) (n : N) : N :=
  match find (fun kv => N.eqb (fst kv) n) r with Some kv => snd kv | None => 0%N end.
Definition a_names (r : areg) : list N := map fst r.
Definition a_write (r : areg) (n d : N) : areg := (n, d) :: r.

(* What a goroutine did to the registry about its own names, as the harness
   logs it, with the answers the implementation gave:
     OpW n d   registered decoration d (a number, never 0) under name n
     OpR n d   looked n up and got d (0: no such decoration)
     OpL n b   listed the names; b: n was among them
   Names are numbers: (t+1) * 2^20 + i is goroutine t's i-th own name, a
   number below 2^20 is a name nobody registers during the run. *)
Inductive c16_op := OpW (n d : N) | OpR (n d : N) | OpL (n : N) (b : bool).

Definition op_name (o : c16_op) : N := match o with OpW n _ | OpR n _ | OpL n _ => n end.

Definition own_owner (n : N) : option nat :=
  if (n <? 1048576)%N then None else Some (N.to_nat (n / 1048576) - 1).

Definition op_wf (t : nat) (o : c16_op) : Prop :=
  match o with
  | OpW n _ => own_owner n = Some t
  | OpR n _ | OpL n _ => own_owner n = None \/ own_owner n = Some t
  end.

Definition op_wfb (t : nat) (o : c16_op) : bool :=
  let mine n := match own_owner n with Some u => Nat.eqb u t | None => false end in
  let nobodys n := match own_owner n with Some _ => false | None => true end in
  match o with
  | OpW n _ => mine n
  | OpR n _ | OpL n _ => mine n || nobodys n
  end.

(* the program of the interleaving machine the log stands for; the local state
   is the list of answers got so far, newest first *)
Definition listed (n : N) (ks : list N) : N := if existsb (N.eqb n) ks then 1%N else 0%N.

Definition op_action (o : c16_op) : action (list N) N N :=
  match o with
  | OpW n d => RegWrite n d
  | OpR n _ => RegRead n (fun d l => d :: l)
  | OpL n _ => RegNames (fun ks l => listed n ks :: l)
  end.

Definition op_answer (o : c16_op) : list N :=
  match o with OpW _ _ => [] | OpR _ d => [d] | OpL _ b => [if b then 1%N else 0%N] end.

Definition a_G0 : gstate (list N) areg N N := mkG [] (fun _ => []) (fun _ => []).

(* the answers goroutine t gets when it does all this alone, oldest first *)
Definition own_expected (t : nat) (ops : list c16_op) : list N :=
  rev (g_loc (run_alone a_lookup a_names a_write t (map op_action ops) a_G0) t).

Definition own_observed (ops : list c16_op) : list N := flat_map op_answer ops.
