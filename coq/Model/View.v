(* What a renderer can see of a table through the public API. *)
From Tab Require Export Base.Bytes.

Inductive align := ALeft | ARight | ACenter.

(* value stored under properties.Skipable: a bool, or something else *)
Inductive skipv := SkBool (b : bool) | SkOther.

Record vcell := mkVCell {
  vc_text    : bytes;          (* Cell.String() *)
  vc_empty   : bool;           (* Cell.Empty() *)
  vc_json    : option bytes;   (* json.Marshal(Cell.Item()); None = Marshal failed *)
  vc_tw      : Z;              (* Cell.TerminalCellWidth() *)
  vc_h       : Z;              (* Cell.Height() *)
  vc_widther : bool            (* Item() implements TerminalCellWidther *)
}.

(* A row is None for a separator, else its cells. *)
Definition vrow := option (list vcell).

Record view := mkView {
  v_ncols  : nat;                     (* NColumns() *)
  v_header : option (list vcell);     (* Headers(); None = nil *)
  v_rows   : list vrow;               (* AllRows() in order *)
  v_align  : list (option align);     (* Column(i).GetProperty(align.PropertyType), i = 0..ncols *)
  v_skip   : list (option skipv)      (* Column(i).GetProperty(properties.Skipable), i = 0..ncols *)
}.

Definition row_fits (n : nat) (r : vrow) : Prop :=
  match r with None => True | Some cs => length cs <= n end.

(* The shape invariant the core guarantees (C02): no row and no header is
   longer than the column count; one property slot per column plus column 0. *)
Definition wf_view (v : view) : Prop :=
  Forall (row_fits (v_ncols v)) (v_rows v)
  /\ row_fits (v_ncols v) (v_header v)
  /\ length (v_align v) = S (v_ncols v)
  /\ length (v_skip v) = S (v_ncols v).

Definition row_fitsb (n : nat) (r : vrow) : bool :=
  match r with None => true | Some cs => length cs <=? n end.

Definition wf_viewb (v : view) : bool :=
  forallb (row_fitsb (v_ncols v)) (v_rows v)
  && row_fitsb (v_ncols v) (v_header v)
  && (length (v_align v) =? S (v_ncols v))
  && (length (v_skip v) =? S (v_ncols v)).

Lemma wf_viewb_spec v : wf_viewb v = true <-> wf_view v.
Proof.
  unfold wf_viewb, wf_view. rewrite !andb_true_iff, forallb_forall, Forall_forall, !Nat.eqb_eq.
  assert (E : forall n r, row_fitsb n r = true <-> row_fits n r).
  { intros n [cs|]; simpl; [apply Nat.leb_le | tauto]. }
  split.
  - intros [[[H1 H2] H3] H4]. repeat split; auto. intros x Hx. apply E, H1, Hx. apply E, H2.
  - intros (H1 & H2 & H3 & H4). repeat split; auto. intros x Hx. apply E, H1, Hx. apply E, H2.
Qed.

(* texts only *)
Definition row_texts (r : list vcell) : list bytes := map vc_text r.

Definition body_rows (v : view) : list (list vcell) :=
  flat_map (fun r => match r with Some cs => [cs] | None => [] end) (v_rows v).
