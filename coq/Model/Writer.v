(* Model of how every RenderTo drives its destination io.Writer.

   A renderer issues a sequence of Write calls (each io.WriteString /
   fmt.Fprint / fmt.Fprintln / w.Write is exactly one call); a call is either
   CHECKED (the renderer returns the error at once) or UNCHECKED (the result is
   discarded and rendering goes on).  The destination is a scripted writer:
   for the i-th call with payload p it accepts all of p, rejects it, or
   accepts the first n bytes and reports an error. *)
From Tab Require Export Base.Bytes.

Inductive wresp := WAccept | WFail | WPartial (n : nat).

(* call index -> payload -> response *)
Definition script := nat -> bytes -> wresp.

Definition faulty (r : wresp) : bool :=
  match r with WAccept => false | _ => true end.

(* one Write call: new accepted bytes, and whether the call returned an error *)
Definition do_write (sc : script) (i : nat) (p acc : bytes) : bytes * bool :=
  match sc i p with
  | WAccept => (acc ++ p, false)
  | WFail => (acc, true)
  | WPartial n => (acc ++ firstn n p, true)
  end.

(* RenderTo: (error returned?, bytes the writer accepted) *)
Fixpoint run_writes (sc : script) (i : nat) (ws : list (bytes * bool)) (acc : bytes) : bool * bytes :=
  match ws with
  | [] => (false, acc)
  | (p, checked) :: rest =>
      let '(acc', e) := do_write sc i p acc in
      if e && checked then (true, acc') else run_writes sc (S i) rest acc'
  end.

Definition all_checked (ws : list (bytes * bool)) : Prop := Forall (fun w => snd w = true) ws.
Definition checked (l : list bytes) : list (bytes * bool) := map (fun p => (p, true)) l.

Definition payloads (ws : list (bytes * bool)) : bytes := concat (map fst ws).

(* the script reports an error on one of the calls i, i+1, ... that ws makes *)
Fixpoint fails_within (sc : script) (i : nat) (ws : list (bytes * bool)) : bool :=
  match ws with
  | [] => false
  | (p, _) :: rest => faulty (sc i p) || fails_within sc (S i) rest
  end.

Definition prefix (a b : bytes) : Prop := exists r, b = a ++ r.

Fixpoint prefixb (a b : bytes) : bool :=
  match a, b with
  | [], _ => true
  | x :: a', y :: b' => N.eqb x y && prefixb a' b'
  | _ :: _, [] => false
  end.

(* A renderer as a whole: it may refuse before writing anything (Err), panic,
   or produce its write list; RenderTo against a scripted writer. *)
Definition render_to (ws : res (list bytes)) (sc : script) : res (bool * bytes) :=
  match ws with
  | Ok l => Ok (run_writes sc 0 (checked l) [])
  | Err => Ok (true, [])
  | Panic => Panic
  end.
