(* C02, round 6: the table VALUE the building calls are made on, and add-time
   callbacks that return errors.

   (1) tabular.Table is an interface.  The rendering sub-packages (csv, html,
   json, markdown, texttable; auto.New / auto.Wrap pick one of them) hand out
   wrapper objects which satisfy it by EMBEDDING a table value, and a wrapper
   may wrap a wrapper.  No wrapper declares a building or an observing method
   of its own, so by Go's method promotion a call on a wrapper is the call on
   the value it embeds; all levels of the stack hold the same core object.

   (2) An add-time callback may return an error.  The error goes into an error
   list and nowhere else: the building call in which it was returned goes on
   exactly as if the callback had returned nil. *)
From Tab Require Export Base.Ops Model.Core.

Inductive wkind := WCsv | WHtml | WJson | WMarkdown | WText.

Inductive tvalue (A : Type) :=
| TCore (st : state A)                       (* tabular.New() *)
| TWrap (k : wkind) (inner : tvalue A).      (* pkg.Wrap(inner); pkg.New() = pkg.Wrap(tabular.New()) *)
Arguments TCore {A} st.
Arguments TWrap {A} k inner.

Section Via.
Context {A : Type}.

(* a building call on a value: the embedded value's method, down to the core *)
Fixpoint vstep (v : tvalue A) (o : op A) : tvalue A :=
  match v with
  | TCore st => TCore (step st o)
  | TWrap k inner => TWrap k (vstep inner o)
  end.

(* the call made on the value n levels further in (which the outer wrappers
   hold, not copy) *)
Fixpoint vstep_at (n : nat) (v : tvalue A) (o : op A) : tvalue A :=
  match n, v with
  | S m, TWrap k inner => TWrap k (vstep_at m inner o)
  | _, _ => vstep v o
  end.

(* what NRows, NColumns, Headers, AllRows, CellAt, Column read, on any level *)
Fixpoint vcore (v : tvalue A) : state A :=
  match v with TCore st => st | TWrap _ inner => vcore inner end.

Fixpoint wrap (ks : list wkind) (v : tvalue A) : tvalue A :=
  match ks with [] => v | k :: r => wrap r (TWrap k v) end.

(* a history in which every call says on which level it is made *)
Definition vrun (h : list (nat * op A)) (v : tvalue A) : tvalue A :=
  fold_left (fun v p => vstep_at (fst p) v (snd p)) h v.

Definition vnew (ks : list wkind) : tvalue A := wrap ks (TCore init).

(* ---- callbacks that return errors: a building call comes with the results
   of the add-time callbacks run during it (true: an error was returned), in
   the order run; the state is the table and the number of errors recorded *)
Definition count_errs (rs : list bool) : nat := length (filter (fun b => b) rs).

Definition cb_step (s : state A * nat) (p : op A * list bool) : state A * nat :=
  (step (fst s) (fst p), snd s + count_errs (snd p)).

Definition cb_run (h : list (op A * list bool)) : state A * nat := fold_left cb_step h (init, 0).

End Via.
