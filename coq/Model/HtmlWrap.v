(* Model of html/html.go's HTMLTable as a long-lived object: what RenderTo does
   around the template (Model/Html.v is the template itself).

     type HTMLTable struct {
         tabular.Table                       // exported: the caller may re-assign it
         Id, Class, Caption, TemplateName string
         rowClassGenerator func(...) ; rowClassCtx interface{}
         template *template.Template        // parsed at the first render, kept
     }
     func (ht *HTMLTable) RenderTo(w) {
         ht.InvokeRenderCallbacks()
         if ht.template == nil { ht.template = New(name).Funcs(ht.getFuncs()).Parse(raw) }
         else                  { ht.template.Funcs(ht.getFuncs()) }
         renderData := {ht.Id, ht.Class, ht.Caption, ht.rowClassGenerator != nil}
         return ht.template.Execute(w, renderData)
     }

   getFuncs() returns CLOSURES OVER ht: Headers() reads ht.Table.Headers(),
   Rows() reads ht.Table.AllRows(), RowClass(i) calls ht.rowClassGenerator(i,
   ht.rowClassCtx) - each at the time it is called.  A parsed template is a
   heap object holding its function map; a by-value copy of a wrapper copies
   the POINTER, so two wrappers can share one template.  What a template's
   functions read is therefore modelled as "the wrapper they are closures
   over", and a wrapper's fields are read when the function runs.

   TemplateName only names the parsed template and InvokeRenderCallbacks acts
   on the table (C13); neither is part of this machine. *)
From Tab Require Export Model.Html Model.HtmlWrapOps.

Record hwrap := mkHW {
  hw_cfg : hcfg;           (* Table, Id, Class, Caption, rowClassGenerator + rowClassCtx *)
  hw_tpl : option nat      (* ht.template: nil, or a pointer into the template heap *)
}.

Record hstate := mkHS {
  hs_tables : list view;   (* the table objects, as a renderer sees each of them now *)
  hs_wraps  : list hwrap;  (* the wrapper objects *)
  hs_tpls   : list nat     (* the parsed templates: for each, the wrapper that the functions
                              registered in it are closures over *)
}.

Definition hs_init : hstate := mkHS [] [] [].

Definition hw_set_cfg (f : hcfg -> hcfg) (w : hwrap) : hwrap := mkHW (f (hw_cfg w)) (hw_tpl w).

(* RenderTo up to the call of Execute *)
Definition h_prepare (s : hstate) (w : nat) : res hstate :=
  bind (idx (hs_wraps s) w) (fun wr =>
  match hw_tpl wr with
  | None =>
      (* template.New(..).Funcs(ht.getFuncs()).Parse(..): a new template whose
         functions are closures over this wrapper; ht.template = it *)
      let k := length (hs_tpls s) in
      Ok (mkHS (hs_tables s)
               (modify (hs_wraps s) w (fun x => mkHW (hw_cfg x) (Some k)))
               (hs_tpls s ++ [w]))
  | Some k =>
      (* ht.template.Funcs(ht.getFuncs()): the entries are overwritten by
         closures over this wrapper *)
      bind (idx (hs_tpls s) k) (fun _ =>
      Ok (mkHS (hs_tables s) (hs_wraps s) (modify (hs_tpls s) k (fun _ => w))))
  end).

Definition gen_script (g : option (list bytes)) : list bytes :=
  match g with Some l => l | None => [] end.
Definition gen_set (g : option (list bytes)) : bool :=
  match g with Some _ => true | None => false end.

(* ht.template.Execute(w, renderData): Id, Class, Caption and HaveRowClass
   were copied from the wrapper being rendered; Headers, Rows and RowClass are
   whatever is registered in its template *)
Definition h_execute (s : hstate) (w : nat) : res (bytes * list nat) :=
  bind (idx (hs_wraps s) w) (fun wr =>
  match hw_tpl wr with
  | None => Panic                                   (* nil template *)
  | Some k =>
      bind (idx (hs_tpls s) k) (fun b =>            (* the closures' wrapper *)
      bind (idx (hs_wraps s) b) (fun bw =>
      bind (idx (hs_tables s) (c_table (hw_cfg bw))) (fun v =>   (* its Table now; nil panics *)
      let c := hw_cfg wr in
      html_exec (mkHtmlIn (c_id c) (c_class c) (c_caption c) (gen_set (c_gen c))
                          (gen_script (c_gen (hw_cfg bw))) v))))
  end).

(* one step: the new state and what was observed (one entry per HRender) *)
Definition h_step (s : hstate) (o : hop) : hstate * list (res (bytes * list nat)) :=
  match o with
  | HTable t v => (mkHS (put_table (hs_tables s) t v) (hs_wraps s) (hs_tpls s), [])
  | HWrap t => (mkHS (hs_tables s) (hs_wraps s ++ [mkHW (mkCfg t [] [] [] None) None]) (hs_tpls s), [])
  | HCopy w =>
      match nth_error (hs_wraps s) w with
      | Some wr => (mkHS (hs_tables s) (hs_wraps s ++ [wr]) (hs_tpls s), [])
      | None => (s, [])
      end
  | HPoint w t =>
      (mkHS (hs_tables s) (modify (hs_wraps s) w (hw_set_cfg (fun c => cfg_point c t))) (hs_tpls s), [])
  | HConf w id cls cap g =>
      (mkHS (hs_tables s) (modify (hs_wraps s) w (hw_set_cfg (fun c => cfg_set c id cls cap g))) (hs_tpls s), [])
  | HRender w =>
      match h_prepare s w with
      | Ok s' => (s', [h_execute s' w])
      | _ => (s, [Panic])
      end
  | HRenderFails w =>
      match h_prepare s w with
      | Ok s' => (s', [])
      | _ => (s, [])
      end
  end.

Fixpoint h_run (s : hstate) (ops : list hop) : list (res (bytes * list nat)) :=
  match ops with
  | [] => []
  | o :: rest => let '(s', obs) := h_step s o in obs ++ h_run s' rest
  end.

(* everything the renders of a history produce, in order *)
Definition h_outputs (ops : list hop) : list (res (bytes * list nat)) := h_run hs_init ops.
