(* Model of the text renderer, as it is after the planned repairs (D7, D8):
   texttable/properties.go (dimensionSetter), texttable/render.go (RenderTo,
   RowToLinesOfWidthStrings), texttable/decoration/emit.go
   (commonTemplateLine, commonRenderedLine and their callers),
   texttable/decoration/strings.go (WithinWidthAligned).
   One Gallina function per Go function, same loop structure; every index
   expression that the Go code does not itself guard goes through idx/upd and
   yields Panic out of range.  Go ints are Z.  The display-width measure
   length.StringCells is the oracle W (a Section variable). *)
From Tab Require Export Model.View Model.Length Model.Decoration.

Local Open Scope Z_scope.

(* decoration.WidthString *)
Record wstr := mkWS { ws_s : bytes; ws_w : Z }.
Definition ws_zero : wstr := mkWS [] 0.      (* decoration.WidthString{} *)

(* an align.Alignment interface value as WithinWidthAligned can receive it *)
Inductive alignment := AlNil | AlKnown (a : align) | AlUnknown.

(* s[i] = x *)
Definition upd {A} (l : list A) (i : nat) (x : A) : res (list A) :=
  if (i <? length l)%nat then Ok (firstn i l ++ x :: skipn (S i) l) else Panic.

(* s[len(s)-1] = x ; index -1 panics *)
Definition set_last {A} (l : list A) (x : A) : res (list A) := upd l (length l - 1) x.

(* strings.Repeat(s, n): panics on a negative count *)
Definition repeat_z (s : bytes) (n : Z) : res bytes :=
  if n <? 0 then Panic else Ok (rep (Z.to_nat n) s).

Fixpoint mapM {A B} (f : A -> res B) (l : list A) : res (list B) :=
  match l with
  | [] => Ok []
  | x :: r => bind (f x) (fun y => bind (mapM f r) (fun ys => Ok (y :: ys)))
  end.

(* what dimensionSetter stores on a cell: propDimensions, propLinesWidths *)
Record mcell := mkMC { mc_w : Z; mc_h : Z; mc_lines : list wstr }.

(* ------------------------------------------------------------------ *)
(* WithinWidthAligned                                                  *)
Definition within_width_aligned (ws : wstr) (available : Z) (how : alignment) : res bytes :=
  if ws_w ws <? 0 then repeat_z [SP] available else
  let how := match how with AlNil => AlKnown ALeft | x => x end in
  let pad := available - ws_w ws in
  let pad := if pad <? 0 then 0 else pad in
  match how with
  | AlKnown ALeft  => bind (repeat_z [SP] pad) (fun p => Ok (ws_s ws ++ p))
  | AlKnown ARight => bind (repeat_z [SP] pad) (fun p => Ok (p ++ ws_s ws))
  | AlKnown ACenter =>
      let left := Z.quot pad 2 in
      let right := pad - left in
      bind (repeat_z [SP] left) (fun pl =>
      bind (repeat_z [SP] right) (fun pr => Ok (pl ++ ws_s ws ++ pr)))
  | _ => Panic                                   (* panic("unhandled alignment") *)
  end.

(* ------------------------------------------------------------------ *)
(* emitter: commonTemplateLine                                         *)
(* for i := range e.colWidths { fields = append(fields, Repeat(horiz, 2+w), cross) } *)
Fixpoint template_fields (cws : list Z) (horiz cross : bytes) : res (list bytes) :=
  match cws with
  | [] => Ok []
  | w :: r =>
      bind (repeat_z horiz (2 + w)) (fun h =>
      bind (template_fields r horiz cross) (fun rest => Ok (h :: cross :: rest)))
  end.

Definition common_template_line (d : decoration) (cws : list Z)
           (left horiz cross right : bytes) : res bytes :=
  if d_boxless d then Ok [] else
  bind (template_fields cws horiz cross) (fun fs =>
  let fields := left :: fs in
  bind (if (0 <? length cws)%nat then set_last fields right else Ok (fields ++ [right])) (fun fields =>
  Ok (concat (fields ++ [[LF]])))).                 (* eol = "\n"; Join(fields, "") *)

Definition line_header_top d cws := common_template_line d cws (d_TopLeft d) (d_HOuter d) (d_HTopDown d) (d_TopRight d).
Definition line_header_body_sep d cws := common_template_line d cws (d_HBLeft d) (d_HOuter d) (d_HBCross d) (d_HBRight d).
Definition line_body_top d cws := common_template_line d cws (d_TopLeft d) (d_HOuter d) (d_BTopDown d) (d_TopRight d).
Definition line_bottom d cws := common_template_line d cws (d_BottomLeft d) (d_HOuter d) (d_BBottomUp d) (d_BottomRight d).
Definition line_separator d cws := common_template_line d cws (d_LeftBodyRule d) (d_HRule d) (d_CrossPiece d) (d_RightBodyRule d).

(* DividerSet (Left, Inner, Right) *)
Definition header_dividers (d : decoration) : bytes * bytes * bytes := (d_VHeader d, d_VHeader d, d_VHeader d).
Definition body_dividers (d : decoration) : bytes * bytes * bytes := (d_VBodyBorder d, d_VBodyInner d, d_VBodyBorder d).

(* ------------------------------------------------------------------ *)
(* emitter: commonRenderedLine                                         *)
(* for i := range e.colWidths { fields = append(fields, cellStrs[i].WithinWidthAligned(colWidths[i], colAligns[i])); if Inner != "" {append Inner} } *)
Fixpoint rendered_fields (i : nat) (cws : list Z) (cells : list wstr) (als : list alignment)
         (inner : bytes) : res (list bytes) :=
  match cws with
  | [] => Ok []
  | w :: r =>
      bind (idx cells i) (fun ws =>
      bind (idx als i) (fun a =>
      bind (within_width_aligned ws w a) (fun f =>
      bind (rendered_fields (S i) r cells als inner) (fun rest =>
      Ok (f :: (if nilb inner then [] else [inner]) ++ rest)))))
  end.

Definition common_rendered_line (ds : bytes * bytes * bytes) (cws : list Z)
           (cells : list wstr) (als : list alignment) : res bytes :=
  let '(dleft, inner, dright) := ds in
  bind (rendered_fields 0 cws cells als inner) (fun fs =>
  let fields := (if nilb dleft then [] else [dleft]) ++ fs in
  bind (if negb (nilb dright) && negb (nilb inner) then set_last fields dright
        else if negb (nilb dright) then Ok (fields ++ [dright])
        else if negb (nilb inner)
             then (if (length fields =? 0)%nat then Ok fields  (* && len(fields) > 0  (repaired, D22: fields[:len(fields)-1] with len 0 panicked) *)
                   else Ok (firstn (length fields - 1) fields))
             else Ok fields) (fun fields =>
  Ok (join [SP] fields ++ [LF]))).

Section WithW.
  (* length.StringCells, supplied as a lookup table when cases are run *)
  Variable W : bytes -> nat.

  (* ---------------------------------------------------------------- *)
  (* dimensionSetter.UpdateProperties (repaired)                       *)
  (* for i, l := range lines { linesWidths[i] = WidthString{l, StringCells(l)} } *)
  Fixpoint fill_lines (i : nat) (ls : list bytes) (arr : list wstr) : res (list wstr) :=
    match ls with
    | [] => Ok arr
    | l :: r => bind (upd arr i (mkWS l (Z.of_nat (W l)))) (fill_lines (S i) r)
    end.

  Definition dimension_setter (c : vcell) : res mcell :=
    let cellWidth := vc_tw c in                    (* cell.TerminalCellWidth() *)
    let height := vc_h c in                        (* cell.Height() *)
    bind (lines (vc_text c)) (fun ls =>            (* cell.Lines() *)
    let nLines := if height <? Zlen ls then Zlen ls else height in
    if nLines <? 0 then Panic else                 (* make([]T, n) with n < 0 *)
    bind (fill_lines 0 ls (repeat ws_zero (Z.to_nat nLines))) (fun lw =>
    bind (if (length ls =? 1)%nat && vc_widther c
          then bind (idx lw 0) (fun x => upd lw 0 (mkWS (ws_s x) cellWidth))
          else Ok lw) (fun lw =>
    Ok (mkMC cellWidth height lw)))).

  (* InvokeRenderCallbacks: the callback runs on every header cell, then on
     every cell of every row, in order; a panic propagates. *)
  Definition measure_row (cs : list vcell) : res (list mcell) := mapM dimension_setter cs.
  Definition measure_opt (r : option (list vcell)) : res (option (list mcell)) :=
    match r with
    | None => Ok None
    | Some cs => bind (measure_row cs) (fun m => Ok (Some m))
    end.

  (* ---------------------------------------------------------------- *)
  (* RenderTo: the two column-width loops                              *)
  (* for i := range columnWidths { if i >= len(headers) {break}; columnWidths[i] = headers[i].cellWidth }
     -- both indices are guarded by the loop itself *)
  Fixpoint header_widths (cw : list Z) (hs : list mcell) : list Z :=
    match cw, hs with
    | _ :: cw', h :: hs' => mc_w h :: header_widths cw' hs'
    | _, _ => cw
    end.

  (* for i, cell := range row.Cells() { if i >= columnCount {break}; if d.cellWidth > columnWidths[i] {columnWidths[i] = d.cellWidth} }
     (repaired, D21: the guard was `i > columnCount`, which let a row with more
     cells than the table has columns index one past the end) *)
  Fixpoint row_widths (ncols i : nat) (cs : list mcell) (cw : list Z) : res (list Z) :=
    match cs with
    | [] => Ok cw
    | c :: r =>
        if (ncols <=? i)%nat then Ok cw else
        bind (idx cw i) (fun cur =>
        bind (if cur <? mc_w c then upd cw i (mc_w c) else Ok cw) (fun cw' =>
        row_widths ncols (S i) r cw'))
    end.

  (* for _, row := range t.AllRows() { if row.IsSeparator() {continue}; ... } *)
  Fixpoint body_widths (ncols : nat) (rows : list (option (list mcell))) (cw : list Z) : res (list Z) :=
    match rows with
    | [] => Ok cw
    | None :: rest => body_widths ncols rest cw
    | Some cs :: rest => bind (row_widths ncols 0 cs cw) (body_widths ncols rest)
    end.

  (* RenderTo: alignment resolution.  Column(0) always exists. *)
  Definition column_aligns (v : view) : res (list alignment) :=
    bind (idx (v_align v) 0) (fun defaultAlignRaw =>
    mapM (fun i =>
            bind (idx (v_align v) (S i)) (fun a =>
            Ok (match a with
                | Some x => AlKnown x
                | None => match defaultAlignRaw with Some x => AlKnown x | None => AlNil end
                end)))
         (seq 0 (v_ncols v))).

  (* ---------------------------------------------------------------- *)
  (* RowToLinesOfWidthStrings.  Every index is guarded by the Go code
     (i < max <= len(cells); `if l >= len(columns[c])` zero value), so the
     guarded reads are written as matches on nth_error. *)
  Definition row_to_lines (ncols : nat) (cells : list mcell) : list (list wstr) :=
    let mx := Nat.min (length cells) ncols in
    let columns := map mc_lines (firstn mx cells) in
    let lineCount := fold_left Nat.max (map (@length wstr) columns) 1%nat in
    map (fun l =>
           map (fun col => match nth_error col l with Some x => x | None => ws_zero end) columns
           ++ repeat ws_zero (ncols - mx))
        (seq 0 lineCount).

  (* ---------------------------------------------------------------- *)
  (* RenderTo: one entry per io.WriteString                            *)
  Definition rendered_block (ds : bytes * bytes * bytes) (cws : list Z) (als : list alignment)
             (ncols : nat) (cells : list mcell) : res (list bytes) :=
    mapM (fun lineParts => common_rendered_line ds cws lineParts als) (row_to_lines ncols cells).

  Fixpoint body_writes (d : decoration) (cws : list Z) (als : list alignment) (ncols : nat)
           (rows : list (option (list mcell))) : res (list bytes) :=
    match rows with
    | [] => Ok []
    | None :: rest =>
        bind (line_separator d cws) (fun w =>
        bind (body_writes d cws als ncols rest) (fun ws => Ok (w :: ws)))
    | Some cs :: rest =>
        bind (rendered_block (body_dividers d) cws als ncols cs) (fun w =>
        bind (body_writes d cws als ncols rest) (fun ws => Ok (w ++ ws)))
    end.

  Definition text_render_writes (d : decoration) (v : view) : res (list bytes) :=
    if is_empty_decoration d then Err else          (* t.decor == decoration.EmptyDecoration *)
    bind (measure_opt (v_header v)) (fun headers =>
    bind (mapM measure_opt (v_rows v)) (fun rows =>
    let columnCount := v_ncols v in
    let cw0 := repeat 0 columnCount in
    let cw1 := match headers with Some hs => header_widths cw0 hs | None => cw0 end in
    bind (body_widths columnCount rows cw1) (fun cws =>
    bind (column_aligns v) (fun als =>
    bind (match headers with
          | Some hs =>
              bind (line_header_top d cws) (fun top =>
              bind (rendered_block (header_dividers d) cws als columnCount hs) (fun hl =>
              bind (line_header_body_sep d cws) (fun sep => Ok (top :: hl ++ [sep]))))
          | None => bind (line_body_top d cws) (fun top => Ok [top])
          end) (fun w1 =>
    bind (body_writes d cws als columnCount rows) (fun w2 =>
    bind (line_bottom d cws) (fun w3 =>
    Ok (w1 ++ w2 ++ [w3])))))))).

  (* Render(): the buffer after RenderTo *)
  Definition text_render (d : decoration) (v : view) : res bytes :=
    bind (text_render_writes d v) (fun ws => Ok (concat ws)).
End WithW.
