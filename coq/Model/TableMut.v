(* Items that change, cells that are updated: the whole-table machine
   (Model/Table.v) run over cells that remember WHEN their item was last read.

   A Go cell caches its text and sizes at NewCell / Update (cell.go); the item
   itself stays reachable and may be mutated by the caller at any time.  What a
   stored cell shows is therefore a function of its item and of the state the
   item was in when the cell last read it - `update W e c = new_cell W e (c_raw
   c)` (Props/C01.v c01_update_is_new) - so the machine carries, per cell, the
   pair (item, environment at the last read).  The caller's program is a list
   of [mop]:

     MOp o           a building call or column setting (Model/Table.v), items as given
     MMutate id ob   the caller changes object id in place (its methods now answer ob)
     MUpdateAt r c   t.CellAt(r+1, c+1) succeeded and Update() was called on it
     MUpdateHeader c (&t.Headers()[c]).Update()

   What a renderer sees ([mview]): text, emptiness, width and height as cached
   at the last read; the item's JSON encoding and its method set as they are
   NOW (json.Marshal and the type assertion are made at render time on the
   live item). *)
From Tab Require Export Model.Table.

Definition snap : Type := (item * env)%type.

Definition map_op {A B} (g : A -> B) (o : op A) : op B :=
  match o with
  | NewRow r => NewRow r
  | NewRowSizedFor r => NewRowSizedFor r
  | AppendNewRow r => AppendNewRow r
  | RowAdd ref x => RowAdd ref (g x)
  | AddRow r => AddRow r
  | AddRowItems xs => AddRowItems (map g xs)
  | AddSeparator => AddSeparator
  | AddHeaders xs => AddHeaders (map g xs)
  | MutateAllRowsCopy => MutateAllRowsCopy
  | OtherAddRow ref k => OtherAddRow ref k
  end.

Definition map_gtop {A B} (g : A -> B) (o : gtop A) : gtop B :=
  match o with
  | TCore c => TCore (map_op g c)
  | TSetAlign n a => TSetAlign n a
  | TSetSkip n s => TSetSkip n s
  end.

Inductive mop :=
| MOp (o : top)
| MMutate (id : N) (ob : obj)
| MUpdateAt (r c : nat)
| MUpdateHeader (c : nat).

Record mstate := mkM { m_tab : gtstate snap; m_env : env }.

Definition set_env (e : env) (id : N) (ob : obj) : env := fun k => if N.eqb k id then ob else e k.

(* replace what the c-th cell of a row carries *)
Definition upd_cell {A} (g : A -> A) (cs : list (Core.cell A)) (c : nat) : list (Core.cell A) :=
  match nth_error cs c with
  | Some x => upd cs c (Core.mkCell (g (c_item x)) (c_col x))
  | None => cs
  end.

Definition core_update_at {A} (g : A -> A) (st : Core.state A) (r c : nat) : Core.state A :=
  match nth_error (t_rows st) r with
  | Some tr =>
      match r_body tr with
      | RCells cs => with_rows st (upd (t_rows st) r (mkTRow (r_num tr) (r_here tr) (RCells (upd_cell g cs c))))
      | RSep => st                      (* CellAt on a separator: NoSuchCellError, nothing to update *)
      end
  | None => st
  end.

Definition core_update_header {A} (g : A -> A) (st : Core.state A) (c : nat) : Core.state A :=
  match t_header st with
  | Some cs => with_header st (Some (upd_cell g cs c))
  | None => st
  end.

Definition on_core (f : Core.state snap -> Core.state snap) (t : gtstate snap) : gtstate snap :=
  mkT (f (tb_core t)) (tb_align t) (tb_skip t).

Definition reread (e : env) (s : snap) : snap := (fst s, e).

Definition mstep (st : mstate) (o : mop) : mstate :=
  match o with
  | MOp t => mkM (tstep (m_tab st) (map_gtop (fun it => (it, m_env st)) t)) (m_env st)
  | MMutate id ob => mkM (m_tab st) (set_env (m_env st) id ob)
  | MUpdateAt r c => mkM (on_core (fun core => core_update_at (reread (m_env st)) core r c) (m_tab st)) (m_env st)
  | MUpdateHeader c => mkM (on_core (fun core => core_update_header (reread (m_env st)) core c) (m_tab st)) (m_env st)
  end.

Definition minit (e : env) : mstate := mkM tinit e.
Definition mrun (e : env) (h : list mop) : mstate := fold_left mstep h (minit e).

Section View.
  Variable W : bytes -> nat.
  Variable json : item -> option bytes.

  (* a stored cell as a renderer meets it while the objects are in state e_now *)
  Definition snap_vcell (e_now : env) (s : snap) : vcell :=
    let c := new_cell W (snd s) (fst s) in
    mkVCell (cell_text c) (cell_empty c)
            (match fst s with IObj id => json_enc (e_now id) | _ => json (fst s) end)
            (cell_width c) (cell_height c) (item_is_widther e_now (fst s)).

  Definition mview (st : mstate) : view := table_view (snap_vcell (m_env st)) (m_tab st).

  (* the part of a view that a cell caches: text, emptiness, sizes *)
  Definition cached (c : vcell) : bytes * bool * Z * Z := (vc_text c, vc_empty c, vc_tw c, vc_h c).
  Definition view_cached (v : view) :=
    (v_ncols v, option_map (map cached) (v_header v), map (option_map (map cached)) (v_rows v), v_align v, v_skip v).
End View.
