(* C10, third model layer: the CALLBACK LISTS of the core table with the
   application's own callbacks in them (properties.go invokePropertyCallbacks,
   render_callbacks.go InvokeRenderCallbacks).

   Model/Wrap.v keeps, of the table-level render-time cell list, only the
   measuring callbacks of the wrappers.  The real list also holds whatever the
   application registered, in registration order, and that order depends on
   the creation path (X.New registers the measuring callback at once,
   tabular.New when the table is first wrapped).  A callback returns an error
   or not; invokePropertyCallbacks records the error on the table AND CARRIES
   ON with the rest of the list.

   Here the list is modelled entry by entry and walked the way the Go loop
   walks it.  An application callback is an OBSERVER: it reads the view, may
   report an error, changes nothing (callbacks that change cells are OBuild /
   PUpdate histories of the other layers).  The theorems (Proofs/
   WrapCbProofs.v): this model refines Model/Wrap.v under erasure of the
   observers, so every C10 theorem holds wherever observers stand in the list
   and whatever they report; and every observer's report is recorded at every
   pass. *)
From Tab Require Export Model.Wrap.

Section CbList.
  (* invokePropertyCallbacks: for i := range cbList { e := cb(owner); if e != nil { errTaker.AddError(e) } } *)
  Variable S E : Type.
  Definition callback := S -> S * option E.

  Definition add_error (errs : list E) (e : option E) : list E :=
    match e with Some x => errs ++ [x] | None => errs end.

  Fixpoint invoke_cbs (l : list callback) (s : S) (errs : list E) : S * list E :=
    match l with
    | [] => (s, errs)
    | c :: r => let '(s', e) := c s in invoke_cbs r s' (add_error errs e)
    end.

  Definition observer (c : callback) : Prop := forall s, fst (c s) = s.
End CbList.

Arguments invoke_cbs {S E}.
Arguments add_error {E}.
Arguments observer {S E}.

Section WrapCb.
  Variable U E : Type.
  Variable out : kind -> view -> res bytes.
  Variable degraded : kind -> mstate -> view -> res bytes.

  (* one entry of the table's render-time cell callback list *)
  Inductive xcb :=
  | XMeasure (k : kind)                 (* dimensionSetter / widthSetter of a wrapper of kind k *)
  | XObs (f : view -> option E).        (* an application's observer: what it reports on what it sees *)

  Record xstate := mkX {
    x_view : view;
    x_user : U;
    x_cbs  : list xcb;       (* in registration order *)
    x_text : mstate;
    x_md   : mstate;
    x_errs : list E          (* the table's error container *)
  }.

  Inductive xop :=
  | XBuild (v : view) (u : U)
  | XWrap (k : kind)
  | XObserve (f : view -> option E)     (* RegisterPropertyCallback(table, CB_AT_RENDER, CB_ON_CELL, observer) *)
  | XRender (k : kind).

  Definition xinit (v : view) (u : U) : xstate := mkX v u [] MAbsent MAbsent [].

  (* the Go callback behind an entry, on the private measurements (text, markdown) *)
  Definition cb_of (v : view) (c : xcb) : callback (mstate * mstate) E :=
    match c with
    | XMeasure KText => fun s => ((MFresh, snd s), None)
    | XMeasure KMd => fun s => ((fst s, MFresh), None)
    | XMeasure _ => fun s => (s, None)
    | XObs f => fun s => (s, f v)
    end.

  (* InvokeRenderCallbacks: the list is walked in order; errors are recorded, the walk goes on *)
  Definition xinvoke (s : xstate) : xstate :=
    let r := invoke_cbs (map (cb_of (x_view s)) (x_cbs s)) (x_text s, x_md s) (x_errs s) in
    mkX (x_view s) (x_user s) (x_cbs s) (fst (fst r)) (snd (fst r)) (snd r).

  Definition xstep (s : xstate) (o : xop) : xstate :=
    match o with
    | XBuild v u => mkX v u (x_cbs s) (stale_of (x_text s)) (stale_of (x_md s)) (x_errs s)
    | XWrap k => if measuring k then mkX (x_view s) (x_user s) (x_cbs s ++ [XMeasure k]) (x_text s) (x_md s) (x_errs s) else s
    | XObserve f => mkX (x_view s) (x_user s) (x_cbs s ++ [XObs f]) (x_text s) (x_md s) (x_errs s)
    | XRender _ => xinvoke s
    end.

  Definition xrun (s : xstate) (ops : list xop) : xstate := fold_left xstep ops s.

  Definition xrender (s : xstate) (k : kind) : res bytes :=
    let s' := xinvoke s in
    match k with
    | KText => match x_text s' with MFresh => out k (x_view s') | m => degraded k m (x_view s') end
    | KMd => match x_md s' with MFresh => out k (x_view s') | m => degraded k m (x_view s') end
    | _ => out k (x_view s')
    end.

  (* erasure: the same history and state without the application's observers *)
  Definition measure_kinds (l : list xcb) : list kind :=
    flat_map (fun c => match c with XMeasure k => [k] | XObs _ => [] end) l.

  Definition observers (l : list xcb) : list (view -> option E) :=
    flat_map (fun c => match c with XObs f => [f] | XMeasure _ => [] end) l.

  Definition erase_state (s : xstate) : tstate U :=
    mkT (x_view s) (x_user s) (measure_kinds (x_cbs s)) (x_text s) (x_md s).

  Definition erase_op (o : xop) : list (op U) :=
    match o with
    | XBuild v u => [OBuild v u]
    | XWrap k => [OWrap k]
    | XObserve _ => []
    | XRender k => [ORender k]
    end.

  Definition erase (ops : list xop) : list (op U) := flat_map erase_op ops.

  (* what one pass over the list reports: every observer's report on the view, in list order *)
  Definition reports (v : view) (l : list xcb) : list E :=
    flat_map (fun f => match f v with Some e => [e] | None => [] end) (observers l).
End WrapCb.

Arguments XMeasure {E}.
Arguments XObs {E}.
Arguments mkX {U E}.
Arguments x_view {U E}.
Arguments x_user {U E}.
Arguments x_cbs {U E}.
Arguments x_text {U E}.
Arguments x_md {U E}.
Arguments x_errs {U E}.
Arguments XBuild {U E}.
Arguments XWrap {U E}.
Arguments XObserve {U E}.
Arguments XRender {U E}.
Arguments xinit {U E}.
Arguments cb_of {E}.
Arguments xinvoke {U E}.
Arguments xstep {U E}.
Arguments xrun {U E}.
Arguments xrender {U E}.
Arguments measure_kinds {E}.
Arguments observers {E}.
Arguments erase_state {U E}.
Arguments erase_op {U E}.
Arguments erase {U E}.
Arguments reports {E}.
