(* C06, the HTML wrapper as a LONG-LIVED object: the language of histories over
   several tables and several wrappers (html.Wrap, a by-value copy of a wrapper,
   the exported Table field pointed at another table, the exported fields and
   the row-class generator set again, tables built further between renders).
   Shared by the machine (Model/HtmlWrap.v) and by the independent reading of
   what each render of a history must show (Spec/HtmlWrapSpec.v). *)
From Tab Require Export Model.View.

(* what the caller can set on a wrapper: the table it points at (the embedded,
   exported field Table), Id / Class / Caption, and the row-class generator
   with its context (nil, or external code: what it returns call by call
   during one render) *)
Record hcfg := mkCfg {
  c_table   : nat;
  c_id      : bytes;
  c_class   : bytes;
  c_caption : bytes;
  c_gen     : option (list bytes)
}.

Definition cfg_point (c : hcfg) (t : nat) : hcfg :=
  mkCfg t (c_id c) (c_class c) (c_caption c) (c_gen c).
Definition cfg_set (c : hcfg) (id cls cap : bytes) (g : option (list bytes)) : hcfg :=
  mkCfg (c_table c) id cls cap g.

Inductive hop :=
| HTable (t : nat) (v : view)   (* table t is created (t = the number of tables so far) or
                                   built further / re-headed / its cells updated: it now presents v *)
| HWrap (t : nat)               (* html.Wrap(table t): a new wrapper *)
| HCopy (w : nat)               (* w' := *w : a new wrapper, the by-value copy of wrapper w *)
| HPoint (w t : nat)            (* w.Table = table t *)
| HConf (w : nat) (id cls cap : bytes) (g : option (list bytes))
                                (* w.Id, w.Class, w.Caption = ...; w.SetRowClassGenerator(f, ctx) *)
| HRender (w : nat)             (* w.Render() / w.RenderTo(a sound writer): observed *)
| HRenderFails (w : nat).       (* a render of w that fails part-way (the writer errs, the
                                   generator panics): nothing of it is observed *)

(* l[i] = f(l[i]) for an existing i; nothing otherwise *)
Fixpoint modify {A} (l : list A) (i : nat) (f : A -> A) : list A :=
  match l, i with
  | [], _ => []
  | x :: r, 0 => f x :: r
  | x :: r, S k => x :: modify r k f
  end.

Lemma modify_length {A} (l : list A) i f : length (modify l i f) = length l.
Proof. revert i; induction l as [|x l IH]; intros [|i]; cbn [modify length]; auto. Qed.

Lemma modify_nth_eq {A} (l : list A) i f :
  nth_error (modify l i f) i = option_map f (nth_error l i).
Proof. revert i; induction l as [|x l IH]; intros [|i]; cbn [modify nth_error option_map]; auto. Qed.

Lemma modify_nth_neq {A} (l : list A) i j f : i <> j ->
  nth_error (modify l i f) j = nth_error l j.
Proof.
  revert i j; induction l as [|x l IH]; intros [|i] [|j] H; cbn [modify nth_error]; auto.
  - congruence.
Qed.

Lemma modify_map {A B} (g : A -> B) (l : list A) i (f : A -> A) (f' : B -> B) :
  (forall x, g (f x) = f' (g x)) -> map g (modify l i f) = modify (map g l) i f'.
Proof.
  intros H. revert i; induction l as [|x l IH]; intros [|i]; cbn [modify map]; auto.
  - rewrite H. reflexivity.
  - rewrite IH. reflexivity.
Qed.

Lemma modify_map_id {A B} (g : A -> B) (l : list A) i (f : A -> A) :
  (forall x, g (f x) = g x) -> map g (modify l i f) = map g l.
Proof.
  intros H. revert i; induction l as [|x l IH]; intros [|i]; cbn [modify map]; auto.
  - rewrite H. reflexivity.
  - rewrite IH. reflexivity.
Qed.

(* table t := v ; a new table when t is not one yet *)
Definition put_table (ts : list view) (t : nat) (v : view) : list view :=
  if t <? length ts then modify ts t (fun _ => v) else ts ++ [v].
