(* C12, stage 1 - value model of properties.go as repaired (persistent chain).
   One Gallina function per Go function, same recursion.  A chain is the list
   of its links, head first; [] stands for both a nil propertySet and
   noProperty (the code treats them alike everywhere).  In a value model the
   identity of a link is its position in the chain.

   Go functions mirrored (properties.go of the repaired tree):
     valueProperty.Value, propertyImpl.GetProperty, propertyImpl.SetProperty,
     withValue, stripReturnValue, stripChainReturnValue, copyChainWithout. *)
From Tab Require Export Base.PropsOps.

Definition chain := list (key * val).

(* func (v *valueProperty) Value(key) *)
Fixpoint value (m : chain) (k : key) : option val :=
  match m with
  | [] => None                                   (* v.chain == nil || v.chain == noProperty *)
  | (k', v) :: rest => if key_eqb k' k then Some v else value rest k
  end.

(* func (pi *propertyImpl) GetProperty(key) *)
Definition get_property (m : chain) (k : key) : option val :=
  match m with
  | [] => None                                   (* pi.properties == nil *)
  | _ => value m k
  end.

(* func withValue(parent, key, val): keys are non-nil and comparable (domain
   decision 4), so the two panics are outside the quantifier *)
Definition with_value (parent : chain) (k : key) (v : val) : chain := (k, v) :: parent.

(* func copyChainWithout(from, drop *valueProperty): drop is the link at
   position [drop] below [from].  Running off the chain would be a nil
   dereference in Go (from.chain on a nil from). *)
Fixpoint copy_chain_without (from : chain) (drop : nat) : res chain :=
  match from with
  | [] => Panic
  | (k, v) :: next =>
      match drop with
      | 0 => Ok next                                              (* from == drop: return from.chain *)
      | S d => bind (copy_chain_without next d) (fun c => Ok ((k, v) :: c))   (* &valueProperty{copy..., from.key, from.val} *)
      end
  end.

(* func stripChainReturnValue(top, parent, this_, key); [pos] is where [this]
   sits in [top]; the Go parameter parent is no longer used after the repair *)
Fixpoint strip_chain_return_value (top : chain) (pos : nat) (this : chain) (k : key)
  : res (option val * chain) :=
  match this with
  | [] => Ok (None, top)                                          (* !ok *)
  | (k', v) :: rest =>
      if key_eqb k' k then
        bind (copy_chain_without top pos) (fun c => Ok (Some v, c))
      else match rest with
           | [] => Ok (None, top)                                 (* this.chain == nil || noProperty *)
           | _ => strip_chain_return_value top (S pos) rest k
           end
  end.

(* func stripReturnValue(ps, key) *)
Definition strip_return_value (ps : chain) (k : key) : res (option val * chain) :=
  match ps with
  | [] => Ok (None, ps)                                           (* !ok *)
  | (k', v) :: rest =>
      if key_eqb k' k then Ok (Some v, rest)                      (* top.val, top.chain *)
      else match rest with
           | [] => Ok (None, ps)
           | _ => strip_chain_return_value ps 1 rest k
           end
  end.

(* func (pi *propertyImpl) SetProperty(key, value); pi is never nil for an
   owner that exists *)
Definition set_property (m : chain) (k : key) (v : option val) : res chain :=
  bind (strip_return_value m k) (fun vr =>
    match v with
    | None => Ok (snd vr)
    | Some x => Ok (with_value (snd vr) k x)
    end).

(* the chain length as %#v shows it: one "Value(" / "withValue(" per link *)
Definition chain_len (m : chain) : nat := length m.
