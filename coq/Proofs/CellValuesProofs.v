(* Proofs about Cell values (Model/CellValues.v). *)
From Tab Require Import Model.Callbacks Model.CellValues Spec.CbTrace.

(* ---- operations on local Cell variables never touch the table *)
Lemma value_step_local : forall vs o r,
  value_only o = true -> vstep vs o = Ok r ->
  v_st (fst (fst r)) = v_st vs /\ snd (fst r) = [].
Proof.
  intros vs o r Hv H. destruct o; simpl in Hv; try discriminate; simpl in H.
  - inversion H; subst; simpl; auto.
  - destruct (copy_cell (v_st vs) r0 c); simpl in H; try discriminate. inversion H; subst; simpl; auto.
  - inversion H; subst; simpl; auto.
  - destruct (idx (v_vals vs) n); simpl in H; try discriminate.
    destruct (register_val a tm g cb); try discriminate; inversion H; subst; simpl; auto.
Qed.

Lemma value_ops_local : forall l vs log errs vs' log' errs',
  forallb value_only l = true ->
  vrun_from vs log errs l = Ok (vs', log', errs') ->
  v_st vs' = v_st vs /\ log' = log.
Proof.
  induction l as [|o l IH]; intros vs log errs vs' log' errs' Hv H; simpl in *.
  - inversion H; subst; auto.
  - apply andb_prop in Hv. destruct Hv as [Ho Hl].
    destruct (vstep vs o) as [r| |] eqn:E; simpl in H; try discriminate.
    destruct (value_step_local _ _ _ Ho E) as [Hs He].
    apply IH in H; auto. destruct H as [H1 H2]. rewrite H1, Hs, H2, He, app_nil_r. auto.
Qed.

(* hence: the table's render pass is what it was *)
Lemma value_ops_render : forall l vs log errs vs' log' errs' k,
  forallb value_only l = true ->
  vrun_from vs log errs l = Ok (vs', log', errs') ->
  render_passes (v_st vs') k = render_passes (v_st vs) k.
Proof.
  intros. destruct (value_ops_local _ _ _ _ _ _ _ H H0) as [E _]. rewrite E. reflexivity.
Qed.

Lemma value_ops_local_all : forall l vs log errs vs' log' errs' k,
  forallb value_only l = true ->
  vrun_from vs log errs l = Ok (vs', log', errs') ->
  v_st vs' = v_st vs /\ log' = log
  /\ render_passes (v_st vs') k = render_passes (v_st vs) k.
Proof.
  intros l vs log errs vs' log' errs' k H1 H2.
  destruct (value_ops_local _ _ _ _ _ _ _ H1 H2). repeat split; auto.
  eapply value_ops_render; eauto.
Qed.

(* a registration upon a variable: refused exactly for the unsupported target,
   otherwise appended to the variable's own list for that time; no other
   variable and nothing of the table changes *)
Lemma register_val_spec : forall vs n tm g cb v,
  idx (v_vals vs) n = Ok v ->
  vstep vs (VRegister n tm g cb) =
    if accepts KCell g
    then Ok (mkV (v_st vs) (set_nth (v_vals vs) n (mkCval (cb_append (cv_set v) tm cb) (cv_columnNum v) (cv_inRow v))), [], [false])
    else Ok (vs, [], [true]).
Proof.
  intros. simpl. rewrite H. simpl. destruct g; reflexivity.
Qed.

(* ---- Row.Add of a value *)
Lemma get_put_same : forall st sl s, get_set (put_set st sl s) sl = s.
Proof.
  intros. unfold get_set, put_set, set_sets. simpl.
  replace (slot_eqb sl sl) with true; auto.
  destruct sl; simpl; rewrite ?Nat.eqb_refl; auto.
Qed.

Lemma slot_eqb_eq : forall a b, slot_eqb a b = true -> a = b.
Proof.
  destruct a, b; simpl; intros H; try discriminate; auto;
    try (apply Nat.eqb_eq in H; subst; auto).
  apply andb_prop in H. destruct H as [H1 H2]. apply Nat.eqb_eq in H1. apply Nat.eqb_eq in H2. subst; auto.
Qed.

Lemma get_put_other : forall st sl s sl', sl <> sl' -> get_set (put_set st sl s) sl' = get_set st sl'.
Proof.
  intros. unfold get_set, put_set, set_sets. simpl.
  destruct (slot_eqb sl sl') eqn:E; auto. apply slot_eqb_eq in E. contradiction.
Qed.

(* Row.Add reads no cell's own callback set and writes no callback set at all *)
Lemma resize_put : forall st sl s n,
  resize_columns_at_least (put_set st sl s) n = put_set (resize_columns_at_least st n) sl s.
Proof.
  intros. unfold resize_columns_at_least.
  change (st_ncols (put_set st sl s)) with (st_ncols st).
  destruct (n <=? st_ncols st); reflexivity.
Qed.

Lemma column_of_table_put : forall st sl s c, column_of_table (put_set st sl s) c = column_of_table st c.
Proof. intros. reflexivity. Qed.

Lemma invoke_put_cell : forall st a b s sl tm x,
  (forall r c, sl <> SlCellSelf r c) ->
  invoke (put_set st (SlCellSelf a b) s) sl tm x = invoke st sl tm x.
Proof.
  intros. unfold invoke. rewrite get_put_other; auto.
Qed.

Lemma invoke_col_put_cell : forall st a b s col tm x,
  invoke_col (put_set st (SlCellSelf a b) s) col tm x = invoke_col st col tm x.
Proof.
  intros. destruct col; simpl; auto.
Qed.

Lemma row_add_put_cell : forall st a b s r,
  row_add (put_set st (SlCellSelf a b) s) r
  = bind (row_add st r) (fun se => Ok (put_set (fst se) (SlCellSelf a b) s, snd se)).
Proof.
  intros. unfold row_add.
  change (st_rows (put_set st (SlCellSelf a b) s)) with (st_rows st).
  destruct (idx (st_rows st) r) as [row| |]; auto. cbn [bind].
  destruct (rw_cells row) as [cells|]; auto.
  match goal with |- context [set_rows (put_set st ?sl s) ?v] =>
    change (set_rows (put_set st sl s) v) with (put_set (set_rows st v) sl s) end.
  destruct (rw_inTable row).
  - rewrite resize_put. rewrite column_of_table_put.
    destruct (column_of_table _ _) as [col| |]; auto.
  - reflexivity.
Qed.

(* the stored cell starts with exactly the callbacks the value carried, every
   other callback set of the table is what it was, and the add-time
   invocations are those of adding a fresh cell *)
Lemma row_add_val_spec : forall st r v row cells,
  idx (st_rows st) r = Ok row -> rw_cells row = Some cells ->
  forall st' evs, row_add_val st r v = Ok (st', evs) ->
  exists st0, row_add st r = Ok (st0, evs)
    /\ st' = put_set st0 (SlCellSelf r (S (length cells))) (cv_set v)
    /\ get_set st' (SlCellSelf r (S (length cells))) = cv_set v
    /\ forall sl, sl <> SlCellSelf r (S (length cells)) -> get_set st' sl = get_set st0 sl.
Proof.
  intros st r v row cells Hi Hc st' evs H. unfold row_add_val in H. rewrite Hi in H. simpl in H. rewrite Hc in H.
  rewrite row_add_put_cell in H. destruct (row_add st r) as [[st0 e0]| |]; simpl in H; try discriminate.
  inversion H; subst. exists st0. split; auto. split; auto. split.
  - apply get_put_same.
  - intros. apply get_put_other. congruence.
Qed.

(* a separator takes no cell, value or not *)
Lemma row_add_val_sep : forall st r v row,
  idx (st_rows st) r = Ok row -> rw_cells row = None -> row_add_val st r v = Ok (st, []).
Proof. intros. unfold row_add_val. rewrite H. simpl. rewrite H0. reflexivity. Qed.

(* ---- a callback set is rebuilt from the empty one by its entries *)
Definition append_entries (s : cbset) (es : list (ctime * nat)) : cbset :=
  fold_left (fun s e => cb_append s (fst e) (snd e)) es s.

Lemma append_add : forall l a b c d, append_entries (mkCbset a b c d) (map (fun cb => (TAdd, cb)) l) = mkCbset (a ++ l) b c d.
Proof. induction l; intros; simpl; [rewrite app_nil_r; auto|]. unfold append_entries in *. simpl. rewrite IHl, <- app_assoc. auto. Qed.
Lemma append_pre : forall l a b c d, append_entries (mkCbset a b c d) (map (fun cb => (TPre, cb)) l) = mkCbset a (b ++ l) c d.
Proof. induction l; intros; simpl; [rewrite app_nil_r; auto|]. unfold append_entries in *. simpl. rewrite IHl, <- app_assoc. auto. Qed.
Lemma append_render : forall l a b c d, append_entries (mkCbset a b c d) (map (fun cb => (TRender, cb)) l) = mkCbset a b (c ++ l) d.
Proof. induction l; intros; simpl; [rewrite app_nil_r; auto|]. unfold append_entries in *. simpl. rewrite IHl, <- app_assoc. auto. Qed.
Lemma append_post : forall l a b c d, append_entries (mkCbset a b c d) (map (fun cb => (TPost, cb)) l) = mkCbset a b c (d ++ l).
Proof. induction l; intros; simpl; [rewrite app_nil_r; auto|]. unfold append_entries in *. simpl. rewrite IHl, <- app_assoc. auto. Qed.

Lemma append_app : forall s x y, append_entries s (x ++ y) = append_entries (append_entries s x) y.
Proof. intros. unfold append_entries. apply fold_left_app. Qed.

Lemma entries_rebuild : forall s, append_entries cbset0 (set_entries s) = s.
Proof.
  intros [a b c d]. unfold set_entries. cbn [cs_add cs_pre cs_render cs_post].
  rewrite !append_app. unfold cbset0.
  rewrite append_add, append_pre, append_render, append_post. reflexivity.
Qed.
