(* C12, stage 2 - the explicit-heap model: SetProperty only allocates; what a
   head pointer reads is the value model's chain; hence the frame property for
   any number of owners sharing any links. *)
From Tab Require Import Model.Props Model.PropsHeap Spec.PropMap Proofs.PropsProofs.

Ltac inv H := inversion H; subst; try discriminate.
Ltac same_node :=
  repeat match goal with
  | A : nth_error ?h ?i = Some ?m, B : nth_error ?h ?i = Some ?n |- _ =>
      rewrite B in A; inversion A; subst; clear A
  end.

Definition ptr_lt (p : ptr) (i : nat) : Prop := match p with None => True | Some q => q < i end.

(* every link points to an older link: chains are acyclic and never dangle *)
Definition hwf (h : heap) : Prop := forall i n, nth_error h i = Some n -> ptr_lt (n_next n) i.

(* walking from pointer a reads the links pre and arrives at pointer b *)
Inductive path (h : heap) : ptr -> chain -> ptr -> Prop :=
| path_nil p : path h p [] p
| path_cons i n pre t :
    nth_error h i = Some n -> ptr_lt (n_next n) i -> path h (n_next n) pre t ->
    path h (Some i) ((n_key n, n_val n) :: pre) t.

(* the whole chain under a head pointer *)
Definition reads (h : heap) (p : ptr) (c : chain) : Prop := path h p c None.

Lemma path_app h a pre b : path h a pre b -> forall c t, path h b c t -> path h a (pre ++ c) t.
Proof.
  induction 1; intros c t0 H2; cbn [app].
  - exact H2.
  - econstructor; eauto.
Qed.

Lemma path_ext h h2 a pre b : path h a pre b -> path (h ++ h2) a pre b.
Proof.
  induction 1.
  - constructor.
  - econstructor; eauto. rewrite nth_error_app1; auto. apply nth_error_Some. congruence.
Qed.

Lemma path_len h a pre b i j : path h a pre b -> a = Some i -> b = Some j -> length pre + j <= i.
Proof.
  intros H. revert i j. induction H; intros i0 j E1 E2.
  - subst. inversion E2; subst. cbn. lia.
  - inversion E1; subst i0. cbn [length].
    destruct (n_next n) as [q|] eqn:En.
    + cbn in H0. specialize (IHpath q j eq_refl E2). lia.
    + inversion H1; subst. discriminate.
Qed.

Lemma reads_len h i c : reads h (Some i) c -> length c <= S i.
Proof.
  unfold reads. intros H. remember (Some i) as a. remember None as b.
  revert i Heqa. induction H; intros i0 E.
  - subst. discriminate.
  - inversion E; subst i0. cbn [length].
    destruct (n_next n) as [q|] eqn:En.
    + cbn in H0. specialize (IHpath Heqb q eq_refl). lia.
    + inversion H1; subst. cbn; lia.
Qed.

Lemma reads_lt h p c : reads h p c -> ptr_lt p (length h).
Proof.
  intros H. inversion H; subst; cbn; auto. apply nth_error_Some. congruence.
Qed.

Lemma reads_fun h p c : reads h p c -> forall c', reads h p c' -> c = c'.
Proof.
  unfold reads. intros H. remember None as b. induction H; intros c' H'.
  - subst. inv H'. reflexivity.
  - inv H'. same_node. f_equal. apply IHpath; auto.
Qed.

(* on a well-formed heap every in-range pointer reads a chain *)
Lemma hwf_reads h : hwf h -> forall p, ptr_lt p (length h) -> exists c, reads h p c.
Proof.
  intros W. assert (forall b i, i < b -> i < length h -> exists c, reads h (Some i) c) as X.
  { induction b; intros i Hb Hl; [lia|].
    destruct (nth_error h i) as [n|] eqn:E; [|apply nth_error_None in E; lia].
    pose proof (W i n E) as Hn.
    destruct (n_next n) as [q|] eqn:En.
    - cbn in Hn. destruct (IHb q) as [c Hc]; [lia|lia|].
      exists ((n_key n, n_val n) :: c). econstructor; eauto; rewrite En; auto.
    - exists [(n_key n, n_val n)]. econstructor; eauto; rewrite En; cbn; auto. constructor. }
  intros [i|] Hp.
  - cbn in Hp. apply (X (S i)); lia.
  - exists []. constructor.
Qed.

Lemma hwf_alloc h n : hwf h -> ptr_lt (n_next n) (length h) -> hwf (h ++ [n]).
Proof.
  intros W L i m E.
  destruct (Nat.lt_ge_cases i (length h)) as [Hi|Hi].
  - rewrite nth_error_app1 in E by exact Hi. apply (W i m E).
  - rewrite nth_error_app2 in E by exact Hi.
    destruct (i - length h) as [|d] eqn:D; cbn in E.
    + inversion E; subst m. destruct (n_next n); cbn in *; lia.
    + destruct d; discriminate.
Qed.

(* inversion lemmas *)
Lemma reads_inv h i c : reads h (Some i) c ->
  exists n c', nth_error h i = Some n /\ ptr_lt (n_next n) i /\ reads h (n_next n) c'
               /\ c = (n_key n, n_val n) :: c'.
Proof. intros H. inv H. eauto 8. Qed.
Lemma reads_none_inv h c : reads h None c -> c = [].
Proof. intros H. inv H. reflexivity. Qed.
Lemma path_nil_inv h a b : path h a [] b -> a = b.
Proof. intros H. inv H. reflexivity. Qed.
Lemma path_cons_inv h a x pre t : path h a (x :: pre) t ->
  exists i n, a = Some i /\ nth_error h i = Some n /\ ptr_lt (n_next n) i
              /\ path h (n_next n) pre t /\ x = (n_key n, n_val n).
Proof. intros H. inv H. eauto 10. Qed.

(* ---- reading *)

Lemma hvalue_ok h k : forall fuel i c,
  reads h (Some i) c -> length c <= fuel -> hvalue fuel h i k = Ok (value c k).
Proof.
  induction fuel; intros i c H L; destruct (reads_inv _ _ _ H) as (n & c' & En & Hl & Hr & ->).
  - cbn in L. lia.
  - cbn [hvalue value]. unfold deref. rewrite En. cbn [bind].
    destruct (key_eqb (n_key n) k); [reflexivity|].
    destruct (n_next n) as [q|] eqn:Eq.
    + apply IHfuel; auto. cbn in L. lia.
    + apply reads_none_inv in Hr. subst. reflexivity.
Qed.

Lemma hget_ok h p c k : reads h p c -> hget_property h p k = Ok (get_property c k).
Proof.
  intros H. rewrite get_property_value. destruct p as [i|]; cbn [hget_property].
  - apply hvalue_ok; auto. pose proof (reads_len _ _ _ H). pose proof (reads_lt _ _ _ H) as L. cbn in L. lia.
  - apply reads_none_inv in H. subst. reflexivity.
Qed.

Lemma hlen_ok h : forall fuel p c, reads h p c -> length c <= fuel -> hlen fuel h p = Ok (length c).
Proof.
  induction fuel; intros p c H L; destruct p as [i|].
  - destruct (reads_inv _ _ _ H) as (n & c' & En & Hl & Hr & ->). cbn in L. lia.
  - apply reads_none_inv in H. subst. reflexivity.
  - destruct (reads_inv _ _ _ H) as (n & c' & En & Hl & Hr & ->).
    cbn [hlen length]. unfold deref. rewrite En. cbn [bind].
    rewrite (IHfuel (n_next n) c'); auto. cbn in L. lia.
  - apply reads_none_inv in H. subst. reflexivity.
Qed.

Lemma hchain_len_ok h p c : reads h p c -> hchain_len h p = Ok (chain_len c).
Proof.
  intros H. unfold hchain_len, chain_len. apply hlen_ok; auto.
  destruct p as [i|].
  - pose proof (reads_len _ _ _ H). pose proof (reads_lt _ _ _ H) as L. cbn in L. lia.
  - apply reads_none_inv in H. subst. cbn. lia.
Qed.

(* ---- SetProperty only allocates: unconditionally, on any heap *)

Definition extends (h h' : heap) : Prop := exists h2, h' = h ++ h2.

Lemma extends_refl h : extends h h.
Proof. exists []. rewrite app_nil_r. reflexivity. Qed.
Lemma extends_trans a b c : extends a b -> extends b c -> extends a c.
Proof. intros [x ->] [y ->]. exists (x ++ y). rewrite app_assoc. reflexivity. Qed.
Lemma extends_alloc h n : extends h (fst (alloc h n)).
Proof. exists [n]. reflexivity. Qed.
Lemma extends_nth h h' p : extends h h' -> p < length h -> nth_error h' p = nth_error h p.
Proof. intros [h2 ->] L. apply nth_error_app1. exact L. Qed.

Lemma hcopy_extends : forall fuel h from drop h' p',
  hcopy_chain_without fuel h from drop = Ok (h', p') -> extends h h'.
Proof.
  induction fuel; intros h from drop h' p' H; cbn [hcopy_chain_without] in H; [discriminate|].
  destruct from as [i|]; [|discriminate].
  destruct (deref h i) as [n| |]; cbn [bind] in H; try discriminate.
  destruct (Nat.eqb i drop).
  - inversion H; subst. apply extends_refl.
  - destruct (hcopy_chain_without fuel h (n_next n) drop) as [[h1 c]| |] eqn:E; cbn [bind fst snd] in H; try discriminate.
    unfold alloc in H. inversion H; subst.
    eapply extends_trans; [eapply IHfuel; eauto|]. exists [mkNode (n_key n) (n_val n) c]. reflexivity.
Qed.

Lemma hstrip_chain_extends k : forall fuel h top this_ v h' p',
  hstrip_chain_return_value fuel h top this_ k = Ok (v, (h', p')) -> extends h h'.
Proof.
  induction fuel; intros h top this_ v h' p' H; cbn [hstrip_chain_return_value] in H; [discriminate|].
  destruct this_ as [i|].
  - destruct (deref h i) as [n| |]; cbn [bind] in H; try discriminate.
    destruct (key_eqb (n_key n) k).
    + destruct (hcopy_chain_without (length h) h (Some top) i) as [[h1 c]| |] eqn:E; cbn [bind] in H; try discriminate.
      inversion H; subst. eapply hcopy_extends; eauto.
    + destruct (n_next n).
      * eapply IHfuel; eauto.
      * inversion H; subst. apply extends_refl.
  - inversion H; subst. apply extends_refl.
Qed.

Lemma hstrip_extends h ps k v h' p' :
  hstrip_return_value h ps k = Ok (v, (h', p')) -> extends h h'.
Proof.
  unfold hstrip_return_value. intros H. destruct ps as [t|].
  - destruct (deref h t) as [n| |]; cbn [bind] in H; try discriminate.
    destruct (key_eqb (n_key n) k).
    + inversion H; subst. apply extends_refl.
    + destruct (n_next n).
      * eapply hstrip_chain_extends; eauto.
      * inversion H; subst. apply extends_refl.
  - inversion H; subst. apply extends_refl.
Qed.

Lemma hset_extends h ps k v h' p' :
  hset_property h ps k v = Ok (h', p') -> extends h h'.
Proof.
  unfold hset_property. intros H.
  destruct (hstrip_return_value h ps k) as [[v0 [h1 p1]]| |] eqn:E; cbn [bind fst snd] in H; try discriminate.
  apply hstrip_extends in E. destruct v.
  - unfold alloc in H. inversion H; subst. eapply extends_trans; [exact E|]. exists [mkNode k v p1]. reflexivity.
  - inversion H; subst. exact E.
Qed.

(* allocation-only, in the words of DESIGN section 6 *)
Lemma hset_alloc_only h ps k v h' p' :
  hset_property h ps k v = Ok (h', p') ->
  forall p, p < length h -> nth_error h' p = nth_error h p.
Proof. intros H p L. eapply extends_nth; eauto. eapply hset_extends; eauto. Qed.

(* ---- what SetProperty computes, on chains that read *)

Lemma hcopy_ok h drop nd c_rest :
  nth_error h drop = Some nd -> reads h (n_next nd) c_rest ->
  forall pre from, path h from pre (Some drop) ->
  forall fuel, length pre < fuel -> hwf h ->
  exists h2 p2, hcopy_chain_without fuel h from drop = Ok (h ++ h2, p2)
                /\ reads (h ++ h2) p2 (pre ++ c_rest) /\ hwf (h ++ h2).
Proof.
  intros Hd Hr pre. induction pre as [|x pre IH]; intros from P fuel L W.
  - apply path_nil_inv in P. subst from. destruct fuel; [cbn in L; lia|].
    cbn [hcopy_chain_without]. unfold deref. rewrite Hd. cbn [bind]. rewrite Nat.eqb_refl.
    exists [], (n_next nd). rewrite app_nil_r. auto.
  - destruct (path_cons_inv _ _ _ _ _ P) as (i & n & -> & En & Hl & P' & ->).
    destruct fuel; [cbn in L; lia|].
    cbn [hcopy_chain_without]. unfold deref. rewrite En. cbn [bind].
    assert (i <> drop) as Ne.
    { destruct (n_next n) as [q|] eqn:Eq.
      - pose proof (path_len _ _ _ _ q drop P' eq_refl eq_refl). cbn in Hl. lia.
      - inv P'. }
    apply Nat.eqb_neq in Ne. rewrite Ne.
    destruct (IH (n_next n) P' fuel) as (h2 & p2 & E & R & W2); [cbn in L; lia|exact W|].
    rewrite E. cbn [bind fst snd alloc].
    exists (h2 ++ [mkNode (n_key n) (n_val n) p2]), (Some (length (h ++ h2))).
    rewrite app_assoc. split; [reflexivity|]. split.
    + cbn [app]. apply (path_cons _ _ (mkNode (n_key n) (n_val n) p2)).
      * rewrite nth_error_app2 by lia. rewrite Nat.sub_diag. reflexivity.
      * cbn [n_next]. apply (reads_lt _ _ _ R).
      * cbn [n_next]. apply path_ext. exact R.
    + apply hwf_alloc; auto. cbn [n_next]. apply (reads_lt _ _ _ R).
Qed.

Lemma path_snoc h a pre i n :
  path h a pre (Some i) -> nth_error h i = Some n -> ptr_lt (n_next n) i ->
  path h a (pre ++ [(n_key n, n_val n)]) (n_next n).
Proof.
  intros P E L. eapply path_app; [exact P|]. econstructor; eauto. constructor.
Qed.

Lemma path_top_lt h top pre t : path h (Some top) pre t -> pre <> [] -> top < length h.
Proof.
  intros P N. destruct pre; [congruence|].
  destruct (path_cons_inv _ _ _ _ _ P) as (i & n & E & En & _). inversion E; subst.
  apply nth_error_Some. congruence.
Qed.

Lemma hstrip_chain_ok h k top : hwf h ->
  forall fuel this_ c_this pre,
  reads h this_ c_this -> path h (Some top) pre this_ -> pre <> [] -> length c_this < fuel ->
  exists h2 p2, hstrip_chain_return_value fuel h top this_ k = Ok (value c_this k, (h ++ h2, p2))
                /\ reads (h ++ h2) p2 (pre ++ remove_first c_this k) /\ hwf (h ++ h2).
Proof.
  intros W. induction fuel; intros this_ c_this pre R P NE L; [lia|].
  cbn [hstrip_chain_return_value].
  destruct this_ as [i|].
  - destruct (reads_inv _ _ _ R) as (n & c & En & Hl & Hr & ->).
    unfold deref. rewrite En. cbn [bind value remove_first].
    destruct (key_eqb (n_key n) k) eqn:E.
    + assert (length pre < length h) as Lp.
      { pose proof (path_len _ _ _ _ top i P eq_refl eq_refl).
        pose proof (path_top_lt _ _ _ _ P NE). lia. }
      destruct (hcopy_ok h i n c En Hr pre (Some top) P (length h) Lp W) as (h2 & p2 & Ec & Rc & Wc).
      rewrite Ec. cbn [bind]. exists h2, p2. auto.
    + destruct (n_next n) as [q|] eqn:Eq.
      * destruct (IHfuel (Some q) c (pre ++ [(n_key n, n_val n)])) as (h2 & p2 & E2 & R2 & W2).
        { exact Hr. }
        { rewrite <- Eq. apply (path_snoc h (Some top) pre i n); auto. }
        { destruct pre; discriminate. }
        { cbn in L. lia. }
        rewrite E2. exists h2, p2. rewrite <- app_assoc in R2. cbn [app] in R2. auto.
      * apply reads_none_inv in Hr. subst c. exists [], (Some top). rewrite app_nil_r.
        cbn [value remove_first]. repeat split; auto.
        eapply path_app; [exact P|]. eapply path_cons; eauto. rewrite Eq. constructor.
  - apply reads_none_inv in R. subst. exists [], (Some top). rewrite app_nil_r.
    cbn [value remove_first]. repeat split; auto. rewrite app_nil_r. exact P.
Qed.

Lemma hstrip_ok h ps c k : hwf h -> reads h ps c ->
  exists h2 p2, hstrip_return_value h ps k = Ok (value c k, (h ++ h2, p2))
                /\ reads (h ++ h2) p2 (remove_first c k) /\ hwf (h ++ h2).
Proof.
  intros W R. unfold hstrip_return_value. destruct ps as [i|].
  - destruct (reads_inv _ _ _ R) as (n & c0 & En & Hl & Hr & ->).
    unfold deref. rewrite En. cbn [bind value remove_first].
    destruct (key_eqb (n_key n) k) eqn:E.
    + exists [], (n_next n). rewrite app_nil_r. auto.
    + destruct (n_next n) as [q|] eqn:Eq.
      * destruct (hstrip_chain_ok h k i W (length h) (Some q) c0 [(n_key n, n_val n)]) as (h2 & p2 & E2 & R2 & W2).
        { exact Hr. }
        { rewrite <- Eq. eapply path_cons; eauto. constructor. }
        { discriminate. }
        { pose proof (reads_len _ _ _ Hr). cbn in Hl.
          assert (i < length h) by (apply nth_error_Some; congruence). lia. }
        rewrite E2. exists h2, p2. auto.
      * apply reads_none_inv in Hr. subst c0. exists [], (Some i). rewrite app_nil_r.
        cbn [value remove_first]. repeat split; auto.
  - apply reads_none_inv in R. subst. exists [], None. rewrite app_nil_r. cbn. repeat split; auto. constructor.
Qed.

(* SetProperty on the heap is set_property on the chain it reads, in fresh cells *)
Lemma hset_ok h ps c k v : hwf h -> reads h ps c ->
  exists h2 p2, hset_property h ps k v = Ok (h ++ h2, p2)
                /\ reads (h ++ h2) p2 (set_result c k v) /\ hwf (h ++ h2).
Proof.
  intros W R. unfold hset_property.
  destruct (hstrip_ok h ps c k W R) as (h2 & p2 & E & R2 & W2). rewrite E. cbn [bind fst snd].
  destruct v as [x|]; cbn [set_result].
  - cbn [alloc]. exists (h2 ++ [mkNode k x p2]), (Some (length (h ++ h2))). rewrite app_assoc.
    split; [reflexivity|]. split.
    + eapply (path_cons _ _ (mkNode k x p2)).
      * rewrite nth_error_app2 by lia. rewrite Nat.sub_diag. reflexivity.
      * cbn [n_next]. apply (reads_lt _ _ _ R2).
      * cbn [n_next]. apply path_ext. exact R2.
    + apply hwf_alloc; auto. cbn [n_next]. apply (reads_lt _ _ _ R2).
  - exists h2, p2. auto.
Qed.

(* ---- the frame property, one step *)

(* any pointer that read a chain before the set reads the same chain after it *)
Lemma hset_frame_reads h ps k v h' p' q c :
  hset_property h ps k v = Ok (h', p') -> reads h q c -> reads h' q c.
Proof.
  intros H R. destruct (hset_extends _ _ _ _ _ _ H) as [h2 ->]. apply path_ext. exact R.
Qed.

Lemma hset_frame h ps k v h' p' :
  hwf h -> hset_property h ps k v = Ok (h', p') ->
  forall q, ptr_lt q (length h) -> forall k', hget_property h' q k' = hget_property h q k'.
Proof.
  intros W H q L k'. destruct (hwf_reads h W q L) as [c R].
  rewrite (hget_ok h q c k' R).
  rewrite (hget_ok h' q c k' (hset_frame_reads _ _ _ _ _ _ _ _ H R)). reflexivity.
Qed.

(* ---- the frame property over histories: any number of owners, holding any
   head pointers (shared or not), any interleaving of sets *)

Definition hop := (nat * key * option val)%type.      (* owner index, key, value *)

Fixpoint hrun (h : heap) (os : list ptr) (ops : list hop) : res (heap * list ptr) :=
  match ops with
  | [] => Ok (h, os)
  | (j, k, v) :: rest =>
      match nth_error os j with
      | None => hrun h os rest
      | Some p => bind (hset_property h p k v) (fun hp => hrun (fst hp) (upd os j (snd hp)) rest)
      end
  end.

(* what owner j's map should be: its initial map, updated by ITS OWN sets only *)
Fixpoint own_view (j : nat) (a : amap) (ops : list hop) : amap :=
  match ops with
  | [] => a
  | (j', k, v) :: rest => own_view j (if Nat.eqb j' j then a_set a k v else a) rest
  end.

Lemma own_view_ext j ops : forall a b, (forall k, a k = b k) -> forall k, own_view j a ops k = own_view j b ops k.
Proof.
  induction ops as [|[[j' k] v] r IH]; intros a b H x; cbn [own_view].
  - apply H.
  - apply IH. intros y. destruct (Nat.eqb j' j); auto. unfold a_set. destruct (key_eqb k y); auto.
Qed.

Lemma nth_error_upd_same {A} (l : list A) i x : i < length l -> nth_error (upd l i x) i = Some x.
Proof.
  revert i. induction l as [|y l IH]; intros i L; cbn in L; [lia|].
  destruct i; cbn; auto. apply IH. lia.
Qed.
Lemma nth_error_upd_other {A} (l : list A) i j x : i <> j -> nth_error (upd l i x) j = nth_error l j.
Proof.
  revert i j. induction l as [|y l IH]; intros i j N; cbn.
  - reflexivity.
  - destruct i, j; cbn; auto; try congruence.
Qed.
Lemma upd_length {A} (l : list A) i x : length (upd l i x) = length l.
Proof. revert i. induction l as [|y l IH]; intros i; cbn; auto. destruct i; cbn; auto. Qed.

Definition owner_ok (h : heap) (p : ptr) (a : amap) : Prop :=
  exists c, reads h p c /\ NoDup (keys c) /\ forall k, get_property c k = a k.

Lemma frame_hist ops : forall h os (view : nat -> amap),
  hwf h ->
  (forall j p, nth_error os j = Some p -> owner_ok h p (view j)) ->
  exists h' os', hrun h os ops = Ok (h', os') /\ hwf h' /\ extends h h' /\ length os' = length os
    /\ forall j p, nth_error os j = Some p ->
         exists p', nth_error os' j = Some p' /\ owner_ok h' p' (own_view j (view j) ops).
Proof.
  induction ops as [|[[j k] v] rest IH]; intros h os view W I; cbn [hrun].
  - exists h, os. repeat split; auto using extends_refl. intros j p E. exists p. split; auto. cbn. apply I; auto.
  - destruct (nth_error os j) as [p|] eqn:Ej.
    + destruct (I j p Ej) as (c & R & ND & A).
      destruct (hset_ok h p c k v W R) as (h2 & p2 & E & R2 & W2). rewrite E. cbn [bind fst snd].
      set (view' := fun i => if Nat.eqb j i then a_set (view i) k v else view i).
      destruct (IH (h ++ h2) (upd os j p2) view' W2) as (h' & os' & Er & W' & X & Ln & F).
      { intros i q Ei. destruct (Nat.eq_dec j i) as [<-|Ne].
        - rewrite nth_error_upd_same in Ei by (apply nth_error_Some; congruence).
          inversion Ei; subst q. exists (set_result c k v). split; [exact R2|].
          pose proof (set_property_ok c k v) as S. split.
          + eapply set_nodup; eauto.
          + intros y. unfold view'. rewrite Nat.eqb_refl. rewrite (get_set c k v _ y ND S).
            unfold a_set. destruct (key_eqb k y); auto.
        - rewrite nth_error_upd_other in Ei by exact Ne.
          destruct (I i q Ei) as (ci & Ri & NDi & Ai). exists ci. split; [apply path_ext; exact Ri|].
          split; auto. intros y. unfold view'. apply Nat.eqb_neq in Ne. rewrite Ne. apply Ai. }
      exists h', os'. split; [exact Er|]. split; [exact W'|]. split.
      { eapply extends_trans; [|exact X]. exists h2. reflexivity. }
      split; [rewrite Ln; apply upd_length|].
      intros i q Ei.
      assert (exists q', nth_error (upd os j p2) i = Some q') as [q' Eq'].
      { destruct (Nat.eq_dec j i) as [<-|Ne].
        - exists p2. apply nth_error_upd_same. apply nth_error_Some. congruence.
        - exists q. rewrite nth_error_upd_other; auto. }
      destruct (F i q' Eq') as (p' & Ep' & O). exists p'. split; auto.
    + destruct (IH h os view W I) as (h' & os' & Er & W' & X & Ln & F).
      exists h', os'. repeat split; auto. intros i q Ei. destruct (F i q Ei) as (p' & Ep' & O).
      exists p'. split; auto. cbn [own_view].
      destruct (Nat.eqb j i) eqn:Eji; [|exact O].
      apply Nat.eqb_eq in Eji. subst i. congruence.
Qed.
