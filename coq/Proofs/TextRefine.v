(* Second half of the refinement: the emitter's lines are the flattened spec
   lines, and RenderTo's writes concatenate to the flattened layout. *)
From Tab Require Import Model.Text Spec.TextLayout Proofs.TextBase Proofs.TextMeasure.

Local Open Scope nat_scope.

Lemma flat_segs_app a b : flat_segs (a ++ b) = flat_segs a ++ flat_segs b.
Proof. unfold flat_segs. apply flat_map_app. Qed.

Lemma flat_segs_cons x t : flat_segs (x :: t) = flat_seg x ++ flat_segs t.
Proof. reflexivity. Qed.
Lemma flat_segs_nil : flat_segs [] = [].
Proof. reflexivity. Qed.

Lemma repeat_z_nat s n : repeat_z s (Z.of_nat n) = Ok (rep n s).
Proof.
  unfold repeat_z. replace (Z.of_nat n <? 0)%Z with false by (symmetry; apply Z.ltb_ge; lia).
  rewrite Nat2Z.id. reflexivity.
Qed.

Lemma pads_sum a p : fst (pads a p) + snd (pads a p) = p.
Proof.
  destruct a; cbn [pads fst snd]; try lia.
  assert (p / 2 <= p) by (apply Nat.div_le_upper_bound; lia). lia.
Qed.

(* ------------------------------------------------------------------ *)
(* WithinWidthAligned = the spec slot                                  *)
Lemma wwa_ok s w cw al a :
  norm_al al = AlKnown a ->
  within_width_aligned (mkWS s (Z.of_nat w)) (Z.of_nat cw) al
  = Ok (flat_segs (spec_slot cw a (s, w))).
Proof.
  intros Hal. unfold norm_al in Hal. unfold within_width_aligned. cbn [ws_w ws_s].
  replace (Z.of_nat w <? 0)%Z with false by (symmetry; apply Z.ltb_ge; lia).
  rewrite Hal.
  assert (Ep : (if (Z.of_nat cw - Z.of_nat w <? 0)%Z then 0%Z else (Z.of_nat cw - Z.of_nat w)%Z)
               = Z.of_nat (cw - w)).
  { destruct (Z.ltb_spec (Z.of_nat cw - Z.of_nat w) 0); lia. }
  rewrite Ep. unfold spec_slot. cbn [fst snd].
  destruct a; cbn [pads].
  - rewrite repeat_z_nat. cbn [bind]. unfold flat_segs. cbn [flat_map flat_seg rep app].
    rewrite app_nil_r. reflexivity.
  - rewrite repeat_z_nat. cbn [bind]. unfold flat_segs. cbn [flat_map flat_seg rep app].
    rewrite app_nil_r. reflexivity.
  - set (p := cw - w).
    assert (Hle : p / 2 <= p) by (apply Nat.div_le_upper_bound; lia).
    assert (E1 : Z.quot (Z.of_nat p) 2 = Z.of_nat (p / 2)).
    { rewrite Z.quot_div_nonneg by lia. rewrite (Nat2Z.inj_div p 2). reflexivity. }
    rewrite E1.
    replace (Z.of_nat p - Z.of_nat (p / 2))%Z with (Z.of_nat (p - p / 2)) by lia.
    rewrite !repeat_z_nat. cbn [bind]. unfold flat_segs. cbn [flat_map flat_seg].
    rewrite app_nil_r. reflexivity.
Qed.

(* ------------------------------------------------------------------ *)
(* the loop of commonRenderedLine                                      *)
Lemma rendered_fields_ok cws : forall i cells als inner (F : nat -> bytes),
  (forall j w, nth_error cws j = Some w ->
     exists ws a, nth_error cells (i + j) = Some ws /\ nth_error als (i + j) = Some a
                  /\ within_width_aligned ws w a = Ok (F (i + j))) ->
  rendered_fields i cws cells als inner
  = Ok (flat_map (fun j => F j :: (if nilb inner then [] else [inner])) (seq i (length cws))).
Proof.
  induction cws as [|w cws IH]; intros i cells als inner F H; [reflexivity|].
  cbn [rendered_fields length seq flat_map].
  destruct (H 0 w eq_refl) as (ws & a & E1 & E2 & E3).
  rewrite Nat.add_0_r in E1, E2, E3.
  unfold idx. rewrite E1, E2. cbn [bind]. rewrite E3. cbn [bind].
  rewrite (IH (S i) cells als inner F).
  - cbn [bind]. reflexivity.
  - intros j w' Hj. destruct (H (S j) w' Hj) as (ws' & a' & X1 & X2 & X3).
    rewrite Nat.add_succ_r in X1, X2, X3. eauto.
Qed.

(* ------------------------------------------------------------------ *)
(* fields, last replaced, joined  =  the flattened skeleton            *)
Definition wrap (s : list seg) : list seg := Pad 1 :: s ++ [Pad 1].

Lemma framed_tail_bytes (i r : bytes) : forall ss x,
  ss <> [] ->
  join [SP] (replace_last (x :: flat_map (fun s => [flat_segs s; i]) ss) r)
  = x ++ flat_segs (skel_tail i r (map wrap ss)).
Proof.
  induction ss as [|s ss IH]; intros x H; [congruence|].
  destruct ss as [|s2 rest].
  - cbn [flat_map app replace_last join map skel_tail]. unfold wrap.
    rewrite !flat_segs_app, !flat_segs_cons, !flat_segs_app, !flat_segs_cons, flat_segs_nil.
    cbn [flat_seg rep app]. rewrite !app_nil_r, <- !app_assoc. reflexivity.
  - change (flat_map (fun s0 => [flat_segs s0; i]) (s :: s2 :: rest))
      with (flat_segs s :: i :: flat_map (fun s0 => [flat_segs s0; i]) (s2 :: rest)).
    assert (Hne : exists y L, flat_map (fun s0 => [flat_segs s0; i]) (s2 :: rest) = y :: L)
      by (cbn [flat_map app]; eauto).
    destruct Hne as (y & L & EL).
    assert (E : replace_last (x :: flat_segs s :: i :: flat_map (fun s0 => [flat_segs s0; i]) (s2 :: rest)) r
                = x :: flat_segs s :: replace_last (i :: flat_map (fun s0 => [flat_segs s0; i]) (s2 :: rest)) r).
    { rewrite EL. reflexivity. }
    rewrite E.
    assert (Hne2 : exists y2 L2, replace_last (i :: flat_map (fun s0 => [flat_segs s0; i]) (s2 :: rest)) r = y2 :: L2).
    { rewrite EL. cbn [replace_last]. destruct L; eauto. }
    destruct Hne2 as (y2 & L2 & EL2).
    assert (EJ : forall (a b : bytes) (T : list bytes), T <> [] ->
                 join [SP] (a :: b :: T) = a ++ [SP] ++ b ++ [SP] ++ join [SP] T).
    { intros a b T HT. destruct T; [congruence|]. reflexivity. }
    rewrite EJ by (rewrite EL2; discriminate).
    rewrite IH by discriminate.
    change (map wrap (s :: s2 :: rest)) with (wrap s :: map wrap (s2 :: rest)).
    assert (ES : forall b b2 bs, skel_tail i r (b :: b2 :: bs) = b ++ Glyph i :: skel_tail i r (b2 :: bs))
      by reflexivity.
    change (map wrap (s2 :: rest)) with (wrap s2 :: map wrap rest). rewrite ES.
    rewrite flat_segs_app, (flat_segs_cons (Glyph i)).
    change (flat_segs (wrap s)) with (rep 1 [SP] ++ flat_segs (s ++ [Pad 1])).
    rewrite flat_segs_app, flat_segs_cons, flat_segs_nil.
    cbn [flat_seg rep app]. rewrite ?app_nil_r, <- ?app_assoc. reflexivity.
Qed.

Lemma bare_bytes : forall ss, flat_segs (join [Pad 1] ss) = join [SP] (map flat_segs ss).
Proof.
  induction ss as [|s ss IH]; [reflexivity|].
  destruct ss as [|s2 rest]; [reflexivity|].
  change (join [Pad 1] (s :: s2 :: rest)) with (s ++ [Pad 1] ++ join [Pad 1] (s2 :: rest)).
  change (map flat_segs (s :: s2 :: rest)) with (flat_segs s :: map flat_segs (s2 :: rest)).
  change (join [SP] (flat_segs s :: map flat_segs (s2 :: rest)))
    with (flat_segs s ++ [SP] ++ join [SP] (map flat_segs (s2 :: rest))).
  rewrite !flat_segs_app, IH. reflexivity.
Qed.

(* rule lines *)
Definition hbody (h : bytes) (w : nat) : list seg := [HFill h (w + 2)].

Lemma rule_tail_bytes (h c r : bytes) : forall ws x,
  ws <> [] ->
  concat (replace_last (x :: flat_map (fun w => [rep (w + 2) h; c]) ws) r)
  = x ++ flat_segs (skel_tail c r (map (hbody h) ws)).
Proof.
  induction ws as [|w ws IH]; intros x H; [congruence|].
  destruct ws as [|w2 rest].
  - cbn [flat_map app replace_last concat map skel_tail hbody].
    unfold flat_segs. cbn [flat_map flat_seg app]. rewrite !app_nil_r. reflexivity.
  - change (flat_map (fun w0 => [rep (w0 + 2) h; c]) (w :: w2 :: rest))
      with (rep (w + 2) h :: c :: flat_map (fun w0 => [rep (w0 + 2) h; c]) (w2 :: rest)).
    assert (Hne : exists y L, flat_map (fun w0 => [rep (w0 + 2) h; c]) (w2 :: rest) = y :: L)
      by (cbn [flat_map app]; eauto).
    destruct Hne as (y & L & EL).
    assert (E : replace_last (x :: rep (w + 2) h :: c :: flat_map (fun w0 => [rep (w0 + 2) h; c]) (w2 :: rest)) r
                = x :: rep (w + 2) h :: replace_last (c :: flat_map (fun w0 => [rep (w0 + 2) h; c]) (w2 :: rest)) r).
    { rewrite EL. reflexivity. }
    rewrite E. cbn [concat]. rewrite IH by discriminate.
    change (map (hbody h) (w :: w2 :: rest)) with (hbody h w :: hbody h w2 :: map (hbody h) rest).
    change (map (hbody h) (w2 :: rest)) with (hbody h w2 :: map (hbody h) rest).
    assert (ES : forall b b2 bs, skel_tail c r (b :: b2 :: bs) = b ++ Glyph c :: skel_tail c r (b2 :: bs))
      by reflexivity.
    rewrite ES. rewrite flat_segs_app.
    change (flat_segs (hbody h w)) with (rep (w + 2) h ++ []).
    change (flat_segs (Glyph c :: skel_tail c r (hbody h w2 :: map (hbody h) rest)))
      with (c ++ flat_segs (skel_tail c r (hbody h w2 :: map (hbody h) rest))).
    rewrite app_nil_r. reflexivity.
Qed.

Lemma template_fields_ok (h c : bytes) : forall ws,
  template_fields (map Z.of_nat ws) h c = Ok (flat_map (fun w => [rep (w + 2) h; c]) ws).
Proof.
  induction ws as [|w ws IH]; [reflexivity|].
  cbn [map template_fields flat_map app].
  replace (2 + Z.of_nat w)%Z with (Z.of_nat (w + 2)) by lia.
  rewrite repeat_z_nat. cbn [bind]. rewrite IH. reflexivity.
Qed.

Section Refine.
  Variable W : bytes -> nat.
  Variable d : decoration.
  Variable v : view.

  Let n := v_ncols v.
  Definition cwsZ : list Z := map Z.of_nat (map (colw W v) (seq 0 (v_ncols v))).

  (* a rule write: nothing when boxless *)
  Definition wr (x : line) : bytes := if d_boxless d then [] else flatten x.

  Lemma concat_rules x : concat (map flatten (rules d x)) = wr x.
  Proof. unfold rules, wr. destruct (d_boxless d); simpl; [reflexivity | apply app_nil_r]. Qed.

  Hypothesis Hn : 1 <= v_ncols v.

  Lemma seq_ne : map (colw W v) (seq 0 (v_ncols v)) <> [].
  Proof. destruct (v_ncols v); [lia|]. discriminate. Qed.

  Lemma template_line_ok l h c r :
    common_template_line d cwsZ l h c r = Ok (wr (rule W v l h c r)).
  Proof.
    unfold common_template_line, wr. destruct (d_boxless d); [reflexivity|].
    unfold cwsZ. rewrite template_fields_ok. cbn [bind].
    rewrite !map_length, seq_length.
    replace (0 <? v_ncols v) with true by (symmetry; apply Nat.ltb_lt; lia).
    rewrite set_last_ok by discriminate. cbn [bind].
    rewrite concat_app. cbn [concat]. rewrite app_nil_r.
    rewrite rule_tail_bytes by apply seq_ne.
    unfold flatten, rule, skeleton. f_equal.
    change (flat_segs (Glyph l :: ?t)) with (l ++ flat_segs t).
    unfold hbody. rewrite map_map. reflexivity.
  Qed.

  (* content lines *)
  Definition div3_ok (dv : bytes * bytes * bytes) : Prop :=
    let '(l, i, r) := dv in (l <> [] /\ i <> [] /\ r <> []) \/ (l = [] /\ i = [] /\ r = []).

  Lemma rendered_line_ok dv row k :
    div3_ok dv ->
    common_rendered_line dv cwsZ (map (fun i => wat W row i k) (seq 0 (v_ncols v)))
                         (map (al_of v) (seq 0 (v_ncols v)))
    = Ok (flatten (content_line W v dv row k)).
  Proof.
    destruct dv as [[l i] r]. intros Hdv. unfold common_rendered_line.
    rewrite (rendered_fields_ok cwsZ 0 _ _ i (fun j => flat_segs (row_slot W v row k j))).
    2:{ intros j w Hj. unfold cwsZ in Hj. rewrite map_map in Hj.
        apply nth_error_map_seq in Hj as [Hlt ->].
        exists (wat W row j k), (al_of v j). cbn [Nat.add].
        rewrite !nth_error_map_seq_lt by exact Hlt. repeat split.
        unfold wat, row_slot. destruct (cell_line W row j k) as [s w] eqn:E. cbn [fst snd].
        apply wwa_ok. apply al_of_eff. }
    cbn [bind]. unfold cwsZ. rewrite !map_length, seq_length.
    unfold content_line, row_slots.
    destruct Hdv as [(Hl & Hi & Hr) | (-> & -> & ->)].
    - destruct l as [|l0 l']; [congruence|]. destruct i as [|i0 i']; [congruence|].
      destruct r as [|r0 r']; [congruence|].
      cbn [nilb negb andb app].
      rewrite set_last_ok by discriminate. cbn [bind].
      rewrite <- (flat_map_map (fun s => [flat_segs s; i0 :: i']) (row_slot W v row k)).
      rewrite framed_tail_bytes.
      + unfold frame, flatten, skeleton. f_equal.
      + destruct (v_ncols v); [lia|]. discriminate.
    - cbn [nilb negb andb app bind].
      unfold frame, flatten. f_equal. f_equal. rewrite bare_bytes. rewrite map_map.
      f_equal.
  Qed.

  Lemma rendered_block_ok dv row :
    div3_ok dv ->
    rendered_block dv cwsZ (map (al_of v) (seq 0 (v_ncols v))) (v_ncols v) (map (mcell_of W) row)
    = Ok (map flatten (row_block W v dv row)).
  Proof.
    intros Hdv. unfold rendered_block, row_block.
    rewrite row_to_lines_ok. unfold row_height. rewrite map_map.
    apply mapM_map. intros k _. apply rendered_line_ok. exact Hdv.
  Qed.

  Hypothesis Hdiv : div3_ok (hdr_div d) /\ div3_ok (body_div d).

  Lemma body_writes_ok rows :
    exists ws,
      body_writes d cwsZ (map (al_of v) (seq 0 (v_ncols v))) (v_ncols v) (map (mrow_of W) rows) = Ok ws
      /\ concat ws = concat (map flatten (flat_map (row_part W d v) rows)).
  Proof.
    induction rows as [|r rows IH].
    - exists []. split; reflexivity.
    - destruct IH as (ws & E & C).
      destruct r as [cs|]; cbn [map mrow_of option_map body_writes flat_map row_part].
      + change (body_dividers d) with (body_div d).
        rewrite rendered_block_ok by apply Hdiv.
        cbn [bind]. rewrite E. cbn [bind]. eexists. split; [reflexivity|].
        rewrite concat_app, map_app, concat_app, C. reflexivity.
      + unfold line_separator. rewrite template_line_ok. cbn [bind]. rewrite E. cbn [bind].
        eexists. split; [reflexivity|].
        cbn [concat]. rewrite map_app, concat_app, concat_rules, C. reflexivity.
  Qed.
End Refine.
