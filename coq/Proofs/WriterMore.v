(* C15, round 5: the fault named by the call it happens on.  Whatever the
   scripted writer answers on ONE call the renderer makes - nothing accepted,
   a part accepted, or the WHOLE payload accepted together with an error - is
   a fault of the run: an error is returned and the accepted bytes are a
   prefix of the fault-free output. *)
From Tab Require Import Model.Writer Proofs.WriterProofs.

Lemma fails_within_call sc ws : forall i k p c,
  nth_error ws k = Some (p, c) -> faulty (sc (i + k) p) = true -> fails_within sc i ws = true.
Proof.
  induction ws as [|[q d] r IH]; intros i k p c Hn Hf.
  - destruct k; discriminate.
  - destruct k as [|k]; cbn [nth_error] in Hn; cbn [fails_within].
    + inversion Hn; subst. rewrite Nat.add_0_r in Hf. rewrite Hf. reflexivity.
    + apply Bool.orb_true_iff. right. apply (IH (S i) k p c Hn).
      replace (S i + k) with (i + S k) by lia. exact Hf.
Qed.

Theorem fault_at_call sc ws k p c : all_checked ws ->
  nth_error ws k = Some (p, c) -> faulty (sc k p) = true ->
  let r := run_writes sc 0 ws [] in fst r = true /\ prefix (snd r) (payloads ws).
Proof.
  intros Hc Hn Hf r. subst r.
  pose proof (writer_faults sc ws Hc) as (H1 & H2 & _ & _).
  split; [|exact H1]. apply H2. apply (fails_within_call sc ws 0 k p c Hn). exact Hf.
Qed.

(* the error that comes with a complete write (n = len(p), err != nil) *)
Corollary full_write_error sc ws k p c : all_checked ws ->
  nth_error ws k = Some (p, c) -> sc k p = WPartial (length p) ->
  let r := run_writes sc 0 ws [] in fst r = true /\ prefix (snd r) (payloads ws).
Proof.
  intros Hc Hn Hs. apply (fault_at_call sc ws k p c Hc Hn). rewrite Hs. reflexivity.
Qed.
