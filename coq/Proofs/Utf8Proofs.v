(* string(rune) followed by decoding gives the rune back (U+FFFD for what is
   not a Unicode scalar value): "a rune is that character". *)
From Tab Require Import Base.Bytes Base.Utf8.
#[local] Ltac Zify.zify_post_hook ::= Z.to_euclidean_division_equations.

Local Open Scope N_scope.

Ltac cmp_tac :=
  repeat match goal with
         | |- context [N.leb ?a ?b] => destruct (N.leb_spec a b); try lia
         | |- context [N.ltb ?a ?b] => destruct (N.ltb_spec a b); try lia
         | |- context [N.eqb ?a ?b] => destruct (N.eqb_spec a b); try lia
         end.

Lemma lead_2 b : 194 <= b <= 223 -> lead b = Some (2%nat, 128, 191).
Proof. intros H. unfold lead, inr. cmp_tac; cbn [andb]; try lia; reflexivity. Qed.

Lemma decode1_2 b0 b1 t : 194 <= b0 <= 223 -> 128 <= b1 <= 191 ->
  decode1 (b0 :: b1 :: t) = (Z.of_N ((b0 - 192) * 64 + (b1 - 128)), 2%nat).
Proof.
  intros H0 H1. unfold decode1. rewrite (lead_2 b0 H0).
  destruct (N.ltb_spec b0 128); [lia|].
  unfold inr. destruct (N.leb_spec 128 b1); [|lia]. destruct (N.leb_spec b1 191); [|lia].
  reflexivity.
Qed.

Definition second_ok3 (b0 b1 : N) : Prop :=
  (b0 = 224 /\ 160 <= b1 <= 191) \/ (225 <= b0 <= 236 /\ 128 <= b1 <= 191)
  \/ (b0 = 237 /\ 128 <= b1 <= 159) \/ (238 <= b0 <= 239 /\ 128 <= b1 <= 191).

Lemma decode1_3 b0 b1 b2 t : second_ok3 b0 b1 -> 128 <= b2 <= 191 ->
  decode1 (b0 :: b1 :: b2 :: t) = (Z.of_N ((b0 - 224) * 4096 + (b1 - 128) * 64 + (b2 - 128)), 3%nat).
Proof.
  intros H H2. unfold decode1.
  destruct (N.ltb_spec b0 128); [unfold second_ok3 in H; lia|].
  assert (L : exists lo hi, lead b0 = Some (3%nat, lo, hi) /\ lo <= b1 <= hi).
  { unfold lead, inr. destruct H as [H|[H|[H|H]]].
    - exists 160, 191. cmp_tac; cbn [andb]; try lia. split; [reflexivity | lia].
    - exists 128, 191. cmp_tac; cbn [andb]; try lia. split; [reflexivity | lia].
    - exists 128, 159. cmp_tac; cbn [andb]; try lia. split; [reflexivity | lia].
    - exists 128, 191. cmp_tac; cbn [andb]; try lia. split; [reflexivity | lia]. }
  destruct L as (lo & hi & L & Hb). rewrite L.
  unfold contb, inr.
  destruct (N.leb_spec lo b1); [|lia]. destruct (N.leb_spec b1 hi); [|lia].
  destruct (N.leb_spec 128 b2); [|lia]. destruct (N.leb_spec b2 191); [|lia].
  reflexivity.
Qed.

Definition second_ok4 (b0 b1 : N) : Prop :=
  (b0 = 240 /\ 144 <= b1 <= 191) \/ (241 <= b0 <= 243 /\ 128 <= b1 <= 191) \/ (b0 = 244 /\ 128 <= b1 <= 143).

Lemma decode1_4 b0 b1 b2 b3 t : second_ok4 b0 b1 -> 128 <= b2 <= 191 -> 128 <= b3 <= 191 ->
  decode1 (b0 :: b1 :: b2 :: b3 :: t)
  = (Z.of_N ((b0 - 240) * 262144 + (b1 - 128) * 4096 + (b2 - 128) * 64 + (b3 - 128)), 4%nat).
Proof.
  intros H H2 H3. unfold decode1.
  destruct (N.ltb_spec b0 128); [unfold second_ok4 in H; lia|].
  assert (L : exists lo hi, lead b0 = Some (4%nat, lo, hi) /\ lo <= b1 <= hi).
  { unfold lead, inr. destruct H as [H|[H|H]].
    - exists 144, 191. cmp_tac; cbn [andb]; try lia. split; [reflexivity | lia].
    - exists 128, 191. cmp_tac; cbn [andb]; try lia. split; [reflexivity | lia].
    - exists 128, 143. cmp_tac; cbn [andb]; try lia. split; [reflexivity | lia]. }
  destruct L as (lo & hi & L & Hb). rewrite L.
  unfold contb, inr.
  destruct (N.leb_spec lo b1); [|lia]. destruct (N.leb_spec b1 hi); [|lia].
  destruct (N.leb_spec 128 b2); [|lia]. destruct (N.leb_spec b2 191); [|lia].
  destruct (N.leb_spec 128 b3); [|lia]. destruct (N.leb_spec b3 191); [|lia].
  reflexivity.
Qed.

Lemma decode_single s r : decode1 s = (r, length s) -> s <> [] -> decode_runes s = [r].
Proof.
  intros H Hs. rewrite decode_runes_step by exact Hs. rewrite H. cbn [fst snd].
  rewrite skipn_all. reflexivity.
Qed.

Local Close Scope N_scope.

Theorem decode_utf8_of_rune r :
  decode_runes (utf8_of_rune r) = [if valid_rune r then r else RuneError].
Proof.
  unfold utf8_of_rune. destruct (valid_rune r) eqn:V; cbn [negb]; [|reflexivity].
  assert (R : (0 <= r < 55296 \/ 57343 < r <= 1114111)%Z).
  { unfold valid_rune, MaxRune in V. lia. }
  set (n := Z.to_N r). assert (En : r = Z.of_N n) by (unfold n; lia).
  assert (Rn : (n < 55296 \/ 57343 < n <= 1114111)%N) by lia.
  clearbody n. subst r. clear V R.
  destruct (N.ltb_spec n 128).
  { apply decode_single; [|discriminate]. unfold decode1.
    destruct (N.ltb_spec n 128); [reflexivity | lia]. }
  destruct (N.ltb_spec n 2048).
  { apply decode_single; [|discriminate]. rewrite decode1_2 by lia. cbn [length]. f_equal. lia. }
  destruct (N.ltb_spec n 65536).
  { apply decode_single; [|discriminate]. rewrite decode1_3; [cbn [length]; f_equal; lia | | lia].
    unfold second_ok3. lia. }
  apply decode_single; [|discriminate]. rewrite decode1_4; [cbn [length]; f_equal; lia | | lia | lia].
  unfold second_ok4. lia.
Qed.

(* in particular the text of a rune is never empty and is a single rune *)
Corollary utf8_of_rune_nonempty r : utf8_of_rune r <> [].
Proof. intros E. pose proof (decode_utf8_of_rune r) as H. rewrite E in H. discriminate. Qed.

Corollary utf8_of_rune_count r : rune_count (utf8_of_rune r) = 1.
Proof. unfold rune_count. rewrite decode_utf8_of_rune. reflexivity. Qed.
