(* C07, consequences of the round-trip theorems that the render histories of
   the correspondence check (harness/c07_more.go) exercise directly:
   - an item without a JSON encoding in a cell that is not omitted is an error
     of the whole render, with no text, whatever else the table holds and
     wherever the cell stands;
   - the array holds exactly one object per non-separator row, position by
     position; a row without cells contributes the empty object (it is not a
     separator);
   - a history of renders is judged render by render: the model's answer for a
     view does not depend on what was rendered before it. *)
From Tab Require Import Model.Json Spec.JsonParse Spec.JsonExpect
     Proofs.JsonModelProofs Proofs.JsonProofs Proofs.JsonErrProofs.

Theorem json_unencodable_item_is_error strenc v cells i c :
  wf_view v -> In (Some cells) (v_rows v) -> nth_error cells i = Some c ->
  vc_json c = None -> (eff_skip v i && vc_empty c) = false ->
  json_render strenc v = Err /\ json_render_string strenc v = [].
Proof.
  intros Hwf Hin Hn Hj Hs.
  assert (E : json_render strenc v = Err).
  { apply (json_err_iff strenc v Hwf). apply json_error_condition_reading.
    destruct (v_header v) as [h|] eqn:Hh.
    - right; right; right. exists h. split; [reflexivity|]. right; right; right; right.
      exists cells. split; [exact Hin|]. right. exists i, c. auto.
    - right; right; left. reflexivity. }
  split; [exact E|]. apply json_render_empty_on_error. exact E.
Qed.

(* ... and it is no error on account of that cell when the cell is omitted *)
Theorem json_omitted_cell_needs_no_encoding v i c cells :
  (eff_skip v i && vc_empty c) = true ->
  marshal_fails v i (c :: cells) = marshal_fails v (S i) cells.
Proof. intros H. cbn [marshal_fails]. rewrite H. reflexivity. Qed.

Theorem json_one_object_per_row kv cv v :
  exists objs, json_expected kv cv v = JArr objs
    /\ length objs = length (body_rows v)
    /\ forall k cells, nth_error (body_rows v) k = Some cells ->
                       nth_error objs k = Some (row_object kv cv v cells).
Proof.
  exists (map (row_object kv cv v) (body_rows v)). split; [reflexivity|]. split; [apply map_length|].
  intros k cells H. apply map_nth_error. exact H.
Qed.

Theorem json_cellless_row_is_empty_object kv cv v : row_object kv cv v [] = JObj [].
Proof. unfold row_object. destruct (header_cells v); reflexivity. Qed.

(* a row without cells is a row: it counts among the body rows wherever it stands *)
Theorem body_rows_app (n : nat) h ra rb al sk :
  body_rows (mkView n h (ra ++ rb) al sk) = body_rows (mkView n h ra al sk) ++ body_rows (mkView n h rb al sk).
Proof. unfold body_rows. cbn [v_rows]. apply flat_map_app. Qed.

Theorem json_cellless_row_counts (n : nat) h ra rb al sk :
  length (body_rows (mkView n h (ra ++ Some [] :: rb) al sk))
  = S (length (body_rows (mkView n h (ra ++ rb) al sk))).
Proof.
  rewrite !body_rows_app, !app_length.
  change (body_rows (mkView n h (Some [] :: rb) al sk)) with ([] :: body_rows (mkView n h rb al sk)).
  cbn [length]. rewrite Nat.add_succ_r. reflexivity.
Qed.

(* what a successful render parses to has one element per non-separator row *)
Theorem json_object_count strenc strval encval v out :
  wf_view v -> encodings_ok strenc strval encval v -> json_render strenc v = Ok out ->
  exists objs, parse_json out = Some (JArr objs) /\ length objs = length (body_rows v).
Proof.
  intros Hwf Henc E. pose proof (json_valid_and_mirrors strenc strval encval v Hwf Henc) as H.
  rewrite E in H. destruct H as [_ Hp].
  exists (map (row_object strval (cell_denotation strval encval) v) (body_rows v)).
  split; [exact Hp|apply map_length].
Qed.

(* a history of renders: the k-th answer is the render of the k-th view alone *)
Definition json_render_history (strenc : bytes -> bytes) (vs : list view) : list (res bytes) :=
  map (json_render strenc) vs.

Theorem json_history_is_pointwise strenc before v after :
  nth_error (json_render_history strenc (before ++ v :: after)) (length before)
  = Some (json_render strenc v).
Proof.
  unfold json_render_history. rewrite map_app. cbn [map].
  rewrite nth_error_app2; rewrite map_length; [|apply Nat.le_refl].
  rewrite Nat.sub_diag. reflexivity.
Qed.
