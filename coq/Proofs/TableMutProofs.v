(* Mutation and Update at the level of the whole table (Model/TableMut.v). *)
From Tab Require Import Base.Ops Model.Core Model.Cell Model.Table Model.TableMut Spec.CellText Proofs.CellProofs.

Section MutProofs.
  Variable W : bytes -> nat.
  Variable json : item -> option bytes.

  Lemma view_cached_ext {A} (f g : A -> vcell) (t : gtstate A) :
    (forall a, cached (f a) = cached (g a)) ->
    view_cached (table_view f t) = view_cached (table_view g t).
  Proof.
    intros H. unfold view_cached, table_view. cbn [v_ncols v_header v_rows v_align v_skip]. f_equal. f_equal. f_equal.
    - f_equal. destruct (t_header (tb_core t)); cbn [option_map]; [|reflexivity].
      f_equal. rewrite !map_map. apply map_ext. intros c. apply H.
    - rewrite !map_map. apply map_ext. intros tr. destruct (row_cells tr); cbn [option_map]; [|reflexivity].
      f_equal. rewrite !map_map. apply map_ext. intros c. apply H.
  Qed.

  (* what a cell caches does not depend on the present state of the objects *)
  Lemma cached_snap e1 e2 s : cached (snap_vcell W json e1 s) = cached (snap_vcell W json e2 s).
  Proof. reflexivity. Qed.

  (* C01 at table level: the caller mutating an item changes nothing that any
     cell of the table has cached - texts, emptiness, widths, heights, and with
     them counts and column properties - so no renderer shows the new state
     through text until the cell is asked to update *)
  Theorem mutate_not_seen : forall st id ob,
    view_cached (mview W json (mstep st (MMutate id ob))) = view_cached (mview W json st).
  Proof.
    intros st id ob. unfold mview. cbn [mstep m_tab m_env]. apply view_cached_ext. intros s. apply cached_snap.
  Qed.

  (* ... and the text a stored cell shows is the documented text of its item in
     the state it was last read in *)
  Lemma snap_text e_now s : vc_text (snap_vcell W json e_now s) = documented_text (snd s) (fst s).
  Proof. unfold snap_vcell. cbn [vc_text]. apply cell_text_documented. Qed.

  Lemma nth_error_upd_cell {A} (g : A -> A) (cs : list (Core.cell A)) c x :
    nth_error cs c = Some x ->
    nth_error (upd_cell g cs c) c = Some (Core.mkCell (g (c_item x)) (c_col x))
    /\ forall c', c' <> c -> nth_error (upd_cell g cs c) c' = nth_error cs c'.
  Proof.
    intros H. unfold upd_cell. rewrite H. split.
    - apply nth_error_upd_same. apply nth_error_Some. congruence.
    - intros c' Hc. apply nth_error_upd_other. congruence.
  Qed.

  (* Update on the cell at (r, c) (0-based; the position exists): afterwards
     that cell - and only that cell - shows the documented text of its item in
     the objects' present state *)
  Theorem update_shows : forall st r c tr cs x,
    nth_error (t_rows (tb_core (m_tab st))) r = Some tr -> r_body tr = RCells cs -> nth_error cs c = Some x ->
    let v' := mview W json (mstep st (MUpdateAt r c)) in
    exists vcs,
      nth_error (v_rows v') r = Some (Some vcs)
      /\ option_map vc_text (nth_error vcs c) = Some (documented_text (m_env st) (fst (c_item x)))
      /\ (forall c', c' <> c ->
            nth_error vcs c' = option_map (fun y => snap_vcell W json (m_env st) (c_item y)) (nth_error cs c'))
      /\ (forall r', r' <> r -> nth_error (v_rows v') r' = nth_error (v_rows (mview W json st)) r')
      /\ v_header v' = v_header (mview W json st) /\ v_ncols v' = v_ncols (mview W json st).
  Proof.
    intros st r c tr cs x Hr Hb Hc v'.
    destruct (nth_error_upd_cell (reread (m_env st)) cs c x Hc) as [Hsame Hother].
    unfold v', mview, table_view. cbn [mstep m_tab m_env on_core tb_core tb_align tb_skip v_rows v_header v_ncols].
    unfold core_update_at. rewrite Hr, Hb. cbn [with_rows t_rows t_header t_ncols].
    exists (map (fun y => snap_vcell W json (m_env st) (c_item y)) (upd_cell (reread (m_env st)) cs c)).
    split; [|split; [|split; [|split; [|split]]]].
    - rewrite nth_error_map, nth_error_upd_same by (apply nth_error_Some; congruence).
      cbn [option_map row_cells r_body]. reflexivity.
    - rewrite nth_error_map, Hsame. cbn [option_map c_item]. rewrite snap_text. reflexivity.
    - intros c' Hne. rewrite nth_error_map, (Hother c' Hne). reflexivity.
    - intros r' Hne. rewrite !nth_error_map, nth_error_upd_other by congruence. reflexivity.
    - reflexivity.
    - reflexivity.
  Qed.
  (* the same for a header cell, reached through Headers() *)
  Theorem update_header_shows : forall st c cs x,
    t_header (tb_core (m_tab st)) = Some cs -> nth_error cs c = Some x ->
    let v' := mview W json (mstep st (MUpdateHeader c)) in
    exists vcs,
      v_header v' = Some vcs
      /\ option_map vc_text (nth_error vcs c) = Some (documented_text (m_env st) (fst (c_item x)))
      /\ (forall c', c' <> c ->
            nth_error vcs c' = option_map (fun y => snap_vcell W json (m_env st) (c_item y)) (nth_error cs c'))
      /\ v_rows v' = v_rows (mview W json st) /\ v_ncols v' = v_ncols (mview W json st).
  Proof.
    intros st c cs x Hh Hc v'.
    destruct (nth_error_upd_cell (reread (m_env st)) cs c x Hc) as [Hsame Hother].
    unfold v', mview, table_view. cbn [mstep m_tab m_env on_core tb_core tb_align tb_skip v_rows v_header v_ncols].
    unfold core_update_header. rewrite Hh. cbn [with_header t_rows t_header t_ncols option_map].
    eexists. split; [reflexivity|]. split; [|split; [|split]].
    - rewrite nth_error_map, Hsame. cbn [option_map c_item]. rewrite snap_text. reflexivity.
    - intros c' Hne. rewrite nth_error_map, (Hother c' Hne). reflexivity.
    - reflexivity.
    - reflexivity.
  Qed.
End MutProofs.

(* ---- a program that never mutates nor updates is the table machine over
   items: what the renderers see is the view every end-to-end theorem
   (Proofs/E2E*.v) speaks about *)
From Tab Require Import Proofs.CoreMap Proofs.E2EProofs.

Lemma mrun_ops (e : env) (h : list top) :
  mrun e (map MOp h) = mkM (trun (map (map_gtop (fun it => (it, e))) h)) e.
Proof.
  unfold mrun, trun.
  assert (G : forall t, fold_left mstep (map MOp h) (mkM t e)
                        = mkM (fold_left tstep (map (map_gtop (fun it : item => (it, e))) h) t) e).
  { induction h as [|o h IH]; intros t; [reflexivity|]. cbn [map fold_left mstep m_tab m_env]. apply IH. }
  apply (G tinit).
Qed.

Theorem mutation_free_is_hview : forall W e json (h : list top),
  mview W json (mrun e (map MOp h)) = hview W e json h.
Proof.
  intros W e json h. rewrite mrun_ops. unfold mview, hview. cbn [m_tab m_env].
  rewrite (trun_map (fun it : item => (it, e)) h), table_view_map. reflexivity.
Qed.

(* ---- and after ANY program: a cell that was never updated since it was made
   shows the documented text of its item in the state the item had THEN; the
   cached part of the view only ever changes at building calls and updates *)
Theorem only_building_and_updates_change_the_cache : forall W json st o,
  match o with MMutate _ _ => view_cached (mview W json (mstep st o)) = view_cached (mview W json st) | _ => True end.
Proof. intros W json st [t|id ob|r c|c]; try exact I. apply mutate_not_seen. Qed.

(* ---- whatever the program did (any state of the mutation machine): CSV
   shows, for every cell, the documented text of its item AS OF THE CELL'S LAST
   READ - header first, separators dropped, short rows padded *)
From Tab Require Import Model.Csv Spec.CsvParse Proofs.CsvProofs.

Definition snap_doc (s : snap) : bytes := documented_text (snd s) (fst s).

Definition state_records (st : mstate) : list (list snap) :=
  let core := tb_core (m_tab st) in
  match t_header core with Some cs => [map c_item cs] | None => [] end
  ++ flat_map (fun tr => match row_cells tr with Some cs => [map c_item cs] | None => [] end) (t_rows core).

Lemma csv_records_mview W json st :
  csv_records (mview W json st) = map (map snap_doc) (state_records st).
Proof.
  unfold csv_records, mview, table_view, state_records, body_rows. cbn [v_header v_rows].
  rewrite map_app. f_equal.
  - destruct (t_header (tb_core (m_tab st))) as [cs|]; cbn [option_map map]; [|reflexivity].
    f_equal. unfold row_texts. rewrite !map_map. apply map_ext. intros c. apply snap_text.
  - induction (t_rows (tb_core (m_tab st))) as [|tr rows IH]; [reflexivity|].
    cbn [map flat_map]. destruct (row_cells tr) as [cs|]; cbn [option_map app map].
    + rewrite IH. f_equal. unfold row_texts. rewrite !map_map. apply map_ext. intros c. apply snap_text.
    + exact IH.
Qed.

Theorem csv_after_any_program : forall W json st out,
  csv_render (mview W json st) = Ok out ->
  parse_csv out = Some (map (pad_to (t_ncols (tb_core (m_tab st)))) (map (map snap_doc) (state_records st))).
Proof.
  intros W json st out H. destruct (csv_roundtrip _ _ H) as [Hp _].
  unfold csv_expected in Hp. rewrite csv_records_mview in Hp. exact Hp.
Qed.
