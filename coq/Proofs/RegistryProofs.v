(* Lemmas and proofs for C17 (and the registry facts C19 needs). *)
From Coq Require Import Sorting.Sorted Sorting.Permutation.
From Tab Require Export Model.Registry Spec.RegistrySpec.

(* ---------------------------------------------------------------- byte order *)
Lemma bytes_leb_refl a : bytes_leb a a = true.
Proof. induction a as [|x a IH]; simpl; auto. rewrite N.ltb_irrefl, N.eqb_refl. exact IH. Qed.

Lemma bytes_leb_total a b : bytes_leb a b = false -> bytes_leb b a = true.
Proof.
  revert b; induction a as [|x a IH]; intros [|y b]; simpl; try discriminate; auto.
  destruct (N.ltb x y) eqn:L; [discriminate|].
  destruct (N.eqb x y) eqn:E.
  - apply N.eqb_eq in E; subst y. rewrite N.ltb_irrefl, N.eqb_refl. apply IH.
  - intros _. apply N.ltb_ge in L. apply N.eqb_neq in E.
    assert (y < x)%N by lia. apply N.ltb_lt in H. rewrite H. reflexivity.
Qed.

Lemma bytes_leb_trans a b c : bytes_leb a b = true -> bytes_leb b c = true -> bytes_leb a c = true.
Proof.
  revert b c; induction a as [|x a IH]; intros [|y b] [|z c]; simpl; auto; try discriminate.
  destruct (N.ltb x y) eqn:L1.
  - apply N.ltb_lt in L1. intros _.
    destruct (N.ltb y z) eqn:L2.
    + apply N.ltb_lt in L2. intros _. assert (x < z)%N by lia. apply N.ltb_lt in H. rewrite H. reflexivity.
    + destruct (N.eqb y z) eqn:E2; [|discriminate]. apply N.eqb_eq in E2; subst z.
      apply N.ltb_lt in L1. rewrite L1. reflexivity.
  - destruct (N.eqb x y) eqn:E1; [|discriminate]. apply N.eqb_eq in E1; subst y.
    intros H1. destruct (N.ltb x z); [reflexivity|].
    destruct (N.eqb x z); [|discriminate]. intros H2. eapply IH; eauto.
Qed.

Lemma bytes_leb_antisym a b : bytes_leb a b = true -> bytes_leb b a = true -> a = b.
Proof.
  revert b; induction a as [|x a IH]; intros [|y b]; simpl; auto; try discriminate.
  destruct (N.ltb x y) eqn:L1.
  - apply N.ltb_lt in L1. intros _.
    destruct (N.ltb y x) eqn:L2; [apply N.ltb_lt in L2; lia|].
    destruct (N.eqb y x) eqn:E; [apply N.eqb_eq in E; lia | discriminate].
  - destruct (N.eqb x y) eqn:E; [|discriminate]. apply N.eqb_eq in E; subst y.
    rewrite N.ltb_irrefl, N.eqb_refl. intros H1 H2. f_equal. auto.
Qed.

(* ---------------------------------------------------------------- membership, duplicates, sortedness *)
Lemma memb_In x l : memb x l = true <-> In x l.
Proof.
  induction l as [|y l IH]; simpl; [split; [discriminate | tauto]|].
  rewrite orb_true_iff, IH, bytes_eqb_eq. tauto.
Qed.

Lemma memb_false x l : memb x l = false <-> ~ In x l.
Proof. rewrite <- memb_In. destruct (memb x l); split; congruence. Qed.

Lemma nodupb_NoDup l : nodupb l = true <-> NoDup l.
Proof.
  induction l as [|x l IH]; simpl; [split; [constructor | reflexivity]|].
  rewrite andb_true_iff, negb_true_iff, memb_false, IH. split.
  - intros [A B]. constructor; auto.
  - intros H. inversion H; auto.
Qed.

Lemma sortedb_Sorted l : sortedb l = true <-> Sorted bytes_le l.
Proof.
  induction l as [|x l IH]; [split; [constructor | reflexivity]|].
  destruct l as [|y l].
  - split; [repeat constructor | reflexivity].
  - change (sortedb (x :: y :: l)) with (bytes_leb x y && sortedb (y :: l)).
    rewrite andb_true_iff, IH. split.
    + intros [A B]. constructor; auto.
    + intros H. inversion H as [|? ? S R]; subst. inversion R; subst. auto.
Qed.

(* ---------------------------------------------------------------- insertion sort *)
Lemma insert_perm x l : Permutation (insert x l) (x :: l).
Proof.
  induction l as [|y l IH]; simpl; [reflexivity|].
  destruct (bytes_leb x y); [reflexivity|].
  rewrite IH. apply perm_swap.
Qed.

Lemma isort_perm l : Permutation (isort l) l.
Proof. induction l as [|x l IH]; simpl; [reflexivity|]. rewrite insert_perm, IH. reflexivity. Qed.

Lemma insert_sorted x l : Sorted bytes_le l -> Sorted bytes_le (insert x l).
Proof.
  induction l as [|y l IH]; simpl; intros H.
  - repeat constructor.
  - destruct (bytes_leb x y) eqn:E.
    + constructor; auto.
    + inversion H as [|? ? S R]; subst. constructor; [auto|].
      apply bytes_leb_total in E.
      destruct l as [|z l]; simpl.
      * constructor. exact E.
      * destruct (bytes_leb x z); constructor; auto. inversion R; auto.
Qed.

Lemma isort_sorted l : Sorted bytes_le (isort l).
Proof. induction l; simpl; [constructor | apply insert_sorted; auto]. Qed.

Lemma isort_In x l : In x (isort l) <-> In x l.
Proof. split; apply Permutation_in; [apply isort_perm | symmetry; apply isort_perm]. Qed.

Lemma isort_NoDup l : NoDup l -> NoDup (isort l).
Proof. intros H. eapply Permutation_NoDup; [symmetry; apply isort_perm | exact H]. Qed.

Lemma bytes_le_trans : Relations_1.Transitive bytes_le.
Proof. intros a b c. apply bytes_leb_trans. Qed.

(* ---------------------------------------------------------------- the association list *)
Lemma bytes_eqb_sym a b : bytes_eqb a b = bytes_eqb b a.
Proof.
  destruct (bytes_eqb a b) eqn:E.
  - apply bytes_eqb_eq in E; subst. symmetry. apply bytes_eqb_refl.
  - destruct (bytes_eqb b a) eqn:E2; auto. apply bytes_eqb_eq in E2; subst. rewrite bytes_eqb_refl in E. discriminate.
Qed.

Lemma named_register n d reg m :
  named (register n d reg) m = if bytes_eqb n m then d else named reg m.
Proof.
  induction reg as [|[k v] r IH]; simpl.
  - reflexivity.
  - destruct (bytes_eqb k n) eqn:E; simpl.
    + apply bytes_eqb_eq in E; subst k. destruct (bytes_eqb n m); reflexivity.
    + rewrite IH. destruct (bytes_eqb k m) eqn:E2; [|reflexivity].
      apply bytes_eqb_eq in E2; subst k. rewrite bytes_eqb_sym, E. reflexivity.
Qed.

Lemma keys_register n d reg m :
  In m (map fst (register n d reg)) <-> m = n \/ In m (map fst reg).
Proof.
  induction reg as [|[k v] r IH]; simpl.
  - intuition.
  - destruct (bytes_eqb k n) eqn:E; simpl.
    + apply bytes_eqb_eq in E; subst k. intuition.
    + rewrite IH. intuition.
Qed.

Lemma nodup_register n d reg : NoDup (map fst reg) -> NoDup (map fst (register n d reg)).
Proof.
  induction reg as [|[k v] r IH]; simpl; intros H.
  - repeat constructor. simpl. tauto.
  - inversion H as [|? ? Hn Hr]; subst.
    destruct (bytes_eqb k n) eqn:E; simpl.
    + apply bytes_eqb_eq in E; subst k. constructor; auto.
    + constructor; auto. rewrite keys_register. intros [A|A]; [|contradiction].
      subst k. rewrite bytes_eqb_refl in E. discriminate.
Qed.

Lemma named_init_named reg n : named reg n = init_named reg n.
Proof.
  unfold init_named. induction reg as [|[k v] r IH]; simpl; [reflexivity|].
  destruct (bytes_eqb k n); [reflexivity | exact IH].
Qed.

Lemma init_named_nonempty_in init n : init_named init n <> DEmpty -> In n (map fst init).
Proof.
  unfold init_named. induction init as [|[k v] r IH]; simpl; [congruence|].
  destruct (bytes_eqb k n) eqn:E; simpl.
  - apply bytes_eqb_eq in E. auto.
  - auto.
Qed.

Lemma init_named_in init n : In n (map fst init) -> exists d, In (n, d) init /\ init_named init n = d.
Proof.
  unfold init_named. induction init as [|[k v] r IH]; simpl; [tauto|].
  destruct (bytes_eqb k n) eqn:E; simpl.
  - apply bytes_eqb_eq in E; subst. eauto.
  - intros [A|A]; [subst; rewrite bytes_eqb_refl in E; discriminate|].
    destruct (IH A) as [d [I J]]. eauto.
Qed.

(* ---------------------------------------------------------------- histories *)
Lemma last_reg_app a b n :
  last_reg (a ++ b) n = match last_reg b n with Some d => Some d | None => last_reg a n end.
Proof.
  induction a as [|o a IH]; simpl.
  - destruct (last_reg b n); reflexivity.
  - rewrite IH. destruct (last_reg b n); reflexivity.
Qed.

Lemma last_reg_none_iff ops n : last_reg ops n = None <-> forall d, ~ In (OReg n d) ops.
Proof.
  induction ops as [|o r IH]; simpl.
  - split; auto.
  - destruct (last_reg r n) eqn:E.
    + split; [discriminate|]. intros H. exfalso.
      destruct IH as [_ IH2]. assert (X : Some d = None) by (apply IH2; intros d0 I; apply (H d0); auto). discriminate.
    + destruct IH as [IH1 _]. specialize (IH1 eq_refl).
      destruct o as [m d| | | | | | | |]; try (split; [intros _ d0 [A|A]; [discriminate | eapply IH1; eauto] | auto]).
      destruct (bytes_eqb m n) eqn:E2.
      * apply bytes_eqb_eq in E2; subst m. split; [discriminate|]. intros H. exfalso. apply (H d). auto.
      * split; auto. intros _ d0 [A|A]; [|eapply IH1; eauto].
        inversion A; subst. rewrite bytes_eqb_refl in E2. discriminate.
Qed.

Lemma last_reg_some_in ops n d : last_reg ops n = Some d -> In (OReg n d) ops.
Proof.
  induction ops as [|o r IH]; simpl; [discriminate|].
  destruct (last_reg r n) eqn:E.
  - intros H; inversion H; subst. auto.
  - destruct o as [m d0| | | | | | | |]; try discriminate.
    destruct (bytes_eqb m n) eqn:E2; [|discriminate].
    apply bytes_eqb_eq in E2; subst. intros H; inversion H; subst. auto.
Qed.

(* does operation o (of the same goroutine) give table k a new decoration? *)
Definition retargets (k : nat) (o : op) : bool :=
  match o with OReSet k' _ | OSetDec k' _ => Nat.eqb k' k | _ => false end.

Lemma nth_error_set_nth_same {A} k (v : A) l : k < length l -> nth_error (set_nth k v l) k = Some v.
Proof.
  revert k; induction l as [|x l IH]; intros [|k] H; simpl in *; try lia; auto. apply IH. lia.
Qed.

Lemma firstn_S_nth {A} (l : list A) i a : nth_error l i = Some a -> firstn (S i) l = firstn i l ++ [a].
Proof.
  revert i; induction l as [|x l IH]; intros [|i] H; simpl in *; try discriminate.
  - inversion H; reflexivity.
  - f_equal. apply IH. exact H.
Qed.

Lemma firstn_le_split {A} (l : list A) : forall p j, p <= j ->
  exists mid, firstn j l = firstn p l ++ mid
    /\ forall x, In x mid -> exists m, p <= m < j /\ nth_error l m = Some x.
Proof.
  induction l as [|y l IH]; intros p j Le.
  - exists []. rewrite !firstn_nil. split; [reflexivity | intros x []].
  - destruct p as [|p].
    + exists (firstn j (y :: l)). split; [reflexivity|].
      intros x I. destruct (In_nth_error _ _ I) as [m Hm]. exists m. split.
      * split; [lia|]. assert (m < length (firstn j (y :: l))) by (apply nth_error_Some; congruence).
        rewrite firstn_length in H. lia.
      * revert Hm. generalize (y :: l). clear. intros l. revert l m.
        induction j as [|j IHj]; intros [|z l] [|m]; simpl; try discriminate; auto.
    + destruct j as [|j]; [lia|]. destruct (IH p j) as [mid [E Hm]]; [lia|].
      exists mid. simpl. rewrite E. split; [reflexivity|].
      intros x I. destruct (Hm x I) as [m [R N]]. exists (S m). split; [lia | exact N].
Qed.

Lemma map_set_nth {A B} (f : A -> B) k v l : map f (set_nth k v l) = set_nth k (f v) (map f l).
Proof.
  revert k; induction l as [|x l IH]; intros [|k]; simpl; auto. rewrite IH. reflexivity.
Qed.

Lemma set_nth_none {A} k (v : A) l : nth_error l k = None -> set_nth k v l = l.
Proof.
  revert k; induction l as [|x l IH]; intros [|k]; simpl; auto; try discriminate.
  intros H. rewrite IH; auto.
Qed.

Lemma set_nth_length {A} k (v : A) l : length (set_nth k v l) = length l.
Proof. revert k; induction l as [|x l IH]; intros [|k]; simpl; auto. Qed.

Lemma nth_error_set_nth_other {A} k j (v : A) l : j <> k -> nth_error (set_nth k v l) j = nth_error l j.
Proof.
  revert k j; induction l as [|x l IH]; intros [|k] [|j] H; simpl; auto; try congruence.
Qed.

Section Hist.
  Variable body : decoration -> res bytes.

  Lemma final_app st a b : final body st (a ++ b) = final body (final body st a) b.
  Proof. revert st; induction a as [|x a IH]; intros st; simpl; auto. Qed.

  Lemma run_nth tr : forall st i a,
    nth_error tr i = Some a ->
    nth_error (run body st tr) i = Some (snd (step body (final body st (firstn i tr)) a)).
  Proof.
    induction tr as [|b r IH]; intros st [|i] a H; simpl in *; try discriminate.
    - inversion H; subst. destruct (step body st a); reflexivity.
    - destruct (step body st b) as [st' v] eqn:E. simpl. rewrite (IH st' i a H). reflexivity.
  Qed.

  Lemma run_length tr : forall st, length (run body st tr) = length tr.
  Proof. induction tr as [|b r IH]; intros st; simpl; auto. destruct (step body st b). simpl. auto. Qed.

  Lemma text_render_spec d : text_render body (mkTT d) = spec_render body d.
  Proof.
    unfold text_render, text_render_to, spec_render. simpl.
    destruct (dec_is_empty d); [reflexivity|]. destruct (body d); reflexivity.
  Qed.

  (* ---- the state after a history, against the history *)
  Variable init : registry.
  Definition after (pre : list (nat * op)) : gstate := final body (init_state init) pre.

  Lemma after_snoc pre a : after (pre ++ [a]) = fst (step body (after pre) a).
  Proof. unfold after. rewrite final_app. reflexivity. Qed.

  Lemma step_reg st g o :
    g_reg (fst (step body st (g, o))) = match o with OReg n d => register n d (g_reg st) | _ => g_reg st end.
  Proof.
    destruct o; simpl; auto; destruct (nth_error (g_tabs st g) k); reflexivity.
  Qed.

  Lemma inv_named pre n : named (g_reg (after pre)) n = spec_named init (map snd pre) n.
  Proof.
    induction pre as [|[g o] pre IH] using rev_ind.
    - unfold after, spec_named. simpl. apply named_init_named.
    - rewrite after_snoc, step_reg, map_app. unfold spec_named in *. rewrite last_reg_app. simpl.
      destruct o as [m d| | | | | | | |]; simpl; try exact IH.
      rewrite named_register. destruct (bytes_eqb m n); [reflexivity | exact IH].
  Qed.

  Lemma inv_keys pre n : In n (map fst (g_reg (after pre))) <-> registered init (map snd pre) n.
  Proof.
    unfold registered. induction pre as [|[g o] pre IH] using rev_ind.
    - unfold after. simpl. split; [auto | intros [A|[d []]]; auto].
    - rewrite after_snoc, step_reg, map_app. simpl.
      assert (X : forall P : Prop, (In n (map fst init) \/ (exists d, In (OReg n d) (map snd pre ++ [o])))
                 <-> ((In n (map fst init) \/ exists d, In (OReg n d) (map snd pre)) \/ exists d, o = OReg n d)).
      { intros _. split.
        - intros [A|[d A]]; auto. apply in_app_or in A. destruct A as [A|[A|[]]]; eauto.
        - intros [[A|[d A]]|[d A]]; auto; right; exists d; apply in_or_app; simpl; auto. }
      rewrite (X True). clear X.
      destruct o as [m d| | | | | | | |]; try (rewrite IH; split; [auto | intros [A|[d1 A]]; [auto | discriminate]]).
      rewrite keys_register, IH. split.
      + intros [A|A]; [subst; right; eauto | auto].
      + intros [A|[d0 A]]; [auto | inversion A; auto].
  Qed.

  Lemma inv_nodup pre : NoDup (map fst init) -> NoDup (map fst (g_reg (after pre))).
  Proof.
    intros H. induction pre as [|[g o] pre IH] using rev_ind.
    - exact H.
    - rewrite after_snoc, step_reg. destruct o; auto. apply nodup_register. exact IH.
  Qed.

  Lemma tab_fold_snoc g pre a :
    tab_fold init g (pre ++ [a]) = tab_step init g (tab_fold init g pre) a.
  Proof. unfold tab_fold. rewrite fold_left_app. reflexivity. Qed.

  Lemma tab_fold_fst g pre : fst (tab_fold init g pre) = map snd pre.
  Proof.
    induction pre as [|a pre IH] using rev_ind; [reflexivity|].
    rewrite tab_fold_snoc, map_app. unfold tab_step. simpl. rewrite IH. reflexivity.
  Qed.

  Lemma tab_decs_snoc g pre a :
    tab_decs init g (pre ++ [a]) =
    if Nat.eqb (fst a) g then
      match snd a with
      | OSet n | OAutoNew n => tab_decs init g pre ++ [spec_named init (map snd pre) n]
      | OReSet k n => set_nth k (spec_named init (map snd pre) n) (tab_decs init g pre)
      | OSetDec k d => set_nth k d (tab_decs init g pre)
      | _ => tab_decs init g pre
      end
    else tab_decs init g pre.
  Proof.
    unfold tab_decs. rewrite tab_fold_snoc. unfold tab_step. simpl. rewrite tab_fold_fst. reflexivity.
  Qed.

  Lemma inv_tabs pre g : map tt_decor (g_tabs (after pre) g) = tab_decs init g pre.
  Proof.
    induction pre as [|[h o] pre IH] using rev_ind.
    - reflexivity.
    - rewrite after_snoc, tab_decs_snoc. simpl fst. simpl snd.
      destruct o as [m d|m| | |m|m|k|k m|k d]; simpl.
      + destruct (Nat.eqb h g); exact IH.
      + destruct (Nat.eqb h g); exact IH.
      + destruct (Nat.eqb h g); exact IH.
      + destruct (Nat.eqb h g); exact IH.
      + unfold upd. destruct (Nat.eqb g h) eqn:E.
        * apply Nat.eqb_eq in E; subst h. rewrite Nat.eqb_refl, map_app, IH. simpl.
          rewrite inv_named. reflexivity.
        * rewrite Nat.eqb_sym, E. exact IH.
      + unfold upd. destruct (Nat.eqb g h) eqn:E.
        * apply Nat.eqb_eq in E; subst h. rewrite Nat.eqb_refl, map_app, IH. simpl.
          rewrite inv_named. reflexivity.
        * rewrite Nat.eqb_sym, E. exact IH.
      + destruct (nth_error (g_tabs (after pre) h) k); simpl; destruct (Nat.eqb h g); exact IH.
      + destruct (nth_error (g_tabs (after pre) h) k) as [t0|] eqn:N; simpl.
        * unfold upd. destruct (Nat.eqb g h) eqn:E.
          -- apply Nat.eqb_eq in E; subst h. rewrite Nat.eqb_refl, map_set_nth, IH. simpl.
             rewrite inv_named. reflexivity.
          -- rewrite Nat.eqb_sym, E. exact IH.
        * destruct (Nat.eqb h g) eqn:E; [|exact IH].
          apply Nat.eqb_eq in E; subst h. rewrite <- IH. symmetry. apply set_nth_none.
          rewrite nth_error_map, N. reflexivity.
      + destruct (nth_error (g_tabs (after pre) h) k) as [t0|] eqn:N; simpl.
        * unfold upd. destruct (Nat.eqb g h) eqn:E.
          -- apply Nat.eqb_eq in E; subst h. rewrite Nat.eqb_refl, map_set_nth, IH. reflexivity.
          -- rewrite Nat.eqb_sym, E. exact IH.
        * destruct (Nat.eqb h g) eqn:E; [|exact IH].
          apply Nat.eqb_eq in E; subst h. rewrite <- IH. symmetry. apply set_nth_none.
          rewrite nth_error_map, N. reflexivity.
  Qed.
End Hist.

(* ---------------------------------------------------------------- C17, sequential histories *)
Section C17.
  Variable body : decoration -> res bytes.
  Variable init : registry.

  Lemma reg_named tr i g n :
    nth_error tr i = Some (g, ONamed n) ->
    nth_error (run body (init_state init) tr) i = Some (VDec (spec_named init (map snd (firstn i tr)) n)).
  Proof.
    intros H. rewrite (run_nth body tr _ _ _ H). simpl. fold (after body init (firstn i tr)).
    rewrite (inv_named body init). reflexivity.
  Qed.

  (* with non-empty decorations only, Empty means exactly "never registered and not there initially" *)
  Lemma spec_named_empty_iff ops n :
    (forall m d, In (OReg m d) ops -> d <> DEmpty) ->
    (forall m d, In (m, d) init -> d <> DEmpty) ->
    (spec_named init ops n = DEmpty <-> ~ registered init ops n).
  Proof.
    intros Hops Hinit. unfold spec_named, registered. destruct (last_reg ops n) eqn:E.
    - apply last_reg_some_in in E. split.
      + intros ->. exfalso. eapply Hops; eauto.
      + intros H. exfalso. apply H. eauto.
    - rewrite last_reg_none_iff in E. split.
      + intros H [A|[d A]]; [|eapply E; eauto].
        destruct (init_named_in _ _ A) as [d [I J]]. rewrite H in J. subst d. eapply Hinit; eauto.
      + intros H. destruct (init_named init n) eqn:F; auto. exfalso. apply H. left.
        apply init_named_nonempty_in. congruence.
  Qed.

  Lemma names_facts reg :
    NoDup (map fst reg) ->
    Sorted bytes_le (names reg) /\ NoDup (names reg) /\ forall n, In n (names reg) <-> In n (map fst reg).
  Proof.
    intros H. unfold names. split; [apply isort_sorted|]. split; [apply isort_NoDup; exact H|].
    intros n. apply isort_In.
  Qed.

  Lemma reg_names_obs tr i g :
    NoDup (map fst init) ->
    nth_error tr i = Some (g, ONames) ->
    exists l, nth_error (run body (init_state init) tr) i = Some (VNames l)
      /\ Sorted bytes_le l /\ NoDup l
      /\ forall n, In n l <-> registered init (map snd (firstn i tr)) n.
  Proof.
    intros Hi H. rewrite (run_nth body tr _ _ _ H). simpl.
    eexists. split; [reflexivity|].
    destruct (names_facts (g_reg (after body init (firstn i tr))) (inv_nodup body init _ Hi)) as [A [B C]].
    split; [exact A|]. split; [exact B|]. intros n. rewrite C. apply (inv_keys body init).
  Qed.

  (* fails closed, one table *)
  Lemma closed_one reg n t :
    named reg n = DEmpty ->
    snd (set_decoration_named reg n t) = true
    /\ forall body', text_render body' (fst (set_decoration_named reg n t)) = Ok ([], true).
  Proof.
    intros H. unfold set_decoration_named. rewrite H. simpl. split; [reflexivity|].
    intros b. reflexivity.
  Qed.

  (* ---- what a table shows later: the decoration given by the last operation
     that targeted it *)
  Lemma tab_decs_stable g l1 k d : forall l2,
    nth_error (tab_decs init g l1) k = Some d ->
    (forall a, In a l2 -> fst a = g -> retargets k (snd a) = false) ->
    nth_error (tab_decs init g (l1 ++ l2)) k = Some d.
  Proof.
    intros l2 H0. induction l2 as [|a l2 IH] using rev_ind; intros Hq.
    - rewrite app_nil_r. exact H0.
    - assert (IH' : nth_error (tab_decs init g (l1 ++ l2)) k = Some d).
      { apply IH. intros x I. apply Hq. apply in_or_app. auto. }
      rewrite app_assoc, (tab_decs_snoc init).
      destruct (Nat.eqb (fst a) g) eqn:E; [|exact IH'].
      apply Nat.eqb_eq in E.
      assert (R : retargets k (snd a) = false) by (apply Hq; [apply in_or_app; right; left; reflexivity | exact E]).
      destruct (snd a) as [m d0|m| | |m|m|k0|k0 m|k0 d0]; try exact IH'.
      + rewrite nth_error_app1; [exact IH'|]. apply nth_error_Some. congruence.
      + rewrite nth_error_app1; [exact IH'|]. apply nth_error_Some. congruence.
      + simpl in R. apply Nat.eqb_neq in R. rewrite nth_error_set_nth_other by congruence. exact IH'.
      + simpl in R. apply Nat.eqb_neq in R. rewrite nth_error_set_nth_other by congruence. exact IH'.
  Qed.

  Lemma render_after tr p j g k d :
    p <= j ->
    nth_error (tab_decs init g (firstn p tr)) k = Some d ->
    (forall m o, p <= m < j -> nth_error tr m = Some (g, o) -> retargets k o = false) ->
    nth_error tr j = Some (g, ORender k) ->
    nth_error (run body (init_state init) tr) j = Some (VRender (spec_render body d)).
  Proof.
    intros Le H0 Hq Hj. rewrite (run_nth body tr _ _ _ Hj). simpl. fold (after body init (firstn j tr)).
    destruct (firstn_le_split tr p j Le) as [mid [Ef Hm]].
    assert (X : nth_error (map tt_decor (g_tabs (after body init (firstn j tr)) g)) k = Some d).
    { rewrite (inv_tabs body init), Ef. apply tab_decs_stable; [exact H0|].
      intros [h o] I Eg. simpl in Eg. subst h. destruct (Hm _ I) as [m [Rm Nm]]. simpl. eapply Hq; eauto. }
    rewrite nth_error_map in X.
    destruct (nth_error (g_tabs (after body init (firstn j tr)) g) k) as [[d']|]; [|discriminate].
    simpl in X. inversion X; subst. rewrite text_render_spec. reflexivity.
  Qed.

  (* fails closed, in a history: the failed SetDecorationNamed reports the
     error and that table renders ("", error) from then on, whatever is
     registered later, until the goroutine itself sets its decoration again *)
  Lemma closed_hist tr i g n :
    nth_error tr i = Some (g, OSet n) ->
    spec_named init (map snd (firstn i tr)) n = DEmpty ->
    nth_error (run body (init_state init) tr) i = Some (VSet true (Ok ([], true)))
    /\ forall j k, i < j -> nth_error tr j = Some (g, ORender k) ->
         k = length (tab_decs init g (firstn i tr)) ->
         (forall m o, i < m < j -> nth_error tr m = Some (g, o) -> retargets k o = false) ->
         nth_error (run body (init_state init) tr) j = Some (VRender (Ok ([], true))).
  Proof.
    intros H E. split.
    - rewrite (run_nth body tr _ _ _ H). simpl. fold (after body init (firstn i tr)).
      rewrite (inv_named body init), E. reflexivity.
    - intros j k Lt Hj Hk Hq.
      change (Ok ([], true)) with (spec_render body DEmpty).
      apply (render_after tr (S i) j g k DEmpty); [lia| |intros m o Rm; apply Hq; lia|exact Hj].
      rewrite (firstn_S_nth tr i _ H), (tab_decs_snoc init). simpl. rewrite Nat.eqb_refl.
      rewrite nth_error_app2 by lia. rewrite Hk, Nat.sub_diag, E. reflexivity.
  Qed.

  (* ... and through auto.New: the error is dropped there, the refusal is not *)
  Lemma closed_auto tr i g n :
    nth_error tr i = Some (g, OAutoNew n) ->
    spec_named init (map snd (firstn i tr)) n = DEmpty ->
    nth_error (run body (init_state init) tr) i = Some (VRender (Ok ([], true)))
    /\ forall j k, i < j -> nth_error tr j = Some (g, ORender k) ->
         k = length (tab_decs init g (firstn i tr)) ->
         (forall m o, i < m < j -> nth_error tr m = Some (g, o) -> retargets k o = false) ->
         nth_error (run body (init_state init) tr) j = Some (VRender (Ok ([], true))).
  Proof.
    intros H E. split.
    - rewrite (run_nth body tr _ _ _ H). simpl. fold (after body init (firstn i tr)).
      rewrite (inv_named body init), E. reflexivity.
    - intros j k Lt Hj Hk Hq.
      change (Ok ([], true)) with (spec_render body DEmpty).
      apply (render_after tr (S i) j g k DEmpty); [lia| |intros m o Rm; apply Hq; lia|exact Hj].
      rewrite (firstn_S_nth tr i _ H), (tab_decs_snoc init). simpl. rewrite Nat.eqb_refl.
      rewrite nth_error_app2 by lia. rewrite Hk, Nat.sub_diag, E. reflexivity.
  Qed.

  (* the same for a table that already exists and may hold anything (a usable
     decoration set explicitly, the result of an earlier selection by this very
     name): selecting an unregistered name is an error and the table then
     refuses to render; selecting a registered one takes the LATEST registration *)
  Lemma reset_hist tr i g k n :
    nth_error tr i = Some (g, OReSet k n) ->
    k < length (tab_decs init g (firstn i tr)) ->
    let d := spec_named init (map snd (firstn i tr)) n in
    nth_error (run body (init_state init) tr) i = Some (VSet (dec_is_empty d) (spec_render body d))
    /\ forall j, i < j -> nth_error tr j = Some (g, ORender k) ->
         (forall m o, i < m < j -> nth_error tr m = Some (g, o) -> retargets k o = false) ->
         nth_error (run body (init_state init) tr) j = Some (VRender (spec_render body d)).
  Proof.
    intros H Lk d. split.
    - rewrite (run_nth body tr _ _ _ H). simpl. fold (after body init (firstn i tr)).
      pose proof (inv_tabs body init (firstn i tr) g) as T.
      destruct (nth_error (g_tabs (after body init (firstn i tr)) g) k) as [t0|] eqn:N.
      + simpl. rewrite (inv_named body init), text_render_spec. reflexivity.
      + exfalso. apply nth_error_None in N. rewrite <- T, map_length in Lk. lia.
    - intros j Lt Hj Hq.
      apply (render_after tr (S i) j g k d); [lia| |intros m o Rm; apply Hq; lia|exact Hj].
      rewrite (firstn_S_nth tr i _ H), (tab_decs_snoc init). simpl. rewrite Nat.eqb_refl.
      apply nth_error_set_nth_same. exact Lk.
  Qed.
End C17.

(* ---------------------------------------------------------------- the model meets the sequential oracle *)
Lemma dec_eqb_refl d : dec_eqb d d = true.
Proof. destruct d as [|i u]; simpl; auto. rewrite N.eqb_refl. destruct u; reflexivity. Qed.

Lemma dec_eqb_eq a b : dec_eqb a b = true <-> a = b.
Proof.
  destruct a as [|i u], b as [|j v]; simpl; split; intros H; try discriminate; auto.
  - apply andb_true_iff in H as [A B]. apply N.eqb_eq in A. apply Bool.eqb_prop in B. congruence.
  - inversion H; subst. rewrite N.eqb_refl. destruct v; reflexivity.
Qed.

Lemma list_bytes_eqb_refl l : list_eqb bytes_eqb l l = true.
Proof. induction l; simpl; auto. rewrite bytes_eqb_refl. auto. Qed.

Lemma rr_eqb_refl (r : res (bytes * bool)) :
  res_eqb_ (fun x y : bytes * bool => bytes_eqb (fst x) (fst y) && Bool.eqb (snd x) (snd y)) r r = true.
Proof. destruct r as [[b e]| |]; simpl; auto. rewrite bytes_eqb_refl. destruct e; reflexivity. Qed.

Lemma obs_eqb_refl v : obs_eqb v v = true.
Proof.
  destruct v; simpl; auto.
  - apply dec_eqb_refl.
  - apply list_bytes_eqb_refl.
  - rewrite rr_eqb_refl. destruct err; reflexivity.
  - apply rr_eqb_refl.
Qed.

Lemma registeredb_spec init ops n : registeredb init ops n = true <-> registered init ops n.
Proof.
  unfold registeredb, registered. rewrite orb_true_iff, memb_In, existsb_exists. split.
  - intros [A|[o [I E]]]; auto. destruct o as [m d| | | | | | | |]; try discriminate.
    apply bytes_eqb_eq in E; subst. eauto.
  - intros [A|[d A]]; auto. right. exists (OReg n d). split; auto. apply bytes_eqb_refl.
Qed.

(* ---- the listing *)
Lemma listing_facts reg :
  Sorted bytes_le (list_styles reg)
  /\ (forall p, In p four_names -> In p (list_styles reg))
  /\ (forall n, In n (map fst reg) -> In n (list_styles reg))
  /\ (forall n, In n (list_styles reg) -> In n four_names \/ In n (map fst reg)).
Proof.
  unfold list_styles. split; [apply isort_sorted|]. repeat split.
  - intros p I. apply isort_In. apply in_or_app. right. exact I.
  - intros n I. apply isort_In. apply in_or_app. left. apply isort_In. exact I.
  - intros n I. apply (proj1 (isort_In _ _)) in I. apply in_app_or in I. destruct I as [I|I]; [right | left; exact I].
    apply (proj1 (isort_In _ _)) in I. exact I.
Qed.

Lemma listing_nodup reg :
  NoDup (map fst reg) -> (forall p, In p four_names -> ~ In p (map fst reg)) -> NoDup (list_styles reg).
Proof.
  intros Hn Hd. unfold list_styles. apply isort_NoDup. change (NoDup (names reg ++ four_names)).
  assert (N4 : NoDup four_names).
  { apply nodupb_NoDup. vm_compute. reflexivity. }
  revert Hd. generalize four_names N4. intros four N4' Hd.
  assert (Nn : NoDup (names reg)) by (apply isort_NoDup; exact Hn).
  assert (Dj : forall x, In x (names reg) -> ~ In x four).
  { intros x I J. apply (Hd x J). apply (proj1 (isort_In _ _)) in I. exact I. }
  revert Nn Dj. generalize (names reg). intros l. induction l as [|x l IH]; intros Nn Dj; simpl; [exact N4'|].
  inversion Nn; subst. constructor.
  - intros I. apply in_app_or in I. destruct I as [I|I]; [contradiction|]. apply (Dj x); simpl; auto.
  - apply IH; auto. intros y Iy. apply Dj. right. exact Iy.
Qed.


Lemma In_reg_names n ops : In n (reg_names ops) <-> exists d, In (OReg n d) ops.
Proof.
  unfold reg_names. rewrite in_flat_map. split.
  - intros [o [I J]]. destruct o as [m d| | | | | | | |]; try contradiction.
    destruct J as [J|[]]. subst. eauto.
  - intros [d I]. exists (OReg n d). split; [exact I | left; reflexivity].
Qed.

Section Master.
  Variable body : decoration -> res bytes.
  Variable init : registry.
  Hypothesis init_nodup : NoDup (map fst init).

  Lemma model_listing_ok pre :
    listing_ok init (map snd pre) (names (g_reg (after body init pre))) = true.
  Proof.
    destruct (names_facts (g_reg (after body init pre)) (inv_nodup body init pre init_nodup)) as [A [B C]].
    unfold listing_ok. repeat (apply andb_true_iff; split).
    - apply sortedb_Sorted. exact A.
    - apply nodupb_NoDup. exact B.
    - apply forallb_forall. intros n I. apply registeredb_spec. apply (inv_keys body init). apply C. exact I.
    - apply forallb_forall. intros n I. apply memb_In. apply C. apply (inv_keys body init). left. exact I.
    - apply forallb_forall. intros o I. destruct o as [m d| | | | | | | |]; auto.
      apply memb_In. apply C. apply (inv_keys body init). right. eauto.
  Qed.

  Lemma model_styles_ok pre :
    styles_listing_ok (map fst init ++ reg_names (map snd pre)) (list_styles (g_reg (after body init pre))) = true.
  Proof.
    set (reg := g_reg (after body init pre)).
    assert (R : forall n, In n (map fst init ++ reg_names (map snd pre)) <-> In n (map fst reg)).
    { intros n. unfold reg. rewrite (inv_keys body init). unfold registered.
      rewrite in_app_iff, In_reg_names. reflexivity. }
    destruct (listing_facts reg) as [A [B [C D]]].
    unfold styles_listing_ok.
    apply andb_true_iff; split; [apply andb_true_iff; split; [apply andb_true_iff; split; [apply andb_true_iff; split|]|]|].
    - apply sortedb_Sorted. exact A.
    - apply forallb_forall. intros n I. apply memb_In. apply B. exact I.
    - apply forallb_forall. intros n I. apply memb_In. apply C. apply R. exact I.
    - apply forallb_forall. intros n I. apply orb_true_iff. destruct (D n I) as [J|J].
      + left. apply memb_In. exact J.
      + right. apply memb_In. apply R. exact J.
    - destruct (existsb (fun n => memb n four_names) (map fst init ++ reg_names (map snd pre))) eqn:E;
        [apply orb_true_r|]. apply orb_true_iff. left. apply nodupb_NoDup. apply listing_nodup.
      + apply (inv_nodup body init). exact init_nodup.
      + intros q Iq Ik. apply R in Ik.
        assert (X : existsb (fun n => memb n four_names) (map fst init ++ reg_names (map snd pre)) = true).
        { apply existsb_exists. exists q. split; [exact Ik | apply memb_In; exact Iq]. }
        congruence.
  Qed.

  Lemma model_event_ok pre a :
    seq_event_ok body init pre a (snd (step body (after body init pre) a)) = true.
  Proof.
    destruct a as [g o]. unfold seq_event_ok. simpl fst. simpl snd.
    pose proof (inv_tabs body init pre g) as T.
    assert (X : forall k, nth_error (tab_decs init g pre) k = option_map tt_decor (nth_error (g_tabs (after body init pre) g) k)).
    { intros k. rewrite <- T. apply nth_error_map. }
    destruct o as [m d|m| | |m|m|k|k m|k d]; simpl.
    - reflexivity.
    - rewrite (inv_named body init). apply dec_eqb_refl.
    - apply model_listing_ok.
    - apply model_styles_ok.
    - rewrite (inv_named body init). rewrite text_render_spec. rewrite rr_eqb_refl.
      destruct (dec_is_empty (spec_named init (map snd pre) m)); reflexivity.
    - rewrite (inv_named body init). rewrite text_render_spec. apply rr_eqb_refl.
    - rewrite X. destruct (nth_error (g_tabs (after body init pre) g) k) as [[d]|]; simpl.
      + rewrite text_render_spec. apply rr_eqb_refl.
      + reflexivity.
    - rewrite X. destruct (nth_error (g_tabs (after body init pre) g) k) as [[d]|]; simpl.
      + rewrite (inv_named body init). rewrite text_render_spec. rewrite rr_eqb_refl.
        destruct (dec_is_empty (spec_named init (map snd pre) m)); reflexivity.
      + reflexivity.
    - rewrite X. destruct (nth_error (g_tabs (after body init pre) g) k) as [[d']|]; simpl.
      + rewrite text_render_spec. apply rr_eqb_refl.
      + reflexivity.
  Qed.

  Lemma model_seq_ok_from tr : forall pre,
    seq_ok_from body init pre tr (run body (after body init pre) tr) = true.
  Proof.
    induction tr as [|a r IH]; intros pre; simpl; [reflexivity|].
    destruct (step body (after body init pre) a) as [st' v] eqn:E.
    apply andb_true_iff. split.
    - pose proof (model_event_ok pre a) as M. rewrite E in M. exact M.
    - specialize (IH (pre ++ [a])). rewrite after_snoc, E in IH. exact IH.
  Qed.

  (* every sequential history: what the model observes passes the oracle *)
  Lemma model_seq_ok tr : seq_ok body init tr (run body (init_state init) tr) = true.
  Proof. apply (model_seq_ok_from tr []). Qed.
End Master.

(* ---------------------------------------------------------------- all merges: the final content of a name *)
Lemma last_reg_cons_some o r n d : last_reg r n = Some d -> last_reg (o :: r) n = Some d.
Proof. simpl. intros ->. reflexivity. Qed.

Lemma merge_last_reg (progs : list (list (nat * op))) tr :
  is_merge progs tr -> forall n,
  match last_reg (map snd tr) n with
  | Some d => exists p, In p progs /\ last_reg (map snd p) n = Some d
  | None => forall p, In p progs -> last_reg (map snd p) n = None
  end.
Proof.
  induction 1 as [ps Hall | ps1 a p ps2 tr Hm IH]; intros n.
  - simpl. intros p I. rewrite Forall_forall in Hall. rewrite (Hall p I). reflexivity.
  - specialize (IH n). simpl map. simpl last_reg. destruct (last_reg (map snd tr) n) as [d|] eqn:E.
    + destruct IH as [q [I L]]. apply in_app_or in I. destruct I as [I|[I|I]].
      * exists q. split; [apply in_or_app; auto | exact L].
      * subst q. exists (a :: p). split; [apply in_or_app; right; left; reflexivity|].
        simpl map. apply last_reg_cons_some. exact L.
      * exists q. split; [apply in_or_app; right; right; exact I | exact L].
    + assert (Lp : last_reg (map snd p) n = None) by (apply IH; apply in_or_app; right; left; reflexivity).
      destruct (match snd a with OReg m d => if bytes_eqb m n then Some d else None | _ => None end) as [d|] eqn:F.
      * exists (a :: p). split; [apply in_or_app; right; left; reflexivity|].
        simpl. rewrite Lp. exact F.
      * intros q I. apply in_app_or in I. destruct I as [I|[I|I]].
        -- apply IH. apply in_or_app; auto.
        -- subst q. simpl. rewrite Lp. exact F.
        -- apply IH. apply in_or_app; right; right; exact I.
Qed.

Lemma merge_final body init (progs : list (list (nat * op))) tr n :
  is_merge progs tr ->
  let d := named (g_reg (final body (init_state init) tr)) n in
  (exists p, In p progs /\ last_reg (map snd p) n = Some d)
  \/ ((forall p, In p progs -> last_reg (map snd p) n = None) /\ d = init_named init n).
Proof.
  intros Hm. simpl. fold (after body init tr). rewrite (inv_named body init). unfold spec_named.
  pose proof (merge_last_reg progs tr Hm n) as M.
  destruct (last_reg (map snd tr) n); [left; exact M | right; split; [exact M | reflexivity]].
Qed.

(* ---------------------------------------------------------------- time-stamped histories: the checker is sound *)

(* a sequential order of the events that respects real time: nobody is placed
   before an operation that had already ended when it started *)
Fixpoint rt_ok (tr : list event) : Prop :=
  match tr with
  | [] => True
  | a :: r => Forall (fun b => ~ (e_e b < e_s a)%N) r /\ rt_ok r
  end.

Definition ev_trace (tr : list event) : list (nat * op) := map (fun e => (e_g e, e_op e)) tr.

(* ... and in which every result is the sequential model's *)
Definition legal (body : decoration -> res bytes) (init : registry) (tr : list event) : Prop :=
  run body (init_state init) (ev_trace tr) = map e_obs tr.

Definition stamps_wf (H : list event) : Prop := Forall (fun e => (e_s e <= e_e e)%N) H.

Definition linearizable (body : decoration -> res bytes) (init : registry) (H : list event) : Prop :=
  exists tr, Permutation tr H /\ rt_ok tr /\ legal body init tr.

Lemma rt_ok_app l1 l2 :
  rt_ok (l1 ++ l2) -> rt_ok l1 /\ rt_ok l2 /\ forall a b, In a l1 -> In b l2 -> ~ (e_e b < e_s a)%N.
Proof.
  induction l1 as [|x l1 IH]; simpl.
  - intros H. split; [exact I|]. split; [exact H|]. intros a b [].
  - intros [F R]. destruct (IH R) as [A [B C]]. rewrite Forall_app in F. destruct F as [F1 F2].
    split; [split; auto|]. split; [exact B|].
    intros a b [Ia|Ia] Ib.
    + subst a. rewrite Forall_forall in F2. apply F2. exact Ib.
    + apply C; auto.
Qed.

Lemma reg_of_some n r d : reg_of n r = Some d -> e_op r = OReg n d.
Proof.
  unfold reg_of. destruct (e_op r) as [m d0| | | | | | | |]; try discriminate.
  destruct (bytes_eqb m n) eqn:E; [|discriminate]. apply bytes_eqb_eq in E. subst. intros H; inversion H; reflexivity.
Qed.

Lemma reg_of_op n r d : e_op r = OReg n d -> reg_of n r = Some d.
Proof. unfold reg_of. intros ->. rewrite bytes_eqb_refl. reflexivity. Qed.

Lemma regs_of_In n H r : In r (regs_of n H) <-> In r H /\ exists d, reg_of n r = Some d.
Proof.
  unfold regs_of. rewrite filter_In. split; intros [A B]; split; auto.
  - destruct (reg_of n r); [eauto | discriminate].
  - destruct B as [d ->]. reflexivity.
Qed.

Lemma last_reg_split l1 n d :
  last_reg (map e_op l1) n = Some d ->
  exists l1a w l1b, l1 = l1a ++ w :: l1b /\ reg_of n w = Some d /\ last_reg (map e_op l1b) n = None.
Proof.
  induction l1 as [|x l IH]; simpl; [discriminate|].
  destruct (last_reg (map e_op l) n) as [d'|] eqn:E.
  - intros X; inversion X; subst d'. destruct (IH eq_refl) as [a [w [b [A [B C]]]]].
    exists (x :: a), w, b. subst l. auto.
  - intros X. exists [], x, l. auto.
Qed.

Lemma existsb_false {A} (f : A -> bool) l : (forall x, In x l -> f x = false) -> existsb f l = false.
Proof.
  intros H. destruct (existsb f l) eqn:E; auto. apply existsb_exists in E. destruct E as [x [I F]].
  rewrite (H x I) in F. discriminate.
Qed.

Lemma map_snd_ev_trace l : map snd (ev_trace l) = map e_op l.
Proof. unfold ev_trace. rewrite map_map. reflexivity. Qed.

Section Sound.
  Variable body : decoration -> res bytes.
  Variable init : registry.
  Hypothesis init_nodup : NoDup (map fst init).

  Lemma read_sound H l1 e l2 n (expect : decoration -> bool) :
    Permutation (l1 ++ e :: l2) H -> rt_ok (l1 ++ e :: l2) -> stamps_wf H ->
    reg_of n e = None ->
    expect (spec_named init (map e_op l1) n) = true ->
    read_ok init H n expect e = true.
  Proof.
    intros P RT WF Ne Ex. unfold read_ok.
    destruct (rt_ok_app _ _ RT) as [RT1 [RT2 RT12]].
    assert (InH : forall x, In x H <-> In x (l1 ++ e :: l2)).
    { intros x. split; apply Permutation_in; [symmetry|]; exact P. }
    unfold spec_named in Ex. destruct (last_reg (map e_op l1) n) as [d|] eqn:L.
    - destruct (last_reg_split _ _ _ L) as [l1a [w [l1b [E1 [Rw Nb]]]]].
      apply orb_true_iff. left. apply existsb_exists. exists w. split.
      { apply regs_of_In. split; [|eauto]. apply InH. subst l1. apply in_or_app. left. apply in_or_app. right. left. reflexivity. }
      rewrite Rw. apply andb_true_iff. split; [apply andb_true_iff; split|].
      + exact Ex.
      + apply N.leb_le. apply N.nlt_ge. apply RT12; [subst l1; apply in_or_app; right; left; reflexivity | left; reflexivity].
      + apply negb_true_iff. apply existsb_false. intros r Ir.
        apply regs_of_In in Ir. destruct Ir as [IrH [dr Rr]].
        destruct (N.ltb (e_e w) (e_s r)) eqn:T1; [|reflexivity].
        destruct (N.ltb (e_e r) (e_s e)) eqn:T2; [|reflexivity]. exfalso.
        apply N.ltb_lt in T1. apply N.ltb_lt in T2.
        apply InH in IrH. apply in_app_or in IrH. destruct IrH as [I1|[I1|I1]].
        * subst l1. apply in_app_or in I1. destruct I1 as [I1|[I1|I1]].
          -- destruct (rt_ok_app _ _ RT1) as [_ [_ C]]. apply (C r w I1); [left; reflexivity | exact T1].
          -- subst r. unfold stamps_wf in WF. rewrite Forall_forall in WF. assert (In w H) by (apply InH; apply in_or_app; left; apply in_or_app; right; left; reflexivity).
             specialize (WF w H0). simpl in WF. lia.
          -- rewrite last_reg_none_iff in Nb. apply (Nb dr). apply reg_of_some in Rr. rewrite <- Rr. apply in_map. exact I1.
        * subst r. congruence.
        * destruct RT2 as [F _]. rewrite Forall_forall in F. apply (F r I1). exact T2.
    - apply orb_true_iff. right. apply andb_true_iff. split; [exact Ex|].
      apply negb_true_iff. apply existsb_false. intros r Ir.
      apply regs_of_In in Ir. destruct Ir as [IrH [dr Rr]].
      destruct (N.ltb (e_e r) (e_s e)) eqn:T2; [|reflexivity]. exfalso. apply N.ltb_lt in T2.
      apply InH in IrH. apply in_app_or in IrH. destruct IrH as [I1|[I1|I1]].
      * rewrite last_reg_none_iff in L. apply (L dr). apply reg_of_some in Rr. rewrite <- Rr. apply in_map. exact I1.
      * subst r. congruence.
      * destruct RT2 as [F _]. rewrite Forall_forall in F. apply (F r I1). exact T2.
  Qed.

  Lemma listing_sound_gen extra dupfree H l1 e l2 l :
    Permutation (l1 ++ e :: l2) H -> rt_ok (l1 ++ e :: l2) ->
    (forall m d, e_op e <> OReg m d) ->
    Sorted bytes_le l -> (dupfree = true -> NoDup l) ->
    (forall n, In n l <-> In n extra \/ registered init (map e_op l1) n) ->
    conc_listing_ok extra dupfree init H l e = true.
  Proof.
    intros P RT Eo A B K.
    destruct (rt_ok_app _ _ RT) as [RT1 [RT2 RT12]].
    assert (InH : forall x, In x H <-> In x (l1 ++ e :: l2)).
    { intros x. split; apply Permutation_in; [symmetry|]; exact P. }
    unfold conc_listing_ok.
    apply andb_true_iff; split; [apply andb_true_iff; split; [apply andb_true_iff; split;
      [apply andb_true_iff; split; [apply andb_true_iff; split|]|]|]|].
    - apply sortedb_Sorted. exact A.
    - destruct dupfree; [|reflexivity]. apply nodupb_NoDup. apply B. reflexivity.
    - apply forallb_forall. intros n I. apply memb_In. apply K. left. exact I.
    - apply forallb_forall. intros n I. apply K in I. destruct I as [I|[I|[d I]]].
      + apply orb_true_iff. left. apply orb_true_iff. left. apply memb_In. exact I.
      + apply orb_true_iff. left. apply orb_true_iff. right. apply memb_In. exact I.
      + apply orb_true_iff. right. apply existsb_exists. apply in_map_iff in I. destruct I as [w [Ew Iw]].
        exists w. split; [apply InH; apply in_or_app; auto|].
        rewrite (reg_of_op _ _ _ Ew). apply N.leb_le. apply N.nlt_ge. apply RT12; [exact Iw | left; reflexivity].
    - apply forallb_forall. intros n I. apply memb_In. apply K. right. left. exact I.
    - apply forallb_forall. intros w Iw. destruct (e_op w) as [m d| | | | | | | |] eqn:Ew; auto.
      destruct (N.ltb (e_e w) (e_s e)) eqn:T; [|reflexivity]. apply N.ltb_lt in T.
      apply memb_In. apply K. right. right. exists d.
      apply InH in Iw. apply in_app_or in Iw. destruct Iw as [I1|[I1|I1]].
      + rewrite <- Ew. apply in_map. exact I1.
      + subst w. exfalso. exact (Eo _ _ Ew).
      + exfalso. destruct RT2 as [F _]. rewrite Forall_forall in F. apply (F w I1). exact T.
  Qed.

  Lemma listing_sound H l1 e l2 :
    Permutation (l1 ++ e :: l2) H -> rt_ok (l1 ++ e :: l2) ->
    e_op e = ONames ->
    conc_listing_ok [] true init H (names (g_reg (after body init (ev_trace l1)))) e = true.
  Proof.
    intros P RT Eo.
    destruct (names_facts (g_reg (after body init (ev_trace l1))) (inv_nodup body init _ init_nodup)) as [A [B C]].
    apply (listing_sound_gen [] true H l1 e l2); auto.
    - intros m d. rewrite Eo. discriminate.
    - intros n. rewrite C, (inv_keys body init), map_snd_ev_trace. simpl. tauto.
  Qed.

  Lemma styles_sound H l1 e l2 :
    Permutation (l1 ++ e :: l2) H -> rt_ok (l1 ++ e :: l2) ->
    e_op e = OStyles ->
    conc_listing_ok four_names false init H (list_styles (g_reg (after body init (ev_trace l1)))) e = true.
  Proof.
    intros P RT Eo.
    destruct (listing_facts (g_reg (after body init (ev_trace l1)))) as [A [B [C D]]].
    apply (listing_sound_gen four_names false H l1 e l2); auto.
    - intros m d. rewrite Eo. discriminate.
    - discriminate.
    - intros n. rewrite <- map_snd_ev_trace, <- (inv_keys body init). split.
      + apply D.
      + intros [I|I]; [apply B | apply C]; exact I.
  Qed.

  Lemma legal_obs l1 e l2 :
    legal body init (l1 ++ e :: l2) ->
    e_obs e = snd (step body (after body init (ev_trace l1)) (e_g e, e_op e)).
  Proof.
    unfold legal. intros L.
    assert (N1 : nth_error (ev_trace (l1 ++ e :: l2)) (length l1) = Some (e_g e, e_op e)).
    { unfold ev_trace. rewrite map_app. rewrite nth_error_app2 by (rewrite map_length; lia).
      rewrite map_length, Nat.sub_diag. reflexivity. }
    pose proof (run_nth body _ (init_state init) _ _ N1) as R. rewrite L in R.
    assert (N2 : nth_error (map e_obs (l1 ++ e :: l2)) (length l1) = Some (e_obs e)).
    { rewrite map_app. rewrite nth_error_app2 by (rewrite map_length; lia).
      rewrite map_length, Nat.sub_diag. reflexivity. }
    rewrite N2 in R.
    assert (F : firstn (length l1) (ev_trace (l1 ++ e :: l2)) = ev_trace l1).
    { unfold ev_trace. rewrite map_app.
      rewrite firstn_app, map_length, Nat.sub_diag. simpl. rewrite app_nil_r.
      apply firstn_all2. rewrite map_length. lia. }
    rewrite F in R. injection R as R1. exact R1.
  Qed.

  Lemma obs_sound H : stamps_wf H -> linearizable body init H -> C17_obs_ok body init H = true.
  Proof.
    intros WF [tr [P [RT L]]]. unfold C17_obs_ok. apply forallb_forall. intros e Ie.
    assert (It : In e tr) by (eapply Permutation_in; [symmetry; exact P | exact Ie]).
    destruct (in_split _ _ It) as [l1 [l2 Etr]]. subst tr.
    pose proof (legal_obs _ _ _ L) as O.
    unfold event_ok. destruct (e_op e) as [m d|m| | |m|m|k|k m|k d] eqn:Eo.
    - rewrite O. simpl. reflexivity.
    - apply (read_sound H l1 e l2 m); auto.
      + unfold reg_of. rewrite Eo. reflexivity.
      + rewrite O. simpl. rewrite (inv_named body init), map_snd_ev_trace. apply dec_eqb_refl.
    - rewrite O. simpl. apply (listing_sound H l1 e l2); auto.
    - rewrite O. simpl. apply (styles_sound H l1 e l2); auto.
    - apply (read_sound H l1 e l2 m); auto.
      + unfold reg_of. rewrite Eo. reflexivity.
      + rewrite O. simpl. rewrite (inv_named body init), map_snd_ev_trace, text_render_spec.
        rewrite rr_eqb_refl. destruct (dec_is_empty (spec_named init (map e_op l1) m)); reflexivity.
    - apply (read_sound H l1 e l2 m); auto.
      + unfold reg_of. rewrite Eo. reflexivity.
      + rewrite O. simpl. rewrite (inv_named body init), map_snd_ev_trace, text_render_spec.
        apply rr_eqb_refl.
    - reflexivity.
    - rewrite O. simpl.
      destruct (nth_error (g_tabs (after body init (ev_trace l1)) (e_g e)) k) as [t0|]; [|reflexivity].
      simpl. apply (read_sound H l1 e l2 m); auto.
      + unfold reg_of. rewrite Eo. reflexivity.
      + simpl. rewrite (inv_named body init), map_snd_ev_trace, text_render_spec.
        rewrite rr_eqb_refl. destruct (dec_is_empty (spec_named init (map e_op l1) m)); reflexivity.
    - reflexivity.
  Qed.
End Sound.

(* ---------------------------------------------------------------- the same facts, quantified over all merges of per-goroutine programs *)
Lemma merge_named body init (progs : list (list (nat * op))) tr :
  is_merge progs tr -> forall i g n,
  nth_error tr i = Some (g, ONamed n) ->
  nth_error (run body (init_state init) tr) i = Some (VDec (spec_named init (map snd (firstn i tr)) n)).
Proof. intros _ i g n. apply reg_named. Qed.

Lemma merge_names body init (progs : list (list (nat * op))) tr :
  NoDup (map fst init) -> is_merge progs tr -> forall i g,
  nth_error tr i = Some (g, ONames) ->
  exists l, nth_error (run body (init_state init) tr) i = Some (VNames l)
    /\ Sorted bytes_le l /\ NoDup l
    /\ forall n, In n l <-> registered init (map snd (firstn i tr)) n.
Proof. intros H _ i g. apply reg_names_obs. exact H. Qed.

Lemma merge_closed body init (progs : list (list (nat * op))) tr :
  is_merge progs tr -> forall i g n,
  nth_error tr i = Some (g, OSet n) ->
  spec_named init (map snd (firstn i tr)) n = DEmpty ->
  nth_error (run body (init_state init) tr) i = Some (VSet true (Ok ([], true)))
  /\ forall j k, i < j -> nth_error tr j = Some (g, ORender k) ->
       k = length (tab_decs init g (firstn i tr)) ->
       (forall m o, i < m < j -> nth_error tr m = Some (g, o) -> retargets k o = false) ->
       nth_error (run body (init_state init) tr) j = Some (VRender (Ok ([], true))).
Proof. intros _ i g n. apply closed_hist. Qed.

Lemma merge_reset body init (progs : list (list (nat * op))) tr :
  is_merge progs tr -> forall i g k n,
  nth_error tr i = Some (g, OReSet k n) ->
  k < length (tab_decs init g (firstn i tr)) ->
  let d := spec_named init (map snd (firstn i tr)) n in
  nth_error (run body (init_state init) tr) i = Some (VSet (dec_is_empty d) (spec_render body d))
  /\ forall j, i < j -> nth_error tr j = Some (g, ORender k) ->
       (forall m o, i < m < j -> nth_error tr m = Some (g, o) -> retargets k o = false) ->
       nth_error (run body (init_state init) tr) j = Some (VRender (spec_render body d)).
Proof. intros _ i g k n. apply reset_hist. Qed.

Lemma merge_closed_auto body init (progs : list (list (nat * op))) tr :
  is_merge progs tr -> forall i g n,
  nth_error tr i = Some (g, OAutoNew n) ->
  spec_named init (map snd (firstn i tr)) n = DEmpty ->
  nth_error (run body (init_state init) tr) i = Some (VRender (Ok ([], true)))
  /\ forall j k, i < j -> nth_error tr j = Some (g, ORender k) ->
       k = length (tab_decs init g (firstn i tr)) ->
       (forall m o, i < m < j -> nth_error tr m = Some (g, o) -> retargets k o = false) ->
       nth_error (run body (init_state init) tr) j = Some (VRender (Ok ([], true))).
Proof. intros _ i g n. apply closed_auto. Qed.
