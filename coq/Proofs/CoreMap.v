(* The table core never looks at what its cells carry: mapping a function over
   the items of a history commutes with running it (Model/Core.v is
   parametric).  Used to relate the machine over cells-with-snapshots
   (Model/TableMut.v) to the machine over items. *)
From Tab Require Import Base.Ops Model.Core Model.Table Model.TableMut.

Section MapState.
  Context {A B : Type} (g : A -> B).

  Definition map_cell (c : Core.cell A) : Core.cell B := Core.mkCell (g (c_item c)) (c_col c).
  Definition map_body (b : rowv A) : rowv B :=
    match b with RSep => RSep | RCells cs => RCells (map map_cell cs) end.
  Definition map_trow (tr : trow A) : trow B := mkTRow (r_num tr) (r_here tr) (map_body (r_body tr)).
  Definition map_handle (h : handle A) : handle B :=
    match h with Detached cs => Detached (map map_cell cs) | Attached i => Attached i end.
  Definition map_state (st : Core.state A) : Core.state B :=
    mkState (map map_trow (t_rows st)) (t_ncols st) (t_cols st)
            (option_map (map map_cell) (t_header st))
            (map (fun p => (fst p, map_handle (snd p))) (t_handles st)) (t_panic st).

  Lemma resize_map st n : resize_columns_at_least (map_state st) n = map_state (resize_columns_at_least st n).
  Proof.
    unfold resize_columns_at_least. cbn [map_state t_ncols t_cols].
    destruct (n <=? t_ncols st); [reflexivity|]. destruct (S n <? t_cols st); reflexivity.
  Qed.

  Lemma row_add_cell_map cs x : map map_cell (row_add_cell cs x) = row_add_cell (map map_cell cs) (g x).
  Proof. unfold row_add_cell. rewrite map_app, map_length. reflexivity. Qed.

  Lemma fold_add_map xs : forall cs,
    map map_cell (fold_left row_add_cell xs cs) = fold_left row_add_cell (map g xs) (map map_cell cs).
  Proof.
    induction xs as [|x xs IH]; intros cs; [reflexivity|]. cbn [fold_left map].
    rewrite IH, row_add_cell_map. reflexivity.
  Qed.

  Lemma add_row_cells_map st cs : add_row_cells (map_state st) (map map_cell cs) = map_state (add_row_cells st cs).
  Proof.
    unfold add_row_cells. rewrite map_length, <- resize_map. f_equal.
    unfold with_rows, map_state. cbn [t_rows t_ncols t_cols t_header t_handles t_panic].
    rewrite map_app, map_length. reflexivity.
  Qed.

  Lemma assoc_handles st r :
    assoc r (t_handles (map_state st)) = option_map map_handle (assoc r (t_handles st)).
  Proof. cbn [map_state t_handles]. apply assoc_map. Qed.

  Lemma bind_handle_map st r h : bind_handle (map_state st) r (map_handle h) = map_state (bind_handle st r h).
  Proof. reflexivity. Qed.

  Lemma row_add_attached_map st i x : row_add_attached (map_state st) i (g x) = map_state (row_add_attached st i x).
  Proof.
    unfold row_add_attached. cbn [map_state t_rows]. rewrite nth_error_map.
    destruct (nth_error (t_rows st) i) as [tr|]; cbn [option_map]; [|reflexivity].
    destruct tr as [num here body]. cbn [map_trow r_body r_num r_here map_body].
    destruct body as [|cs]; cbn [map_body]; [reflexivity|]. cbv zeta.
    rewrite <- row_add_cell_map, map_length.
    assert (E : with_rows (map_state st)
                  (upd (map map_trow (t_rows st)) i (mkTRow num here (RCells (map map_cell (row_add_cell cs x)))))
                = map_state (with_rows st (upd (t_rows st) i (mkTRow num here (RCells (row_add_cell cs x)))))).
    { unfold with_rows, map_state. cbn [t_rows t_ncols t_cols t_header t_handles t_panic].
      rewrite map_upd. reflexivity. }
    change (mkState (map map_trow (t_rows st)) (t_ncols st) (t_cols st) (option_map (map map_cell) (t_header st))
              (map (fun p => (fst p, map_handle (snd p))) (t_handles st)) (t_panic st)) with (map_state st).
    rewrite E. destruct here; [rewrite resize_map; reflexivity | reflexivity].
  Qed.

  Lemma taken_map st i k : taken_by_other (map_state st) i k = map_state (taken_by_other st i k).
  Proof.
    unfold taken_by_other. cbn [map_state t_rows]. rewrite nth_error_map.
    destruct (nth_error (t_rows st) i) as [tr|]; cbn [option_map]; [|reflexivity].
    unfold with_rows, map_state. cbn [t_rows t_ncols t_cols t_header t_handles t_panic].
    rewrite map_upd. reflexivity.
  Qed.

  Theorem step_map st o : Core.step (map_state st) (map_op g o) = map_state (Core.step st o).
  Proof.
    destruct o as [r|r|r|ref x|r|xs| |xs| |ref k]; cbn [map_op Core.step].
    - reflexivity.
    - reflexivity.
    - unfold append_new_row. change (@nil (Core.cell B)) with (map map_cell (@nil (Core.cell A))).
      rewrite add_row_cells_map. cbn [map_state t_rows]. rewrite map_length. reflexivity.
    - unfold row_add. destruct ref as [r|i]; [|apply row_add_attached_map].
      rewrite assoc_handles. destruct (assoc r (t_handles st)) as [[cs|i]|]; cbn [option_map map_handle].
      + rewrite <- row_add_cell_map. reflexivity.
      + apply row_add_attached_map.
      + reflexivity.
    - unfold add_row. rewrite assoc_handles.
      destruct (assoc r (t_handles st)) as [[cs|i]|]; cbn [option_map map_handle]; try reflexivity.
      rewrite add_row_cells_map. cbn [map_state t_rows]. rewrite map_length. reflexivity.
    - unfold add_row_items. change (@nil (Core.cell B)) with (map map_cell (@nil (Core.cell A))).
      rewrite <- fold_add_map. apply add_row_cells_map.
    - unfold add_separator, with_rows, map_state. cbn [t_rows t_ncols t_cols t_header t_handles t_panic].
      rewrite map_app, map_length. reflexivity.
    - unfold add_headers. rewrite map_length, resize_map.
      change (@nil (Core.cell B)) with (map map_cell (@nil (Core.cell A))). rewrite <- fold_add_map. reflexivity.
    - reflexivity.
    - unfold other_add_row. destruct ref as [r|i]; [|apply taken_map].
      rewrite assoc_handles. destruct (assoc r (t_handles st)) as [[cs|i]|]; cbn [option_map map_handle];
        try reflexivity. apply taken_map.
  Qed.

  Definition map_tstate (t : gtstate A) : gtstate B := mkT (map_state (tb_core t)) (tb_align t) (tb_skip t).

  Lemma has_column_map st n : has_column (map_state st) n = has_column st n.
  Proof. reflexivity. Qed.

  Lemma tstep_map t o : tstep (map_tstate t) (map_gtop g o) = map_tstate (tstep t o).
  Proof.
    destruct o as [c|n a|n s]; cbn [map_gtop tstep map_tstate tb_core tb_align tb_skip].
    - rewrite step_map. reflexivity.
    - rewrite has_column_map. destruct (has_column (tb_core t) n); reflexivity.
    - rewrite has_column_map. destruct (has_column (tb_core t) n); reflexivity.
  Qed.

  Theorem trun_map (h : list (gtop A)) : trun (map (map_gtop g) h) = map_tstate (trun h).
  Proof.
    unfold trun. assert (G : forall t, fold_left tstep (map (map_gtop g) h) (map_tstate t) = map_tstate (fold_left tstep h t)).
    { induction h as [|o h IH]; intros t; [reflexivity|]. cbn [map fold_left]. rewrite tstep_map. apply IH. }
    apply (G tinit).
  Qed.

  Lemma table_view_map (f : B -> vcell) (t : gtstate A) :
    table_view f (map_tstate t) = table_view (fun a => f (g a)) t.
  Proof.
    unfold table_view. cbn [map_tstate tb_core tb_align tb_skip map_state t_ncols t_header t_rows]. f_equal.
    - destruct (t_header (tb_core t)); cbn [option_map]; [rewrite map_map; reflexivity | reflexivity].
    - rewrite map_map. apply map_ext. intros [num here [|cs]]; cbn [map_trow row_cells r_body map_body option_map]; [reflexivity|].
      rewrite map_map. reflexivity.
  Qed.
End MapState.
