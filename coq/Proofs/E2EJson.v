(* End to end, JSON (C07): the round-trip theorem with its view hypotheses
   discharged for every table a history can build. *)
From Tab Require Import Model.Cell Model.Table Spec.TableHist Spec.CellText Proofs.TableProofs Proofs.E2EProofs.
From Tab Require Import Model.Json Spec.JsonParse Spec.JsonExpect Proofs.JsonModelProofs Proofs.JsonProofs Proofs.JsonErrProofs.

Theorem json_history : forall (W : bytes -> nat) (e : env) (json : item -> option bytes) strenc strval encval (h : list top),
  twf_hist h ->
  let v := hview W e json h in
  encodings_ok strenc strval encval v ->
  match json_render strenc v with
  | Ok out =>
      ~ json_error_condition v
      /\ parse_json out = Some (json_expected strval (cell_denotation strval encval) v)
  | Err => json_error_condition v
  | Panic => False
  end.
Proof. intros W e json strenc strval encval h Hw v Henc. apply json_valid_and_mirrors; [apply hview_wf, Hw | exact Henc]. Qed.

Theorem json_history_no_panic : forall W e json strenc (h : list top),
  twf_hist h -> json_render strenc (hview W e json h) <> Panic.
Proof. intros. apply json_no_panic, hview_wf. assumption. Qed.

(* the keys are the documented texts of the header items, the text fallback of
   a cell is the documented text of its item *)
Theorem json_history_texts : forall W e json (h : list top), twf_hist h ->
  map vc_text (header_cells (hview W e json h))
  = match hist_header h with Some xs => map (documented_text e) xs | None => [] end.
Proof.
  intros W e json h Hw. unfold header_cells. rewrite (hview_header W e json h Hw).
  destruct (hist_header h); cbn [option_map]; [apply texts_of_items | reflexivity].
Qed.


(* a column is skipable after history h: its own latest boolean setting, else
   column 0's, else not *)
Theorem json_history_skipable : forall W e json (h : list top) i,
  twf_hist h -> i < hist_ncols h ->
  eff_skip (hview W e json h) i
  = match hist_skip h (S i) with
    | Some (SkBool b) => b
    | _ => match hist_skip h 0 with Some (SkBool b) => b | _ => false end
    end.
Proof.
  intros W e json h i Hw Hi. unfold eff_skip.
  rewrite (hview_skip_nth W e json h (S i) Hw) by lia. rewrite (hview_skip_nth W e json h 0 Hw) by lia.
  reflexivity.
Qed.
