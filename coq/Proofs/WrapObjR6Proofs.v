(* C10, wrapper objects: a wrapper's OWN option history.  The holder of a
   wrapper may set its options, render, set other options, render again; what
   it renders is its kind's output under the options it has NOW, the same as
   every other route to those options gives. *)
From Tab Require Import Model.Wrap Model.WrapObj Proofs.WrapProofs Proofs.WrapObjProofs.

Section WrapObjR6.
  Variable U O : Type.
  Variable dflt : kind -> O.
  Variable out : kind -> O -> view -> res bytes.
  Variable degraded : kind -> O -> mstate -> view -> res bytes.
  Notation ostate := (ostate U O).
  Notation oop := (oop U O).
  Notation ostep := (ostep dflt).
  Notation orun := (orun dflt).
  Notation orender := (orender out degraded).

  Lemma orun_snoc (ps : list oop) (p : oop) (s : ostate) : orun s (ps ++ [p]) = ostep (orun s ps) p.
  Proof. unfold WrapObj.orun. rewrite fold_left_app. reflexivity. Qed.

  (* whatever wrapper i rendered before and whatever options it had then: once
     its holder sets options o, it renders its kind's output under o *)
  Theorem retune_last_wins (ps : list oop) v u i w o :
    nth_error (o_heap (orun (oinit v u) ps)) i = Some w ->
    orender (ostep (orun (oinit v u) ps) (PTune i o)) i
    = Some (out (w_kind w) o (st_view (o_tab (orun (oinit v u) ps)))).
  Proof.
    intros Hn. rewrite <- orun_snoc.
    rewrite (obj_render_is_out U O dflt out degraded (ps ++ [PTune i o]) v u i (mkW (w_kind w) o)).
    - rewrite orun_snoc. reflexivity.
    - rewrite orun_snoc. cbn [WrapObj.ostep o_heap heap_after].
      rewrite set_opts_nth, Nat.eqb_refl, Hn. reflexivity.
  Qed.

  (* ... which is what a brand-new wrapper of that kind given the same options
     renders (auto.Wrap(t, style), X.Wrap(t) + setters: any other route) *)
  Theorem retuned_agrees_with_new (ps : list oop) v u i w o :
    let s := orun (oinit v u) ps in
    nth_error (o_heap s) i = Some w ->
    orender (ostep s (PTune i o)) i
    = orender (ostep (ostep s (PWrap (w_kind w))) (PTune (length (o_heap s)) o)) (length (o_heap s)).
  Proof.
    cbv zeta. intros Hn. rewrite (retune_last_wins ps v u i w o Hn).
    rewrite <- (orun_snoc ps (PWrap (w_kind w))).
    rewrite (retune_last_wins (ps ++ [PWrap (w_kind w)]) v u (length (o_heap (orun (oinit v u) ps))) (mkW (w_kind w) (dflt (w_kind w))) o).
    - rewrite orun_snoc. cbn [WrapObj.ostep o_tab table_ops run fold_left step w_kind].
      destruct (measuring (w_kind w)); reflexivity.
    - rewrite orun_snoc. cbn [WrapObj.ostep o_heap heap_after].
      rewrite nth_error_app2 by apply Nat.le_refl. rewrite Nat.sub_diag. reflexivity.
  Qed.
End WrapObjR6.
