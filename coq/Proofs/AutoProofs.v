(* Lemmas and proofs for C19. *)
From Coq Require Import Sorting.Sorted Sorting.Permutation.
From Tab Require Export Proofs.RegistryProofs.

(* ---------------------------------------------------------------- strings.Split on "." *)
Definition nodot (s : bytes) : Prop := ~ In DOT s.

Lemma split_dot_nonnil s : split_dot s <> [].
Proof.
  destruct s as [|c r]; simpl; [discriminate|].
  destruct (N.eqb c DOT); [discriminate|]. destruct (split_dot r); discriminate.
Qed.

Lemma split_dot_decomp s :
  (forall f, split_dot s = [f] -> s = f /\ nodot f)
  /\ (forall f g t, split_dot s = f :: g :: t ->
        exists s', s = f ++ DOT :: s' /\ split_dot s' = g :: t /\ nodot f).
Proof.
  induction s as [|c r [IH1 IH2]].
  - split.
    + intros f H. inversion H; subst. split; [reflexivity | intros []].
    + intros f g t H. discriminate.
  - simpl. destruct (N.eqb c DOT) eqn:E.
    + apply N.eqb_eq in E; subst c. split.
      * intros f H. inversion H as [[H1 H2]]. exfalso. exact (split_dot_nonnil r H2).
      * intros f g t H. injection H as H1 H2. subst f. exists r. split; [reflexivity|]. split; [exact H2 | intros []].
    + apply N.eqb_neq in E. destruct (split_dot r) as [|h [|g t]] eqn:S.
      * exfalso. exact (split_dot_nonnil r S).
      * split.
        -- intros f H. inversion H; subst. destruct (IH1 h eq_refl) as [A B]. subst r.
           split; [reflexivity|]. intros [X|X]; [congruence | exact (B X)].
        -- intros f g t H. discriminate.
      * split.
        -- intros f H. discriminate.
        -- intros f g' t' H. inversion H; subst.
           destruct (IH2 h g' t' eq_refl) as [s' [A [B C]]]. exists s'. subst r.
           split; [reflexivity|]. split; [exact B|]. intros [X|X]; [congruence | exact (C X)].
Qed.

Lemma split_dot_nodot a : nodot a -> split_dot a = [a].
Proof.
  induction a as [|c r IH]; intros H; [reflexivity|]. simpl.
  destruct (N.eqb c DOT) eqn:E.
  - apply N.eqb_eq in E. exfalso. apply H. left. auto.
  - rewrite IH; [reflexivity|]. intros X. apply H. right. exact X.
Qed.

Lemma split_dot_app a b : nodot a -> split_dot (a ++ DOT :: b) = a :: split_dot b.
Proof.
  induction a as [|c r IH]; intros H; simpl.
  - reflexivity.
  - destruct (N.eqb c DOT) eqn:E.
    + apply N.eqb_eq in E. exfalso. apply H. left. auto.
    + rewrite IH; [reflexivity|]. intros X. apply H. right. exact X.
Qed.

(* ---------------------------------------------------------------- candidates: joins of leading sections *)
Definition cand (secs : list bytes) (k : nat) : bytes := join [DOT] (firstn k secs).
Definition cands_upto (secs : list bytes) (n : nat) : list bytes := map (cand secs) (seq 1 n).
Definition cands (secs : list bytes) : list bytes := cands_upto secs (length secs).

(* prefixes by accumulation *)
Fixpoint pj (secs : list bytes) : list bytes :=
  match secs with
  | [] => []
  | h :: t => h :: map (fun p => h ++ DOT :: p) (pj t)
  end.

Lemma pj_cands secs : pj secs = cands secs.
Proof.
  unfold cands, cands_upto. induction secs as [|h t IH]; [reflexivity|].
  simpl length. simpl seq. simpl map. unfold cand at 1. simpl. f_equal.
  rewrite <- seq_shift, map_map. rewrite IH, map_map.
  apply map_ext_in. intros k Ik. apply in_seq in Ik. unfold cand.
  destruct k as [|k]; [lia|]. destruct t as [|g t']; [simpl in Ik; lia|].
  simpl. reflexivity.
Qed.

Lemma dotted_prefixes_pj s : dotted_prefixes s = pj (split_dot s).
Proof.
  induction s as [|c r IH]; [reflexivity|]. simpl.
  destruct (N.eqb c DOT) eqn:E.
  - apply N.eqb_eq in E; subst c. simpl. rewrite IH. reflexivity.
  - rewrite IH. destruct (split_dot r) as [|h t] eqn:S; [exfalso; exact (split_dot_nonnil r S)|].
    simpl. f_equal. rewrite map_map. apply map_ext. intros p. reflexivity.
Qed.

Lemma dotted_prefixes_cands s : dotted_prefixes s = cands (split_dot s).
Proof. rewrite dotted_prefixes_pj. apply pj_cands. Qed.

Lemma dotted_prefixes_length s : length (dotted_prefixes s) = length (split_dot s).
Proof. rewrite dotted_prefixes_cands. unfold cands, cands_upto. rewrite map_length, seq_length. reflexivity. Qed.

Lemma first_section_hd s f rest : split_dot s = f :: rest -> first_section s = f.
Proof. intros H. unfold first_section. rewrite dotted_prefixes_pj, H. reflexivity. Qed.

(* ---------------------------------------------------------------- decorationName *)
Definition pick (amap : bytes -> decoration) (l : list bytes) : decoration :=
  fold_left (fun acc p => if dec_is_empty (amap p) then acc else amap p) l DEmpty.

Lemma spec_select_pick amap s : spec_select amap s = pick amap (dotted_prefixes s).
Proof. reflexivity. Qed.

Lemma pick_snoc amap l p : pick amap (l ++ [p]) = if dec_is_empty (amap p) then pick amap l else amap p.
Proof. unfold pick. rewrite fold_left_app. reflexivity. Qed.

Lemma dec_empty_eq d : dec_is_empty d = true -> d = DEmpty.
Proof. destruct d; [reflexivity | discriminate]. Qed.

Lemma pick_empty amap l : (forall p, In p l -> amap p = DEmpty) -> pick amap l = DEmpty.
Proof.
  induction l as [|x l IH] using rev_ind; intros H; [reflexivity|].
  rewrite pick_snoc. rewrite (H x) by (apply in_or_app; right; left; reflexivity). simpl.
  apply IH. intros p I. apply H. apply in_or_app. auto.
Qed.

Lemma dn_loop_spec reg secs : forall n, 1 <= n <= length secs ->
  exists c, dn_loop reg secs n = Ok c /\ named reg c = pick (named reg) (cands_upto secs n).
Proof.
  induction n as [|m IH]; intros Hn; [lia|].
  destruct m as [|k].
  - simpl. destruct secs as [|s0 t]; [simpl in Hn; lia|]. exists s0. split; [reflexivity|].
    unfold cands_upto, pick, cand. simpl.
    destruct (dec_is_empty (named reg s0)) eqn:E; [apply dec_empty_eq; exact E | reflexivity].
  - unfold cands_upto. rewrite seq_S, map_app. simpl map. change (1 + S k) with (S (S k)).
    rewrite pick_snoc. fold (cands_upto secs (S k)).
    change (dn_loop reg secs (S (S k))) with
      (if negb (dec_is_empty (named reg (cand secs (S (S k))))) then Ok (cand secs (S (S k))) else dn_loop reg secs (S k)).
    destruct (dec_is_empty (named reg (cand secs (S (S k))))) eqn:E; simpl.
    + apply IH. lia.
    + eexists. split; reflexivity.
Qed.

Lemma decoration_name_spec reg secs : secs <> [] ->
  exists c, decoration_name reg secs = Ok c /\ named reg c = pick (named reg) (cands secs).
Proof.
  intros H. unfold decoration_name, cands. apply dn_loop_spec.
  destruct secs; [congruence | simpl; lia].
Qed.

Lemma cands_last secs : secs <> [] -> exists l, cands secs = l ++ [join [DOT] secs].
Proof.
  intros H. unfold cands, cands_upto. destruct (length secs) as [|m] eqn:L.
  - destruct secs; [congruence | discriminate].
  - rewrite seq_S, map_app. simpl. eexists. f_equal. unfold cand.
    change (1 + m) with (S m). rewrite <- L, firstn_all. reflexivity.
Qed.

Lemma join_split s : join [DOT] (split_dot s) = s.
Proof.
  induction s as [|c r IH]; [reflexivity|]. simpl.
  destruct (N.eqb c DOT) eqn:E.
  - apply N.eqb_eq in E; subst c. rewrite join_cons_ne by apply split_dot_nonnil. simpl. rewrite IH. reflexivity.
  - destruct (split_dot r) as [|h t] eqn:S; [exfalso; exact (split_dot_nonnil r S)|].
    destruct t as [|g t'].
    + simpl in *. rewrite IH. reflexivity.
    + rewrite join_cons_ne by discriminate. rewrite join_cons_ne in IH by discriminate.
      simpl. rewrite <- IH. reflexivity.
Qed.

(* ---------------------------------------------------------------- the model against the documented resolution *)
Lemma bytes_eqb_neq a b : bytes_eqb a b = false <-> a <> b.
Proof.
  split.
  - intros H E. subst. rewrite bytes_eqb_refl in H. discriminate.
  - intros H. destruct (bytes_eqb a b) eqn:E; auto. apply bytes_eqb_eq in E. contradiction.
Qed.

Section AutoP.
  Variable lower : bytes -> bytes.
  Variables r_csv r_html r_markdown r_json : res (bytes * bool).
  Variable body : decoration -> res bytes.

  Notation wrap' := (wrap lower).
  Notation render' := (render r_csv r_html r_markdown r_json body).
  Notation render_auto' := (render_auto lower r_csv r_html r_markdown r_json body).
  Notation spec_resolve' := (spec_resolve lower r_csv r_html r_markdown r_json body).

  Lemma render_text_named reg c : render' (RText (text_named reg c)) = spec_render body (named reg c).
  Proof. unfold text_named, set_decoration_named. simpl. apply text_render_spec. Qed.

  (* Wrap + Render is the documented resolution *)
  Lemma wrap_resolve reg s :
    exists r, wrap' reg s = Ok r /\ (kind_of r, render' r) = spec_resolve' (named reg) s.
  Proof.
    unfold wrap, spec_resolve.
    destruct (split_dot s) as [|f rest] eqn:HS; [exfalso; exact (split_dot_nonnil s HS)|].
    rewrite (first_section_hd s f rest HS). rewrite dotted_prefixes_length, HS.
    unfold idx. simpl nth_error. simpl bind.
    destruct (bytes_eqb (lower f) s_csv); [eexists; split; reflexivity|].
    destruct (bytes_eqb (lower f) s_html); [eexists; split; reflexivity|].
    destruct (bytes_eqb (lower f) s_markdown); [eexists; split; reflexivity|].
    destruct (bytes_eqb (lower f) s_json); [eexists; split; reflexivity|].
    destruct (bytes_eqb (lower f) s_texttable).
    - destruct rest as [|g t].
      + simpl. eexists. split; [reflexivity|]. f_equal; try apply (text_render_spec body default_decoration).
      + destruct (proj2 (split_dot_decomp s) f g t HS) as [s' [E1 [E2 E3]]].
        destruct (decoration_name_spec reg (g :: t)) as [c [D1 D2]]; [discriminate|].
        change (Nat.ltb 1 (length (f :: g :: t))) with true. cbv iota.
        change (skipn 1 (f :: g :: t)) with (g :: t).
        rewrite D1. simpl bind. eexists. split; [reflexivity|].
        rewrite render_text_named, D2.
        assert (X : skipn (S (length f)) s = s').
        { subst s. change (f ++ DOT :: s') with (f ++ [DOT] ++ s').
          rewrite app_assoc, skipn_app.
          replace (S (length f)) with (length (f ++ [DOT])) by (rewrite app_length; simpl; lia).
          rewrite skipn_all, Nat.sub_diag. reflexivity. }
        rewrite X, spec_select_pick, dotted_prefixes_cands, E2. reflexivity.
    - destruct (decoration_name_spec reg (f :: rest)) as [c [D1 D2]]; [discriminate|].
      rewrite D1. simpl bind. eexists. split; [reflexivity|]. f_equal.
      rewrite render_text_named, D2. rewrite spec_select_pick, dotted_prefixes_cands, HS. reflexivity.
  Qed.

  Lemma render_auto_resolve reg s : render_auto' reg s = snd (spec_resolve' (named reg) s).
  Proof.
    unfold render_auto. destruct (wrap_resolve reg s) as [r [W E]]. rewrite W. simpl.
    rewrite <- E. reflexivity.
  Qed.
End AutoP.

(* ---------------------------------------------------------------- C19 *)
Definition five_names : list bytes := s_texttable :: four_names.

Definition pkg_kind (p : bytes) : kind :=
  if bytes_eqb p s_csv then KCsv else if bytes_eqb p s_html then KHtml
  else if bytes_eqb p s_markdown then KMarkdown else if bytes_eqb p s_json then KJson else KText.

(* v is an ASCII string whose lower-casing is p *)
Definition ascii_case_variant (p v : bytes) : Prop :=
  map ascii_lower v = p /\ forallb is_ascii v = true.

(* every registered decoration is one the text renderer accepts (anything but
   the zero value: complete, boxless, or written field by field; DESIGN 13.7) *)
Definition usable_registry (reg : registry) : Prop :=
  forall k d, In (k, d) reg -> exists id, d = DVal id true.

Definition renders (r : res (bytes * bool)) : Prop := exists out, r = Ok (out, false).

(* strings.ToLower, as far as it is assumed: on ASCII input *)
Definition lower_on_ascii (lower : bytes -> bytes) : Prop :=
  forall s, forallb is_ascii s = true -> lower s = map ascii_lower s.

Definition plain_name (lower : bytes -> bytes) (n : bytes) : Prop :=
  ~ In (lower (first_section n)) five_names.

(* nothing the style could name is registered *)
Definition unknown_style (lower : bytes -> bytes) (reg : registry) (s : bytes) : Prop :=
  let f := first_section s in
  ~ In (lower f) four_names
  /\ ((lower f = s_texttable /\ 1 < length (dotted_prefixes s)
       /\ forall p, In p (dotted_prefixes (skipn (S (length f)) s)) -> named reg p = DEmpty)
      \/ (lower f <> s_texttable /\ forall p, In p (dotted_prefixes s) -> named reg p = DEmpty)).

Lemma five_facts p : In p five_names ->
  forallb is_ascii p = true /\ map ascii_lower p = p /\ forallb (fun b => negb (N.eqb b DOT)) p = true.
Proof.
  intros H. repeat (destruct H as [H|H]; [subst p; vm_compute; auto|]). destruct H.
Qed.

Lemma nodot_forallb p : forallb (fun b => negb (N.eqb b DOT)) p = true -> nodot p.
Proof.
  intros H I. rewrite forallb_forall in H. specialize (H _ I). rewrite N.eqb_refl in H. discriminate.
Qed.

Lemma ascii_lower_dot b : ascii_lower b = DOT -> b = DOT.
Proof.
  unfold ascii_lower, DOT. destruct ((65 <=? b)%N && (b <=? 90)%N) eqn:E; auto.
  apply andb_true_iff in E. destruct E as [A B]. apply N.leb_le in A. apply N.leb_le in B. lia.
Qed.

Lemma variant_nodot p v : In p five_names -> ascii_case_variant p v -> nodot v.
Proof.
  intros Hp [Hm _] I. destruct (five_facts p Hp) as [_ [_ Hd]]. apply nodot_forallb in Hd.
  apply Hd. rewrite <- Hm. apply in_map_iff. exists DOT. split; [reflexivity | exact I].
Qed.

Lemma first_section_nodot v : nodot v -> first_section v = v.
Proof. intros H. apply (first_section_hd v v []). apply split_dot_nodot. exact H. Qed.

Lemma first_section_app v rest : nodot v -> first_section (v ++ DOT :: rest) = v.
Proof. intros H. apply (first_section_hd _ v (split_dot rest)). apply split_dot_app. exact H. Qed.

Section C19.
  Variable lower : bytes -> bytes.
  Variables r_csv r_html r_markdown r_json : res (bytes * bool).
  Variable body : decoration -> res bytes.
  Hypothesis lower_ascii : lower_on_ascii lower.

  Notation wrap' := (wrap lower).
  Notation render_auto' := (render_auto lower r_csv r_html r_markdown r_json body).
  Notation spec_resolve' := (spec_resolve lower r_csv r_html r_markdown r_json body).

  Lemma lower_five p : In p five_names -> lower p = p.
  Proof. intros H. destruct (five_facts p H) as [A [B _]]. rewrite (lower_ascii p A). exact B. Qed.

  Lemma lower_variant p v : ascii_case_variant p v -> lower v = p.
  Proof. intros [A B]. rewrite (lower_ascii v B). exact A. Qed.

  (* the kind chosen when the first section lower-cases to one of the five names *)
  Lemma resolve_kind amap s p :
    In p five_names -> lower (first_section s) = p -> fst (spec_resolve' amap s) = pkg_kind p.
  Proof.
    intros Hp Hl. unfold spec_resolve. rewrite Hl.
    repeat (destruct Hp as [Hp|Hp]; [subst p; vm_compute bytes_eqb; cbv iota; try reflexivity;
                                    destruct (Nat.ltb 1 (length (dotted_prefixes s))); reflexivity|]).
    destruct Hp.
  Qed.

  Lemma case_and_trailing reg p v rest :
    In p five_names -> ascii_case_variant p v ->
    (exists r, wrap' reg v = Ok r /\ kind_of r = pkg_kind p)
    /\ (exists r, wrap' reg (v ++ DOT :: rest) = Ok r /\ kind_of r = pkg_kind p).
  Proof.
    intros Hp Hv. pose proof (variant_nodot p v Hp Hv) as Nd. pose proof (lower_variant p v Hv) as Lv.
    split.
    - destruct (wrap_resolve lower r_csv r_html r_markdown r_json body reg v) as [r [W E]].
      exists r. split; [exact W|].
      change (kind_of r) with (fst (kind_of r, render r_csv r_html r_markdown r_json body r)). rewrite E.
      apply resolve_kind; [exact Hp|]. rewrite first_section_nodot by exact Nd. exact Lv.
    - destruct (wrap_resolve lower r_csv r_html r_markdown r_json body reg (v ++ DOT :: rest)) as [r [W E]].
      exists r. split; [exact W|].
      change (kind_of r) with (fst (kind_of r, render r_csv r_html r_markdown r_json body r)). rewrite E.
      apply resolve_kind; [exact Hp|]. rewrite first_section_app by exact Nd. exact Lv.
  Qed.

  Lemma not_in_five l :
    ~ In l five_names ->
    bytes_eqb l s_csv = false /\ bytes_eqb l s_html = false /\ bytes_eqb l s_markdown = false
    /\ bytes_eqb l s_json = false /\ bytes_eqb l s_texttable = false.
  Proof.
    intros H. repeat split; apply bytes_eqb_neq; intros E; apply H; subst l; simpl; tauto.
  Qed.

  Lemma texttable_alias reg n :
    plain_name lower n ->
    wrap' reg (s_texttable ++ DOT :: n) = wrap' reg n.
  Proof.
    intros Hp. unfold wrap.
    assert (Nt : nodot s_texttable) by (apply nodot_forallb; vm_compute; reflexivity).
    rewrite (split_dot_app _ n Nt).
    destruct (split_dot n) as [|f rest] eqn:HS; [exfalso; exact (split_dot_nonnil n HS)|].
    unfold plain_name in Hp. rewrite (first_section_hd n f rest HS) in Hp.
    destruct (not_in_five _ Hp) as [A [B [C [D E]]]].
    unfold idx. simpl nth_error. simpl bind.
    rewrite (lower_five s_texttable) by (left; reflexivity).
    change (bytes_eqb s_texttable s_csv) with false. change (bytes_eqb s_texttable s_html) with false.
    change (bytes_eqb s_texttable s_markdown) with false. change (bytes_eqb s_texttable s_json) with false.
    change (bytes_eqb s_texttable s_texttable) with true. cbv iota.
    rewrite A, B, C, D, E.
    change (Nat.ltb 1 (length (s_texttable :: f :: rest))) with true. cbv iota.
    reflexivity.
  Qed.

  (* a dot-free name that is no package name: auto.Wrap is texttable.Wrap +
     SetDecorationNamed of exactly that name (C17's OAutoNew) *)
  Lemma plain_is_set reg n :
    nodot n -> plain_name lower n -> wrap' reg n = Ok (RText (text_named reg n)).
  Proof.
    intros Nd Hp. unfold wrap. rewrite (split_dot_nodot n Nd).
    unfold plain_name in Hp. rewrite (first_section_nodot n Nd) in Hp.
    destruct (not_in_five _ Hp) as [A [B [C [D E]]]].
    unfold idx. simpl nth_error. simpl bind. rewrite A, B, C, D, E. reflexivity.
  Qed.

  (* "texttable.X" for a dot-free X - whatever X spells, a sub-package keyword
     included - is the text table with SetDecorationNamed(X): the second section
     is a decoration name, never a format *)
  Lemma texttable_qualified reg x :
    nodot x -> wrap' reg (s_texttable ++ DOT :: x) = Ok (RText (text_named reg x)).
  Proof.
    intros Nd. unfold wrap.
    assert (Nt : nodot s_texttable) by (apply nodot_forallb; vm_compute; reflexivity).
    rewrite (split_dot_app _ x Nt), (split_dot_nodot x Nd).
    unfold idx. simpl nth_error. simpl bind.
    rewrite (lower_five s_texttable) by (left; reflexivity).
    change (bytes_eqb s_texttable s_csv) with false. change (bytes_eqb s_texttable s_html) with false.
    change (bytes_eqb s_texttable s_markdown) with false. change (bytes_eqb s_texttable s_json) with false.
    change (bytes_eqb s_texttable s_texttable) with true. cbv iota.
    reflexivity.
  Qed.

  Lemma texttable_default reg : wrap' reg s_texttable = Ok (RText text_wrap).
  Proof.
    unfold wrap. change (split_dot s_texttable) with [s_texttable].
    unfold idx. simpl nth_error. simpl bind.
    rewrite (lower_five s_texttable) by (left; reflexivity). reflexivity.
  Qed.

  Lemma unknown_fails reg s : unknown_style lower reg s -> render_auto' reg s = Ok ([], true).
  Proof.
    intros [H4 H]. rewrite render_auto_resolve. unfold spec_resolve.
    assert (X : forall q, In q four_names -> bytes_eqb (lower (first_section s)) q = false).
    { intros q Iq. apply bytes_eqb_neq. intros E. apply H4. rewrite E. exact Iq. }
    rewrite (X s_csv), (X s_html), (X s_markdown), (X s_json) by (simpl; tauto).
    destruct H as [[Ht [Hl He]]|[Ht He]].
    - rewrite Ht. change (bytes_eqb s_texttable s_texttable) with true. cbv iota.
      apply Nat.ltb_lt in Hl. rewrite Hl. cbn [snd]. rewrite spec_select_pick, (pick_empty _ _ He). reflexivity.
    - apply bytes_eqb_neq in Ht. rewrite Ht. cbn [snd]. rewrite spec_select_pick, (pick_empty _ _ He). reflexivity.
  Qed.

  (* ---- every listed name works *)
  Hypothesis good_csv : renders r_csv.
  Hypothesis good_html : renders r_html.
  Hypothesis good_markdown : renders r_markdown.
  Hypothesis good_json : renders r_json.
  Hypothesis good_text : forall id, exists out, body (DVal id true) = Ok out.

  Lemma spec_render_usable id : renders (spec_render body (DVal id true)).
  Proof. unfold spec_render. simpl. destruct (good_text id) as [out E]. rewrite E. exists out. reflexivity. Qed.

  Lemma listed_work reg n :
    usable_registry reg -> In n (list_styles reg) ->
    texttable_dotted lower n = false ->
    renders (render_auto' reg n).
  Proof.
    intros Hu Hin Hg. rewrite render_auto_resolve.
    unfold list_styles in Hin. apply (proj1 (isort_In _ _)) in Hin. apply in_app_or in Hin.
    unfold texttable_dotted in Hg. unfold spec_resolve.
    destruct (bytes_eqb (lower (first_section n)) s_csv) eqn:E1; [exact good_csv|].
    destruct (bytes_eqb (lower (first_section n)) s_html) eqn:E2; [exact good_html|].
    destruct (bytes_eqb (lower (first_section n)) s_markdown) eqn:E3; [exact good_markdown|].
    destruct (bytes_eqb (lower (first_section n)) s_json) eqn:E4; [exact good_json|].
    destruct (bytes_eqb (lower (first_section n)) s_texttable) eqn:E5.
    - simpl in Hg. rewrite Hg. apply spec_render_usable.
    - simpl. destruct Hin as [Hin|Hin].
      + unfold names in Hin. apply (proj1 (isort_In _ _)) in Hin.
        destruct (init_named_in _ _ Hin) as [d [I J]]. rewrite <- named_init_named in J.
        destruct (Hu _ _ I) as [id Ed]. rewrite Ed in J.
        rewrite spec_select_pick, dotted_prefixes_cands.
        destruct (cands_last (split_dot n) (split_dot_nonnil n)) as [l El]. rewrite El, join_split.
        rewrite pick_snoc, J. simpl. apply spec_render_usable.
      + exfalso. assert (I5 : In n five_names) by (right; exact Hin).
        destruct (five_facts n I5) as [_ [_ Nd]]. apply nodot_forallb in Nd.
        rewrite (first_section_nodot n Nd), (lower_five n I5) in *.
        repeat (destruct Hin as [Hin|Hin]; [subst n; discriminate|]). destruct Hin.
  Qed.
End C19.

(* the dispatch does not depend on what the renderers produce *)
Lemma case_and_trailing_wrap lower :
  lower_on_ascii lower -> forall reg p v rest,
  In p five_names -> ascii_case_variant p v ->
  (exists r, wrap lower reg v = Ok r /\ kind_of r = pkg_kind p)
  /\ (exists r, wrap lower reg (v ++ DOT :: rest) = Ok r /\ kind_of r = pkg_kind p).
Proof. intros H. exact (case_and_trailing lower Err Err Err Err (fun _ => Err) H). Qed.
