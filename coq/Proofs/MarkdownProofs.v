(* Proofs for C08: Model/Markdown.v against Spec/MdSplit.v. *)
From Tab Require Import Model.Markdown Spec.MdSplit.

Local Open Scope N_scope.
Local Open Scope nat_scope.

(* ================================================================ *)
(* 1. md_escape                                                      *)
(* ================================================================ *)

(* the three passes as one byte map *)
Definition md_esc_byte (b : N) : bytes :=
  if N.eqb b 38 then ent_amp
  else if N.eqb b 39 then ent_sq
  else if N.eqb b 60 then ent_lt
  else if N.eqb b 62 then ent_gt
  else if N.eqb b 34 then ent_dq
  else if N.eqb b 124 then ent_pipe
  else if N.eqb b 10 then ent_lf
  else [b].

Definition special (b : N) : bool :=
  N.eqb b 38 || N.eqb b 39 || N.eqb b 60 || N.eqb b 62 || N.eqb b 34 || N.eqb b 124 || N.eqb b 10.

(* case analysis on a byte: one of the seven special bytes, or none of them *)
Lemma byte_cases (b : N) :
  b = 38%N \/ b = 39%N \/ b = 60%N \/ b = 62%N \/ b = 34%N \/ b = 124%N \/ b = 10%N
  \/ (N.eqb b 38 = false /\ N.eqb b 39 = false /\ N.eqb b 60 = false /\ N.eqb b 62 = false
      /\ N.eqb b 34 = false /\ N.eqb b 124 = false /\ N.eqb b 10 = false).
Proof.
  destruct (N.eqb_spec b 38); [auto|]. destruct (N.eqb_spec b 39); [auto|].
  destruct (N.eqb_spec b 60); [auto|]. destruct (N.eqb_spec b 62); [auto 6|].
  destruct (N.eqb_spec b 34); [auto 7|]. destruct (N.eqb_spec b 124); [auto 8|].
  destruct (N.eqb_spec b 10); [auto 9|]. do 7 right. repeat split; reflexivity.
Qed.

Ltac byte_cases b :=
  let H := fresh "Hb" in
  destruct (byte_cases b) as [H|[H|[H|[H|[H|[H|[H|H]]]]]]];
  [subst b|subst b|subst b|subst b|subst b|subst b|subst b|
   destruct H as (?H & ?H & ?H & ?H & ?H & ?H & ?H)].

Ltac rw_neq := repeat match goal with H : N.eqb _ _ = false |- _ => rewrite H end.

Lemma md_esc_byte_other b :
  N.eqb b 38 = false -> N.eqb b 39 = false -> N.eqb b 60 = false -> N.eqb b 62 = false ->
  N.eqb b 34 = false -> N.eqb b 124 = false -> N.eqb b 10 = false -> md_esc_byte b = [b].
Proof. intros. unfold md_esc_byte. repeat match goal with H : _ = false |- _ => rewrite H; clear H end. reflexivity. Qed.

Lemma flat_map_flat_map {A B C} (f : A -> list B) (g : B -> list C) l :
  flat_map g (flat_map f l) = flat_map (fun a => flat_map g (f a)) l.
Proof. induction l as [|a l IH]; cbn [flat_map]; [reflexivity|]. rewrite flat_map_app, IH. reflexivity. Qed.

Lemma md_escape_flat s : md_escape s = flat_map md_esc_byte s.
Proof.
  unfold md_escape, replace_byte, html_escape. rewrite !flat_map_flat_map.
  apply flat_map_ext. intros b. byte_cases b; try reflexivity.
  rewrite md_esc_byte_other by assumption.
  unfold html_esc_byte, AMP, SQ, LTc, GTc, DQ, PIPE, LF. rw_neq.
  cbn [flat_map app]. rw_neq. cbn [flat_map app]. rw_neq. reflexivity.
Qed.

Lemma md_escape_nil : md_escape [] = [].
Proof. reflexivity. Qed.

Lemma md_escape_cons b s : md_escape (b :: s) = md_esc_byte b ++ md_escape s.
Proof. rewrite !md_escape_flat. reflexivity. Qed.

Lemma md_escape_app a b : md_escape (a ++ b) = md_escape a ++ md_escape b.
Proof. rewrite !md_escape_flat. apply flat_map_app. Qed.

(* -- no forbidden byte survives *)
Lemma md_esc_byte_raw_free b : raw_free (md_esc_byte b) = true.
Proof.
  byte_cases b; try reflexivity. rewrite md_esc_byte_other by assumption.
  unfold raw_free, raw_forbidden. cbn [forallb].
  repeat match goal with H : N.eqb b _ = false |- _ => rewrite H end. reflexivity.
Qed.

Lemma raw_free_app a b : raw_free (a ++ b) = raw_free a && raw_free b.
Proof. apply forallb_app. Qed.

Lemma md_escape_raw_free s : raw_free (md_escape s) = true.
Proof.
  induction s as [|b s IH]; [reflexivity|].
  rewrite md_escape_cons, raw_free_app, md_esc_byte_raw_free, IH. reflexivity.
Qed.

(* -- the strict decoder inverts it *)
Lemma decode_from_skip x r : decode_from (length x) (x ++ r) = decode_from 0 r.
Proof. induction x as [|b x IH]; [reflexivity|]. cbn [length app decode_from]. exact IH. Qed.

Lemma decode_esc_byte b r :
  decode_from 0 (md_esc_byte b ++ r) = option_map (cons b) (decode_from 0 r).
Proof.
  byte_cases b; try reflexivity.
  rewrite md_esc_byte_other by assumption. cbn [app decode_from]. unfold cAMP. rw_neq. reflexivity.
Qed.

Lemma decode_md_escape s : decode (md_escape s) = Some s.
Proof.
  unfold decode. induction s as [|b s IH]; [reflexivity|].
  rewrite md_escape_cons, decode_esc_byte, IH. reflexivity.
Qed.

(* -- every ampersand of the escaped text starts one of the seven entities *)
Lemma is_prefix_app p r : is_prefix p (p ++ r) = true.
Proof. induction p as [|x p IH]; [reflexivity|]. cbn [app is_prefix]. rewrite N.eqb_refl. exact IH. Qed.

Lemma esc_byte_amp b pre post r :
  md_esc_byte b = pre ++ 38%N :: post -> starts_entity (post ++ r).
Proof.
  intros E.
  assert (Hs : forall name c, In (name, c) entities -> post = name -> starts_entity (post ++ r)).
  { intros name c Hin ->. exists name, c. split; [exact Hin | apply is_prefix_app]. }
  assert (Hhead : forall name, 38%N :: name = pre ++ 38%N :: post ->
                               Forall (fun x => x <> 38%N) name -> post = name).
  { intros name E' Hno. destruct pre as [|x pre].
    - inversion E'. reflexivity.
    - exfalso. inversion E' as [[Hx Hrest]]. subst x.
      assert (Hin : In 38%N name) by (rewrite Hrest; apply in_or_app; right; left; reflexivity).
      rewrite Forall_forall in Hno. exact (Hno _ Hin eq_refl). }
  byte_cases b;
    try (cbv [md_esc_byte ent_amp ent_sq ent_lt ent_gt ent_dq ent_pipe ent_lf] in E; cbn in E;
         apply Hhead in E; [|repeat constructor; discriminate];
         eapply Hs; [|exact E]; cbv [entities]; cbn; tauto).
  rewrite md_esc_byte_other in E by assumption.
  destruct pre as [|x [|y pre]]; inversion E; subst.
  match goal with H : N.eqb 38 38 = false |- _ => rewrite N.eqb_refl in H; discriminate end.
Qed.

Lemma md_escape_amp s pre post :
  md_escape s = pre ++ 38%N :: post -> starts_entity post.
Proof.
  revert pre. induction s as [|b s IH]; intros pre E.
  - destruct pre; discriminate.
  - rewrite md_escape_cons in E. apply app_eq_app in E as [l [[E1 E2]|[E1 E2]]].
    + (* esc b = pre ++ l,  38 :: post = l ++ md_escape s *)
      destruct l as [|x l].
      * cbn [app] in E2. apply (IH []). symmetry. exact E2.
      * cbn [app] in E2. inversion E2; subst x post. eapply esc_byte_amp. exact E1.
    + (* pre = esc b ++ l : the ampersand lies in the rest *)
      apply (IH l). exact E2.
Qed.

(* ================================================================ *)
(* 2. trimming                                                       *)
(* ================================================================ *)

Definition spaces (n : nat) : bytes := repeat SP n.

Lemma spaces_S n : spaces (S n) = SP :: spaces n.
Proof. reflexivity. Qed.

Lemma spaces_snoc n : spaces n ++ [SP] = spaces (S n).
Proof. unfold spaces. rewrite <- repeat_snoc. reflexivity. Qed.

Lemma spaces_app a b : spaces a ++ spaces b = spaces (a + b).
Proof. unfold spaces. symmetry. apply repeat_app. Qed.

Lemma forallb_impl {A} (P Q : A -> bool) l :
  (forall x, P x = true -> Q x = true) -> forallb P l = true -> forallb Q l = true.
Proof.
  intros H. induction l as [|x l IH]; [reflexivity|]. cbn [forallb].
  rewrite !andb_true_iff. intros [H1 H2]. auto.
Qed.

Lemma forallb_repeat {A} (P : A -> bool) x n : P x = true -> forallb P (repeat x n) = true.
Proof. intros H. induction n; [reflexivity|]. cbn [repeat forallb]. rewrite H, IHn. reflexivity. Qed.

Lemma trim_right_cons b r :
  trim_right (b :: r) = match trim_right r with
                        | [] => if N.eqb b SP then [] else [b]
                        | r' => b :: r'
                        end.
Proof. reflexivity. Qed.

Lemma trim_left_spaces n y : trim_left (spaces n ++ y) = trim_left y.
Proof. induction n; [reflexivity|]. rewrite spaces_S. cbn [app trim_left]. rewrite N.eqb_refl. exact IHn. Qed.

Lemma trim_right_spaces n : trim_right (spaces n) = [].
Proof. induction n; [reflexivity|]. rewrite spaces_S, trim_right_cons, IHn, N.eqb_refl. reflexivity. Qed.

Lemma trim_right_app_spaces x n : trim_right (x ++ spaces n) = trim_right x.
Proof.
  induction x as [|b x IH]; cbn [app].
  - apply trim_right_spaces.
  - rewrite !trim_right_cons, IH. reflexivity.
Qed.

Lemma trim_left_length l : length (trim_left l) <= length l.
Proof.
  induction l as [|b l IH]; [reflexivity|]. cbn [trim_left].
  destruct (N.eqb b SP); cbn [length]; lia.
Qed.

Lemma trim_left_nonspace b x : N.eqb b SP = false -> trim_left (b :: x) = b :: x.
Proof. intros H. cbn [trim_left]. rewrite H. reflexivity. Qed.

Lemma left_tight_head b x : trim_left (b :: x) = b :: x -> N.eqb b SP = false.
Proof.
  cbn [trim_left]. destruct (N.eqb b SP); [|reflexivity]. intros H.
  pose proof (trim_left_length x) as L. rewrite H in L. cbn [length] in L. lia.
Qed.

Definition tight (x : bytes) : Prop := trim_left x = x /\ trim_right x = x.

Lemma trim_tight l r x : tight x -> trim (spaces l ++ x ++ spaces r) = x.
Proof.
  intros [HL HR]. unfold trim. rewrite trim_left_spaces. destruct x as [|b x].
  - cbn [app]. rewrite <- (app_nil_r (spaces r)), trim_left_spaces. reflexivity.
  - pose proof (left_tight_head _ _ HL) as Hb. cbn [app]. rewrite trim_left_nonspace by exact Hb.
    change (b :: x ++ spaces r) with ((b :: x) ++ spaces r).
    rewrite trim_right_app_spaces. exact HR.
Qed.

Lemma trim_left_decomp c : exists a, c = spaces a ++ trim_left c.
Proof.
  induction c as [|b c [n E]]; [exists 0; reflexivity|]. cbn [trim_left].
  destruct (N.eqb_spec b SP) as [->|_].
  - exists (S n). rewrite spaces_S. cbn [app]. f_equal. exact E.
  - exists 0. reflexivity.
Qed.

Lemma trim_right_decomp u : exists b, u = trim_right u ++ spaces b.
Proof.
  induction u as [|x u [n E]]; [exists 0; reflexivity|]. rewrite trim_right_cons.
  destruct (trim_right u) as [|y t] eqn:Et.
  - cbn [app] in E. destruct (N.eqb_spec x SP) as [->|_].
    + exists (S n). cbn [app]. rewrite spaces_S. f_equal. exact E.
    + exists n. cbn [app]. f_equal. exact E.
  - exists n. change ((x :: y :: t) ++ spaces n) with (x :: (y :: t) ++ spaces n). f_equal. exact E.
Qed.

Lemma trim_left_idem c : trim_left (trim_left c) = trim_left c.
Proof.
  induction c as [|b c IH]; [reflexivity|]. cbn [trim_left].
  destruct (N.eqb b SP) eqn:E; [exact IH|]. cbn [trim_left]. rewrite E. reflexivity.
Qed.

Lemma trim_right_idem u : trim_right (trim_right u) = trim_right u.
Proof.
  induction u as [|x u IH]; [reflexivity|]. rewrite trim_right_cons.
  destruct (trim_right u) as [|y t] eqn:Et.
  - destruct (N.eqb x SP) eqn:E; [reflexivity|]. rewrite trim_right_cons. cbn [trim_right]. rewrite E. reflexivity.
  - rewrite trim_right_cons, IH. reflexivity.
Qed.

Lemma trim_right_head b u : N.eqb b SP = false -> exists t, trim_right (b :: u) = b :: t.
Proof.
  intros H. rewrite trim_right_cons. destruct (trim_right u); [rewrite H|]; eauto.
Qed.

Lemma tight_trim c : tight (trim c).
Proof.
  unfold trim, tight. pose proof (trim_left_idem c) as H. set (u := trim_left c) in *. split.
  - destruct u as [|b u']; [reflexivity|]. pose proof (left_tight_head _ _ H) as Hb.
    destruct (trim_right_head b u' Hb) as [t Et]. rewrite Et. apply trim_left_nonspace. exact Hb.
  - apply trim_right_idem.
Qed.

Lemma trim_decomp c : exists a b, c = spaces a ++ trim c ++ spaces b.
Proof.
  destruct (trim_left_decomp c) as [a Ea]. destruct (trim_right_decomp (trim_left c)) as [b Eb].
  exists a, b. unfold trim. rewrite <- Eb. exact Ea.
Qed.

Lemma tight_all_nonspace x : forallb (fun b => negb (N.eqb b SP)) x = true -> tight x.
Proof.
  intros H. split.
  - destruct x as [|b x]; [reflexivity|]. cbn [forallb] in H. apply andb_true_iff in H as [H _].
    apply trim_left_nonspace. destruct (N.eqb b SP); [discriminate | reflexivity].
  - induction x as [|b x IH]; [reflexivity|]. cbn [forallb] in H. apply andb_true_iff in H as [Hb Hx].
    rewrite trim_right_cons, IH by exact Hx. destruct x; [|reflexivity].
    destruct (N.eqb b SP); [discriminate | reflexivity].
Qed.

(* -- trimming commutes with escaping *)
Lemma md_escape_spaces n : md_escape (spaces n) = spaces n.
Proof. induction n; [reflexivity|]. rewrite spaces_S, md_escape_cons, IHn. reflexivity. Qed.

Lemma esc_byte_head b : exists h t, md_esc_byte b = h :: t /\ (N.eqb b SP = false -> N.eqb h SP = false).
Proof.
  byte_cases b; try (eexists; eexists; split; [reflexivity | intros _; reflexivity]).
  rewrite md_esc_byte_other by assumption. eexists; eexists; split; [reflexivity | auto].
Qed.

Lemma esc_byte_trim_right b : N.eqb b SP = false -> trim_right (md_esc_byte b) = md_esc_byte b.
Proof.
  intros Hb. byte_cases b; try reflexivity.
  rewrite md_esc_byte_other by assumption. cbn [trim_right]. rewrite Hb. reflexivity.
Qed.

Lemma trim_right_app_ne x y : trim_right y = y -> y <> [] -> trim_right (x ++ y) = x ++ y.
Proof.
  intros Hy Hne. induction x as [|b x IH]; [exact Hy|]. cbn [app]. rewrite trim_right_cons, IH.
  destruct (x ++ y) eqn:E; [|reflexivity]. apply app_eq_nil in E as [_ E]. congruence.
Qed.

Lemma md_escape_right_tight x : trim_right x = x -> trim_right (md_escape x) = md_escape x.
Proof.
  induction x as [|b x IH]; [reflexivity|]. rewrite trim_right_cons. intros HR.
  destruct (trim_right x) as [|y t] eqn:Et.
  - destruct (N.eqb b SP) eqn:Eb; [discriminate|]. inversion HR; subst x.
    rewrite md_escape_cons, md_escape_nil, app_nil_r. apply esc_byte_trim_right. exact Eb.
  - injection HR as Hx. rewrite md_escape_cons. apply trim_right_app_ne.
    + apply IH. exact Hx.
    + rewrite <- Hx, md_escape_cons. destruct (esc_byte_head y) as (h & t' & E & _). rewrite E. discriminate.
Qed.

Lemma tight_md_escape x : tight x -> tight (md_escape x).
Proof.
  intros [HL HR]. split; [|apply md_escape_right_tight; exact HR].
  destruct x as [|b x]; [reflexivity|]. pose proof (left_tight_head _ _ HL) as Hb.
  rewrite md_escape_cons. destruct (esc_byte_head b) as (h & t & E & Hh). rewrite E. cbn [app].
  apply trim_left_nonspace. auto.
Qed.

(* ================================================================ *)
(* 3. pieces of a table line                                         *)
(* ================================================================ *)

(* A cell of a header / body row as it stands between two structural pipes:
   the escaped text, padded with spaces, and ALWAYS at least one space before
   the closing bar (so a text ending in a backslash never touches the bar). *)
Definition content_piece (c p : bytes) : Prop :=
  exists l r, p = spaces l ++ md_escape c ++ spaces (S r).

Lemma raw_free_spaces n : raw_free (spaces n) = true.
Proof. apply forallb_repeat. reflexivity. Qed.

Lemma content_piece_raw_free c p : content_piece c p -> raw_free p = true.
Proof.
  intros (l & r & ->). rewrite !raw_free_app, !raw_free_spaces, md_escape_raw_free. reflexivity.
Qed.

Lemma content_piece_trim c p : content_piece c p -> trim p = md_escape (trim c).
Proof.
  intros (l & r & ->). destruct (trim_decomp c) as (a & b & E).
  rewrite E at 1. rewrite !md_escape_app, !md_escape_spaces.
  rewrite <- !app_assoc, (app_assoc (spaces l)), spaces_app, spaces_app.
  apply trim_tight, tight_md_escape, tight_trim.
Qed.

Lemma content_piece_cell_ok c p : content_piece c p -> cell_ok p c.
Proof.
  intros H. split; [eapply content_piece_raw_free; eauto|].
  rewrite (content_piece_trim _ _ H). apply decode_md_escape.
Qed.

(* delimiter cells *)
Definition ctl_body (a : option align) (n : nat) : bytes :=
  (if fst (markers a) then [cCOLON] else []) ++ repeat cDASH n ++ (if snd (markers a) then [cCOLON] else []).

Definition delim_piece (a : option align) (p : bytes) : Prop :=
  exists n l r, 3 <= n /\ p = spaces l ++ ctl_body a n ++ spaces r.

Definition plain (b : N) : bool := N.eqb b SP || N.eqb b cDASH || N.eqb b cCOLON.

Lemma plain_cases b : plain b = true -> b = SP \/ b = cDASH \/ b = cCOLON.
Proof.
  unfold plain. rewrite !orb_true_iff, !N.eqb_eq. tauto.
Qed.

Lemma ctl_body_nonspace a n : forallb (fun b => negb (N.eqb b SP)) (ctl_body a n) = true.
Proof.
  unfold ctl_body. rewrite !forallb_app, (forallb_repeat _ cDASH n) by reflexivity.
  destruct a as [[]|]; reflexivity.
Qed.

Lemma ctl_body_plain a n : forallb plain (ctl_body a n) = true.
Proof.
  unfold ctl_body. rewrite !forallb_app, (forallb_repeat _ cDASH n) by reflexivity.
  destruct a as [[]|]; reflexivity.
Qed.

Lemma delim_piece_plain a p : delim_piece a p -> forallb plain p = true.
Proof.
  intros (n & l & r & _ & ->). rewrite !forallb_app, ctl_body_plain.
  unfold spaces. rewrite !forallb_repeat by reflexivity. reflexivity.
Qed.

Lemma delim_piece_ok a p : delim_piece a p -> delim_cell_ok p a.
Proof.
  intros (n & l & r & Hn & ->). exists n. split; [exact Hn|].
  apply trim_tight, tight_all_nonspace, ctl_body_nonspace.
Qed.

Lemma plain_raw_free p : forallb plain p = true -> raw_free p = true.
Proof.
  apply forallb_impl. intros b H. apply plain_cases in H as [->|[->| ->]]; reflexivity.
Qed.

Lemma md_escape_plain s : forallb plain s = true -> md_escape s = s.
Proof.
  induction s as [|b s IH]; [reflexivity|]. cbn [forallb]. rewrite andb_true_iff. intros [Hb Hs].
  rewrite md_escape_cons, IH by exact Hs.
  apply plain_cases in Hb as [->|[->| ->]]; reflexivity.
Qed.

(* ================================================================ *)
(* 4. splitting                                                      *)
(* ================================================================ *)

Definition esc_step (e : bool) (b : N) : bool := if N.eqb b cBSL then negb e else false.
Definition esc_after (e : bool) (c : bytes) : bool := fold_left esc_step c e.
Definition pipe_free (c : bytes) : bool := forallb (fun b => negb (N.eqb b cPIPE)) c.

Lemma split_pipes_nonempty e l : split_pipes e l <> [].
Proof.
  destruct l as [|b r]; cbn [split_pipes]; [discriminate|].
  destruct (N.eqb b cPIPE && negb e); [discriminate|].
  unfold prepend. destruct (split_pipes _ r); discriminate.
Qed.

Lemma prepend_nil X : X <> [] -> prepend [] X = X.
Proof. destruct X; [congruence | reflexivity]. Qed.

Lemma prepend_prepend a b X : prepend a (prepend b X) = prepend (a ++ b) X.
Proof. destruct X; cbn [prepend]; [reflexivity | rewrite app_assoc; reflexivity]. Qed.

Lemma split_prepend c : forall e r,
  pipe_free c = true -> split_pipes e (c ++ r) = prepend c (split_pipes (esc_after e c) r).
Proof.
  induction c as [|b c IH]; intros e r H.
  - cbn [app esc_after fold_left]. symmetry. apply prepend_nil, split_pipes_nonempty.
  - unfold pipe_free in H. cbn [forallb] in H. apply andb_true_iff in H as [Hb Hc].
    cbn [app split_pipes]. destruct (N.eqb b cPIPE); [discriminate|]. cbn [andb].
    rewrite IH by exact Hc. rewrite prepend_prepend. reflexivity.
Qed.

(* a piece that is free of pipes and leaves no pending backslash is cut off whole *)
Definition good_piece (p : bytes) : Prop := pipe_free p = true /\ esc_after false p = false.

Lemma split_piece p r : good_piece p -> split_pipes false (p ++ cPIPE :: r) = p :: split_pipes false r.
Proof.
  intros [H1 H2]. rewrite split_prepend by exact H1. rewrite H2. cbn [split_pipes].
  rewrite N.eqb_refl. cbn [andb negb prepend]. rewrite app_nil_r. reflexivity.
Qed.

Definition table_line (pieces : list bytes) : bytes :=
  cPIPE :: concat (map (fun p => p ++ [cPIPE]) pieces).

Lemma split_pieces pieces :
  Forall good_piece pieces ->
  split_pipes false (concat (map (fun p => p ++ [cPIPE]) pieces)) = pieces ++ [[]].
Proof.
  induction 1 as [|p ps Hp _ IH]; [reflexivity|]. cbn [map concat].
  rewrite <- app_assoc. cbn [app]. rewrite split_piece by exact Hp. rewrite IH. reflexivity.
Qed.

Lemma split_table_line pieces :
  Forall good_piece pieces -> split_pipes false (table_line pieces) = [] :: pieces ++ [[]].
Proof.
  intros H. unfold table_line. cbn [split_pipes]. rewrite N.eqb_refl. cbn [andb negb].
  rewrite split_pieces by exact H. reflexivity.
Qed.

Lemma line_cells_table_line pieces :
  Forall good_piece pieces -> pieces <> [] -> line_cells (table_line pieces) = Some pieces.
Proof.
  intros H Hne. unfold line_cells. rewrite split_table_line by exact H.
  rewrite last_last, removelast_last. destruct pieces; [congruence | reflexivity].
Qed.

Lemma unescaped_pipes_table_line pieces :
  Forall good_piece pieces -> unescaped_pipes (table_line pieces) = S (length pieces).
Proof.
  intros H. unfold unescaped_pipes. rewrite split_table_line by exact H.
  cbn [length]. rewrite app_length. cbn [length]. lia.
Qed.

Lemma esc_after_app e a b : esc_after e (a ++ b) = esc_after (esc_after e a) b.
Proof. apply fold_left_app. Qed.

Lemma raw_free_pipe_free p : raw_free p = true -> pipe_free p = true.
Proof.
  apply forallb_impl. intros b. unfold raw_forbidden, cPIPE.
  destruct (N.eqb b 124); [discriminate | reflexivity].
Qed.

Lemma content_piece_good c p : content_piece c p -> good_piece p.
Proof.
  intros H. split; [eapply raw_free_pipe_free, content_piece_raw_free; eauto|].
  destruct H as (l & r & ->). rewrite <- spaces_snoc, !app_assoc, esc_after_app. reflexivity.
Qed.

Lemma plain_no_esc p e : forallb plain p = true -> e = false -> esc_after e p = false.
Proof.
  revert e. induction p as [|b p IH]; intros e H He; [exact He|].
  cbn [forallb] in H. apply andb_true_iff in H as [Hb Hp]. cbn [esc_after fold_left].
  apply IH; [exact Hp|]. subst e. apply plain_cases in Hb as [->|[->| ->]]; reflexivity.
Qed.

Lemma delim_piece_good a p : delim_piece a p -> good_piece p.
Proof.
  intros H. pose proof (delim_piece_plain _ _ H) as Hp. split.
  - apply raw_free_pipe_free, plain_raw_free, Hp.
  - apply plain_no_esc; [exact Hp | reflexivity].
Qed.

(* -- lines *)
Definition lf_free (l : bytes) : bool := forallb (fun b => negb (N.eqb b LF)) l.

Lemma split_on_lf_nonempty s : split_on_lf s <> [].
Proof.
  induction s as [|b r IH]; cbn [split_on_lf]; [discriminate|].
  destruct (N.eqb b LF); [discriminate|]. destruct (split_on_lf r); discriminate.
Qed.

Lemma split_on_lf_line l r :
  lf_free l = true -> split_on_lf (l ++ LF :: r) = l :: split_on_lf r.
Proof.
  induction l as [|b l IH]; intros H.
  - cbn [app split_on_lf]. rewrite N.eqb_refl. reflexivity.
  - unfold lf_free in H. cbn [forallb] in H. apply andb_true_iff in H as [Hb Hl].
    cbn [app split_on_lf]. destruct (N.eqb b LF); [discriminate|]. rewrite IH by exact Hl. reflexivity.
Qed.

Definition unlines (ls : list bytes) : bytes := concat (map (fun l => l ++ [LF]) ls).

Lemma split_on_lf_unlines ls :
  Forall (fun l => lf_free l = true) ls -> split_on_lf (unlines ls) = ls ++ [[]].
Proof.
  induction 1 as [|l ls Hl _ IH]; [reflexivity|]. unfold unlines in *. cbn [map concat].
  rewrite <- app_assoc. cbn [app]. rewrite split_on_lf_line by exact Hl. rewrite IH. reflexivity.
Qed.

Lemma lines_lf_unlines ls :
  Forall (fun l => lf_free l = true) ls -> lines_lf (unlines ls) = Some ls.
Proof.
  intros H. unfold lines_lf. rewrite split_on_lf_unlines by exact H.
  rewrite last_last, removelast_last. reflexivity.
Qed.

Lemma raw_free_lf_free p : raw_free p = true -> lf_free p = true.
Proof.
  apply forallb_impl. intros b. unfold raw_forbidden, LF.
  destruct (N.eqb b 10); [rewrite orb_true_r; discriminate | reflexivity].
Qed.

Lemma table_line_lf_free pieces :
  Forall (fun p => raw_free p = true) pieces -> lf_free (table_line pieces) = true.
Proof.
  intros H. unfold table_line, lf_free. cbn [forallb]. apply andb_true_iff. split; [reflexivity|].
  induction H as [|p ps Hp _ IH]; [reflexivity|]. cbn [map concat]. rewrite !forallb_app, IH.
  apply raw_free_lf_free in Hp. unfold lf_free in Hp. rewrite Hp. reflexivity.
Qed.

(* ================================================================ *)
(* 5. the model in closed form                                       *)
(* ================================================================ *)

Lemma Forall2_len {A B} (R : A -> B -> Prop) l1 l2 : Forall2 R l1 l2 -> length l1 = length l2.
Proof. induction 1; cbn [length]; congruence. Qed.

Lemma Forall2_imp {A B} (R S : A -> B -> Prop) l1 l2 :
  (forall a b, R a b -> S a b) -> Forall2 R l1 l2 -> Forall2 S l1 l2.
Proof. intros H. induction 1; constructor; auto. Qed.

Lemma Forall2_map_r {A B C} (R : A -> C -> Prop) (f : B -> C) l1 l2 :
  Forall2 (fun a b => R a (f b)) l1 l2 -> Forall2 R l1 (map f l2).
Proof. induction 1; cbn [map]; constructor; auto. Qed.

Lemma Forall2_repeat {A B} (R : A -> B -> Prop) a b n : R a b -> Forall2 R (repeat a n) (repeat b n).
Proof. intros H. induction n; cbn [repeat]; constructor; auto. Qed.

Lemma Forall2_Forall_l {A B} (R : A -> B -> Prop) (P : A -> Prop) l1 l2 :
  (forall a b, R a b -> P a) -> Forall2 R l1 l2 -> Forall P l1.
Proof. intros H. induction 1; constructor; eauto. Qed.

(* -- width pass *)
Lemma upd_ok {A} (l : list A) i f : i < length l -> exists l', upd l i f = Ok l' /\ length l' = length l.
Proof.
  revert i. induction l as [|x l IH]; intros i H; cbn [length] in H; [lia|].
  destruct i as [|k]; cbn [upd].
  - eexists; split; reflexivity.
  - destruct (IH k ltac:(lia)) as (l' & E & L). rewrite E. cbn [bind]. eexists; split; [reflexivity|].
    cbn [length]. lia.
Qed.

Lemma widths_row_ok f cells : forall ws i,
  i + length cells <= length ws ->
  exists ws', widths_row f ws i cells = Ok ws' /\ length ws' = length ws.
Proof.
  induction cells as [|c cells IH]; intros ws i H; cbn [widths_row].
  - eauto.
  - cbn [length] in H. destruct (upd_ok ws i (f (vc_tw c)) ltac:(lia)) as (ws1 & E & L).
    rewrite E. cbn [bind]. destruct (IH ws1 (S i) ltac:(lia)) as (ws2 & E2 & L2).
    rewrite E2. eexists; split; [reflexivity | congruence].
Qed.

Lemma widths_rows_ok ncols rows : forall ws,
  length ws = ncols -> Forall (row_fits ncols) rows ->
  exists ws', widths_rows ncols ws rows = Ok ws' /\ length ws' = ncols.
Proof.
  induction rows as [|r rows IH]; intros ws L H; cbn [widths_rows]; [eauto|].
  pose proof (Forall_inv H) as Hr. pose proof (Forall_inv_tail H) as Hrest.
  destruct r as [cells|]; [|apply IH; assumption].
  cbn [row_fits] in Hr. destruct (ncols <? length cells) eqn:E; [apply Nat.ltb_lt in E; lia|].
  destruct (widths_row_ok w_max cells ws 0 ltac:(lia)) as (ws1 & E1 & L1). rewrite E1. cbn [bind].
  apply IH; [congruence | assumption].
Qed.

(* -- delimiter cells *)
Lemma eff_align_ok al i : S i < length al -> eff_align al i = Ok (spec_eff_align al i).
Proof.
  intros H. unfold eff_align, spec_eff_align.
  destruct (idx_lt al 0 ltac:(lia)) as (d & Ed & Nd). destruct (idx_lt al (S i) H) as (o & Eo & No).
  rewrite Ed. cbn [bind]. rewrite Eo. cbn [bind]. rewrite No, Nd. destruct o; reflexivity.
Qed.

Lemma md_control_ok al ws : forall n i,
  i + n <= length ws -> i + n < length al ->
  exists ctl, md_control al ws i n = Ok (ctl, map (spec_eff_align al) (seq i n))
              /\ Forall2 (fun c a => exists w, c = md_control_content w a) ctl (map (spec_eff_align al) (seq i n)).
Proof.
  induction n as [|n IH]; intros i H1 H2; cbn [md_control seq map].
  - eexists; split; [reflexivity | constructor].
  - destruct (idx_lt ws i ltac:(lia)) as (w & Ew & _). rewrite Ew. cbn [bind].
    rewrite eff_align_ok by lia. cbn [bind].
    destruct (IH (S i) ltac:(lia) ltac:(lia)) as (ctl & E & F). rewrite E. cbn [bind].
    eexists; split; [reflexivity|]. constructor; [eauto | exact F].
Qed.

Lemma control_content_delim w a : exists n l r, 3 <= n /\ md_control_content w a = spaces l ++ ctl_body a n ++ spaces r.
Proof.
  exists (Z.to_nat (if Z.ltb w 3 then 3%Z else w)).
  assert (3 <= Z.to_nat (if Z.ltb w 3 then 3%Z else w)) by (destruct (Z.ltb_spec w 3); lia).
  unfold md_control_content, ctl_body. destruct a as [[]|]; cbn [markers fst snd].
  - exists 1, 1. split; [assumption|]. cbn [app]. rewrite app_nil_r. reflexivity.
  - exists 1, 0. split; [assumption|]. cbn [app spaces repeat]. rewrite app_nil_r. reflexivity.
  - exists 0, 0. split; [assumption|]. cbn [app spaces repeat]. rewrite app_nil_r. reflexivity.
  - exists 1, 1. split; [assumption|]. cbn [app]. rewrite app_nil_r. reflexivity.
Qed.

Definition padded (c p : bytes) : Prop := exists l r, p = spaces l ++ md_escape c ++ spaces r.

Lemma padded_content c p : padded c p -> content_piece c (SP :: p ++ [SP]).
Proof.
  intros (l & r & ->). exists (S l), r. rewrite spaces_S. cbn [app]. f_equal.
  rewrite <- !app_assoc, spaces_snoc. reflexivity.
Qed.

Lemma padded_control_delim w a p : padded (md_control_content w a) p -> delim_piece a p.
Proof.
  intros (l & r & ->). destruct (control_content_delim w a) as (n & l' & r' & Hn & E).
  assert (Hp : forallb plain (md_control_content w a) = true).
  { rewrite E, !forallb_app, ctl_body_plain. unfold spaces. rewrite !forallb_repeat by reflexivity. reflexivity. }
  rewrite md_escape_plain by exact Hp. rewrite E. exists n, (l + l'), (r' + r). split; [exact Hn|].
  rewrite <- !app_assoc, (app_assoc (spaces l)), spaces_app, spaces_app. reflexivity.
Qed.

Section Closed.
  Variable W : bytes -> nat.

  Lemma md_padded_ok cells ws als i c :
    nth_error cells i = Some c -> i < length ws -> i < length als ->
    exists p, md_padded W cells ws als i = Ok p /\ padded c p.
  Proof.
    intros Hc Hw Ha. unfold md_padded, idx at 1. rewrite Hc. cbn [bind].
    destruct (idx_lt ws i Hw) as (want & Ew & _). rewrite Ew. cbn [bind].
    destruct (Z.leb want _).
    - eexists; split; [reflexivity|]. exists 0, 0. cbn [spaces repeat app]. rewrite app_nil_r. reflexivity.
    - destruct (idx_lt als i Ha) as (a & Ea & _). rewrite Ea. cbn [bind].
      destruct a as [[]|]; (eexists; split; [reflexivity|]).
      + exists 0. eexists. reflexivity.
      + eexists. exists 0. cbn [spaces repeat]. rewrite app_nil_r. reflexivity.
      + eexists. eexists. reflexivity.
      + exists 0. eexists. reflexivity.
  Qed.

  Lemma md_emit_loop_ok ws als bar : forall n rest pre,
    n <= length rest -> length (pre ++ rest) <= length ws -> length (pre ++ rest) <= length als ->
    exists ps, md_emit_loop W (pre ++ rest) ws als bar (length pre) n = Ok (map (fun p => p ++ bar) ps)
               /\ Forall2 padded (firstn n rest) ps.
  Proof.
    induction n as [|n IH]; intros rest pre Hn Hw Ha; cbn [md_emit_loop firstn].
    - exists []. split; [reflexivity | constructor].
    - destruct rest as [|c rest]; cbn [length] in Hn; [lia|].
      rewrite app_length in Hw, Ha. cbn [length] in Hw, Ha.
      destruct (md_padded_ok (pre ++ c :: rest) ws als (length pre) c) as (p & Ep & Pp); try lia.
      { rewrite nth_error_app2, Nat.sub_diag by lia. reflexivity. }
      rewrite Ep. cbn [bind].
      assert (E : pre ++ c :: rest = (pre ++ [c]) ++ rest) by (rewrite <- app_assoc; reflexivity).
      assert (L : S (length pre) = length (pre ++ [c])) by (rewrite app_length; cbn [length]; lia).
      rewrite E, L.
      destruct (IH rest (pre ++ [c])) as (ps & Eps & Fps); try lia.
      { rewrite !app_length. cbn [length]. lia. }
      { rewrite !app_length. cbn [length]. lia. }
      rewrite Eps. cbn [bind]. exists (p :: ps). split; [reflexivity|].
      cbn [firstn]. constructor; assumption.
  Qed.

  Definition bar_left (addPads : bool) : bytes := if addPads then [PIPE; SP] else [PIPE].
  Definition bar_right (addPads : bool) : bytes := if addPads then [SP; PIPE] else [PIPE].
  Definition bar_center (addPads : bool) : bytes := if addPads then [SP; PIPE; SP] else [PIPE].

  Lemma md_emit_row_shape ncols init lastc ws als addPads :
    length (init ++ [lastc]) <= ncols -> length ws = ncols -> length als = ncols ->
    exists ps1 plast, Forall2 padded init ps1 /\ padded lastc plast /\
      md_emit_row W ncols (init ++ [lastc]) ws als addPads
      = Ok ([bar_left addPads] ++ map (fun p => p ++ bar_center addPads) ps1 ++ [plast ++ bar_right addPads]
            ++ repeat [SP; PIPE] (ncols - length (init ++ [lastc])) ++ [[LF]]).
  Proof.
    intros Hle Hw Ha. unfold md_emit_row.
    destruct (ncols <? length (init ++ [lastc])) eqn:E; [apply Nat.ltb_lt in E; lia|].
    assert (Lc : length (init ++ [lastc]) - 1 = length init) by (rewrite app_length; cbn [length]; lia).
    rewrite Lc.
    destruct (md_emit_loop_ok ws als (bar_center addPads) (length init) (init ++ [lastc]) []) as (ps1 & E1 & F1);
      cbn [app length]; try lia; try (rewrite app_length; cbn [length]; lia).
    cbn [app length] in E1. unfold bar_center in E1. rewrite E1. cbn [bind].
    rewrite firstn_app, Nat.sub_diag, firstn_all in F1. cbn [firstn] in F1. rewrite app_nil_r in F1.
    assert (Hpos : 0 <? length (init ++ [lastc]) = true) by (apply Nat.ltb_lt; rewrite app_length; cbn [length]; lia).
    rewrite Hpos.
    destruct (md_padded_ok (init ++ [lastc]) ws als (length init) lastc) as (pl & El & Pl); try (rewrite app_length in Hle; cbn [length] in Hle; lia).
    { rewrite nth_error_app2, Nat.sub_diag by lia. reflexivity. }
    rewrite El. cbn [bind]. exists ps1, pl. split; [exact F1|]. split; [exact Pl|]. reflexivity.
  Qed.
End Closed.

(* -- lines of the table in closed form *)
Definition content_line (ncols : nat) (l : bytes) (texts : list bytes) : Prop :=
  exists pieces, l = table_line pieces
                 /\ Forall2 (fun p c => content_piece c p) pieces (pad_texts ncols texts).

Definition delim_line (l : bytes) (aligns : list (option align)) : Prop :=
  exists pieces, l = table_line pieces /\ Forall2 (fun p a => delim_piece a p) pieces aligns.

Lemma concat_pad_cols k :
  concat (repeat [SP; PIPE] k) = concat (map (fun p => p ++ [cPIPE]) (repeat [SP] k)).
Proof. induction k; [reflexivity|]. cbn [repeat map concat app]. rewrite IHk. reflexivity. Qed.

Lemma reassoc_padded ps1 plast :
  SP :: concat (map (fun p => p ++ [SP; PIPE; SP]) ps1) ++ plast ++ [SP; PIPE]
  = concat (map (fun p => p ++ [cPIPE]) (map (fun p => SP :: p ++ [SP]) (ps1 ++ [plast]))).
Proof.
  induction ps1 as [|p ps IH]; cbn [map concat app].
  - rewrite app_nil_r, <- app_assoc. reflexivity.
  - rewrite <- IH. rewrite <- !app_assoc. cbn [app]. reflexivity.
Qed.

Lemma wrap_pieces cs ps :
  Forall2 padded cs ps -> Forall2 (fun p c => content_piece c p) (map (fun p => SP :: p ++ [SP]) ps) cs.
Proof. induction 1; cbn [map]; constructor; auto using padded_content. Qed.

Lemma Forall2_join {A B C} (R1 : A -> B -> Prop) (R2 : A -> C -> Prop) (S : B -> C -> Prop) :
  (forall a b c, R1 a b -> R2 a c -> S b c) ->
  forall la lb lc, Forall2 R1 la lb -> Forall2 R2 la lc -> Forall2 S lb lc.
Proof.
  intros H la lb lc F1. revert lc. induction F1; intros lc F2; inversion F2; subst; constructor; eauto.
Qed.

Lemma content_piece_pad : content_piece [] [SP].
Proof. exists 0, 0. reflexivity. Qed.

Section Closed2.
  Variable W : bytes -> nat.

  Lemma md_emit_row_content ncols cells ws als :
    1 <= ncols -> length cells <= ncols -> length ws = ncols -> length als = ncols ->
    exists wr l, md_emit_row W ncols cells ws als true = Ok wr /\ concat wr = l ++ [LF]
                 /\ content_line ncols l cells.
  Proof.
    intros Hn Hle Hw Ha. destruct cells as [|c cs].
    - destruct ncols as [|k]; [lia|]. unfold md_emit_row.
      cbn [length Nat.ltb Nat.leb Nat.sub md_emit_loop bind].
      eexists. exists (table_line (repeat [SP] (S k))). split; [reflexivity|]. split.
      + rewrite Nat.sub_0_r. cbn [app concat]. rewrite concat_app, concat_pad_cols. cbn [concat].
        unfold table_line. cbn [repeat map concat app]. reflexivity.
      + eexists. split; [reflexivity|]. unfold pad_texts. cbn [length app]. rewrite Nat.sub_0_r.
        apply Forall2_repeat, content_piece_pad.
    - destruct (@exists_last _ (c :: cs)) as (init & lastc & E); [discriminate|]. rewrite E in *.
      destruct (md_emit_row_shape W ncols init lastc ws als true Hle Hw Ha) as (ps1 & pl & F1 & Pl & Er).
      rewrite Er. eexists.
      exists (table_line (map (fun p => SP :: p ++ [SP]) (ps1 ++ [pl]) ++ repeat [SP] (ncols - length (init ++ [lastc])))).
      split; [reflexivity|]. split.
      + unfold table_line, bar_left, bar_center, bar_right.
        rewrite (map_app (fun p => p ++ [cPIPE])), !concat_app, <- reassoc_padded, <- concat_pad_cols.
        cbn [concat app]. rewrite <- !app_assoc. cbn [app]. reflexivity.
      + eexists. split; [reflexivity|]. unfold pad_texts. apply Forall2_app.
        * apply wrap_pieces. apply Forall2_app; [exact F1 | constructor; [exact Pl | constructor]].
        * apply Forall2_repeat, content_piece_pad.
  Qed.

  Lemma md_emit_row_delim ncols ctl ws als aligns :
    1 <= ncols -> length ctl = ncols -> length ws = ncols -> length als = ncols ->
    Forall2 (fun c a => exists w, c = md_control_content w a) ctl aligns ->
    exists wr l, md_emit_row W ncols ctl ws als false = Ok wr /\ concat wr = l ++ [LF] /\ delim_line l aligns.
  Proof.
    intros Hn Hc Hw Ha F. destruct ctl as [|c cs]; [cbn [length] in Hc; lia|].
    destruct (@exists_last _ (c :: cs)) as (init & lastc & E); [discriminate|]. rewrite E in *.
    destruct (md_emit_row_shape W ncols init lastc ws als false ltac:(lia) Hw Ha) as (ps1 & pl & F1 & Pl & Er).
    rewrite Er, Hc, Nat.sub_diag. eexists. exists (table_line (ps1 ++ [pl])). split; [reflexivity|]. split.
    - unfold table_line, bar_left, bar_center, bar_right. rewrite map_app, !concat_app. cbn [repeat concat map app].
      rewrite <- !app_assoc. cbn [app]. reflexivity.
    - eexists. split; [reflexivity|].
      apply (Forall2_join padded (fun c a => exists w, c = md_control_content w a) (fun p a => delim_piece a p))
        with (la := init ++ [lastc]).
      + intros c' p a P [w ->]. eapply padded_control_delim; eauto.
      + apply Forall2_app; [exact F1 | constructor; [exact Pl | constructor]].
      + exact F.
  Qed.

  Definition rows_cells (rows : list vrow) : list (list vcell) :=
    flat_map (fun r => match r with Some cs => [cs] | None => [] end) rows.

  Lemma md_emit_rows_ok ncols ws als :
    1 <= ncols -> length ws = ncols -> length als = ncols ->
    forall rows, Forall (row_fits ncols) rows ->
    exists wr ls, md_emit_rows W ncols rows ws als = Ok wr /\ concat wr = unlines ls
                  /\ Forall2 (content_line ncols) ls (map row_texts (rows_cells rows)).
  Proof.
    intros Hn Hw Ha. induction rows as [|r rows IH]; intros H; cbn [md_emit_rows].
    - exists [], []. split; [reflexivity|]. split; [reflexivity | constructor].
    - pose proof (Forall_inv H) as Hr. destruct (IH (Forall_inv_tail H)) as (wr & ls & E & Ec & F).
      destruct r as [cells|].
      + cbn [row_fits] in Hr.
        destruct (md_emit_row_content ncols (row_texts cells) ws als Hn) as (w1 & l & E1 & Ec1 & Cl); try assumption.
        { unfold row_texts. rewrite map_length. exact Hr. }
        rewrite E1. cbn [bind]. rewrite E. cbn [bind]. exists (w1 ++ wr), (l :: ls).
        split; [reflexivity|]. split.
        * rewrite concat_app, Ec1, Ec. reflexivity.
        * unfold rows_cells. cbn [flat_map app map]. constructor; assumption.
      + exists wr, ls. auto.
  Qed.
End Closed2.

(* ================================================================ *)
(* 6. what a line in closed form satisfies                           *)
(* ================================================================ *)

Lemma cr_free_app a b : cr_free_bytes (a ++ b) = cr_free_bytes a && cr_free_bytes b.
Proof. apply forallb_app. Qed.

Lemma md_esc_byte_cr b : N.eqb b CR = false -> cr_free_bytes (md_esc_byte b) = true.
Proof.
  intros H. byte_cases b; try reflexivity. rewrite md_esc_byte_other by assumption.
  cbn [cr_free_bytes forallb]. rewrite H. reflexivity.
Qed.

Lemma md_escape_cr s : cr_free_bytes s = true -> cr_free_bytes (md_escape s) = true.
Proof.
  induction s as [|b s IH]; [reflexivity|]. cbn [cr_free_bytes forallb]. rewrite andb_true_iff.
  intros [Hb Hs]. rewrite md_escape_cons, cr_free_app, IH by exact Hs.
  rewrite md_esc_byte_cr; [reflexivity|]. destruct (N.eqb b CR); [discriminate | reflexivity].
Qed.

Lemma cr_free_spaces n : cr_free_bytes (spaces n) = true.
Proof. apply forallb_repeat. reflexivity. Qed.

Lemma content_piece_cr c p : content_piece c p -> cr_free_bytes c = true -> cr_free_bytes p = true.
Proof.
  intros (l & r & ->) H. rewrite !cr_free_app, !cr_free_spaces, md_escape_cr by exact H. reflexivity.
Qed.

Lemma plain_cr_free p : forallb plain p = true -> cr_free_bytes p = true.
Proof. apply forallb_impl. intros b H. apply plain_cases in H as [->|[->| ->]]; reflexivity. Qed.

Lemma table_line_cr pieces :
  Forall (fun p => cr_free_bytes p = true) pieces -> cr_free_bytes (table_line pieces) = true.
Proof.
  intros H. unfold table_line. cbn [cr_free_bytes forallb]. apply andb_true_iff. split; [reflexivity|].
  induction H as [|p ps Hp _ IH]; [reflexivity|]. cbn [map concat].
  fold (cr_free_bytes ((p ++ [cPIPE]) ++ concat (map (fun p0 => p0 ++ [cPIPE]) ps))).
  rewrite !cr_free_app, Hp. unfold cr_free_bytes at 2. rewrite IH. reflexivity.
Qed.

Lemma unlines_cr ls : Forall (fun l => cr_free_bytes l = true) ls -> cr_free_bytes (unlines ls) = true.
Proof.
  induction 1 as [|l ls Hl _ IH]; [reflexivity|]. unfold unlines in *. cbn [map concat].
  rewrite !cr_free_app, Hl, IH. reflexivity.
Qed.

Lemma pad_texts_length n texts : length texts <= n -> length (pad_texts n texts) = n.
Proof. intros H. unfold pad_texts. rewrite app_length, repeat_length. lia. Qed.

Lemma Forall2_Forall_both {A B} (R : A -> B -> Prop) (P : B -> Prop) (Q : A -> Prop) l1 l2 :
  (forall a b, R a b -> P b -> Q a) -> Forall2 R l1 l2 -> Forall P l2 -> Forall Q l1.
Proof.
  intros H F. induction F; intros HP; constructor.
  - eapply H; [eassumption | exact (Forall_inv HP)].
  - apply IHF. exact (Forall_inv_tail HP).
Qed.

Lemma forallb_Forall {A} (f : A -> bool) l : forallb f l = true <-> Forall (fun x => f x = true) l.
Proof.
  induction l as [|x l IH]; cbn [forallb]; [split; auto|].
  rewrite andb_true_iff, IH. split; [intros [? ?]; constructor; auto | intros H; split; [exact (Forall_inv H) | exact (Forall_inv_tail H)]].
Qed.

Lemma content_line_facts ncols l texts :
  1 <= ncols -> length texts <= ncols -> content_line ncols l texts ->
  unescaped_pipes l = S ncols /\ row_ok ncols l texts /\ lf_free l = true
  /\ (forallb cr_free_bytes texts = true -> cr_free_bytes l = true).
Proof.
  intros Hn Hle (pieces & -> & F).
  assert (Hg : Forall good_piece pieces).
  { eapply Forall2_Forall_l; [|exact F]. intros p c H. exact (content_piece_good _ _ H). }
  assert (Hl : length pieces = ncols).
  { rewrite (Forall2_len _ _ _ F). apply pad_texts_length. exact Hle. }
  repeat split.
  - rewrite unescaped_pipes_table_line by exact Hg. congruence.
  - exists pieces. split.
    + apply line_cells_table_line; [exact Hg|]. destruct pieces; [cbn [length] in Hl; lia | discriminate].
    + eapply Forall2_imp; [|exact F]. intros p c H. apply content_piece_cell_ok. exact H.
  - apply table_line_lf_free. eapply Forall2_Forall_l; [|exact F].
    intros p c H. exact (content_piece_raw_free _ _ H).
  - intros Hcr. apply table_line_cr.
    eapply (Forall2_Forall_both _ (fun c => cr_free_bytes c = true)); [|exact F|].
    + intros p c H Hc. exact (content_piece_cr _ _ H Hc).
    + apply forallb_Forall. unfold pad_texts. rewrite forallb_app, Hcr. apply forallb_repeat. reflexivity.
Qed.

Lemma delim_line_facts l aligns :
  aligns <> [] -> delim_line l aligns ->
  unescaped_pipes l = S (length aligns) /\ delim_ok l aligns /\ lf_free l = true /\ cr_free_bytes l = true.
Proof.
  intros Hne (pieces & -> & F).
  assert (Hg : Forall good_piece pieces).
  { eapply Forall2_Forall_l; [|exact F]. intros p a H. exact (delim_piece_good _ _ H). }
  assert (Hp : Forall (fun p => forallb plain p = true) pieces).
  { eapply Forall2_Forall_l; [|exact F]. intros p a H. exact (delim_piece_plain _ _ H). }
  pose proof (Forall2_len _ _ _ F) as Hl.
  repeat split.
  - rewrite unescaped_pipes_table_line by exact Hg. congruence.
  - exists pieces. split.
    + apply line_cells_table_line; [exact Hg|]. destruct pieces; [|discriminate].
      destruct aligns; [congruence | discriminate].
    + eapply Forall2_imp; [|exact F]. intros p a H. apply delim_piece_ok. exact H.
  - apply table_line_lf_free. eapply Forall_impl; [|exact Hp]. intros p H. apply plain_raw_free. exact H.
  - apply table_line_cr. eapply Forall_impl; [|exact Hp]. intros p H. apply plain_cr_free. exact H.
Qed.

(* ================================================================ *)
(* 7. the renderer                                                   *)
(* ================================================================ *)

Lemma rows_cells_fit ncols rows :
  Forall (row_fits ncols) rows -> Forall (fun t => length t <= ncols) (map row_texts (rows_cells rows)).
Proof.
  induction 1 as [|r rows Hr _ IH]; [constructor|]. unfold rows_cells. cbn [flat_map].
  destruct r as [cs|]; cbn [app map]; [|exact IH]. constructor; [|exact IH].
  unfold row_texts. rewrite map_length. exact Hr.
Qed.

Lemma cr_free_row_texts r : cr_free_row r = forallb cr_free_bytes (row_texts r).
Proof. unfold cr_free_row, row_texts. induction r as [|c r IH]; [reflexivity|]. cbn [forallb map]. rewrite IH. reflexivity. Qed.

Lemma rows_cells_cr rows :
  forallb (fun r => match r with Some cs => cr_free_row cs | None => true end) rows = true ->
  Forall (fun t => forallb cr_free_bytes t = true) (map row_texts (rows_cells rows)).
Proof.
  induction rows as [|r rows IH]; [constructor|]. cbn [forallb]. rewrite andb_true_iff. intros [Hr Hrest].
  unfold rows_cells. cbn [flat_map]. destruct r as [cs|]; cbn [app map]; [|apply IH; exact Hrest].
  constructor; [|apply IH; exact Hrest]. rewrite <- cr_free_row_texts. exact Hr.
Qed.

Lemma md_render_closed W v h :
  wf_view v -> 1 <= v_ncols v -> v_header v = Some h ->
  exists hl dl bl, md_render W v = Ok (unlines (hl :: dl :: bl))
    /\ content_line (v_ncols v) hl (row_texts h)
    /\ delim_line dl (eff_aligns v)
    /\ Forall2 (content_line (v_ncols v)) bl (map row_texts (rows_cells (v_rows v))).
Proof.
  intros (Hrows & Hh & Hal & _) Hn Eh. rewrite Eh in Hh. cbn [row_fits] in Hh.
  unfold md_render, md_render_writes. rewrite Eh.
  destruct (v_ncols v <? 1) eqn:E1; [apply Nat.ltb_lt in E1; lia|].
  destruct (v_ncols v <? length h) eqn:E2; [apply Nat.ltb_lt in E2; lia|].
  destruct (widths_row_ok w_set h (repeat 0%Z (v_ncols v)) 0) as (ws0 & Ew0 & L0).
  { rewrite repeat_length. lia. }
  rewrite repeat_length in L0. rewrite Ew0. cbn [bind].
  destruct (widths_rows_ok (v_ncols v) (v_rows v) ws0 L0 Hrows) as (ws & Ew & L). rewrite Ew. cbn [bind].
  destruct (md_control_ok (v_align v) ws (v_ncols v) 0) as (ctl & Ec & Fc); try lia.
  fold (eff_aligns v) in Ec, Fc. rewrite Ec. cbn [bind].
  assert (Lal : length (eff_aligns v) = v_ncols v) by (unfold eff_aligns; rewrite map_length, seq_length; reflexivity).
  pose proof (Forall2_len _ _ _ Fc) as Lctl. rewrite Lal in Lctl.
  destruct (md_emit_row_content W (v_ncols v) (row_texts h) ws (eff_aligns v) Hn) as (w1 & hl & E_h & C_h & F_h); try assumption.
  { unfold row_texts. rewrite map_length. exact Hh. }
  rewrite E_h. cbn [bind].
  destruct (md_emit_row_delim W (v_ncols v) ctl ws (eff_aligns v) (eff_aligns v) Hn Lctl L Lal Fc) as (w2 & dl & E_d & C_d & F_d).
  rewrite E_d. cbn [bind].
  destruct (md_emit_rows_ok W (v_ncols v) ws (eff_aligns v) Hn L Lal (v_rows v) Hrows) as (w3 & bl & E_b & C_b & F_b).
  rewrite E_b. cbn [bind].
  exists hl, dl, bl. split; [|auto].
  rewrite !concat_app, C_h, C_d, C_b. reflexivity.
Qed.

Lemma md_render_ok W v h :
  wf_view v -> 1 <= v_ncols v -> v_header v = Some h ->
  exists out, md_render W v = Ok out /\ md_ok v out.
Proof.
  intros Hwf Hn Eh. destruct (md_render_closed W v h Hwf Hn Eh) as (hl & dl & bl & Eren & F_h & F_d & F_b).
  destruct Hwf as (Hrows & Hh & Hal & _). rewrite Eh in Hh. cbn [row_fits] in Hh.
  assert (Lal : length (eff_aligns v) = v_ncols v) by (unfold eff_aligns; rewrite map_length, seq_length; reflexivity).
  eexists. split; [exact Eren|].
  (* facts about each line *)
  assert (Lh : length (row_texts h) <= v_ncols v) by (unfold row_texts; rewrite map_length; exact Hh).
  destruct (content_line_facts _ _ _ Hn Lh F_h) as (Ph & Rh & LFh & CRh).
  assert (Hne : eff_aligns v <> []) by (intros E; rewrite E in Lal; cbn [length] in Lal; lia).
  destruct (delim_line_facts _ _ Hne F_d) as (Pd & Rd & LFd & CRd). rewrite Lal in Pd.
  pose proof (rows_cells_fit _ _ Hrows) as Hfit.
  assert (Fb : Forall2 (fun l t => unescaped_pipes l = S (v_ncols v) /\ row_ok (v_ncols v) l t /\ lf_free l = true
                                   /\ (forallb cr_free_bytes t = true -> cr_free_bytes l = true))
                       bl (map row_texts (rows_cells (v_rows v)))).
  { clear - F_b Hfit Hn. induction F_b as [|l t ls ts Hlt _ IH]; constructor.
    - apply content_line_facts; [exact Hn | exact (Forall_inv Hfit) | exact Hlt].
    - apply IH. exact (Forall_inv_tail Hfit). }
  split; [lia|]. split; [rewrite Eh; discriminate|].
  exists hl, dl, bl. repeat split.
  - apply lines_lf_unlines. constructor; [exact LFh|]. constructor; [exact LFd|].
    eapply Forall2_Forall_l; [|exact Fb]. intros l t H. exact (proj1 (proj2 (proj2 H))).
  - cbn [length]. f_equal. f_equal. rewrite (Forall2_len _ _ _ Fb), map_length. reflexivity.
  - constructor; [exact Ph|]. constructor; [exact Pd|].
    eapply Forall2_Forall_l; [|exact Fb]. intros l t H. exact (proj1 H).
  - unfold header_texts. rewrite Eh. exact Rh.
  - exact Rd.
  - unfold body_texts, body_rows. fold (rows_cells (v_rows v)).
    eapply Forall2_imp; [|exact Fb]. intros l t H. exact (proj1 (proj2 H)).
  - intros Hcr. unfold cr_freeb in Hcr. rewrite Eh in Hcr. apply andb_true_iff in Hcr as [Hc1 Hc2].
    apply unlines_cr. constructor; [apply CRh; rewrite <- cr_free_row_texts; exact Hc1|].
    constructor; [exact CRd|].
    eapply (Forall2_Forall_both _ (fun t => forallb cr_free_bytes t = true)); [|exact Fb|].
    + intros l t H Ht. exact (proj2 (proj2 (proj2 H)) Ht).
    + apply rows_cells_cr. exact Hc2.
Qed.

Lemma md_render_refuses W v : v_header v = None \/ v_ncols v = 0 -> md_render W v = Err.
Proof.
  intros [H|H]; unfold md_render, md_render_writes; rewrite H.
  - destruct (v_ncols v <? 1); reflexivity.
  - reflexivity.
Qed.

(* the statement of DESIGN section 6 *)
Lemma md_structure W v :
  wf_view v ->
  match md_render W v with
  | Ok out => md_ok v out
  | Err => v_header v = None \/ v_ncols v = 0
  | Panic => False
  end.
Proof.
  intros Hwf. destruct (v_header v) as [h|] eqn:Eh.
  - destruct (Nat.eq_dec (v_ncols v) 0) as [E0|N0].
    + rewrite md_render_refuses by auto. auto.
    + destruct (md_render_ok W v h Hwf ltac:(lia) Eh) as (out & E & Hok). rewrite E. exact Hok.
  - rewrite md_render_refuses by auto. auto.
Qed.

Lemma md_no_panic W v : wf_view v -> md_render W v <> Panic.
Proof. intros Hwf E. pose proof (md_structure W v Hwf) as H. rewrite E in H. exact H. Qed.

Lemma md_render_is_writes W v ws : md_render_writes W v = Ok ws -> md_render W v = Ok (concat ws).
Proof. intros H. unfold md_render. rewrite H. reflexivity. Qed.

(* ================================================================ *)
(* 8. the decidable judgement md_okb says exactly md_ok              *)
(* ================================================================ *)

Lemma forall2b_iff {A B} (f : A -> B -> bool) (R : A -> B -> Prop) :
  (forall a b, f a b = true <-> R a b) ->
  forall l1 l2, forall2b f l1 l2 = true <-> Forall2 R l1 l2.
Proof.
  intros H. induction l1 as [|a l1 IH]; intros [|b l2]; cbn [forall2b]; split; intros H';
    try discriminate; try (inversion H'; fail); try constructor.
  - apply andb_true_iff in H' as [H1 H2]. apply H. exact H1.
  - apply andb_true_iff in H' as [H1 H2]. apply IH. exact H2.
  - inversion H'; subst. apply andb_true_iff. split; [apply H | apply IH]; assumption.
Qed.

Lemma cell_okb_iff p t : cell_okb p t = true <-> cell_ok p t.
Proof.
  unfold cell_okb, cell_ok. rewrite andb_true_iff, (option_eqb_eq bytes_eqb bytes_eqb_eq). tauto.
Qed.

Lemma row_okb_iff n l t : row_okb n l t = true <-> row_ok n l t.
Proof.
  unfold row_okb, row_ok. destruct (line_cells l) as [ps|].
  - rewrite (forall2b_iff _ _ cell_okb_iff). split.
    + intros H. exists ps. auto.
    + intros (ps' & E & H). inversion E; subst. exact H.
  - split; [discriminate | intros (ps' & E & _); discriminate].
Qed.

Lemma count_dashes_spec l : forall n t, count_dashes l = (n, t) -> l = repeat cDASH n ++ t.
Proof.
  induction l as [|b l IH]; intros n t; cbn [count_dashes].
  - intros H; inversion H; reflexivity.
  - destruct (N.eqb_spec b cDASH) as [->|_].
    + destruct (count_dashes l) as [n' t'] eqn:E. intros H; inversion H; subst.
      cbn [repeat app]. f_equal. apply IH. reflexivity.
    + intros H; inversion H; reflexivity.
Qed.

Lemma count_dashes_repeat n t :
  match t with b :: _ => N.eqb b cDASH = false | [] => True end ->
  count_dashes (repeat cDASH n ++ t) = (n, t).
Proof.
  intros H. induction n as [|n IH]; cbn [repeat app].
  - destruct t as [|b t']; [reflexivity|]. cbn [count_dashes]. rewrite H. reflexivity.
  - cbn [count_dashes]. rewrite N.eqb_refl, IH. reflexivity.
Qed.

Definition delim_form (lc : bool) (n : nat) (rc : bool) : bytes :=
  (if lc then [cCOLON] else []) ++ repeat cDASH n ++ (if rc then [cCOLON] else []).

Lemma parse_delim_sound t lc n rc : parse_delim t = Some (lc, n, rc) -> t = delim_form lc n rc.
Proof.
  unfold parse_delim, delim_form.
  set (hd := match t with b :: r => if N.eqb b cCOLON then (true, r) else (false, t) | [] => (false, []) end).
  assert (Ehd : t = (if fst hd then [cCOLON] else []) ++ snd hd).
  { subst hd. destruct t as [|b r]; [reflexivity|]. destruct (N.eqb_spec b cCOLON) as [->|_]; reflexivity. }
  clearbody hd. destruct hd as [lc' t1]. cbn [fst snd] in Ehd.
  destruct (count_dashes t1) as [n' t2] eqn:Ec. apply count_dashes_spec in Ec.
  destruct t2 as [|b [|? ?]]; try discriminate.
  - intros H; inversion H; subst. rewrite app_nil_r. reflexivity.
  - destruct (N.eqb_spec b cCOLON) as [->|_]; [|discriminate]. intros H; inversion H; subst. reflexivity.
Qed.

Lemma parse_delim_complete lc n rc : 1 <= n -> parse_delim (delim_form lc n rc) = Some (lc, n, rc).
Proof.
  intros Hn. destruct n as [|n]; [lia|]. unfold parse_delim, delim_form.
  destruct lc; cbn [app repeat]; [rewrite N.eqb_refl | change (N.eqb cDASH cCOLON) with false; cbv iota];
    change (cDASH :: repeat cDASH n ++ (if rc then [cCOLON] else [])) with (repeat cDASH (S n) ++ (if rc then [cCOLON] else []));
    (rewrite count_dashes_repeat; [destruct rc; [cbn [app]; rewrite ?N.eqb_refl|]; reflexivity | destruct rc; [reflexivity | exact I]]).
Qed.

Lemma delim_cell_okb_iff p a : delim_cell_okb p a = true <-> delim_cell_ok p a.
Proof.
  unfold delim_cell_okb, delim_cell_ok. fold (delim_form (fst (markers a)) 0 (snd (markers a))).
  split.
  - destruct (parse_delim (trim p)) as [[[lc n] rc]|] eqn:E; [|discriminate].
    rewrite !andb_true_iff, Nat.leb_le. intros [[Hn Hl] Hr].
    apply Bool.eqb_prop in Hl, Hr. subst. exists n. split; [exact Hn|].
    apply parse_delim_sound in E. exact E.
  - intros (n & Hn & E). fold (delim_form (fst (markers a)) n (snd (markers a))) in E.
    rewrite E, parse_delim_complete by lia.
    rewrite !andb_true_iff, Nat.leb_le, !Bool.eqb_reflx. auto.
Qed.

Lemma delim_okb_iff l als : delim_okb l als = true <-> delim_ok l als.
Proof.
  unfold delim_okb, delim_ok. destruct (line_cells l) as [ps|].
  - rewrite (forall2b_iff _ _ delim_cell_okb_iff). split.
    + intros H. exists ps. auto.
    + intros (ps' & E & H). inversion E; subst. exact H.
  - split; [discriminate | intros (ps' & E & _); discriminate].
Qed.

Lemma md_okb_iff v out : md_okb v out = true <-> md_ok v out.
Proof.
  unfold md_okb, md_ok. rewrite !andb_true_iff, negb_true_iff, Nat.eqb_neq. split.
  - intros [[[Hn Hh] Hl] Hcr]. split; [exact Hn|]. split; [destruct (v_header v); [discriminate | discriminate]|].
    destruct (lines_lf out) as [ls|]; [|discriminate]. apply andb_true_iff in Hl as [Hlen Hok].
    apply Nat.eqb_eq in Hlen. unfold lines_okb in Hok. destruct ls as [|hl [|dl bl]]; try discriminate.
    rewrite !andb_true_iff in Hok. destruct Hok as [[[H1 H2] H3] H4].
    exists hl, dl, bl. repeat split; try assumption.
    + apply forallb_Forall in H1. eapply Forall_impl; [|exact H1]. intros l H. apply Nat.eqb_eq. exact H.
    + apply row_okb_iff. exact H2.
    + apply delim_okb_iff. exact H3.
    + apply (forall2b_iff _ _ (row_okb_iff (v_ncols v))). exact H4.
    + intros Hc. rewrite Hc in Hcr. cbn [negb orb] in Hcr. exact Hcr.
  - intros (Hn & Hh & hl & dl & bl & El & Hlen & H1 & H2 & H3 & H4 & Hcr).
    split; [split; [split; [exact Hn | destruct (v_header v); [reflexivity | congruence]]|]|].
    + rewrite El. apply andb_true_iff. split; [apply Nat.eqb_eq; exact Hlen|].
      unfold lines_okb. rewrite !andb_true_iff. repeat split.
      * apply forallb_Forall. eapply Forall_impl; [|exact H1]. intros l H. apply Nat.eqb_eq. exact H.
      * apply row_okb_iff. exact H2.
      * apply delim_okb_iff. exact H3.
      * apply (forall2b_iff _ _ (row_okb_iff (v_ncols v))). exact H4.
    + destruct (cr_freeb v); [rewrite Hcr by reflexivity; reflexivity | reflexivity].
Qed.

(* so the judgement applied by the correspondence check accepts every output of the model *)
Lemma md_okb_model W v out : wf_view v -> md_render W v = Ok out -> md_okb v out = true.
Proof.
  intros Hwf E. apply md_okb_iff. pose proof (md_structure W v Hwf) as H. rewrite E in H. exact H.
Qed.

(* ================================================================ *)
(* 9. every pipe of the output is structural, and none touches a     *)
(*    backslash                                                      *)
(* ================================================================ *)

Lemma pipe_bytes_app a b : pipe_bytes (a ++ b) = pipe_bytes a + pipe_bytes b.
Proof. unfold pipe_bytes. rewrite filter_app, app_length. reflexivity. Qed.

Lemma pipe_free_bytes p : pipe_free p = true -> pipe_bytes p = 0.
Proof.
  induction p as [|b p IH]; [reflexivity|]. unfold pipe_free. cbn [forallb]. rewrite andb_true_iff.
  intros [Hb Hp]. unfold pipe_bytes in *. cbn [filter]. destruct (N.eqb b cPIPE); [discriminate|]. apply IH, Hp.
Qed.

Lemma pipe_bytes_table_line pieces :
  Forall (fun p => pipe_free p = true) pieces -> pipe_bytes (table_line pieces) = S (length pieces).
Proof.
  intros H. unfold table_line. change (cPIPE :: ?x) with ([cPIPE] ++ x). rewrite pipe_bytes_app.
  change (pipe_bytes [cPIPE]) with 1. cbn [Nat.add]. f_equal.
  induction H as [|p ps Hp _ IH]; [reflexivity|]. cbn [map concat length].
  rewrite !pipe_bytes_app, IH, (pipe_free_bytes p Hp). reflexivity.
Qed.

Definition last_bsl (e : bool) (a : bytes) : bool := fold_left (fun _ b => N.eqb b cBSL) a e.

Lemma bsl_pipe_app a : forall e b, bsl_pipe e (a ++ b) = bsl_pipe e a || bsl_pipe (last_bsl e a) b.
Proof.
  induction a as [|x a IH]; intros e b; [reflexivity|]. cbn [app bsl_pipe last_bsl fold_left].
  rewrite IH, orb_assoc. reflexivity.
Qed.

Lemma pipe_free_no_bsl_pipe p : forall e, pipe_free p = true -> bsl_pipe e p = false.
Proof.
  induction p as [|b p IH]; intros e; [reflexivity|]. unfold pipe_free. cbn [forallb]. rewrite andb_true_iff.
  intros [Hb Hp]. cbn [bsl_pipe]. destruct (N.eqb b cPIPE); [discriminate|]. rewrite andb_false_r. apply IH, Hp.
Qed.

Definition quiet_piece (p : bytes) : Prop := pipe_free p = true /\ last_bsl false p = false.

Lemma bsl_pipe_table_line pieces : Forall quiet_piece pieces -> bsl_pipe false (table_line pieces) = false.
Proof.
  intros H. unfold table_line. cbn [bsl_pipe andb orb]. change (N.eqb cPIPE cBSL) with false.
  induction H as [|p ps [Hp Hl] _ IH]; [reflexivity|]. cbn [map concat].
  rewrite <- app_assoc, bsl_pipe_app, (pipe_free_no_bsl_pipe p false Hp), Hl.
  cbn [app bsl_pipe andb orb]. change (N.eqb cPIPE cBSL) with false. exact IH.
Qed.

Lemma content_piece_quiet c p : content_piece c p -> quiet_piece p.
Proof.
  intros H. split; [exact (proj1 (content_piece_good _ _ H))|].
  destruct H as (l & r & ->). rewrite <- spaces_snoc, !app_assoc. unfold last_bsl. rewrite fold_left_app. reflexivity.
Qed.

Lemma plain_last_bsl p : forall e, forallb plain p = true -> e = false -> last_bsl e p = false.
Proof.
  induction p as [|b p IH]; intros e H He; [exact He|]. cbn [forallb] in H. apply andb_true_iff in H as [Hb Hp].
  cbn [last_bsl fold_left]. apply IH; [exact Hp|]. apply plain_cases in Hb as [->|[->| ->]]; reflexivity.
Qed.

Lemma delim_piece_quiet a p : delim_piece a p -> quiet_piece p.
Proof.
  intros H. split; [exact (proj1 (delim_piece_good _ _ H))|].
  apply plain_last_bsl; [exact (delim_piece_plain _ _ H) | reflexivity].
Qed.

Lemma content_line_pipes ncols l texts :
  length texts <= ncols -> content_line ncols l texts ->
  pipe_bytes l = S ncols /\ bsl_pipe false l = false.
Proof.
  intros Hle (pieces & -> & F).
  assert (Hq : Forall quiet_piece pieces).
  { eapply Forall2_Forall_l; [|exact F]. intros p c H. exact (content_piece_quiet _ _ H). }
  assert (Hl : length pieces = ncols).
  { rewrite (Forall2_len _ _ _ F). apply pad_texts_length. exact Hle. }
  split.
  - rewrite pipe_bytes_table_line; [congruence|]. eapply Forall_impl; [|exact Hq]. intros p H. exact (proj1 H).
  - apply bsl_pipe_table_line. exact Hq.
Qed.

Lemma delim_line_pipes l aligns :
  delim_line l aligns -> pipe_bytes l = S (length aligns) /\ bsl_pipe false l = false.
Proof.
  intros (pieces & -> & F).
  assert (Hq : Forall quiet_piece pieces).
  { eapply Forall2_Forall_l; [|exact F]. intros p a H. exact (delim_piece_quiet _ _ H). }
  split.
  - rewrite pipe_bytes_table_line; [rewrite (Forall2_len _ _ _ F); reflexivity|].
    eapply Forall_impl; [|exact Hq]. intros p H. exact (proj1 H).
  - apply bsl_pipe_table_line. exact Hq.
Qed.

Lemma md_pipes_plain W v out :
  wf_view v -> md_render W v = Ok out ->
  exists ls, lines_lf out = Some ls
             /\ Forall (fun l => pipe_bytes l = S (v_ncols v) /\ bsl_pipe false l = false) ls.
Proof.
  intros Hwf E. destruct (v_header v) as [h|] eqn:Eh; [|rewrite md_render_refuses in E by auto; discriminate].
  destruct (Nat.eq_dec (v_ncols v) 0) as [E0|N0]; [rewrite md_render_refuses in E by auto; discriminate|].
  assert (Hn : 1 <= v_ncols v) by lia.
  destruct (md_render_ok W v h Hwf Hn Eh) as (out' & E' & Hok). rewrite E in E'. inversion E'; subst out'.
  destruct Hok as (_ & _ & hl' & dl' & bl' & El & _).
  destruct (md_render_closed W v h Hwf Hn Eh) as (hl & dl & bl & Ec & F_h & F_d & F_b).
  rewrite E in Ec. inversion Ec as [Eo]. clear Ec.
  destruct Hwf as (Hrows & Hh & _). rewrite Eh in Hh. cbn [row_fits] in Hh.
  assert (Lh : length (row_texts h) <= v_ncols v) by (unfold row_texts; rewrite map_length; exact Hh).
  assert (Lal : length (eff_aligns v) = v_ncols v) by (unfold eff_aligns; rewrite map_length, seq_length; reflexivity).
  assert (Hne : eff_aligns v <> []) by (intros X; rewrite X in Lal; cbn [length] in Lal; lia).
  pose proof (rows_cells_fit _ _ Hrows) as Hfit.
  assert (Hlf : Forall (fun l => lf_free l = true) (hl :: dl :: bl)).
  { constructor; [exact (proj1 (proj2 (proj2 (content_line_facts _ _ _ Hn Lh F_h))))|].
    constructor; [exact (proj1 (proj2 (proj2 (delim_line_facts _ _ Hne F_d))))|].
    eapply (Forall2_Forall_both _ (fun t => length t <= v_ncols v)); [|exact F_b|exact Hfit].
    intros l t H Ht. exact (proj1 (proj2 (proj2 (content_line_facts _ _ _ Hn Ht H)))). }
  exists (hl :: dl :: bl). split; [apply lines_lf_unlines; exact Hlf|].
  constructor; [exact (content_line_pipes _ _ _ Lh F_h)|].
  constructor; [rewrite <- Lal; exact (delim_line_pipes _ _ F_d)|].
  eapply (Forall2_Forall_both _ (fun t => length t <= v_ncols v)); [|exact F_b|exact Hfit].
  intros l t H Ht. exact (content_line_pipes _ _ _ Ht H).
Qed.

Lemma md_neutral s :
  raw_free (md_escape s) = true
  /\ decode (md_escape s) = Some s
  /\ (forall pre post, md_escape s = pre ++ 38%N :: post -> starts_entity post).
Proof. split; [apply md_escape_raw_free | split; [apply decode_md_escape | apply md_escape_amp]]. Qed.
