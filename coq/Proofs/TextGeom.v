(* Geometry of the declarative layout: every line has the same display
   width, every column body is its column width + 2, dividers sit at the same
   offsets, and the rule / content pattern is the documented one. *)
From Tab Require Import Model.Text Spec.TextLayout Proofs.TextBase Proofs.TextMeasure
     Proofs.TextRefine Proofs.TextTop.

Local Open Scope nat_scope.

Lemma segs_width_app a b : segs_width (a ++ b) = segs_width a + segs_width b.
Proof. induction a as [|x a IH]; simpl; [reflexivity|]. rewrite IH. lia. Qed.

Lemma skel_tail_width i r : forall bodies,
  bodies <> [] ->
  segs_width (skel_tail i r bodies) = list_sum (map (fun b => segs_width b + 1) bodies).
Proof.
  induction bodies as [|b bodies IH]; intros H; [congruence|].
  destruct bodies as [|b2 rest].
  - cbn [skel_tail map list_sum fold_right]. rewrite segs_width_app. simpl. lia.
  - change (skel_tail i r (b :: b2 :: rest)) with (b ++ Glyph i :: skel_tail i r (b2 :: rest)).
    rewrite segs_width_app. cbn [segs_width fold_right seg_width].
    change (fold_right (fun s acc => seg_width s + acc) 0 (skel_tail i r (b2 :: rest)))
      with (segs_width (skel_tail i r (b2 :: rest))).
    rewrite IH by discriminate. cbn [map list_sum fold_right]. lia.
Qed.

Lemma join_width : forall ss,
  segs_width (join [Pad 1] ss) = list_sum (map segs_width ss) + (length ss - 1).
Proof.
  induction ss as [|s ss IH]; [reflexivity|].
  destruct ss as [|s2 rest].
  - cbn [join map list_sum fold_right length]. lia.
  - change (join [Pad 1] (s :: s2 :: rest)) with (s ++ [Pad 1] ++ join [Pad 1] (s2 :: rest)).
    rewrite !segs_width_app, IH. cbn [map list_sum fold_right length segs_width seg_width]. lia.
Qed.

Definition noglyph (s : seg) : Prop := match s with Glyph _ => False | _ => True end.

Lemma offsets_skip b : forall off t,
  Forall noglyph b ->
  divider_offsets_from off (b ++ t) = divider_offsets_from (off + segs_width b) t.
Proof.
  induction b as [|s b IH]; intros off t H.
  - simpl. rewrite Nat.add_0_r. reflexivity.
  - inversion H as [|? ? Hs Hb]; subst.
    assert (E : divider_offsets_from off ((s :: b) ++ t) = divider_offsets_from (off + seg_width s) (b ++ t))
      by (destruct s; simpl in Hs; [contradiction | reflexivity | reflexivity | reflexivity]).
    rewrite E, IH by exact Hb. f_equal. simpl. lia.
Qed.

Lemma offsets_noglyph l : forall off, Forall noglyph l -> divider_offsets_from off l = [].
Proof.
  intros off H. rewrite <- (app_nil_r l). rewrite offsets_skip by exact H. reflexivity.
Qed.

Lemma skel_tail_offsets i r : forall bodies off,
  bodies <> [] -> Forall (Forall noglyph) bodies ->
  divider_offsets_from off (skel_tail i r bodies) = offsets_after off (map segs_width bodies).
Proof.
  induction bodies as [|b bodies IH]; intros off H Hg; [congruence|].
  inversion Hg as [|? ? Hb Hrest]; subst.
  destruct bodies as [|b2 rest].
  - cbn [skel_tail map offsets_after]. rewrite offsets_skip by exact Hb. reflexivity.
  - change (skel_tail i r (b :: b2 :: rest)) with (b ++ Glyph i :: skel_tail i r (b2 :: rest)).
    rewrite offsets_skip by exact Hb. cbn [divider_offsets_from].
    rewrite IH by (try discriminate; exact Hrest). reflexivity.
Qed.

Lemma join_noglyph : forall ss, Forall (Forall noglyph) ss -> Forall noglyph (join [Pad 1] ss).
Proof.
  induction ss as [|s ss IH]; intros H; [constructor|].
  inversion H as [|? ? Hs Hr]; subst.
  destruct ss as [|s2 rest]; [exact Hs|].
  change (join [Pad 1] (s :: s2 :: rest)) with (s ++ [Pad 1] ++ join [Pad 1] (s2 :: rest)).
  apply Forall_app. split; [exact Hs|]. apply Forall_app. split; [repeat constructor|]. apply IH. exact Hr.
Qed.

(* kinds *)
Lemma skel_tail_no_txt i r : forall bodies,
  Forall (fun b => existsb is_txt b = false) bodies -> existsb is_txt (skel_tail i r bodies) = false.
Proof.
  induction bodies as [|b bodies IH]; intros H; [reflexivity|].
  inversion H as [|? ? Hb Hr]; subst.
  destruct bodies as [|b2 rest].
  - cbn [skel_tail]. rewrite existsb_app, Hb. reflexivity.
  - change (skel_tail i r (b :: b2 :: rest)) with (b ++ Glyph i :: skel_tail i r (b2 :: rest)).
    rewrite existsb_app, Hb. cbn [existsb is_txt orb]. apply IH. exact Hr.
Qed.

Lemma skel_tail_has_txt i r b rest :
  existsb is_txt b = true -> existsb is_txt (skel_tail i r (b :: rest)) = true.
Proof.
  intros H. destruct rest as [|b2 rest].
  - cbn [skel_tail]. rewrite existsb_app, H. reflexivity.
  - change (skel_tail i r (b :: b2 :: rest)) with (b ++ Glyph i :: skel_tail i r (b2 :: rest)).
    rewrite existsb_app, H. reflexivity.
Qed.

Lemma join_has_txt s rest : existsb is_txt s = true -> existsb is_txt (join [Pad 1] (s :: rest)) = true.
Proof.
  intros H. destruct rest as [|s2 rest]; [exact H|].
  change (join [Pad 1] (s :: s2 :: rest)) with (s ++ [Pad 1] ++ join [Pad 1] (s2 :: rest)).
  rewrite existsb_app, H. reflexivity.
Qed.

Lemma slot_shape cw a t :
  exists x y, spec_slot cw a t = [Pad x; Txt (fst t) (snd t); Pad y] /\ x + y = cw - snd t.
Proof.
  unfold spec_slot. pose proof (pads_sum a (cw - snd t)) as H.
  destruct (pads a (cw - snd t)) as [x y]. exists x, y. split; [reflexivity | exact H].
Qed.

Section Geom.
  Variable W : bytes -> nat.
  Variable d : decoration.
  Variable v : view.

  Hypothesis Hn : 1 <= v_ncols v.
  (* every displayed cell: sizes as Cell reports them, and DESIGN 13.7 *)
  Hypothesis Hcells : Forall (fun c => cell_ok W c /\ width_covers W c) (all_cells v).

  Lemma in_all_cells r c : In r (all_rows v) -> In c r -> In c (all_cells v).
  Proof. intros Hr Hc. unfold all_cells. apply in_concat. eauto. Qed.

  Lemma linew_le_cellw c s :
    cell_ok W c -> width_covers W c -> In s (cell_lines c) -> linew W c s <= cellw W c.
  Proof.
    intros (H1 & H2 & H3) Hcov Hs. unfold linew, cellw.
    destruct (declares_line_width c) eqn:Ed.
    - unfold declares_line_width in Ed. apply andb_true_iff in Ed as [Ew _]. rewrite Ew. lia.
    - destruct (vc_widther c) eqn:Ew.
      + apply Hcov; auto.
      + apply list_max_ge. apply in_map. exact Hs.
  Qed.

  Lemma cell_line_le r i k : In r (all_rows v) -> snd (cell_line W r i k) <= colw W v i.
  Proof.
    intros Hr. unfold cell_line.
    destruct (nth_error r i) as [c|] eqn:Ec; [|simpl; lia].
    destruct (nth_error (cell_lines c) k) as [s|] eqn:Es; [|simpl; lia].
    cbn [snd].
    assert (Hin : In c (all_cells v)) by (eapply in_all_cells; eauto using nth_error_In).
    rewrite Forall_forall in Hcells. destruct (Hcells c Hin) as [Hok Hcov].
    transitivity (cellw W c).
    - apply linew_le_cellw; auto. eapply nth_error_In; eauto.
    - unfold colw. apply list_max_ge.
      apply in_map_iff. exists r. split; [|exact Hr]. unfold cellw_at. rewrite Ec. reflexivity.
  Qed.

  Lemma slot_width r k i : In r (all_rows v) -> segs_width (row_slot W v r k i) = colw W v i.
  Proof.
    intros Hr. unfold row_slot.
    destruct (slot_shape (colw W v i) (eff_align v i) (cell_line W r i k)) as (x & y & E & S).
    rewrite E. pose proof (cell_line_le r i k Hr). simpl. lia.
  Qed.

  Lemma slot_noglyph r k i : Forall noglyph (row_slot W v r k i).
  Proof.
    unfold row_slot.
    destruct (slot_shape (colw W v i) (eff_align v i) (cell_line W r i k)) as (x & y & E & _).
    rewrite E. repeat constructor.
  Qed.

  Lemma slot_has_txt r k i : existsb is_txt (row_slot W v r k i) = true.
  Proof.
    unfold row_slot.
    destruct (slot_shape (colw W v i) (eff_align v i) (cell_line W r i k)) as (x & y & E & _).
    rewrite E. reflexivity.
  Qed.

  (* the bodies of the two kinds of boxed line *)
  Definition content_bodies (r : list vcell) (k : nat) : list (list seg) := map wrap (row_slots W v r k).
  Definition rule_bodies (h : bytes) : list (list seg) :=
    map (fun i => [HFill h (colw W v i + 2)]) (seq 0 (v_ncols v)).

  Lemma content_bodies_widths r k :
    In r (all_rows v) ->
    map segs_width (content_bodies r k) = map (fun i => colw W v i + 2) (seq 0 (v_ncols v)).
  Proof.
    intros Hr. unfold content_bodies, row_slots. rewrite !map_map. apply map_ext. intros i.
    unfold wrap. cbn [segs_width fold_right seg_width].
    change (fold_right (fun s acc => seg_width s + acc) 0 (row_slot W v r k i ++ [Pad 1]))
      with (segs_width (row_slot W v r k i ++ [Pad 1])).
    rewrite segs_width_app, slot_width by exact Hr. simpl. lia.
  Qed.

  Lemma rule_bodies_widths h :
    map segs_width (rule_bodies h) = map (fun i => colw W v i + 2) (seq 0 (v_ncols v)).
  Proof. unfold rule_bodies. rewrite map_map. apply map_ext. intros i. simpl. lia. Qed.

  Lemma bodies_ne {A} (f : nat -> A) : map f (seq 0 (v_ncols v)) <> [].
  Proof. destruct (v_ncols v); [lia|]. discriminate. Qed.

  (* a boxed line: skeleton over bodies of width colw + 2, no glyph inside *)
  Definition boxed_line (l : line) : Prop :=
    exists gl gi gr bodies,
      l = skeleton gl gi gr bodies
      /\ map segs_width bodies = map (fun i => colw W v i + 2) (seq 0 (v_ncols v))
      /\ Forall (Forall noglyph) bodies.
  (* a bare line: slots of width colw separated by one space *)
  Definition bare_line (l : line) : Prop :=
    exists slots,
      l = join [Pad 1] slots
      /\ map segs_width slots = map (colw W v) (seq 0 (v_ncols v))
      /\ Forall (Forall noglyph) slots.

  Lemma boxed_line_width l : boxed_line l -> dwidth l = line_width_boxed W v.
  Proof.
    intros (gl & gi & gr & bodies & -> & Hw & _).
    assert (Hne : bodies <> []).
    { intros ->. simpl in Hw. symmetry in Hw. revert Hw. apply bodies_ne. }
    unfold dwidth, skeleton. cbn [segs_width fold_right seg_width].
    change (fold_right (fun s acc => seg_width s + acc) 0 (skel_tail gi gr bodies))
      with (segs_width (skel_tail gi gr bodies)).
    rewrite skel_tail_width by exact Hne.
    unfold line_width_boxed. f_equal.
    rewrite <- (map_map segs_width (fun w => w + 1)), Hw, map_map.
    f_equal. apply map_ext. intros; lia.
  Qed.

  Lemma boxed_line_offsets l : boxed_line l -> divider_offsets l = divider_offsets_boxed W v.
  Proof.
    intros (gl & gi & gr & bodies & -> & Hw & Hg).
    assert (Hne : bodies <> []).
    { intros ->. simpl in Hw. symmetry in Hw. revert Hw. apply bodies_ne. }
    unfold divider_offsets, skeleton, divider_offsets_boxed. cbn [divider_offsets_from].
    rewrite skel_tail_offsets by assumption. rewrite Hw. reflexivity.
  Qed.

  Lemma bare_line_width l : bare_line l -> dwidth l = line_width_bare W v.
  Proof.
    intros (slots & -> & Hw & _). unfold dwidth. rewrite join_width, Hw.
    unfold line_width_bare. f_equal.
    rewrite <- (map_length segs_width slots), Hw, map_length, seq_length. reflexivity.
  Qed.

  Lemma bare_line_offsets l : bare_line l -> divider_offsets l = [].
  Proof.
    intros (slots & -> & _ & Hg). unfold divider_offsets. apply offsets_noglyph, join_noglyph, Hg.
  Qed.

  Lemma rule_boxed l h c r : boxed_line (rule W v l h c r).
  Proof.
    exists l, c, r, (rule_bodies h). split; [reflexivity|]. split; [apply rule_bodies_widths|].
    unfold rule_bodies. apply Forall_forall. intros b Hb. apply in_map_iff in Hb as (i & <- & _).
    repeat constructor.
  Qed.

  Lemma content_boxed gl gi gr r k :
    gl <> [] -> In r (all_rows v) -> boxed_line (content_line W v (gl, gi, gr) r k).
  Proof.
    intros Hl Hr. exists gl, gi, gr, (content_bodies r k).
    split; [|split].
    - unfold content_line, frame. destruct gl; [congruence|]. reflexivity.
    - apply content_bodies_widths. exact Hr.
    - unfold content_bodies, row_slots. rewrite map_map. apply Forall_forall. intros b Hb.
      apply in_map_iff in Hb as (i & <- & _). unfold wrap.
      constructor; [exact I|]. apply Forall_app. split; [apply slot_noglyph | repeat constructor].
  Qed.

  Lemma content_bare r k : In r (all_rows v) -> bare_line (content_line W v ([], [], []) r k).
  Proof.
    intros Hr. exists (row_slots W v r k). split; [reflexivity|]. split.
    - unfold row_slots. rewrite map_map. apply map_ext. intros i. apply slot_width. exact Hr.
    - unfold row_slots. apply Forall_forall. intros b Hb. apply in_map_iff in Hb as (i & <- & _).
      apply slot_noglyph.
  Qed.

  (* ---------------------------------------------------------------- *)
  (* what the lines of the layout are                                  *)
  Lemma in_rules l x : In l (rules d x) -> l = x /\ d_boxless d = false.
  Proof. unfold rules. destruct (d_boxless d); simpl; intros H; [contradiction|]. destruct H; [auto|contradiction]. Qed.

  Definition is_rule (l : line) : Prop :=
    exists gl h c gr, l = rule W v gl h c gr
      /\ In gl (d_fields d) /\ In h (d_fields d) /\ In c (d_fields d) /\ In gr (d_fields d).
  Lemma mk_rule gl h c gr :
    In gl (d_fields d) -> In h (d_fields d) -> In c (d_fields d) -> In gr (d_fields d) ->
    is_rule (rule W v gl h c gr).
  Proof. intros. exists gl, h, c, gr. auto. Qed.
  Definition is_content (l : line) : Prop :=
    exists dv r k, (dv = hdr_div d \/ dv = body_div d) /\ In r (all_rows v) /\ l = content_line W v dv r k.

  Lemma in_row_block dv r l : In l (row_block W v dv r) -> exists k, l = content_line W v dv r k.
  Proof. unfold row_block. intros H. apply in_map_iff in H as (k & <- & _). eauto. Qed.

  Lemma body_row_in cs : In (Some cs) (v_rows v) -> In cs (all_rows v).
  Proof.
    intros H. unfold all_rows. apply in_or_app. right. unfold body_rows.
    apply in_flat_map. exists (Some cs). split; [exact H | left; reflexivity].
  Qed.

  Lemma header_row_in h : v_header v = Some h -> In h (all_rows v).
  Proof. intros E. unfold all_rows. rewrite E. left. reflexivity. Qed.

  Lemma layout_cases l :
    In l (layout W d v) -> (is_rule l /\ d_boxless d = false) \/ is_content l.
  Proof.
    unfold layout. intros H. apply in_app_or in H as [H|H]; [|apply in_app_or in H as [H|H]].
    - unfold top_part in H. destruct (v_header v) as [h|] eqn:E.
      + apply in_app_or in H as [H|H]; [|apply in_app_or in H as [H|H]].
        * apply in_rules in H as [-> Hb]. left. split; [|exact Hb]. apply mk_rule; unfold d_fields; simpl; tauto.
        * apply in_row_block in H as (k & ->). right. exists (hdr_div d), h, k.
          split; [left; reflexivity|]. split; [apply header_row_in; exact E | reflexivity].
        * apply in_rules in H as [-> Hb]. left. split; [|exact Hb]. apply mk_rule; unfold d_fields; simpl; tauto.
      + apply in_rules in H as [-> Hb]. left. split; [|exact Hb]. apply mk_rule; unfold d_fields; simpl; tauto.
    - apply in_flat_map in H as (r & Hr & Hl). destruct r as [cs|]; cbn [row_part] in Hl.
      + apply in_row_block in Hl as (k & ->). right. exists (body_div d), cs, k.
        split; [right; reflexivity|]. split; [apply body_row_in; exact Hr | reflexivity].
      + apply in_rules in Hl as [-> Hb]. left. split; [|exact Hb]. apply mk_rule; unfold d_fields; simpl; tauto.
    - apply in_rules in H as [-> Hb]. left. split; [|exact Hb]. apply mk_rule; unfold d_fields; simpl; tauto.
  Qed.

  Lemma complete_lines_boxed l : complete d -> In l (layout W d v) -> boxed_line l.
  Proof.
    intros Hc H. apply layout_cases in H as [[(gl & h & c & gr & -> & _) _] | (dv & r & k & Hdv & Hr & ->)].
    - apply rule_boxed.
    - destruct Hdv as [-> | ->]; unfold hdr_div, body_div; apply content_boxed; auto;
        apply (complete_field d _ Hc); unfold d_fields; simpl; tauto.
  Qed.

  Lemma nobox_lines_bare l : nobox d -> In l (layout W d v) -> bare_line l.
  Proof.
    intros Hb H. apply layout_cases in H as [[_ Hf] | (dv & r & k & Hdv & Hr & ->)].
    - destruct Hb as [_ Hb]. congruence.
    - assert (E : dv = ([], [], [])).
      { assert (E1 : d_VHeader d = []) by (apply (nobox_field d _ Hb); unfold d_fields; simpl; tauto).
        assert (E2 : d_VBodyBorder d = []) by (apply (nobox_field d _ Hb); unfold d_fields; simpl; tauto).
        assert (E3 : d_VBodyInner d = []) by (apply (nobox_field d _ Hb); unfold d_fields; simpl; tauto).
        destruct Hdv as [-> | ->]; unfold hdr_div, body_div; rewrite ?E1, ?E2, ?E3; reflexivity. }
      rewrite E. apply content_bare. exact Hr.
  Qed.

  (* ---------------------------------------------------------------- *)
  Theorem rectangle_proof : dec_ok d ->
    forall l1 l2, In l1 (layout W d v) -> In l2 (layout W d v) -> dwidth l1 = dwidth l2.
  Proof.
    intros [Hc|Hb] l1 l2 H1 H2.
    - rewrite !boxed_line_width by (apply complete_lines_boxed; assumption). reflexivity.
    - rewrite !bare_line_width by (apply nobox_lines_bare; assumption). reflexivity.
  Qed.

  Theorem dividers_proof : dec_ok d ->
    forall l1 l2, In l1 (layout W d v) -> In l2 (layout W d v) -> divider_offsets l1 = divider_offsets l2.
  Proof.
    intros [Hc|Hb] l1 l2 H1 H2.
    - rewrite !boxed_line_offsets by (apply complete_lines_boxed; assumption). reflexivity.
    - rewrite !bare_line_offsets by (apply nobox_lines_bare; assumption). reflexivity.
  Qed.

  (* ---------------------------------------------------------------- *)
  (* kinds of line                                                     *)
  Lemma rule_kind gl h c gr : kind_of (rule W v gl h c gr) = KRule.
  Proof.
    unfold kind_of, rule, skeleton. cbn [existsb is_txt orb].
    rewrite skel_tail_no_txt; [reflexivity|].
    apply Forall_forall. intros b Hb. apply in_map_iff in Hb as (i & <- & _). reflexivity.
  Qed.

  Lemma content_kind dv r k : kind_of (content_line W v dv r k) = KContent.
  Proof.
    unfold kind_of, content_line, row_slots.
    destruct (v_ncols v) as [|m] eqn:En; [lia|].
    cbn [seq map].
    assert (E : existsb is_txt (frame dv (row_slot W v r k 0 :: map (row_slot W v r k) (seq 1 m))) = true).
    { unfold frame. destruct dv as [[gl gi] gr].
      assert (X : existsb is_txt (skeleton gl gi gr (map wrap (row_slot W v r k 0 :: map (row_slot W v r k) (seq 1 m)))) = true).
      { unfold skeleton. cbn [existsb is_txt orb map]. apply skel_tail_has_txt.
        unfold wrap. cbn [existsb is_txt orb]. rewrite existsb_app, slot_has_txt. reflexivity. }
      destruct gl; [destruct gi; [destruct gr; [|exact X] | exact X] | exact X].
      apply join_has_txt. apply slot_has_txt. }
    rewrite E. reflexivity.
  Qed.

  Lemma rules_kinds x : is_rule x -> map kind_of (rules d x) = krules d.
  Proof.
    intros (gl & h & c & gr & -> & _). unfold rules, krules. destruct (d_boxless d); [reflexivity|].
    cbn [map]. rewrite rule_kind. reflexivity.
  Qed.

  Lemma row_block_kinds dv r : map kind_of (row_block W v dv r) = repeat KContent (row_height v r).
  Proof.
    unfold row_block. rewrite map_map.
    rewrite (map_ext _ (fun _ => KContent)) by (intros; apply content_kind).
    rewrite map_const_repeat, seq_length. reflexivity.
  Qed.

  Theorem structure_proof :
    map kind_of (layout W d v) = expected_shape_with d v (row_height v).
  Proof.
    unfold layout, expected_shape_with. rewrite !map_app. f_equal; [|f_equal].
    - unfold top_part. destruct (v_header v) as [h|].
      + rewrite !map_app, row_block_kinds, !rules_kinds by (apply mk_rule; unfold d_fields; simpl; tauto). reflexivity.
      + apply rules_kinds. apply mk_rule; unfold d_fields; simpl; tauto.
    - induction (v_rows v) as [|r rows IH]; [reflexivity|].
      cbn [flat_map]. rewrite map_app, IH. f_equal.
      destruct r as [cs|]; cbn [row_part].
      + apply row_block_kinds.
      + apply rules_kinds. apply mk_rule; unfold d_fields; simpl; tauto.
    - apply rules_kinds. apply mk_rule; unfold d_fields; simpl; tauto.
  Qed.
End Geom.

(* ------------------------------------------------------------------ *)
(* glyph width 1 (the documented precondition) turns the structural width
   into the measured one *)
Lemma measured_dwidth W l :
  (forall s, In s l -> forall g, In g (seg_glyphs s) -> W g = 1) -> measured_width W l = dwidth l.
Proof.
  induction l as [|s l IH]; intros H; [reflexivity|].
  unfold measured_width, dwidth, segs_width in *. cbn [fold_right].
  rewrite IH by (intros s' Hs'; apply H; right; exact Hs').
  f_equal. assert (Hs := H s (or_introl eq_refl)).
  destruct s; cbn [seg_measured seg_width seg_glyphs] in *; try reflexivity.
  - apply Hs. left. reflexivity.
  - rewrite (Hs g) by (left; reflexivity). lia.
Qed.

Lemma skel_tail_in i r s : forall bodies,
  In s (skel_tail i r bodies) -> s = Glyph i \/ s = Glyph r \/ exists b, In b bodies /\ In s b.
Proof.
  induction bodies as [|b bodies IH]; intros H.
  - simpl in H. destruct H as [<-|[]]. auto.
  - destruct bodies as [|b2 rest].
    + cbn [skel_tail] in H. apply in_app_or in H as [H|[<-|[]]]; [|auto].
      right. right. exists b. split; [left; reflexivity | exact H].
    + change (skel_tail i r (b :: b2 :: rest)) with (b ++ Glyph i :: skel_tail i r (b2 :: rest)) in H.
      apply in_app_or in H as [H|[<-|H]]; [| auto |].
      * right. right. exists b. split; [left; reflexivity | exact H].
      * destruct (IH H) as [X|[X|(b' & Hb' & Hs)]]; auto.
        right. right. exists b'. split; [right; exact Hb' | exact Hs].
Qed.

Lemma join_in s : forall ss, In s (join [Pad 1] ss) -> s = Pad 1 \/ exists b, In b ss /\ In s b.
Proof.
  induction ss as [|b ss IH]; intros H; [destruct H|].
  destruct ss as [|b2 rest].
  - right. exists b. split; [left; reflexivity | exact H].
  - change (join [Pad 1] (b :: b2 :: rest)) with (b ++ [Pad 1] ++ join [Pad 1] (b2 :: rest)) in H.
    apply in_app_or in H as [H|H]; [right; exists b; split; [left; reflexivity | exact H]|].
    apply in_app_or in H as [[<-|[]]|H]; [auto|].
    destruct (IH H) as [X|(b' & Hb' & Hs)]; [auto|].
    right. exists b'. split; [right; exact Hb' | exact Hs].
Qed.

Section Measured.
  Variable W : bytes -> nat.
  Variable d : decoration.
  Variable v : view.
  Hypothesis Hn : 1 <= v_ncols v.
  Hypothesis Hcells : Forall (fun c => cell_ok W c /\ width_covers W c) (all_cells v).

  Lemma slot_seg_no_glyph r k i s : In s (row_slot W v r k i) -> seg_glyphs s = [].
  Proof.
    unfold row_slot.
    destruct (slot_shape (colw W v i) (eff_align v i) (cell_line W r i k)) as (x & y & E & _).
    rewrite E. intros [<-|[<-|[<-|[]]]]; reflexivity.
  Qed.

  Lemma layout_glyphs l s g :
    In l (layout W d v) -> In s l -> In g (seg_glyphs s) -> In g (d_fields d).
  Proof.
    intros Hl Hs Hg.
    apply (layout_cases W d v) in Hl as [[(gl & h & c & gr & -> & H1 & H2 & H3 & H4) _] | (dv & r & k & Hdv & Hr & ->)].
    - unfold rule, skeleton in Hs. destruct Hs as [<-|Hs].
      + destruct Hg as [<-|[]]. exact H1.
      + apply skel_tail_in in Hs as [->|[->|(b & Hb & Hs)]].
        * destruct Hg as [<-|[]]. exact H3.
        * destruct Hg as [<-|[]]. exact H4.
        * apply in_map_iff in Hb as (i & <- & _). destruct Hs as [<-|[]].
          destruct Hg as [<-|[]]. exact H2.
    - assert (Hdvin : let '(a, b, c) := dv in In a (d_fields d) /\ In b (d_fields d) /\ In c (d_fields d)).
      { destruct Hdv as [-> | ->]; unfold hdr_div, body_div, d_fields; simpl; tauto. }
      destruct dv as [[a b] c]. destruct Hdvin as (Ha & Hb & Hc).
      unfold content_line in Hs.
      assert (Hskel : In s (skeleton a b c (map wrap (row_slots W v r k))) -> In g (d_fields d)).
      { unfold skeleton. intros [<-|Hs'].
        - destruct Hg as [<-|[]]. exact Ha.
        - apply skel_tail_in in Hs' as [->|[->|(bd & Hbd & Hs')]].
          + destruct Hg as [<-|[]]. exact Hb.
          + destruct Hg as [<-|[]]. exact Hc.
          + apply in_map_iff in Hbd as (sl & <- & Hsl). unfold row_slots in Hsl.
            apply in_map_iff in Hsl as (i & <- & _). unfold wrap in Hs'.
            destruct Hs' as [<-|Hs']; [destruct Hg|].
            apply in_app_or in Hs' as [Hs'|[<-|[]]]; [|destruct Hg].
            rewrite (slot_seg_no_glyph r k i s Hs') in Hg. destruct Hg. }
      unfold frame in Hs.
      destruct a; [destruct b; [destruct c; [|exact (Hskel Hs)] | exact (Hskel Hs)] | exact (Hskel Hs)].
      apply join_in in Hs as [->|(sl & Hsl & Hs)]; [destruct Hg|].
      unfold row_slots in Hsl. apply in_map_iff in Hsl as (i & <- & _).
      rewrite (slot_seg_no_glyph r k i s Hs) in Hg. destruct Hg.
  Qed.

  Theorem rectangle_measured_proof : dec_ok d -> glyphs_w1 W d ->
    forall l1 l2, In l1 (layout W d v) -> In l2 (layout W d v) ->
    measured_width W l1 = measured_width W l2.
  Proof.
    intros Hd Hg l1 l2 H1 H2.
    assert (X : forall l, In l (layout W d v) -> measured_width W l = dwidth l).
    { intros l Hl. apply measured_dwidth. intros s Hs g Hgs.
      unfold glyphs_w1 in Hg. rewrite Forall_forall in Hg. apply Hg.
      eapply layout_glyphs; eauto. }
    rewrite !X by assumption. apply (rectangle_proof W d v Hn Hcells Hd); assumption.
  Qed.
End Measured.

Lemma whole_line_measured W l : edge_additive W l -> W (flat_segs l) = measured_width W l.
Proof.
  intros [E H]. rewrite E. clear E. unfold measured_width.
  induction H as [|s l Hs Hl IH]; [reflexivity|].
  cbn [fold_right]. rewrite IH. f_equal.
  destruct s; cbn [flat_seg seg_measured piece_measured_as_laid_out] in *; auto.
Qed.

Theorem whole_line_proof W d v :
  1 <= v_ncols v -> cells_cover W v -> dec_ok d -> glyphs_w1 W d ->
  (forall l, In l (layout W d v) -> edge_additive W l) ->
  forall l1 l2, In l1 (layout W d v) -> In l2 (layout W d v) ->
  W (flat_segs l1) = W (flat_segs l2).
Proof.
  intros Hn Hc Hd Hg Hadd l1 l2 H1 H2.
  rewrite !whole_line_measured by (apply Hadd; assumption).
  apply (rectangle_measured_proof W d v Hn Hc Hd Hg); assumption.
Qed.

Lemma in_firstn_in {A} (x : A) n l : In x (firstn n l) -> In x l.
Proof. intros H. rewrite <- (firstn_skipn n l). apply in_or_app. left. exact H. Qed.

(* without size overrides the heights and widths are those of the text *)
Section Plain.
  Variable W : bytes -> nat.
  Variable v : view.
  Hypothesis Hplain : Forall (plain_cell W) (all_cells v).
  Hypothesis Hfit : Forall (fun r => length r <= v_ncols v) (all_rows v).

  Lemma plain_row_height r : In r (all_rows v) -> row_height v r = text_height v r.
  Proof.
    intros Hr. unfold row_height, text_height. do 2 f_equal. apply map_ext_in. intros c Hc.
    assert (Hin : In c (all_cells v)).
    { unfold all_cells. apply in_concat. exists r. split; [exact Hr|].
      eapply in_firstn_in; exact Hc. }
    rewrite Forall_forall in Hplain. destruct (Hplain c Hin) as (_ & _ & Hh).
    unfold cell_height. rewrite Hh, Nat2Z.id. lia.
  Qed.

  Lemma plain_colw i :
    colw W v i
    = list_max (map (fun r => match nth_error r i with
                              | Some c => list_max (map W (cell_lines c))
                              | None => 0
                              end) (all_rows v)).
  Proof.
    unfold colw. f_equal. apply map_ext_in. intros r Hr. unfold cellw_at.
    destruct (nth_error r i) as [c|] eqn:Ec; [|reflexivity].
    assert (Hin : In c (all_cells v)).
    { unfold all_cells. apply in_concat. exists r. split; [exact Hr|]. eapply nth_error_In; eauto. }
    rewrite Forall_forall in Hplain. destruct (Hplain c Hin) as (Hw & _ & _).
    unfold cellw. rewrite Hw. reflexivity.
  Qed.
End Plain.
