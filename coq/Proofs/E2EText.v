(* End to end, text tables (C03, C04) and totality (C09): the refinement and
   geometry theorems with the hypotheses about the view discharged for every
   table a history can build. *)
From Tab Require Import Model.Cell Model.Table Spec.TableHist Spec.CellText Proofs.TableProofs Proofs.E2EProofs.
From Tab Require Import Model.Text Model.Decoration Spec.TextLayout Proofs.TextTop Proofs.TextGeom Proofs.TextSlots Proofs.TextProps Proofs.TextZero.

(* ANY items (size overrides of any sign and magnitude, nested cells): with
   at least one column and a complete or boxless decoration, Render() is
   exactly the flattened declarative layout of what the history built *)
Theorem text_history_refines : forall W e json d (h : list top),
  twf_hist h -> 1 <= hist_ncols h -> dec_ok d ->
  text_render W d (hview W e json h) = Ok (concat (map flatten (layout W d (hview W e json h)))).
Proof.
  intros W e json d h Hw Hn Hd. apply text_refines_proof.
  - rewrite (hview_ncols W e json h Hw). exact Hn.
  - apply hview_wf, Hw.
  - exact Hd.
  - apply hview_cells_ok.
Qed.

(* where no item of the history overrides its size: every line of the layout
   has the same display width and the dividers sit at the same offsets *)
Theorem text_history_rectangle : forall W e json d (h : list top),
  twf_hist h -> 1 <= hist_ncols h -> dec_ok d ->
  Forall (item_plain e) (concat (hist_records h)) ->
  forall l1 l2, In l1 (layout W d (hview W e json h)) -> In l2 (layout W d (hview W e json h)) ->
  dwidth l1 = dwidth l2 /\ divider_offsets l1 = divider_offsets l2.
Proof.
  intros W e json d h Hw Hn Hd Hp l1 l2 H1 H2.
  assert (Hn' : 1 <= v_ncols (hview W e json h)) by (rewrite (hview_ncols W e json h Hw); exact Hn).
  pose proof (plain_cover W _ (hview_plain W e json h Hw Hp)) as Hc.
  split; [apply (rectangle_proof W d _ Hn' Hc Hd l1 l2 H1 H2) | apply (dividers_proof W d _ Hn' Hc Hd l1 l2 H1 H2)].
Qed.

(* ... and each column is as wide as the widest text line of any header or
   body cell in it, said on the items' documented texts *)
Theorem text_history_colwidth : forall W e json (h : list top),
  twf_hist h -> Forall (item_plain e) (concat (hist_records h)) ->
  forall i, colw W (hview W e json h) i
  = list_max (map (fun r => match nth_error r i with
                            | Some it => list_max (map W (lines_of (documented_text e it)))
                            | None => 0
                            end) (hist_records h)).
Proof.
  intros W e json h Hw Hp i. rewrite (plain_colw W _ (hview_plain W e json h Hw Hp) i).
  rewrite (hview_all_rows W e json h Hw), map_map. f_equal. apply map_ext. intros r.
  rewrite nth_error_map. destruct (nth_error r i) as [it|]; cbn [option_map]; [|reflexivity].
  unfold cell_lines. rewrite CellProofs.vcell_of_item_text. reflexivity.
Qed.

(* never a panic, whatever the items, tables with no column included; the
   empty decoration (an unknown style name) is refused with an error *)
Theorem text_history_no_panic : forall W e json d (h : list top),
  twf_hist h -> dec_ok d -> text_render W d (hview W e json h) <> Panic.
Proof.
  intros W e json d h Hw Hd. apply text_no_panic_all; [apply hview_wf, Hw | exact Hd | apply hview_cells_ok].
Qed.


(* effective alignment of column i (0-based) after history h: the column's own
   latest setting, else the latest setting on column 0, else left *)
Theorem text_history_alignment : forall W e json (h : list top) i,
  twf_hist h -> i < hist_ncols h ->
  eff_align (hview W e json h) i
  = match hist_align h (S i) with
    | Some a => a
    | None => match hist_align h 0 with Some a => a | None => ALeft end
    end.
Proof.
  intros W e json h i Hw Hi.
  apply align_precedence_proof; apply hview_align_nth; try assumption; lia.
Qed.
