(* encoding/json's string encoding (Model/JsonString.v) is read back by the
   strict JSON parser (Spec/JsonParse.v) as exactly the sanitized string: the
   oracle assumption `str_ok (strenc s) (strval s)` of the C07 theorems holds
   for strenc = go_json_string, strval = utf8_sanitize, for EVERY byte string. *)
From Tab Require Import Base.Utf8 Model.JsonString Spec.JsonParse Proofs.JsonProofs.
Local Open Scope N_scope.

(* ---- single steps of the string machine *)
Lemma step_raw stk acc b : b <> DQ -> b <> BSL -> 32 <= b ->
  j_step (stk, MStr acc (SNorm None)) b = (stk, MStr (acc ++ [b]) (SNorm None)).
Proof.
  intros H1 H2 H3. cbn [j_step j_step_main str_step flush_hi].
  destruct (N.eqb_spec b DQ); [congruence|]. destruct (N.eqb_spec b BSL); [congruence|].
  destruct (N.ltb_spec b 32); [lia|]. reflexivity.
Qed.

Lemma run_raw stk : forall l acc, Forall (fun b => 128 <= b) l ->
  j_run (stk, MStr acc (SNorm None)) l = (stk, MStr (acc ++ l) (SNorm None)).
Proof.
  induction l as [|b l IH]; intros acc H; [rewrite app_nil_r; reflexivity|].
  inversion H as [|? ? Hb Hl]; subst. rewrite j_run_cons, step_raw.
  - rewrite IH by exact Hl. rewrite <- app_assoc. reflexivity.
  - unfold DQ. lia.
  - unfold BSL. lia.
  - lia.
Qed.

Lemma hexval_hexdig d : d < 16 -> hexval (hexdig d) = Some d.
Proof.
  intros H.
  assert (E : d = 0 \/ d = 1 \/ d = 2 \/ d = 3 \/ d = 4 \/ d = 5 \/ d = 6 \/ d = 7 \/ d = 8 \/ d = 9
              \/ d = 10 \/ d = 11 \/ d = 12 \/ d = 13 \/ d = 14 \/ d = 15) by lia.
  repeat (destruct E as [-> | E]; [reflexivity|]). subst. reflexivity.
Qed.

(* backslash u 0 0 X Y for a byte below 0x80 denotes that byte *)
Lemma run_u00 stk acc b : b < 128 ->
  j_run (stk, MStr acc (SNorm None)) [92; 117; 48; 48; hexdig (b / 16); hexdig (b mod 16)]
  = (stk, MStr (acc ++ [b]) (SNorm None)).
Proof.
  intros Hb. rewrite !j_run_cons. cbn [j_run fold_left].
  change (j_step (stk, MStr acc (SNorm None)) 92) with (stk, MStr acc (SEsc None)).
  change (j_step (stk, MStr acc (SEsc None)) 117) with (stk, MStr acc (SHex None 0 0)).
  change (j_step (stk, MStr acc (SHex None 0 0)) 48) with (stk, MStr acc (SHex None 1 0)).
  change (j_step (stk, MStr acc (SHex None 1 0)) 48) with (stk, MStr acc (SHex None 2 0)).
  assert (H1 : b / 16 < 16) by (apply N.div_lt_upper_bound; lia).
  assert (H2 : b mod 16 < 16) by (apply N.mod_lt; lia).
  cbn [j_step j_step_main str_step]. rewrite (hexval_hexdig _ H1).
  cbn [j_step j_step_main str_step]. rewrite (hexval_hexdig _ H2).
  assert (E : (0 * 16 + b / 16) * 16 + b mod 16 = b).
  { pose proof (N.div_mod b 16 ltac:(lia)). lia. }
  rewrite E. unfold finish_cu, finish_cu0, is_hi_surr, is_lo_surr.
  replace (55296 <=? b) with false by (symmetry; apply N.leb_gt; lia).
  replace (56320 <=? b) with false by (symmetry; apply N.leb_gt; lia).
  cbn [andb]. unfold utf8_encode. replace (b <? 128) with true by (symmetry; apply N.ltb_lt; lia).
  reflexivity.
Qed.

(* an escaped ASCII byte denotes that byte *)
Lemma run_esc_ascii stk acc b : b < 128 -> json_safe_ascii b = false ->
  j_run (stk, MStr acc (SNorm None)) (json_esc_ascii b) = (stk, MStr (acc ++ [b]) (SNorm None)).
Proof.
  intros Hb Hs. unfold json_esc_ascii.
  destruct (N.eqb_spec b 92) as [->|N92]; [reflexivity|].
  destruct (N.eqb_spec b 34) as [->|N34]; [reflexivity|]. cbn [orb].
  destruct (N.eqb_spec b 8) as [->|N8]; [reflexivity|].
  destruct (N.eqb_spec b 12) as [->|N12]; [reflexivity|].
  destruct (N.eqb_spec b 10) as [->|N10]; [reflexivity|].
  destruct (N.eqb_spec b 13) as [->|N13]; [reflexivity|].
  destruct (N.eqb_spec b 9) as [->|N9]; [reflexivity|].
  apply run_u00. exact Hb.
Qed.

Lemma step_safe stk acc b : json_safe_ascii b = true ->
  j_run (stk, MStr acc (SNorm None)) [b] = (stk, MStr (acc ++ [b]) (SNorm None)).
Proof.
  intros Hs. unfold json_safe_ascii in Hs. rewrite !andb_true_iff, !negb_true_iff in Hs.
  destruct Hs as (((((H32 & H34) & H92) & _) & _) & _).
  apply N.leb_le in H32. apply N.eqb_neq in H34, H92.
  rewrite j_run_cons. cbn [j_run fold_left]. apply step_raw; assumption.
Qed.

Lemma run_fffd stk acc : j_run (stk, MStr acc (SNorm None)) u_fffd = (stk, MStr (acc ++ FFFD3) (SNorm None)).
Proof. reflexivity. Qed.

Lemma run_2028 stk acc : j_run (stk, MStr acc (SNorm None)) (u_202x 8232) = (stk, MStr (acc ++ [226; 128; 168]) (SNorm None)).
Proof. reflexivity. Qed.
Lemma run_2029 stk acc : j_run (stk, MStr acc (SNorm None)) (u_202x 8233) = (stk, MStr (acc ++ [226; 128; 169]) (SNorm None)).
Proof. reflexivity. Qed.

(* ---- what DecodeRuneInString says about the bytes it consumed *)
Lemma decode1_multi b t :
  128 <= b -> is_bad_byte (decode1 (b :: t)) = false ->
  let n := snd (decode1 (b :: t)) in
  (n <= length (b :: t))%nat /\ (2 <= n)%nat /\ Forall (fun c => 128 <= c) (firstn n (b :: t)).
Proof.
  intros Hb Hbad. unfold decode1 in *. unfold is_bad_byte, bad in *.
  replace (b <? 128) with false in * by (symmetry; apply N.ltb_ge; lia).
  destruct (lead b) as [[[n lo] hi]|] eqn:El; [|cbn in Hbad; discriminate].
  assert (Hlo : 128 <= lo).
  { unfold lead, inr in El.
    repeat match type of El with
           | (if ?c then _ else _) = _ => destruct c; [inversion El; subst; lia|]
           end. discriminate. }
  destruct t as [|b1 t1]; [cbn in Hbad; discriminate|].
  destruct (inr b1 lo hi) eqn:E1; cbn [negb] in *; [|cbn in Hbad; discriminate].
  assert (H1 : 128 <= b1) by (unfold inr in E1; apply andb_true_iff in E1 as [E1 _]; apply N.leb_le in E1; lia).
  destruct (n =? 2)%nat.
  { cbn [snd firstn length]. repeat split; try lia. repeat constructor; assumption. }
  destruct t1 as [|b2 t2]; [cbn in Hbad; discriminate|].
  destruct (contb b2) eqn:E2; cbn [negb] in *; [|cbn in Hbad; discriminate].
  assert (H2 : 128 <= b2) by (unfold contb, inr in E2; apply andb_true_iff in E2 as [E2 _]; apply N.leb_le in E2; lia).
  destruct (n =? 3)%nat.
  { cbn [snd firstn length]. repeat split; try lia. repeat constructor; assumption. }
  destruct t2 as [|b3 t3]; [cbn in Hbad; discriminate|].
  destruct (contb b3) eqn:E3; cbn [negb] in *; [|cbn in Hbad; discriminate].
  assert (H3 : 128 <= b3) by (unfold contb, inr in E3; apply andb_true_iff in E3 as [E3 _]; apply N.leb_le in E3; lia).
  cbn [snd firstn length]. repeat split; try lia. repeat constructor; assumption.
Qed.

(* the only encodings of the two line separators *)
Lemma decode1_linesep s :
  (fst (decode1 s) = 8232%Z -> firstn (snd (decode1 s)) s = [226; 128; 168])
  /\ (fst (decode1 s) = 8233%Z -> firstn (snd (decode1 s)) s = [226; 128; 169]).
Proof.
  unfold decode1, bad, RuneError.
  destruct s as [|b0 t0]; [split; discriminate|].
  destruct (N.ltb_spec b0 128); [cbn [fst snd firstn]; split; intros E; exfalso; lia|].
  destruct (lead b0) as [[[n lo] hi]|] eqn:El; [|split; discriminate].
  destruct t0 as [|b1 t1]; [split; discriminate|].
  destruct (inr b1 lo hi) eqn:E1; cbn [negb]; [|split; discriminate].
  assert (Hl : (n = 2%nat /\ 194 <= b0 <= 223 /\ 128 <= b1 <= 191)
               \/ (n = 3%nat /\ 224 <= b0 <= 239 /\ 128 <= b1 <= 191)
               \/ (n = 4%nat /\ 240 <= b0 <= 244 /\ 128 <= b1 <= 191 /\ (b0 = 240 -> 144 <= b1))).
  { unfold lead, inr in El. unfold inr in E1. apply andb_true_iff in E1 as [Ea Eb]. apply N.leb_le in Ea, Eb.
    repeat match type of El with
           | (if ?c then _ else _) = _ => destruct c eqn:?; [inversion El; subst|]
           end; try discriminate;
    repeat match goal with
           | H : (_ && _) = true |- _ => apply andb_true_iff in H as [? ?]
           | H : (_ <=? _) = true |- _ => apply N.leb_le in H
           | H : (_ =? _) = true |- _ => apply N.eqb_eq in H
           end; lia. }
  destruct Hl as [(-> & Hb0 & Hb1) | [(-> & Hb0 & Hb1) | (-> & Hb0 & Hb1 & Hb240)]]; cbn [Nat.eqb].
  - cbn [fst snd]. split; intros E; exfalso; lia.
  - destruct t1 as [|b2 t2]; [split; discriminate|].
    destruct (contb b2) eqn:E2; cbn [negb]; [|split; discriminate].
    unfold contb, inr in E2. apply andb_true_iff in E2 as [Ec Ed]. apply N.leb_le in Ec, Ed.
    cbn [fst snd firstn]. split; intros E.
    + assert (b0 = 226 /\ b1 = 128 /\ b2 = 168) as (-> & -> & ->) by lia. reflexivity.
    + assert (b0 = 226 /\ b1 = 128 /\ b2 = 169) as (-> & -> & ->) by lia. reflexivity.
  - destruct t1 as [|b2 t2]; [split; discriminate|].
    destruct (contb b2) eqn:E2; cbn [negb]; [|split; discriminate].
    destruct t2 as [|b3 t3]; [split; discriminate|].
    destruct (contb b3) eqn:E3; cbn [negb]; [|split; discriminate].
    cbn [fst snd]. split; intros E; exfalso; (destruct (N.eq_dec b0 240) as [E0|E0]; [specialize (Hb240 E0)|]; lia).
Qed.

(* ---- the loop *)
Lemma json_str_body_run stk : forall f s acc, (length s <= f)%nat ->
  j_run (stk, MStr acc (SNorm None)) (json_str_body f s) = (stk, MStr (acc ++ sanitize_fuel f s) (SNorm None)).
Proof.
  induction f as [|f IH]; intros s acc Hlen.
  - cbn [json_str_body sanitize_fuel]. rewrite app_nil_r. reflexivity.
  - destruct s as [|b t]; [cbn [json_str_body sanitize_fuel]; rewrite app_nil_r; reflexivity|].
    cbn [json_str_body sanitize_fuel]. cbn [length] in Hlen.
    destruct (N.ltb_spec b 128) as [Hb|Hb].
    + rewrite j_run_app.
      assert (E : j_run (stk, MStr acc (SNorm None)) (if json_safe_ascii b then [b] else json_esc_ascii b)
                  = (stk, MStr (acc ++ [b]) (SNorm None))).
      { destruct (json_safe_ascii b) eqn:Es; [apply step_safe, Es | apply run_esc_ascii; assumption]. }
      rewrite E, IH by lia. rewrite <- app_assoc. reflexivity.
    + destruct (is_bad_byte (decode1 (b :: t))) eqn:Ebad.
      * rewrite j_run_app, run_fffd, IH by lia. rewrite <- app_assoc. reflexivity.
      * destruct (decode1_multi b t Hb Ebad) as (Hn & Hn2 & Hall).
        set (n := snd (decode1 (b :: t))) in *.
        assert (Hrest : (length (skipn n (b :: t)) <= f)%nat).
        { rewrite skipn_length. cbn [length] in *. lia. }
        destruct (is_linesep (fst (decode1 (b :: t)))) eqn:Els.
        -- unfold is_linesep in Els. apply orb_true_iff in Els.
           destruct (decode1_linesep (b :: t)) as [L1 L2]. fold n in L1, L2.
           rewrite j_run_app.
           destruct Els as [E|E]; apply Z.eqb_eq in E; rewrite E.
           ++ rewrite run_2028, IH by exact Hrest. rewrite (L1 E), <- app_assoc. reflexivity.
           ++ rewrite run_2029, IH by exact Hrest. rewrite (L2 E), <- app_assoc. reflexivity.
        -- rewrite j_run_app, run_raw by exact Hall. rewrite IH by exact Hrest.
           rewrite <- app_assoc. reflexivity.
Qed.

(* json.Marshal(s) is a JSON string denoting the sanitized s, in every context *)
Theorem go_json_string_ok : forall s, str_ok (go_json_string s) (utf8_sanitize s).
Proof.
  intros s. exists (json_str_body (length s) s ++ [DQ]). split; [reflexivity|].
  intros stk. rewrite j_run_app, json_str_body_run by lia.
  cbn [app]. reflexivity.
Qed.

(* ---- a valid UTF-8 string denotes itself *)
Lemma inr_iff c lo hi : inr c lo hi = true <-> lo <= c <= hi.
Proof. unfold inr. rewrite andb_true_iff, !N.leb_le. tauto. Qed.

Ltac inr_false := match goal with |- context [inr ?b ?lo ?hi] =>
  replace (inr b lo hi) with false by (symmetry; apply not_true_iff_false; rewrite inr_iff; lia) end.
Ltac eqb_false := match goal with |- context [N.eqb ?b ?k] =>
  replace (N.eqb b k) with false by (symmetry; apply N.eqb_neq; lia) end.
Ltac inr_true := match goal with |- context [inr ?b ?lo ?hi] =>
  replace (inr b lo hi) with true by (symmetry; apply inr_iff; lia) end.

Lemma lead_c2 b : 194 <= b <= 223 -> lead b = Some (2%nat, 128, 191).
Proof. intros H. unfold lead. inr_true. reflexivity. Qed.
Lemma lead_e1 b : 225 <= b <= 236 -> lead b = Some (3%nat, 128, 191).
Proof. intros H. unfold lead. inr_false. eqb_false. inr_true. reflexivity. Qed.
Lemma lead_ee b : 238 <= b <= 239 -> lead b = Some (3%nat, 128, 191).
Proof. intros H. unfold lead. inr_false. eqb_false. inr_false. eqb_false. inr_true. reflexivity. Qed.
Lemma lead_f1 b : 241 <= b <= 243 -> lead b = Some (4%nat, 128, 191).
Proof. intros H. unfold lead. inr_false. eqb_false. inr_false. eqb_false. inr_false. eqb_false. inr_true. reflexivity. Qed.

Lemma decode1_seq2 b0 b1 t lo hi : 128 <= b0 -> lead b0 = Some (2%nat, lo, hi) -> lo <= b1 <= hi ->
  snd (decode1 (b0 :: b1 :: t)) = 2%nat.
Proof.
  intros H0 Hl H1. unfold decode1. replace (b0 <? 128) with false by (symmetry; apply N.ltb_ge; lia).
  rewrite Hl. inr_true. reflexivity.
Qed.
Lemma decode1_seq3 b0 b1 b2 t lo hi : 128 <= b0 -> lead b0 = Some (3%nat, lo, hi) -> lo <= b1 <= hi -> is_cont b2 = true ->
  snd (decode1 (b0 :: b1 :: b2 :: t)) = 3%nat.
Proof.
  intros H0 Hl H1 H2. unfold decode1. replace (b0 <? 128) with false by (symmetry; apply N.ltb_ge; lia).
  rewrite Hl. inr_true. cbn [negb Nat.eqb]. change (contb b2) with (is_cont b2). rewrite H2. reflexivity.
Qed.
Lemma decode1_seq4 b0 b1 b2 b3 t lo hi : 128 <= b0 -> lead b0 = Some (4%nat, lo, hi) -> lo <= b1 <= hi ->
  is_cont b2 = true -> is_cont b3 = true ->
  snd (decode1 (b0 :: b1 :: b2 :: b3 :: t)) = 4%nat.
Proof.
  intros H0 Hl H1 H2 H3. unfold decode1. replace (b0 <? 128) with false by (symmetry; apply N.ltb_ge; lia).
  rewrite Hl. inr_true. cbn [negb Nat.eqb]. change (contb b2) with (is_cont b2). change (contb b3) with (is_cont b3).
  rewrite H2, H3. reflexivity.
Qed.

Lemma not_bad_of_width rn : (2 <= snd rn)%nat -> is_bad_byte rn = false.
Proof.
  intros H. unfold is_bad_byte. apply andb_false_iff. right. apply Nat.eqb_neq. lia.
Qed.

Lemma is_cont_iff c : is_cont c = true <-> 128 <= c <= 191.
Proof. unfold is_cont. rewrite andb_true_iff, !N.leb_le. tauto. Qed.

(* a well-formed multi-byte sequence at the front: DecodeRuneInString takes it whole *)
Lemma valid_front b t : 128 <= b -> valid_utf8 (b :: t) = true ->
  (2 <= snd (decode1 (b :: t)))%nat /\ valid_utf8 (skipn (snd (decode1 (b :: t))) (b :: t)) = true.
Proof.
  intros Hb Hv. cbn [valid_utf8] in Hv.
  replace (b <? 128) with false in Hv by (symmetry; apply N.ltb_ge; lia).
  destruct ((194 <=? b) && (b <=? 223)) eqn:C2.
  { apply andb_true_iff in C2 as [Ca Cb]. apply N.leb_le in Ca, Cb.
    destruct t as [|c1 r1]; [discriminate|]. apply andb_true_iff in Hv as [Hc Hr]. apply is_cont_iff in Hc.
    rewrite (decode1_seq2 b c1 r1 128 191 Hb (lead_c2 b ltac:(lia)) Hc). split; [lia | exact Hr]. }
  destruct ((224 <=? b) && (b <=? 239)) eqn:C3.
  { apply andb_true_iff in C3 as [Ca Cb]. apply N.leb_le in Ca, Cb.
    destruct t as [|c1 [|c2 r2]]; try discriminate.
    apply andb_true_iff in Hv as [Hv Hr]. apply andb_true_iff in Hv as [Hc1 Hc2].
    destruct (N.eqb_spec b 224) as [->|N224].
    - apply andb_true_iff in Hc1 as [He1 He2]. apply N.leb_le in He1, He2.
      rewrite (decode1_seq3 224 c1 c2 r2 160 191 Hb eq_refl ltac:(lia) Hc2). split; [lia | exact Hr].
    - destruct (N.eqb_spec b 237) as [->|N237].
      + apply andb_true_iff in Hc1 as [He1 He2]. apply N.leb_le in He1, He2.
        rewrite (decode1_seq3 237 c1 c2 r2 128 159 Hb eq_refl ltac:(lia) Hc2). split; [lia | exact Hr].
      + apply is_cont_iff in Hc1.
        assert (Hcase : (225 <= b <= 236) \/ (238 <= b <= 239)) by lia.
        destruct Hcase as [Hc|Hc].
        * rewrite (decode1_seq3 b c1 c2 r2 128 191 Hb (lead_e1 b Hc) Hc1 Hc2). split; [lia | exact Hr].
        * rewrite (decode1_seq3 b c1 c2 r2 128 191 Hb (lead_ee b Hc) Hc1 Hc2). split; [lia | exact Hr]. }
  destruct ((240 <=? b) && (b <=? 244)) eqn:C4; [|discriminate].
  apply andb_true_iff in C4 as [Ca Cb]. apply N.leb_le in Ca, Cb.
  destruct t as [|c1 [|c2 [|c3 r3]]]; try discriminate.
  apply andb_true_iff in Hv as [Hv Hr]. apply andb_true_iff in Hv as [Hv Hc3]. apply andb_true_iff in Hv as [Hc1 Hc2].
  destruct (N.eqb_spec b 240) as [->|N240].
  - apply andb_true_iff in Hc1 as [He1 He2]. apply N.leb_le in He1, He2.
    rewrite (decode1_seq4 240 c1 c2 c3 r3 144 191 Hb eq_refl ltac:(lia) Hc2 Hc3). split; [lia | exact Hr].
  - destruct (N.eqb_spec b 244) as [->|N244].
    + apply andb_true_iff in Hc1 as [He1 He2]. apply N.leb_le in He1, He2.
      rewrite (decode1_seq4 244 c1 c2 c3 r3 128 143 Hb eq_refl ltac:(lia) Hc2 Hc3). split; [lia | exact Hr].
    + apply is_cont_iff in Hc1.
      rewrite (decode1_seq4 b c1 c2 c3 r3 128 191 Hb (lead_f1 b ltac:(lia)) Hc1 Hc2 Hc3). split; [lia | exact Hr].
Qed.

Lemma sanitize_valid : forall f s, (length s <= f)%nat -> valid_utf8 s = true -> sanitize_fuel f s = s.
Proof.
  induction f as [|f IH]; intros s Hlen Hv.
  - destruct s; [reflexivity | cbn [length] in Hlen; lia].
  - destruct s as [|b t]; [reflexivity|]. cbn [sanitize_fuel]. cbn [length] in Hlen.
    destruct (N.ltb_spec b 128) as [Hb|Hb].
    + cbn [valid_utf8] in Hv. replace (b <? 128) with true in Hv by (symmetry; apply N.ltb_lt; lia).
      rewrite IH by (try lia; exact Hv). reflexivity.
    + destruct (valid_front b t Hb Hv) as [Hw Hrest].
      rewrite (not_bad_of_width _ Hw).
      pose proof (decode1_size (b :: t) ltac:(discriminate)) as Hs.
      rewrite IH; [apply firstn_skipn | rewrite skipn_length; cbn [length] in *; lia | exact Hrest].
Qed.

Theorem utf8_sanitize_valid : forall s, valid_utf8 s = true -> utf8_sanitize s = s.
Proof. intros s H. apply sanitize_valid; [lia | exact H]. Qed.

(* ---- the C07 round trip without the string-encoding oracle ----------------
   With json.Marshal on strings MODELLED (go_json_string) and proved to denote
   utf8_sanitize, nothing is assumed about the encoding of header keys and of
   text fall-backs any more.  What remains an oracle is json.Marshal of the
   ITEMS: each such encoding has to be valid JSON for the parser (a boolean
   computed from the table, evaluated on every case). *)
From Tab Require Import Model.Json Spec.JsonExpect Proofs.JsonModelProofs Proofs.JsonErrProofs Proofs.JsonFrame.
Local Close Scope N_scope.

(* every item encoding that stands for a cell's value (i.e. not replaced by
   the text fall-back) parses *)
Definition item_enc_validb (c : vcell) : bool :=
  match vc_json c with
  | None => true
  | Some e =>
      if bytes_eqb e the_empty_obj && negb (match vc_text c with [] => true | _ => false end)
      then true
      else val_validb e
  end.
Definition item_encodings_validb (v : view) : bool := forallb (forallb item_enc_validb) (body_rows v).

Lemma item_encodings_ok v : item_encodings_validb v = true ->
  encodings_ok go_json_string utf8_sanitize dec_val v.
Proof.
  unfold item_encodings_validb, encodings_ok. rewrite forallb_forall, !Forall_forall. intros H. split.
  - intros h _. apply go_json_string_ok.
  - intros cells Hc. apply Forall_forall. intros c Hin.
    specialize (H cells Hc). rewrite forallb_forall in H. specialize (H c Hin).
    unfold item_enc_validb in H. intros e He. rewrite He in H.
    destruct (bytes_eqb e the_empty_obj && negb (match vc_text c with [] => true | _ => false end)).
    + apply go_json_string_ok.
    + apply val_validb_ok, H.
Qed.

Theorem json_roundtrip_modelled_strings v :
  wf_view v -> item_encodings_validb v = true ->
  match json_render go_json_string v with
  | Ok out =>
      ~ json_error_condition v
      /\ parse_json out = Some (json_expected utf8_sanitize (cell_denotation utf8_sanitize dec_val) v)
  | Err => json_error_condition v
  | Panic => False
  end.
Proof.
  intros Hwf H. exact (json_valid_and_mirrors go_json_string utf8_sanitize dec_val v Hwf (item_encodings_ok v H)).
Qed.

(* a string item's own encoding is the model's, so it needs no premise either *)
Lemma val_validb_go_string s : val_validb (go_json_string s) = true.
Proof.
  unfold val_validb. destruct (go_json_string_ok s) as (body & E & H).
  unfold parse_json. rewrite E. unfold j_init. rewrite j_run_cons.
  change (j_step ([], MVal) DQ) with (@nil jframe, MStr [] (SNorm None)).
  rewrite H. reflexivity.
Qed.
