(* C11, exactly once: facts about the expected log alone (Spec/ErrLog.v).
   With distinct error ids, the log of a well-formed history contains every
   error of a delivered source once, none of an undelivered one, nothing else,
   and each source's errors in the order they were raised. *)
From Tab Require Import Model.ErrCont Model.ErrRoute Spec.ErrLog Proofs.ErrContProofs Proofs.ErrRouteProofs.

(* ---- lists *)

Lemma NoDup_app_iff {A} (a b : list A) :
  NoDup (a ++ b) <-> NoDup a /\ NoDup b /\ forall x, In x a -> ~ In x b.
Proof.
  induction a as [|y a IH]; simpl.
  - split; [intros H; repeat split; [constructor | exact H | intros x []] | intros (_ & H & _); exact H].
  - split.
    + intros H. inversion H as [|? ? N ND]; subst. apply IH in ND as (Na & Nb & D).
      split; [|split; [exact Nb|]].
      * constructor; [|exact Na]. intros I. apply N. apply in_or_app. left. exact I.
      * intros x [<-|I]; [|apply D; exact I]. intros I. apply N. apply in_or_app. right. exact I.
    + intros (Na & Nb & D). inversion Na as [|? ? N Na']; subst. constructor.
      * intros I. apply in_app_or in I as [I|I]; [exact (N I) | exact (D y (or_introl eq_refl) I)].
      * apply IH. split; [exact Na'|]. split; [exact Nb|]. intros x I. apply D. right. exact I.
Qed.

Lemma filter_all_true {A} (f : A -> bool) l : (forall x, In x l -> f x = true) -> filter f l = l.
Proof.
  induction l as [|x l IH]; intros H; simpl; [reflexivity|].
  rewrite (H x (or_introl eq_refl)). f_equal. apply IH. intros y I. apply H. right. exact I.
Qed.

Lemma filter_all_false {A} (f : A -> bool) l : (forall x, In x l -> f x = false) -> filter f l = [].
Proof.
  induction l as [|x l IH]; intros H; simpl; [reflexivity|].
  rewrite (H x (or_introl eq_refl)). apply IH. intros y I. apply H. right. exact I.
Qed.

Lemma filter_ext_on {A} (f g : A -> bool) l : (forall x, In x l -> f x = g x) -> filter f l = filter g l.
Proof.
  induction l as [|x l IH]; intros H; simpl; [reflexivity|].
  rewrite (H x (or_introl eq_refl)), IH; [reflexivity|]. intros y I. apply H. right. exact I.
Qed.

Lemma memb_in l e : memb l e = true <-> In e l.
Proof.
  unfold memb. rewrite existsb_exists. split.
  - intros (x & I & E). apply N.eqb_eq in E. subst. exact I.
  - intros I. exists e. split; [exact I | apply N.eqb_refl].
Qed.

Lemma memb_not_in l e : ~ In e l -> memb l e = false.
Proof. intros H. destruct (memb l e) eqn:E; [apply memb_in in E; contradiction | reflexivity]. Qed.

Lemma memb_app a b e : memb (a ++ b) e = memb a e || memb b e.
Proof. apply existsb_app. Qed.

(* ---- sources *)

Lemma raised_by_incl h w : incl (raised_by h w) (all_ids h).
Proof.
  induction h as [|ev h IH]; simpl; [intros x []|].
  intros x I. apply in_app_or in I as [I|I]; apply in_or_app.
  - left. destruct (src_eqb (ev_src ev) w); [exact I | destruct I].
  - right. apply IH. exact I.
Qed.

Lemma raised_by_nodup h w : NoDup (all_ids h) -> NoDup (raised_by h w).
Proof.
  induction h as [|ev h IH]; simpl; intros H; [constructor|].
  apply NoDup_app_iff in H as (Na & Nb & D). apply NoDup_app_iff. split; [|split].
  - destruct (src_eqb (ev_src ev) w); [exact Na | constructor].
  - apply IH. exact Nb.
  - intros x I J. destruct (src_eqb (ev_src ev) w); [|destruct I].
    apply (D x I). apply (raised_by_incl h w). exact J.
Qed.

Lemma raised_by_disjoint h w w' e :
  NoDup (all_ids h) -> w <> w' -> In e (raised_by h w) -> ~ In e (raised_by h w').
Proof.
  induction h as [|ev h IH]; simpl; intros H N I J; [exact I|].
  apply NoDup_app_iff in H as (Na & Nb & D).
  apply in_app_or in I as [I|I]; apply in_app_or in J as [J|J].
  - destruct (src_eqb (ev_src ev) w) eqn:E1; [|destruct I].
    destruct (src_eqb (ev_src ev) w') eqn:E2; [|destruct J].
    apply src_eqb_eq in E1, E2. congruence.
  - destruct (src_eqb (ev_src ev) w); [|destruct I]. apply (D e I). apply (raised_by_incl h w'). exact J.
  - destruct (src_eqb (ev_src ev) w'); [|destruct J]. apply (D e J). apply (raised_by_incl h w). exact I.
  - exact (IH Nb N I J).
Qed.

Lemma not_mentioned ev r : mentions ev r = false ->
  joins ev r = false /\ (if src_eqb (ev_src ev) (Some r) then ev_ids ev else []) = [].
Proof.
  destruct ev as [r' e|e|es|r'|r'|r'|r' e|s r' e|r'|e|r' e]; simpl; intros M; try rewrite M; try (split; reflexivity).
  destruct (site_has_row s); simpl; [rewrite M|]; split; reflexivity.
Qed.

Lemma fresh_not_joined h r : fresh h r = true -> joined h r = false /\ raised_by h (Some r) = [].
Proof.
  unfold fresh, joined, raised_by. induction h as [|ev h IH]; simpl; intros H; [split; reflexivity|].
  apply negb_true_iff in H. apply orb_false_iff in H as [M R].
  destruct (IH ltac:(apply negb_true_iff; exact R)) as [J P]. rewrite J, P.
  destruct (not_mentioned ev r M) as [Q1 Q2]. rewrite Q1, Q2. split; reflexivity.
Qed.

(* ---- the invariant of the expected log *)

Definition once_inv (h : list event) : Prop :=
  incl (expected_errors h) (all_ids h)
  /\ NoDup (expected_errors h)
  /\ forall w, filter (memb (raised_by h w)) (expected_errors h) = if delivered h w then raised_by h w else [].

Lemma once_init : once_inv [].
Proof.
  split; [intros x []|]. split; [constructor|]. intros w. simpl. destruct (delivered [] w); reflexivity.
Qed.

(* errors of the new event are nowhere in the log so far *)
Lemma new_not_in_log h ev e :
  incl (expected_errors h) (all_ids h) -> NoDup (all_ids h ++ ev_ids ev) ->
  In e (expected_errors h) -> ~ In e (ev_ids ev).
Proof.
  intros Hi Hn I J. apply NoDup_app_iff in Hn as (_ & _ & D). exact (D e (Hi e I) J).
Qed.

Lemma new_not_raised h ev w e :
  NoDup (all_ids h ++ ev_ids ev) -> In e (ev_ids ev) -> ~ In e (raised_by h w).
Proof.
  intros Hn I J. apply NoDup_app_iff in Hn as (_ & _ & D). exact (D e (raised_by_incl h w e J) I).
Qed.

(* the part of the log so far that belongs to w does not change *)
Lemma old_part h ev w :
  incl (expected_errors h) (all_ids h) -> NoDup (all_ids h ++ ev_ids ev) ->
  filter (memb (raised_by (h ++ [ev]) w)) (expected_errors h) = filter (memb (raised_by h w)) (expected_errors h).
Proof.
  intros Hi Hn. apply filter_ext_on. intros e I. rewrite raised_by_snoc, memb_app.
  destruct (src_eqb (ev_src ev) w); [|apply orb_false_r].
  rewrite (memb_not_in (ev_ids ev) e); [apply orb_false_r|]. exact (new_not_in_log h ev e Hi Hn I).
Qed.

Lemma once_plain h ev : once_inv h -> plain ev -> NoDup (all_ids (h ++ [ev])) -> once_inv (h ++ [ev]).
Proof.
  intros (Hi & Hd & Hf) Hp Hn. unfold once_inv. rewrite all_ids_snoc in *.
  rewrite expected_snoc, plain_contribution by exact Hp.
  assert (Nn : NoDup (ev_ids ev)) by (apply NoDup_app_iff in Hn; tauto).
  split; [|split].
  - intros e I. apply in_app_or in I as [I|I]; apply in_or_app; [left; exact (Hi e I)|].
    right. destruct (delivered h (ev_src ev)); [exact I | destruct I].
  - apply NoDup_app_iff. split; [exact Hd|]. split.
    + destruct (delivered h (ev_src ev)); [exact Nn | constructor].
    + intros e I J. destruct (delivered h (ev_src ev)); [|destruct J].
      exact (new_not_in_log h ev e Hi Hn I J).
  - intros w. rewrite filter_app, old_part, Hf by assumption.
    assert (Dw : delivered (h ++ [ev]) w = delivered h w).
    { destruct w as [r|]; [|reflexivity]. simpl. apply plain_joined. exact Hp. }
    rewrite Dw, raised_by_snoc.
    destruct (src_eqb (ev_src ev) w) eqn:S.
    + apply src_eqb_eq in S. subst w. destruct (delivered h (ev_src ev)); [|reflexivity].
      f_equal. apply filter_all_true. intros e I. rewrite memb_app.
      rewrite (proj2 (memb_in (ev_ids ev) e) I). apply orb_true_r.
    + rewrite app_nil_r. rewrite filter_all_false; [rewrite app_nil_r; reflexivity|].
      intros e I. apply memb_not_in.
      destruct (delivered h (ev_src ev)); [|destruct I]. exact (new_not_raised h ev w e Hn I).
Qed.

Lemma raised_by_snoc_silent h ev w : ev_ids ev = [] -> raised_by (h ++ [ev]) w = raised_by h w.
Proof.
  intros E. rewrite raised_by_snoc, E. destruct (src_eqb (ev_src ev) w); apply app_nil_r.
Qed.

Lemma once_attach h r : once_inv h -> joined h r = false -> NoDup (all_ids h) -> once_inv (h ++ [AttachRow r]).
Proof.
  intros (Hi & Hd & Hf) J Hn.
  assert (C : contribution h (AttachRow r) = raised_by h (Some r)).
  { unfold contribution. simpl. apply app_nil_r. }
  assert (Hfr := Hf (Some r)). simpl in Hfr. rewrite J in Hfr.
  unfold once_inv. rewrite expected_snoc, C, all_ids_snoc. simpl ev_ids. rewrite app_nil_r.
  split; [|split].
  - intros e I. apply in_app_or in I as [I|I]; [exact (Hi e I) | exact (raised_by_incl h (Some r) e I)].
  - apply NoDup_app_iff. split; [exact Hd|]. split; [apply raised_by_nodup; exact Hn|].
    intros e I K.
    assert (In e (filter (memb (raised_by h (Some r))) (expected_errors h))).
    { apply filter_In. split; [exact I | apply memb_in; exact K]. }
    rewrite Hfr in H. destruct H.
  - intros w. rewrite raised_by_snoc_silent by reflexivity. rewrite filter_app, Hf.
    destruct w as [r'|]; simpl delivered.
    + rewrite joined_snoc. simpl joins. destruct (Nat.eq_dec r r') as [<-|N].
      * rewrite Nat.eqb_refl, orb_true_r, J. simpl.
        apply filter_all_true. intros e I. apply memb_in. exact I.
      * replace (r =? r') with false by (symmetry; apply Nat.eqb_neq; exact N). rewrite orb_false_r.
        rewrite filter_all_false; [apply app_nil_r|].
        intros e I. apply memb_not_in. apply (raised_by_disjoint h (Some r) (Some r') e Hn); [congruence | exact I].
    + rewrite filter_all_false; [apply app_nil_r|].
      intros e I. apply memb_not_in. apply (raised_by_disjoint h (Some r) None e Hn); [discriminate | exact I].
Qed.

Lemma once_made h ev r :
  once_inv h -> (ev = AddSeparator r \/ ev = AddHeaders r) -> fresh h r = true -> once_inv (h ++ [ev]).
Proof.
  intros (Hi & Hd & Hf) Hev F. destruct (fresh_not_joined h r F) as [J P].
  assert (C : contribution h ev = []) by (destruct Hev; subst; reflexivity).
  assert (Jn : forall r', joins ev r' = (r =? r')) by (destruct Hev; subst; reflexivity).
  assert (S : ev_ids ev = []) by (destruct Hev; subst; reflexivity).
  unfold once_inv. rewrite expected_snoc, C, all_ids_snoc, S, !app_nil_r.
  split; [exact Hi|]. split; [exact Hd|].
  intros w. rewrite raised_by_snoc_silent by exact S. rewrite Hf.
  destruct w as [r'|]; [|reflexivity]. simpl. rewrite joined_snoc, Jn.
  destruct (r =? r') eqn:Q.
  - apply Nat.eqb_eq in Q. subst r'. rewrite J, P. reflexivity.
  - rewrite orb_false_r. reflexivity.
Qed.

Lemma nodup_ids_prefix h ev : NoDup (all_ids (h ++ [ev])) -> NoDup (all_ids h).
Proof. rewrite all_ids_snoc. intros H. apply NoDup_app_iff in H. tauto. Qed.

Lemma once_all h : wf_hist h -> NoDup (all_ids h) -> once_inv h.
Proof.
  induction h as [|ev h IH] using rev_ind; intros W Hn; [exact once_init|].
  unfold wf_hist in W. rewrite wf_snoc in W. apply andb_true_iff in W as [W1 W2].
  specialize (IH W1 (nodup_ids_prefix h ev Hn)).
  destruct ev as [r e|e|es|r|r|r|r e|s r e|r|e|r e].
  - apply once_plain; [exact IH | exact I | exact Hn].
  - apply once_plain; [exact IH | exact I | exact Hn].
  - apply once_plain; [exact IH | exact I | exact Hn].
  - apply once_attach; [exact IH | | exact (nodup_ids_prefix _ _ Hn)].
    simpl in W2. apply andb_true_iff in W2 as [W2 _]. apply negb_true_iff in W2. exact W2.
  - eapply once_made; [exact IH | left; reflexivity | exact W2].
  - eapply once_made; [exact IH | right; reflexivity | exact W2].
  - apply once_plain; [exact IH | exact I | exact Hn].
  - apply once_plain; [exact IH | exact I | exact Hn].
  (* the other table's events raise nothing here and join nothing *)
  - apply once_plain; [exact IH | exact I | exact Hn].
  - apply once_plain; [exact IH | exact I | exact Hn].
  - apply once_plain; [exact IH | exact I | exact Hn].
Qed.

(* ---- exactly once, on the model's table *)

Definition log_of (o : option (list err)) : list err := match o with None => [] | Some l => l end.

Lemma log_of_view l : log_of (view l) = map Some l.
Proof. destruct l; reflexivity. Qed.

Lemma count_occ_map_some l e : count_occ err_eq_dec (map Some l) (Some e) = count_occ N.eq_dec l e.
Proof.
  induction l as [|x l IH]; [reflexivity|]. simpl.
  destruct (err_eq_dec (Some x) (Some e)) as [E|E]; destruct (N.eq_dec x e) as [E'|E'];
    try congruence; rewrite IH; reflexivity.
Qed.

Lemma filter_map_some (f : errid -> bool) l :
  filter (fun x => match x with Some e => f e | None => false end) (map Some l) = map Some (filter f l).
Proof.
  induction l as [|x l IH]; [reflexivity|]. simpl. destruct (f x); simpl; rewrite IH; reflexivity.
Qed.

Theorem exactly_once : forall h, wf_hist h -> NoDup (all_ids h) ->
  let log := log_of (table_errors (run h)) in
  (* every error of the table, or of a row that belongs to the table at the end: once *)
  (forall w e, delivered h w = true -> In e (raised_by h w) -> count_occ err_eq_dec log (Some e) = 1)
  (* none of a row that never joined *)
  /\ (forall r e, joined h r = false -> In e (raised_by h (Some r)) -> ~ In (Some e) log)
  (* nothing else, and never nil *)
  /\ (forall x, In x log -> exists e, x = Some e /\ In e (all_ids h))
  (* each source's errors in the order they were raised *)
  /\ (forall w, delivered h w = true ->
        filter (fun x => match x with Some e => memb (raised_by h w) e | None => false end) log
        = map Some (raised_by h w)).
Proof.
  intros h W Hn log. unfold log. rewrite (table_log h W), log_of_view.
  destruct (once_all h W Hn) as (Hi & Hd & Hf).
  split; [|split; [|split]].
  - intros w e D I. rewrite count_occ_map_some.
    apply (proj1 (NoDup_count_occ' N.eq_dec (expected_errors h)) Hd).
    assert (In e (filter (memb (raised_by h w)) (expected_errors h))).
    { rewrite Hf, D. exact I. }
    apply filter_In in H. tauto.
  - intros r e J I K. apply in_map_iff in K as (x & E & K). inversion E; subst x.
    assert (In e (filter (memb (raised_by h (Some r))) (expected_errors h))).
    { apply filter_In. split; [exact K | apply memb_in; exact I]. }
    rewrite Hf in H. simpl in H. rewrite J in H. destruct H.
  - intros x I. apply in_map_iff in I as (e & <- & I). exists e. split; [reflexivity | exact (Hi e I)].
  - intros w D. specialize (Hf w). rewrite D in Hf.
    rewrite (filter_map_some (memb (raised_by h w))), Hf. reflexivity.
Qed.

(* what is raised on the other table, or on a row after the other table took
   it, never shows up here (and by [exactly_once] nothing raised on the row
   while it was here is lost: [delivered] stays true for it) *)
Theorem elsewhere_never : forall h, wf_hist h -> NoDup (all_ids h ++ other_ids h) ->
  forall e, In e (other_ids h) -> ~ In (Some e) (log_of (table_errors (run h))).
Proof.
  intros h W Hn e I K. apply NoDup_app_iff in Hn as (Na & _ & D).
  destruct (exactly_once h W Na) as (_ & _ & H3 & _).
  destruct (H3 _ K) as (e' & E & I'). inversion E; subst e'. exact (D e I' I).
Qed.
