(* C12 - rendering wrappers are transparent for properties: the machine behind
   any number of wrappers refines the per-owner abstract maps of
   Spec/PropMapVia.v, reaches exactly the core states of the history with the
   facades erased, and keeps the frame property between owners whichever
   facades the set and the read go through. *)
From Tab Require Import Model.Props Model.PropsHeap Model.PropsVia Spec.PropMap Spec.PropMapVia
  Proofs.PropsProofs Proofs.PropsHeapProofs Proofs.PropsMachineProofs.

Lemma facade_exists vs w : w <= length (v_wraps vs) -> exists f, facade vs w = Some f.
Proof.
  intros H. destruct w as [|i]; cbn [facade]; [eauto|].
  destruct (nth_error (v_wraps vs) i) eqn:E; [eauto|].
  apply nth_error_None in E. lia.
Qed.

Lemma facade_none vs w : length (v_wraps vs) < w -> facade vs w = None.
Proof.
  intros H. destruct w as [|i]; [lia|]. cbn [facade].
  destruct (nth_error (v_wraps vs) i) eqn:E; [|reflexivity].
  assert (i < length (v_wraps vs)) by (apply nth_error_Some; congruence). lia.
Qed.

Lemma call_on_eq vs f o :
  call_on vs f o = bind (m_step (v_core vs) o) (fun sr => Ok (mkV (fst sr) (v_wraps vs), snd sr)).
Proof. destruct f; reflexivity. Qed.

Section Via.
Variable U : list key.
Hypothesis U_nodup : NoDup U.

Definition VRel (vs : vstate) (ss : vsstate) : Prop :=
  Rel U (v_core vs) (fst ss) /\ length (v_wraps vs) = snd ss.

Lemma vrel_init : VRel v_init vs_init.
Proof. split; [apply rel_init|reflexivity]. Qed.

Definition vkey_in_U (o : vop) : Prop := Forall (key_in_U U) (vop_op o).

Lemma vstep_ok vs ss o : VRel vs ss -> vkey_in_U o ->
  exists vs', v_step vs o = Ok (vs', snd (vs_step ss o)) /\ VRel vs' (fst (vs_step ss o)).
Proof.
  intros [R L] KU. destruct o as [kind|w x]; cbn [v_step vs_step].
  - eexists. split; [reflexivity|]. split; cbn [v_core v_wraps fst snd]; [exact R|].
    rewrite app_length. cbn. lia.
  - destruct (w <=? snd ss) eqn:E.
    + apply Nat.leb_le in E. rewrite <- L in E.
      destruct (facade_exists vs w E) as (f & ->). rewrite call_on_eq.
      assert (key_in_U U x) as Kx by (inversion KU; assumption).
      destruct (step_ok U vs.(v_core) (fst ss) x R Kx) as (st' & Es & R').
      rewrite Es. cbn [bind fst snd]. eexists. split; [reflexivity|].
      split; cbn [v_core v_wraps fst snd]; assumption.
    + apply Nat.leb_gt in E. rewrite <- L in E. rewrite (facade_none vs w E).
      eexists. split; [reflexivity|]. split; assumption.
Qed.

Lemma v_entry_ok vs ss vo : VRel vs ss -> v_entry vs U vo = Ok (vs_entry ss U vo).
Proof.
  intros [R L]. unfold v_entry, vs_entry. destruct (fst vo <=? snd ss) eqn:E.
  - apply Nat.leb_le in E. rewrite <- L in E. destruct (facade_exists vs _ E) as (f & ->).
    apply (m_entry_ok U U_nodup); exact R.
  - apply Nat.leb_gt in E. rewrite <- L in E. rewrite (facade_none vs _ E). reflexivity.
Qed.

Lemma v_dump_ok vs ss watch : VRel vs ss -> v_dump vs U watch = Ok (vs_dump ss U watch).
Proof.
  intros R. induction watch as [|o ws IH]; cbn [v_dump vs_dump map]; auto.
  rewrite (v_entry_ok vs ss o R). cbn [bind]. unfold vs_dump in IH. rewrite IH. reflexivity.
Qed.

Lemma vrun_refines watch ops : forall vs ss,
  VRel vs ss -> Forall vkey_in_U ops -> v_run vs U watch ops = vs_run ss U watch ops.
Proof.
  induction ops as [|o rest IH]; intros vs ss R F; [reflexivity|].
  inversion F as [|? ? Ho Hr]; subst.
  destruct (vstep_ok vs ss o R Ho) as (vs' & E & R').
  cbn [v_run vs_run]. rewrite E. rewrite (v_dump_ok vs' _ watch R'). f_equal. apply IH; auto.
Qed.

End Via.

Lemma forall_vkeys U ops : Forall (key_in_U U) (vops_ops ops) -> Forall (vkey_in_U U) ops.
Proof.
  induction ops as [|o rest IH]; intros F; constructor.
  - unfold vops_ops in F. cbn [flat_map] in F. apply Forall_app in F. apply F.
  - apply IH. unfold vops_ops in F. cbn [flat_map] in F. apply Forall_app in F. apply F.
Qed.

(* the trace of any history through any facades is the one the abstract maps predict *)
Theorem via_refines U watch ops :
  vuniverse_ok U ops = true -> v_run v_init U watch ops = vexpected U watch ops.
Proof.
  intros H. apply universe_ok_spec in H as [N F].
  apply (vrun_refines U N); [apply vrel_init|apply forall_vkeys; exact F].
Qed.

(* transparency: the core table reaches exactly the state of the history with
   the facades erased (calls on facades that do not exist have no effect) *)
Theorem via_transparent ops : forall vs vs',
  v_steps vs ops = Ok vs' ->
  m_steps (v_core vs) (vops_effective (length (v_wraps vs)) ops) = Ok (v_core vs')
  /\ length (v_wraps vs) <= length (v_wraps vs').
Proof.
  induction ops as [|o rest IH]; intros vs vs' H; cbn [v_steps vops_effective] in *.
  - inversion H; subst. split; [reflexivity|lia].
  - destruct o as [kind|w x]; cbn [v_step] in H.
    + cbn [bind fst] in H. apply IH in H. cbn [v_core v_wraps] in H.
      rewrite app_length in H. cbn [length] in H. rewrite Nat.add_1_r in H.
      destruct H as [H1 H2]. split; [exact H1|lia].
    + destruct (w <=? length (v_wraps vs)) eqn:E.
      * apply Nat.leb_le in E. destruct (facade_exists vs w E) as (f & Ef).
        rewrite Ef, call_on_eq in H. cbn [m_steps].
        destruct (m_step (v_core vs) x) as [[st' r]| |]; cbn [bind fst snd] in *; try discriminate.
        apply IH in H. cbn [v_core v_wraps] in H. exact H.
      * apply Nat.leb_gt in E. rewrite (facade_none vs w E) in H. cbn [bind fst] in H.
        apply IH in H. exact H.
Qed.

Lemma effective_incl ops : forall n, incl (vops_effective n ops) (vops_ops ops).
Proof.
  induction ops as [|o rest IH]; intros n x Hx; cbn [vops_effective] in Hx; [destruct Hx|].
  unfold vops_ops. cbn [flat_map]. apply in_or_app. destruct o as [kind|w y].
  - right. exact (IH _ _ Hx).
  - destruct (w <=? n).
    + destruct Hx as [<-|Hx]; [left; left; reflexivity|right; exact (IH _ _ Hx)].
    + right. exact (IH _ _ Hx).
Qed.

(* frame, between owners, through any facades: in the state reached by any
   history, a set on owner ow made through facade w leaves what any other owner
   o' reports - read through any facade w' - unchanged.  In particular a set on
   the table through a wrapper changes nothing on the defaults column 0. *)
Theorem via_frame_owners U ops vs w ow k v w' o' :
  NoDup U -> Forall (key_in_U U) (vops_ops ops) -> In k U ->
  v_steps v_init ops = Ok vs -> w <= length (v_wraps vs) ->
  canon (s_steps s_init (vops_effective 0 ops)) ow <> canon (s_steps s_init (vops_effective 0 ops)) o' ->
  exists vs' r, v_step vs (VOp w (SetP ow k v)) = Ok (vs', r)
                /\ v_entry vs' U (w', o') = v_entry vs U (w', o').
Proof.
  intros N F Hk H Hw Ne.
  destruct (via_transparent ops v_init vs H) as [T _]. cbn [v_init v_core v_wraps length] in T.
  assert (Forall (key_in_U U) (vops_effective 0 ops)) as F'.
  { apply Forall_forall. intros x Hx. rewrite Forall_forall in F. apply F.
    exact (effective_incl ops 0 x Hx). }
  destruct (frame_owners U _ (v_core vs) ow k v o' N F' Hk T Ne) as (st' & r & Es & Ee).
  destruct (facade_exists vs w Hw) as (f & Ef).
  exists (mkV st' (v_wraps vs)), r. split.
  - cbn [v_step]. rewrite Ef, call_on_eq, Es. reflexivity.
  - unfold v_entry. cbn [fst snd].
    assert (facade (mkV st' (v_wraps vs)) w' = facade vs w') as -> by (destruct w'; reflexivity).
    destruct (facade vs w'); [|reflexivity]. cbn [v_core]. exact Ee.
Qed.
