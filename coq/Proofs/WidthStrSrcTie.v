(* The tie between the TRANSLATED SOURCE of texttable/decoration/strings.go's
   WithinWidthAligned (Generated/WidthStrSrc.v, written by tools/go2coq) and the
   hand model Model/Text.v: within_width_aligned. *)
From Tab Require Import Base.GoSem Base.GoText Proofs.TextSrcLib.
From Tab Require Import Generated.WidthStrSrc.
Local Open Scope Z_scope.

(* for EVERY width string (also W < 0), every available width (also negative),
   every alignment value (nil, the three known ones, any other): the same
   outcome - the same padded string, or Panic exactly where the model panics
   (a negative Repeat count; an unhandled alignment) *)
Theorem src_WithinWidthAligned_is_model : forall ws available how,
  src_WithinWidthAligned ws available how = Done (within_width_aligned ws available how).
Proof. wwa_tie src_WithinWidthAligned. Qed.

(* property level: a slot.  For a measured line (s, w), a column width cw and an
   alignment that resolves to a (nil = left), the translated source returns the
   flattened spec slot: the text unchanged, padded with spaces per the three
   padding rules (wwa_ok for the source text) *)
From Tab Require Import Spec.TextLayout Proofs.TextMeasure Proofs.TextRefine.

Theorem src_WithinWidthAligned_slot : forall s w cw al a,
  norm_al al = AlKnown a ->
  src_WithinWidthAligned (mkWS s (Z.of_nat w)) (Z.of_nat cw) al = Done (Ok (flat_segs (spec_slot cw a (s, w)))).
Proof. intros. rewrite src_WithinWidthAligned_is_model, (wwa_ok s w cw al a) by assumption. reflexivity. Qed.
