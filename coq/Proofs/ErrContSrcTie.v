(* The tie between the TRANSLATED SOURCE of error_containers.go
   (Generated/ErrContSrc.v, written by tools/go2coq from the Go text) and the
   hand-written model Model/ErrCont.v.

   The receiver *ErrorContainer is state: option (option (list goerror)) in,
   the same out (that IS Model/ErrCont.v's [cont]; goerror = option N = [err]).
   For every container (nil pointer, zero value, any slice), every error value
   and every list, the translated functions return Ok of exactly what the model
   defines: no panic (every ec.errors_ is reached only behind `ec == nil`), no
   loop bound involved (the loop ranges over the slice).

   The straight-line functions are decided by computation on the shape of the
   arguments; the loop of AddErrorList is handled by range_idx_fold with the
   body's effect stated as a function. *)
From Tab Require Import Base.GoSem Model.ErrCont Spec.ErrLog Proofs.ErrContProofs.
From Tab Require Import Generated.ErrContSrc.
Local Open Scope Z_scope.

Lemma mbind_ret_l' {A B} (a : A) (f : A -> M B) : mbind ([], Done (Ok a)) f = f a.
Proof. apply mbind_ret_l. Qed.
Lemma sbind_norm' {S S' L R} (s : S) (k : S -> M (ctl S' L R)) : sbind ([], Done (Ok (Norm s))) k = k s.
Proof. apply sbind_norm. Qed.
Ltac mstep := rewrite ?mbind_ret_l, ?sbind_norm, ?mbind_ret_l', ?sbind_norm', ?lift_pure_ok; cbv beta iota zeta.

Theorem src_NewErrorContainer_is_model : src_NewErrorContainer = Ok (create MNew).
Proof. reflexivity. Qed.

Theorem src_AddError_is_model (c : cont) (e : err) : src_AddError c e = Ok (add_error c e).
Proof. destruct c as [[l|]|], e as [k|]; reflexivity. Qed.

Theorem src_Errors_is_model (c : cont) : src_Errors c = Ok (errors c).
Proof. destruct c as [[[|x l]|]|]; reflexivity. Qed.

Theorem src_AddErrorList_is_model (c : cont) (el : option (list err)) :
  src_AddErrorList c el = Ok (add_error_list c el).
Proof.
  destruct c as [s|]; [|reflexivity].
  unfold src_AddErrorList, pure_fn, fn_body. cbn [not_nil negb]. repeat mstep.
  rewrite (range_idx_fold (slice_of el) _ (fun x c => add_error c x)).
  - repeat mstep. destruct el as [l|]; reflexivity.
  - intros k x c Hk. cbv beta. unfold goerror, err, errid in *. rewrite (index_nat _ k x Hk). repeat mstep.
    rewrite src_AddError_is_model. repeat mstep. reflexivity.
Qed.

(* ---------------------------------------------------------------- histories, run on the translated source *)
Definition fbind {A B} (r : fres A) (f : A -> fres B) : fres B :=
  match r with
  | Done (Ok a) => f a
  | Done Err => Done Err
  | Done Panic => Done Panic
  | OutOfFuel => OutOfFuel
  end.

(* var ec *ErrorContainer | &ErrorContainer{} | NewErrorContainer() *)
Definition src_create (m : cmode) : fres cont :=
  match m with
  | MNil => Ok None
  | MZero => Ok (Some None)
  | MNew => src_NewErrorContainer
  end.

Definition src_cont_step (r : fres cont) (o : cop) : fres cont :=
  fbind r (fun c =>
  match o with
  | OpAdd e => src_AddError c e
  | OpAddList el => src_AddErrorList c el
  | OpErrors => fbind (src_Errors c) (fun _ => Ok c)
  | OpAddSelf => fbind (src_Errors c) (fun l => src_AddErrorList c l)
  end).

Definition src_cont_run (m : cmode) (ops : list cop) : fres cont := fold_left src_cont_step ops (src_create m).

Lemma src_cont_step_is_model c o : src_cont_step (Ok c) o = Ok (cont_step c o).
Proof.
  destruct o; cbn [src_cont_step fbind cont_step];
    rewrite ?src_Errors_is_model; cbn [fbind];
    rewrite ?src_AddError_is_model, ?src_AddErrorList_is_model; reflexivity.
Qed.

Theorem src_cont_run_is_model m ops : src_cont_run m ops = Ok (cont_run m ops).
Proof.
  unfold src_cont_run, cont_run.
  replace (src_create m) with (Done (Ok (create m))) by (destruct m; reflexivity).
  generalize (create m). induction ops as [|o ops IH]; intros c; cbn [fold_left]; [reflexivity|].
  rewrite src_cont_step_is_model. apply IH.
Qed.

Theorem errcont_source_is_model :
  src_NewErrorContainer = Ok (create MNew)
  /\ (forall c e, src_AddError c e = Ok (add_error c e))
  /\ (forall c el, src_AddErrorList c el = Ok (add_error_list c el))
  /\ (forall c, src_Errors c = Ok (errors c))
  /\ (forall m ops, src_cont_run m ops = Ok (cont_run m ops)).
Proof.
  repeat split; intros.
  - apply src_AddError_is_model.
  - apply src_AddErrorList_is_model.
  - apply src_Errors_is_model.
  - apply src_cont_run_is_model.
Qed.

Lemma done_ok_inj {A} (a b : A) : @Done A (Ok a) = Done (Ok b) -> a = b.
Proof. intros H. inversion H. reflexivity. Qed.

(* the container clause of C11 on the translated source: after every history, run
   on the translated functions, from every way of making the container, there
   is a container (no panic); the translated Errors() is nil exactly when no
   non-nil error was accepted, and otherwise a non-empty list without nil
   entries that is the accepted errors in order *)
Theorem src_container_log m ops : exists c,
  src_cont_run m ops = Ok c
  /\ (src_Errors c = Ok None <-> cont_expected m ops = [])
  /\ (forall l, src_Errors c = Ok (Some l) -> l <> [] /\ ~ In None l /\ l = map Some (cont_expected m ops)).
Proof.
  exists (cont_run m ops). split; [apply src_cont_run_is_model|].
  destruct (container_log m ops) as [H1 H2]. rewrite src_Errors_is_model. split.
  - split; intros H.
    + apply H1. apply done_ok_inj in H. exact H.
    + apply H1 in H. rewrite H. reflexivity.
  - intros l H. apply H2. apply done_ok_inj in H. exact H.
Qed.

(* a nil receiver is a no-op: it stays nil and reports nil, whatever is done to it *)
Theorem src_container_nil ops :
  src_cont_run MNil ops = Ok None /\ src_Errors None = Ok None
  /\ (forall e, src_AddError None e = Ok None) /\ (forall el, src_AddErrorList None el = Ok None).
Proof.
  split; [|repeat split].
  rewrite src_cont_run_is_model. destruct (container_nil ops) as [H _]. rewrite H. reflexivity.
Qed.
