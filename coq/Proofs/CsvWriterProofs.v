From Tab Require Import Model.Csv Model.CsvSession Model.CsvWriter Spec.CsvParse Proofs.CsvProofs Proofs.CsvSessionProofs.

Section Writer.
  Variable St : Type.
  Variable wr : St -> bytes -> St * nat * bool.
  Hypothesis Hc : honours_contract St wr.

  (* all writes went through: the destination holds exactly their concatenation *)
  Lemma wr_run_ok s ws s1 acc : wr_run St wr s ws = (s1, acc, true) -> acc = concat ws.
  Proof.
    revert s s1 acc. induction ws as [|p ws IH]; intros s s1 acc; cbn [wr_run concat].
    - intros H. inversion H. reflexivity.
    - pose proof (Hc s p) as Hp. destruct (wr s p) as [[s' n] failed]. destruct Hp as [Hle Hn].
      destruct failed; [intros H; inversion H|].
      destruct (wr_run St wr s' ws) as [[s2 acc2] ok] eqn:E. intros H. inversion H. subst.
      rewrite (IH _ _ _ E), (Hn eq_refl), firstn_all. reflexivity.
  Qed.

  (* in every case what the destination holds is a prefix of what a buffer would hold *)
  Lemma wr_run_prefix s ws s1 acc ok : wr_run St wr s ws = (s1, acc, ok) -> exists rest, concat ws = acc ++ rest.
  Proof.
    revert s s1 acc ok. induction ws as [|p ws IH]; intros s s1 acc ok; cbn [wr_run concat].
    - intros H. inversion H. exists []. reflexivity.
    - pose proof (Hc s p) as Hp. destruct (wr s p) as [[s' n] failed]. destruct Hp as [Hle Hn].
      destruct failed.
      + intros H. inversion H. subst. exists (skipn n p ++ concat ws).
        rewrite app_assoc, firstn_skipn. reflexivity.
      + destruct (wr_run St wr s' ws) as [[s2 acc2] ok2] eqn:E. intros H. inversion H. subst.
        destruct (IH _ _ _ _ E) as (rest & Hr). exists rest.
        rewrite (Hn eq_refl), firstn_all, Hr, app_assoc. reflexivity.
  Qed.

  (* a write that fails makes RenderTo fail, whatever the error and however much was taken *)
  Lemma csv_render_to_wr_fault v s s1 acc :
    (let '(ws, _) := csv_render_to_tr v in wr_run St wr s ws = (s1, acc, false)) ->
    csv_render_to_wr St wr v s = (s1, acc, Err).
  Proof.
    unfold csv_render_to_wr. destruct (csv_render_to_tr v) as [ws e]. intros H. rewrite H. reflexivity.
  Qed.

  (* THE PROPERTY for every destination: when RenderTo returns nil, what the
     destination holds parses back to exactly the table *)
  Theorem csv_writer_roundtrip v s s1 acc :
    csv_render_to_wr St wr v s = (s1, acc, Ok tt) ->
    parse_csv acc = Some (csv_expected v)
    /\ Forall (fun r => length r = v_ncols v) (csv_expected v).
  Proof.
    unfold csv_render_to_wr. destruct (csv_render_to_tr v) as [ws e] eqn:Etr.
    destruct (wr_run St wr s ws) as [[s2 acc2] ok] eqn:Er. intros H.
    destruct ok; [|inversion H]. inversion H. subst.
    apply wr_run_ok in Er. subst acc.
    apply csv_roundtrip. rewrite <- csv_render_string_eq. unfold csv_render_string.
    rewrite Etr. reflexivity.
  Qed.

  (* and when it returns an error, what the destination holds is a prefix of the
     text a buffer would have been given up to that point *)
  Theorem csv_writer_prefix v s s1 acc r :
    csv_render_to_wr St wr v s = (s1, acc, r) ->
    exists rest, concat (fst (csv_render_to_tr v)) = acc ++ rest.
  Proof.
    unfold csv_render_to_wr. destruct (csv_render_to_tr v) as [ws e].
    destruct (wr_run St wr s ws) as [[s2 acc2] ok] eqn:Er. intros H. inversion H. subst.
    cbn [fst]. eapply wr_run_prefix. exact Er.
  Qed.

  Theorem csv_writer_no_panic v s : snd (csv_render_to_wr St wr v s) <> Panic.
  Proof.
    unfold csv_render_to_wr. destruct (csv_render_to_tr v) as [ws e] eqn:Etr.
    destruct (wr_run St wr s ws) as [[s2 acc2] ok]. cbn [snd]. destruct ok; [|discriminate].
    intros ->. pose proof (csv_no_panic v) as Hn. rewrite <- csv_render_string_eq in Hn.
    unfold csv_render_string in Hn. rewrite Etr in Hn. apply Hn. reflexivity.
  Qed.
End Writer.

(* ---------- the destination with room for b bytes ---------- *)

Lemma budget_contract : honours_contract nat budget_wr.
Proof.
  intros b p. unfold budget_wr. destruct (length p <=? b) eqn:E.
  - split; [lia|reflexivity].
  - apply Nat.leb_gt in E. split; [lia|discriminate].
Qed.

(* however the text is cut into writes, it holds the first b bytes of it, and
   the render goes through exactly when everything fits *)
Lemma budget_run b ws :
  let '(_, acc, ok) := wr_run nat budget_wr b ws in
  acc = firstn b (concat ws) /\ ok = (length (concat ws) <=? b).
Proof.
  revert b. induction ws as [|p ws IH]; intros b; cbn [wr_run concat].
  - rewrite firstn_nil. split; reflexivity.
  - unfold budget_wr at 1. destruct (length p <=? b) eqn:E.
    + apply Nat.leb_le in E. specialize (IH (b - length p)).
      destruct (wr_run nat budget_wr (b - length p) ws) as [[s2 acc2] ok2]. destruct IH as [Ha Ho].
      rewrite firstn_all, app_length. split.
      * rewrite firstn_app, (firstn_all2 p) by lia. rewrite Ha. reflexivity.
      * rewrite Ho. destruct (length (concat ws) <=? b - length p) eqn:E2.
        -- apply Nat.leb_le in E2. symmetry. apply Nat.leb_le. lia.
        -- apply Nat.leb_gt in E2. symmetry. apply Nat.leb_gt. lia.
    + apply Nat.leb_gt in E. split.
      * rewrite firstn_app. replace (b - length p) with 0 by lia. rewrite firstn_O, app_nil_r. reflexivity.
      * rewrite app_length. symmetry. apply Nat.leb_gt. lia.
Qed.

Theorem csv_budget_spec v b :
  let '(ws, e) := csv_render_to_tr v in
  csv_render_to_budget v b =
    (firstn b (concat ws), if length (concat ws) <=? b then e else Err).
Proof.
  unfold csv_render_to_budget, csv_render_to_wr. destruct (csv_render_to_tr v) as [ws e].
  pose proof (budget_run b ws) as H. destruct (wr_run nat budget_wr b ws) as [[s2 acc] ok].
  destruct H as [-> ->]. reflexivity.
Qed.

Theorem csv_budget_roundtrip v b acc :
  csv_render_to_budget v b = (acc, Ok tt) ->
  parse_csv acc = Some (csv_expected v) /\ Forall (fun r => length r = v_ncols v) (csv_expected v).
Proof.
  unfold csv_render_to_budget. destruct (csv_render_to_wr nat budget_wr v b) as [[s1 a] r] eqn:E.
  intros H. inversion H. subst. eapply csv_writer_roundtrip; [exact budget_contract|exact E].
Qed.
