From Tab Require Import Model.Wrap.

Section WrapProofs.
  Variable U : Type.
  Variable out : kind -> view -> res bytes.
  Variable degraded : kind -> mstate -> view -> res bytes.
  Notation tstate := (tstate U).
  Notation op := (op U).
  Notation render := (render out degraded).

  Lemma existsb_app_r {A} (f : A -> bool) l x : f x = true -> existsb f (l ++ [x]) = true.
  Proof. intros H. rewrite existsb_app. cbn. rewrite H. apply orb_true_r. Qed.

  Lemma kind_eqb_refl k : kind_eqb k k = true.
  Proof. destruct k; reflexivity. Qed.

  (* registrations only accumulate *)
  Lemma step_cbs_mono (s : tstate) (o : op) k :
    existsb (kind_eqb k) (st_cbs s) = true -> existsb (kind_eqb k) (st_cbs (step s o)) = true.
  Proof.
    destruct o as [v u|k'|k']; cbn; auto.
    destruct (measuring k'); cbn; auto. intros H. rewrite existsb_app, H. reflexivity.
  Qed.

  Lemma run_cbs_mono ops : forall (s : tstate) k,
    existsb (kind_eqb k) (st_cbs s) = true -> existsb (kind_eqb k) (st_cbs (run s ops)) = true.
  Proof.
    induction ops as [|o ops IH]; intros s k H; cbn; [exact H|].
    apply IH, step_cbs_mono, H.
  Qed.

  (* once a measuring format has been wrapped, its callback is registered for good *)
  Lemma wrapped_registered ops : forall (s : tstate) k, measuring k = true -> wrapped k ops ->
    existsb (kind_eqb k) (st_cbs (run s ops)) = true.
  Proof.
    induction ops as [|o ops IH]; intros s k Hm Hw; [destruct Hw|].
    cbn [run fold_left]. destruct Hw as [->|Hw].
    - apply run_cbs_mono. cbn. rewrite Hm. cbn. apply existsb_app_r, kind_eqb_refl.
    - apply IH; assumption.
  Qed.

  (* the view and the user-visible state after a history: those of the last build *)
  Fixpoint last_build (v : view) (u : U) (ops : list op) : view * U :=
    match ops with
    | [] => (v, u)
    | OBuild v' u' :: r => last_build v' u' r
    | _ :: r => last_build v u r
    end.

  Lemma run_observable ops : forall (s : tstate),
    observable (run s ops) = last_build (st_view s) (st_user s) ops.
  Proof.
    induction ops as [|o ops IH]; intros s; cbn [run fold_left last_build]; [reflexivity|].
    fold (run (step s o) ops). rewrite IH.
    destruct o as [v u|k|k]; cbn; try reflexivity. destruct (measuring k); reflexivity.
  Qed.

  (* ---- C10: rendering through a wrapper of kind k, after ANY history of
     building, wrapping (of any kinds, any nesting, any creation path) and
     rendering in which a k-wrapper was made, gives exactly the format's
     output for the current view. *)
  Theorem render_is_out ops (s : tstate) k : wrapped k ops ->
    render (run s ops) k = out k (st_view (run s ops)).
  Proof.
    intros Hw. unfold render.
    destruct k; try reflexivity.
    - pose proof (wrapped_registered ops s KMd eq_refl Hw) as H. cbn [invoke st_md st_view]. rewrite H. reflexivity.
    - pose proof (wrapped_registered ops s KText eq_refl Hw) as H. cbn [invoke st_text st_view]. rewrite H. reflexivity.
  Qed.

  Theorem path_independent ops1 ops2 v u k :
    wrapped k ops1 -> wrapped k ops2 ->
    fst (last_build v u ops1) = fst (last_build v u ops2) ->
    render (run (init v u) ops1) k = render (run (init v u) ops2) k.
  Proof.
    intros H1 H2 E. rewrite !render_is_out by assumption.
    pose proof (run_observable ops1 (init v u)) as O1. pose proof (run_observable ops2 (init v u)) as O2.
    unfold observable in O1, O2. cbn [init st_view st_user] in O1, O2.
    assert (st_view (run (init v u) ops1) = st_view (run (init v u) ops2)) as ->.
    { apply (f_equal fst) in O1. apply (f_equal fst) in O2. cbn in O1, O2. congruence. }
    reflexivity.
  Qed.

  (* ---- C14: wrapping and rendering never change what a caller can observe,
     and a format's output is the same before and after. *)
  Theorem renders_preserve ops (s : tstate) :
    (forall o, In o ops -> is_build o = false) ->
    observable (run s ops) = observable s.
  Proof.
    intros H. rewrite run_observable. unfold observable.
    induction ops as [|o ops IH]; [reflexivity|]. cbn [last_build].
    destruct o as [v u|k|k].
    - specialize (H (OBuild v u) (or_introl eq_refl)). discriminate.
    - apply IH. intros o Ho. apply H. right. exact Ho.
    - apply IH. intros o Ho. apply H. right. exact Ho.
  Qed.

  Theorem repeatable pre ops (s : tstate) k :
    wrapped k pre -> (forall o, In o ops -> is_build o = false) ->
    render (run (run s pre) ops) k = render (run s pre) k.
  Proof.
    intros Hw Hnb.
    assert (E : run (run s pre) ops = run s (pre ++ ops)) by (unfold run; rewrite fold_left_app; reflexivity).
    rewrite E, !render_is_out by (try assumption; apply in_or_app; left; exact Hw).
    rewrite <- E.
    pose proof (renders_preserve ops (run s pre) Hnb) as O.
    apply (f_equal fst) in O. cbn in O. rewrite O. reflexivity.
  Qed.
End WrapProofs.
