(* End to end: from a history of public-API calls over ARBITRARY items to the
   bytes a renderer emits.  The table machine (Model/Table.v: core + cells made
   from items + column properties) produces the view; the renderer theorems
   (the Csv, Json, Markdown, Html and Text proof files) are stated over views with
   well-formedness hypotheses; here those hypotheses are DISCHARGED for every
   reachable table, and what the output must contain is said in terms of the
   history and of the items' documented text (Spec/CellText.v) - the clause of
   C01 "the same text as shown by every renderer". *)
From Tab Require Import Base.Ops Model.Core Model.Cell Model.Table Spec.History Spec.TableHist Spec.CellText
     Proofs.CoreSim Proofs.TableProofs Proofs.CellProofs Proofs.TotalProofs Spec.TextLayout.
From Tab Require Import Model.Csv Spec.CsvParse Proofs.CsvProofs.

Section E2E.
  Variable W : bytes -> nat.                   (* display width of one line (go-runewidth) *)
  Variable e : env.                            (* the items' observable state *)
  Variable json : item -> option bytes.        (* encoding/json for items that are not objects *)

  Notation f := (vcell_of_item W e json).

  (* what a renderer sees after history h *)
  Definition hview (h : list top) : view := table_view f (trun h).

  Lemma hview_spec h : twf_hist h -> hview h = spec_table_view f (tspec_run h).
  Proof. apply table_view_spec. Qed.

  Lemma hview_wf h : twf_hist h -> wf_view (hview h).
  Proof. apply table_view_wf. Qed.

  Lemma hview_ncols h : twf_hist h -> v_ncols (hview h) = hist_ncols h.
  Proof. intros Hw. rewrite (hview_spec h Hw). reflexivity. Qed.

  Lemma hview_header h : twf_hist h -> v_header (hview h) = option_map (map f) (hist_header h).
  Proof. intros Hw. rewrite (hview_spec h Hw). reflexivity. Qed.

  Lemma hview_rows h : twf_hist h -> v_rows (hview h) = map (option_map (map f)) (hist_rows h).
  Proof. intros Hw. rewrite (hview_spec h Hw). reflexivity. Qed.

  Lemma hview_align h : twf_hist h ->
    v_align (hview h) = map (setting (ts_align (tspec_run h))) (seq 0 (S (hist_ncols h))).
  Proof. intros Hw. rewrite (hview_spec h Hw). reflexivity. Qed.

  Lemma hview_skip h : twf_hist h ->
    v_skip (hview h) = map (setting (ts_skip (tspec_run h))) (seq 0 (S (hist_ncols h))).
  Proof. intros Hw. rewrite (hview_spec h Hw). reflexivity. Qed.

  (* column properties, position by position *)
  Lemma nth_seq n : forall a i, i < n -> nth_error (seq a n) i = Some (a + i).
  Proof.
    induction n as [|n IH]; intros a i Hi; [lia|]. destruct i as [|i]; cbn [seq nth_error].
    - rewrite Nat.add_0_r. reflexivity.
    - rewrite IH by lia. f_equal. lia.
  Qed.
  Lemma nth_map_seq {B} (g : nat -> B) n i : i < n -> nth_error (map g (seq 0 n)) i = Some (g i).
  Proof. intros Hi. rewrite nth_error_map, nth_seq by exact Hi. reflexivity. Qed.

  Lemma hview_align_nth h i : twf_hist h -> i <= hist_ncols h -> nth_error (v_align (hview h)) i = Some (hist_align h i).
  Proof. intros Hw Hi. rewrite (hview_align h Hw). apply nth_map_seq. lia. Qed.

  Lemma hview_skip_nth h i : twf_hist h -> i <= hist_ncols h -> nth_error (v_skip (hview h)) i = Some (hist_skip h i).
  Proof. intros Hw Hi. rewrite (hview_skip h Hw). apply nth_map_seq. lia. Qed.

  (* ---- C01, renderer clause: every cell any renderer reads shows the
     documented text of the item the history put there, and counts as empty
     exactly when that text is empty *)
  Lemma texts_of_items (xs : list item) : map vc_text (map f xs) = map (documented_text e) xs.
  Proof. rewrite map_map. apply map_ext. intros it. apply vcell_of_item_text. Qed.

  Theorem hview_texts h : twf_hist h ->
    option_map (map vc_text) (v_header (hview h)) = option_map (map (documented_text e)) (hist_header h)
    /\ map (option_map (map vc_text)) (v_rows (hview h)) = map (option_map (map (documented_text e))) (hist_rows h).
  Proof.
    intros Hw. rewrite (hview_header h Hw), (hview_rows h Hw). split.
    - destruct (hist_header h); cbn [option_map]; [rewrite texts_of_items|]; reflexivity.
    - rewrite map_map. apply map_ext. intros [xs|]; cbn [option_map]; [rewrite texts_of_items|]; reflexivity.
  Qed.

  (* every cell of the view is f of some item, whatever the history *)
  Lemma hview_cells_all (P : vcell -> Prop) h : (forall it, P (f it)) -> Forall P (all_cells (hview h)).
  Proof.
    intros HP. unfold all_cells, all_rows. apply Forall_concat. apply Forall_app. split.
    - unfold hview, table_view. cbn [v_header]. destruct (t_header (tb_core (trun h))) as [hc|]; cbn [option_map]; [|constructor].
      constructor; [|constructor]. apply Forall_forall. intros c Hc. apply in_map_iff in Hc as (x & <- & _). apply HP.
    - unfold body_rows, hview, table_view. cbn [v_rows]. apply Forall_forall. intros r Hr.
      apply in_flat_map in Hr as (ro & Hro & Hin). apply in_map_iff in Hro as (tr & <- & _).
      destruct (row_cells tr) as [cs|]; cbn [option_map] in Hin; [|destruct Hin].
      destruct Hin as [<-|[]]. apply Forall_forall. intros c Hc. apply in_map_iff in Hc as (x & <- & _). apply HP.
  Qed.

  (* cells made from items are in the text renderer's domain, size overrides of
     any sign and magnitude included *)
  Lemma hview_cells_ok h : cells_ok W (hview h).
  Proof. apply hview_cells_all. intros it. apply vcell_of_item_cell_ok. Qed.

  (* the rows a renderer walks (header first, separators dropped) are the
     history's records, cell by cell *)
  Lemma hview_all_rows h : twf_hist h -> all_rows (hview h) = map (map f) (hist_records h).
  Proof.
    intros Hw. unfold all_rows, hist_records. rewrite (hview_header h Hw). unfold body_rows. rewrite (hview_rows h Hw).
    rewrite map_app. f_equal.
    - destruct (hist_header h); reflexivity.
    - induction (hist_rows h) as [|[xs|] rows IH]; cbn [map flat_map option_map app]; [reflexivity | rewrite IH; reflexivity | exact IH].
  Qed.

  Lemma hview_all_cells h : twf_hist h -> all_cells (hview h) = map f (concat (hist_records h)).
  Proof. intros Hw. unfold all_cells. rewrite (hview_all_rows h Hw), concat_map. reflexivity. Qed.

  (* an item that does not override its size: not a nested Cell value (Cell
     itself has Height and TerminalCellWidth), and an object without those two
     methods *)
  Definition item_plain (it : item) : Prop :=
    match it with
    | ICell _ => False
    | IObj id => m_height (e id) = None /\ m_width (e id) = None
    | _ => True
    end.

  Lemma item_plain_no_override it : item_plain it -> no_override W e it.
  Proof. destruct it; cbn [item_plain no_override]; tauto. Qed.

  (* where no item of the history overrides its size, the view is plain: width
     and height of every cell are those of its text (C18's cell clause carried
     to the table), which is the domain of C03/C04's geometry theorems *)
  Lemma hview_plain h : twf_hist h -> Forall item_plain (concat (hist_records h)) -> plain_view W (hview h).
  Proof.
    intros Hw Hp. unfold plain_view. rewrite (hview_all_cells h Hw). apply Forall_map.
    eapply Forall_impl; [|exact Hp]. intros it Hit. unfold plain_cell, cell_lines.
    destruct (vcell_of_item_dims W e json it (item_plain_no_override it Hit)) as [Hh Hwd]. repeat split.
    - unfold vcell_of_item. cbn [vc_widther].
      destruct it as [| s | r | o | id]; cbn [item_is_widther item_plain] in *; try reflexivity; [destruct Hit|].
      destruct Hit as [_ ->]. reflexivity.
    - exact Hwd.
    - exact Hh.
  Qed.

  (* ---- CSV (C05): whenever rendering succeeds the strict RFC 4180 parser
     reads back exactly the history's records, each field the documented text
     of the item put there, padded with empty fields to the column count *)
  Lemma csv_records_hview h : twf_hist h -> csv_records (hview h) = map (map (documented_text e)) (hist_records h).
  Proof.
    intros Hw. transitivity (map row_texts (all_rows (hview h))).
    - unfold csv_records, all_rows. rewrite map_app. f_equal. destruct (v_header (hview h)); reflexivity.
    - rewrite (hview_all_rows h Hw), map_map. apply map_ext. intros xs. apply texts_of_items.
  Qed.

  Theorem csv_history h out : twf_hist h -> csv_render (hview h) = Ok out ->
    parse_csv out = Some (map (pad_to (hist_ncols h)) (map (map (documented_text e)) (hist_records h)))
    /\ Forall (fun r => length r = hist_ncols h) (map (pad_to (hist_ncols h)) (map (map (documented_text e)) (hist_records h))).
  Proof.
    intros Hw Hr. pose proof (csv_roundtrip (hview h) out Hr) as H.
    unfold csv_expected in H. rewrite (csv_records_hview h Hw), (hview_ncols h Hw) in H. exact H.
  Qed.

  Theorem csv_history_succeeds h : twf_hist h -> 1 <= hist_ncols h -> exists out, csv_render (hview h) = Ok out.
  Proof. intros Hw Hn. apply csv_succeeds; [apply hview_wf, Hw | rewrite (hview_ncols h Hw); exact Hn]. Qed.
End E2E.
