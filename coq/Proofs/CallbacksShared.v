(* C13 - a row that another table holds too.  [OOtherAddRow r] is the other
   table's AddRow of one of this table's rows (rows are shared by pointer).
   It is no event of THIS table: a history with it and the history without it
   are inside the quantifier together, the model computes the same outcome for
   both, and the specification demands the same registrations, add-time
   invocations, views and render trace. *)
From Tab Require Export Proofs.CallbacksOnce.

Lemma wf_from_skip h1 : forall sh r h2,
  wf_from sh (h1 ++ OOtherAddRow r :: h2) = true -> wf_from sh (h1 ++ h2) = true.
Proof.
  induction h1 as [|o h1 IH]; intros sh r h2 H.
  - cbn [app wf_from shape_step] in H. apply andb_true_iff in H as [_ H]. exact H.
  - cbn [app wf_from] in *. apply andb_true_iff in H as [H1 H2].
    apply andb_true_iff. split; [exact H1 | eapply IH; exact H2].
Qed.

Lemma final_shape_skip h1 : forall sh r h2,
  final_shape sh (h1 ++ OOtherAddRow r :: h2) = final_shape sh (h1 ++ h2).
Proof.
  intros sh r h2. unfold final_shape. rewrite !fold_left_app. reflexivity.
Qed.

Lemma final_regs_skip h1 : forall regs r h2,
  final_regs regs (h1 ++ OOtherAddRow r :: h2) = final_regs regs (h1 ++ h2).
Proof.
  intros regs r h2. unfold final_regs. rewrite !fold_left_app. reflexivity.
Qed.

Lemma spec_regerr_skip h1 r h2 :
  spec_regerr (h1 ++ OOtherAddRow r :: h2) = spec_regerr (h1 ++ h2).
Proof. unfold spec_regerr. rewrite !flat_map_app. reflexivity. Qed.

Lemma add_step_other sh regs r : add_step sh regs (OOtherAddRow r) = [].
Proof. reflexivity. Qed.

Lemma spec_add_from_skip h1 : forall sh regs r h2,
  spec_add_from sh regs (h1 ++ OOtherAddRow r :: h2) = spec_add_from sh regs (h1 ++ h2).
Proof.
  induction h1 as [|o h1 IH]; intros sh regs r h2.
  - reflexivity.
  - cbn [app spec_add_from]. rewrite IH. reflexivity.
Qed.

Lemma spec_add_views_from_skip h1 : forall sh regs r h2,
  spec_add_views_from sh regs (h1 ++ OOtherAddRow r :: h2) = spec_add_views_from sh regs (h1 ++ h2).
Proof.
  induction h1 as [|o h1 IH]; intros sh regs r h2.
  - reflexivity.
  - cbn [app spec_add_views_from]. rewrite IH. reflexivity.
Qed.

Lemma spec_render_skip h1 r h2 k :
  spec_render (h1 ++ OOtherAddRow r :: h2) k = spec_render (h1 ++ h2) k.
Proof. unfold spec_render. rewrite final_shape_skip, final_regs_skip. reflexivity. Qed.

Lemma outcome_eq a b :
  oc_regerr a = oc_regerr b -> oc_add a = oc_add b -> oc_render a = oc_render b -> oc_props a = oc_props b -> a = b.
Proof. destruct a, b; simpl; intros; subst; reflexivity. Qed.

Theorem other_table_no_event h1 r h2 k :
  wf_hist (h1 ++ OOtherAddRow r :: h2) = true ->
  wf_hist (h1 ++ h2) = true
  /\ run (h1 ++ OOtherAddRow r :: h2) k = run (h1 ++ h2) k
  /\ spec_regerr (h1 ++ OOtherAddRow r :: h2) = spec_regerr (h1 ++ h2)
  /\ spec_add (h1 ++ OOtherAddRow r :: h2) = spec_add (h1 ++ h2)
  /\ spec_add_views (h1 ++ OOtherAddRow r :: h2) = spec_add_views (h1 ++ h2)
  /\ spec_render (h1 ++ OOtherAddRow r :: h2) k = spec_render (h1 ++ h2) k
  /\ spec_render_views (h1 ++ OOtherAddRow r :: h2) k = spec_render_views (h1 ++ h2) k.
Proof.
  intros W.
  assert (W' : wf_hist (h1 ++ h2) = true) by (unfold wf_hist in *; eapply wf_from_skip; exact W).
  assert (Ea : spec_add (h1 ++ OOtherAddRow r :: h2) = spec_add (h1 ++ h2))
    by (unfold spec_add; apply spec_add_from_skip).
  assert (Er : spec_render (h1 ++ OOtherAddRow r :: h2) k = spec_render (h1 ++ h2) k)
    by apply spec_render_skip.
  split; [exact W'|]. split.
  - destruct (run_spec _ k W) as [oc [E [R1 [R2 [R3 R4]]]]].
    destruct (run_spec _ k W') as [oc' [E' [R1' [R2' [R3' R4']]]]].
    rewrite E, E'. f_equal. apply outcome_eq.
    + rewrite R1, R1'. apply spec_regerr_skip.
    + rewrite R2, R2'. exact Ea.
    + rewrite R3, R3'. exact Er.
    + rewrite R4, R4', Ea, Er. reflexivity.
  - split; [apply spec_regerr_skip|]. split; [exact Ea|].
    split; [unfold spec_add_views; apply spec_add_views_from_skip|].
    split; [exact Er|].
    unfold spec_render_views. rewrite Er, final_shape_skip. reflexivity.
Qed.

(* Both ways round: a well-formed history stays well-formed when another table
   takes one of its rows with cells at any point. *)
Lemma wf_from_insert h1 : forall sh r h2,
  wf_from sh (h1 ++ h2) = true ->
  op_wf (final_shape sh h1) (OOtherAddRow r) = true ->
  wf_from sh (h1 ++ OOtherAddRow r :: h2) = true.
Proof.
  induction h1 as [|o h1 IH]; intros sh r h2 H Hop.
  - cbn [app wf_from shape_step]. cbn [final_shape fold_left] in Hop. unfold final_shape in Hop. simpl in Hop.
    apply andb_true_iff. split; [exact Hop | exact H].
  - cbn [app wf_from] in *. apply andb_true_iff in H as [H1 H2].
    apply andb_true_iff. split; [exact H1|]. apply IH; [exact H2|]. exact Hop.
Qed.

Theorem other_table_any_time h1 r h2 :
  wf_hist (h1 ++ h2) = true ->
  op_wf (final_shape shape0 h1) (OOtherAddRow r) = true ->
  wf_hist (h1 ++ OOtherAddRow r :: h2) = true.
Proof. unfold wf_hist. apply wf_from_insert. Qed.
