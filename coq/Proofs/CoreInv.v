(* The state invariant of the core model and its preservation by every
   operation except another table's AddRow taking a row of this table (the
   one thing wf_hist excludes that the model expresses). *)
From Tab Require Import Base.Ops Model.Core Spec.History.

Section Inv.
Context {A : Type}.
Notation state := (state A).
Notation cell := (cell A).

(* cells carry their 1-based position *)
Definition numbered (cs : list cell) : Prop := forall j c, nth_error cs j = Some c -> c_col c = S j.

Definition body_numbered (b : rowv A) : Prop := match b with RSep => True | RCells cs => numbered cs end.
Definition handle_numbered (h : handle A) : Prop := match h with Detached cs => numbered cs | Attached _ => True end.

Definition sizes (rows : list (trow A)) : list nat := map row_size rows.

Record Inv (hs : list nat) (st : state) : Prop := mkInv {
  inv_ncols   : t_ncols st = list_max (hs ++ sizes (t_rows st));
  inv_cols    : t_cols st = S (t_ncols st);
  inv_panic   : t_panic st = false;
  inv_rownum  : forall i tr, nth_error (t_rows st) i = Some tr -> r_num tr = S i;
  inv_cellnum : Forall (fun tr => body_numbered (r_body tr)) (t_rows st);
  inv_here    : Forall (fun tr => r_here tr = true) (t_rows st);
  inv_handles : Forall (fun p => handle_numbered (snd p)) (t_handles st);
  inv_header  : match t_header st with Some cs => numbered cs /\ In (length cs) hs | None => True end
}.

Lemma numbered_nil : numbered [].
Proof. intros [|j] c H; discriminate. Qed.

Lemma numbered_add cs x : numbered cs -> numbered (row_add_cell cs x).
Proof.
  intros H j c. unfold row_add_cell. destruct (Nat.lt_ge_cases j (length cs)) as [L|L].
  - rewrite nth_error_app1 by exact L. apply H.
  - rewrite nth_error_app2 by exact L. destruct (j - length cs) as [|k] eqn:E; cbn [nth_error].
    + intros E'. inversion E'; subst. cbn [c_col]. lia.
    + destruct k; discriminate.
Qed.

Lemma fold_add_numbered xs : forall cs, numbered cs -> numbered (fold_left row_add_cell xs cs).
Proof. induction xs as [|x xs IH]; intros cs H; cbn [fold_left]; [exact H | apply IH, numbered_add, H]. Qed.

Lemma fold_add_length xs : forall cs : list cell, length (fold_left row_add_cell xs cs) = length cs + length xs.
Proof.
  induction xs as [|x xs IH]; intros cs; cbn [fold_left length]; [lia|].
  rewrite IH. unfold row_add_cell. rewrite app_length. cbn [length]. lia.
Qed.

Lemma fold_add_items xs : forall cs : list cell, map c_item (fold_left row_add_cell xs cs) = map c_item cs ++ xs.
Proof.
  induction xs as [|x xs IH]; intros cs; cbn [fold_left]; [rewrite app_nil_r; reflexivity|].
  rewrite IH. unfold row_add_cell. rewrite map_app. cbn [map c_item]. rewrite <- app_assoc. reflexivity.
Qed.

(* resizeColumnsAtLeast under the column-record invariant *)
Lemma resize_eq (st : state) n : t_cols st = S (t_ncols st) ->
  resize_columns_at_least st n =
  mkState (t_rows st) (Nat.max (t_ncols st) n) (S (Nat.max (t_ncols st) n)) (t_header st) (t_handles st) (t_panic st).
Proof.
  intros H. unfold resize_columns_at_least. destruct (n <=? t_ncols st) eqn:E.
  - apply Nat.leb_le in E. rewrite Nat.max_l by exact E. rewrite <- H. destruct st; reflexivity.
  - apply Nat.leb_gt in E. destruct (S n <? t_cols st) eqn:F.
    + apply Nat.ltb_lt in F. lia.
    + rewrite Nat.max_r by lia. f_equal. lia.
Qed.

Lemma list_max_upd l : forall i k v, nth_error l i = Some k -> k <= v -> list_max (upd l i v) = Nat.max (list_max l) v.
Proof.
  intros i k v H L. destruct (upd_split l i k v H) as (l1 & l2 & E1 & _ & E3).
  rewrite E3, E1, !list_max_app. cbn [list_max]. lia.
Qed.

Lemma sizes_app rows tr : sizes (rows ++ [tr]) = sizes rows ++ [row_size tr].
Proof. unfold sizes. rewrite map_app. reflexivity. Qed.

Lemma rownum_snoc (rows : list (trow A)) b :
  (forall i tr, nth_error rows i = Some tr -> r_num tr = S i) ->
  forall i tr, nth_error (rows ++ [mkTRow (S (length rows)) true b]) i = Some tr -> r_num tr = S i.
Proof.
  intros H i tr. destruct (Nat.lt_ge_cases i (length rows)) as [L|L].
  - rewrite nth_error_app1 by exact L. apply H.
  - rewrite nth_error_app2 by exact L. destruct (i - length rows) as [|k] eqn:E; cbn [nth_error].
    + intros E'. inversion E'; subst. cbn [r_num]. lia.
    + destruct k; discriminate.
Qed.

Lemma inv_bind_handle hs st r h : Inv hs st -> handle_numbered h -> Inv hs (bind_handle st r h).
Proof.
  intros [] Hh. constructor; cbn [bind_handle t_rows t_ncols t_cols t_header t_handles t_panic]; auto.
Qed.

Lemma inv_add_row_cells hs st cs : Inv hs st -> numbered cs -> Inv hs (add_row_cells st cs).
Proof.
  intros [] Hc. unfold add_row_cells. rewrite resize_eq by (cbn; assumption).
  constructor; cbn [with_rows t_rows t_ncols t_cols t_header t_handles t_panic]; auto.
  - rewrite sizes_app, app_assoc, list_max_app. cbn [list_max row_size r_body body_size]. rewrite <- inv_ncols0. lia.
  - apply rownum_snoc. assumption.
  - apply Forall_app. split; [assumption|]. constructor; [exact Hc | constructor].
  - apply Forall_app. split; [assumption|]. constructor; [reflexivity | constructor].
Qed.

Lemma inv_add_separator hs st : Inv hs st -> Inv hs (add_separator st).
Proof.
  intros []. unfold add_separator.
  constructor; cbn [with_rows t_rows t_ncols t_cols t_header t_handles t_panic]; auto.
  - rewrite sizes_app, app_assoc, list_max_app. cbn [list_max row_size r_body body_size]. rewrite <- inv_ncols0. cbn [Nat.max]. rewrite Nat.max_0_r. reflexivity.
  - apply rownum_snoc. assumption.
  - apply Forall_app. split; [assumption|]. constructor; [exact I | constructor].
  - apply Forall_app. split; [assumption|]. constructor; [reflexivity | constructor].
Qed.

Lemma Forall_upd {B} (P : B -> Prop) l i v : Forall P l -> P v -> Forall P (upd l i v).
Proof.
  intros H Hv. revert i. induction H as [|x l Hx Hl IH]; intros [|i]; cbn [upd]; constructor; auto.
Qed.

Lemma inv_row_add_attached hs st i x : Inv hs st -> Inv hs (row_add_attached st i x).
Proof.
  intros H. unfold row_add_attached.
  destruct (nth_error (t_rows st) i) as [tr|] eqn:E; [|exact H].
  destruct (r_body tr) as [|cs] eqn:Eb; [exact H|].
  assert (Hh : r_here tr = true).
  { pose proof (inv_here _ _ H) as F. rewrite Forall_forall in F. exact (F tr (nth_error_In _ _ E)). }
  cbv zeta. rewrite Hh.
  destruct H. rewrite resize_eq by (cbn; assumption).
  assert (Hn : numbered cs).
  { rewrite Forall_forall in inv_cellnum0. specialize (inv_cellnum0 tr (nth_error_In _ _ E)).
    rewrite Eb in inv_cellnum0. exact inv_cellnum0. }
  constructor; cbn [with_rows t_rows t_ncols t_cols t_header t_handles t_panic]; auto.
  - unfold sizes. rewrite map_upd.
    rewrite list_max_app.
    rewrite (list_max_upd (map row_size (t_rows st)) i (length cs)).
    + rewrite inv_ncols0, list_max_app. unfold sizes, row_size. cbn [r_body body_size]. lia.
    + rewrite nth_error_map, E. cbn [option_map]. unfold row_size. rewrite Eb. reflexivity.
    + unfold row_size, row_add_cell. cbn [r_body body_size]. rewrite app_length. lia.
  - intros j tr' Hj. destruct (Nat.eq_dec i j) as [->|Ne].
    + rewrite nth_error_upd_same in Hj by (apply nth_error_Some; congruence).
      inversion Hj; subst. cbn [r_num]. apply inv_rownum0. exact E.
    + rewrite nth_error_upd_other in Hj by exact Ne. apply inv_rownum0. exact Hj.
  - apply Forall_upd; [assumption|]. cbn [r_body body_numbered]. apply numbered_add, Hn.
  - apply Forall_upd; [assumption|]. reflexivity.
Qed.

Lemma inv_add_headers hs st xs : Inv hs st -> Inv (hs ++ [length xs]) (add_headers st xs).
Proof.
  intros []. unfold add_headers. rewrite resize_eq by assumption.
  constructor; cbn [with_header t_rows t_ncols t_cols t_header t_handles t_panic]; auto.
  - rewrite <- app_assoc, !list_max_app. cbn [app list_max]. rewrite inv_ncols0, list_max_app. lia.
  - split.
    + apply fold_add_numbered, numbered_nil.
    + rewrite fold_add_length. cbn [length]. apply in_or_app. right. left. reflexivity.
Qed.

Lemma inv_weaken hs st : Inv hs st -> Inv (hs ++ []) st.
Proof. rewrite app_nil_r. auto. Qed.

Lemma handle_numbered_assoc (st : state) r h :
  Forall (fun p => handle_numbered (snd p)) (t_handles st) -> assoc r (t_handles st) = Some h -> handle_numbered h.
Proof.
  intros F E. apply assoc_In in E. rewrite Forall_forall in F. exact (F _ E).
Qed.

Lemma inv_row_add hs st ref x : Inv hs st -> Inv hs (row_add st ref x).
Proof.
  intros H. unfold row_add. destruct ref as [r|i]; [|apply inv_row_add_attached, H].
  destruct (assoc r (t_handles st)) as [[cs|i]|] eqn:E; [| apply inv_row_add_attached, H | exact H].
  apply inv_bind_handle; [exact H|]. cbn [handle_numbered]. apply numbered_add.
  exact (handle_numbered_assoc st r _ (inv_handles _ _ H) E).
Qed.

(* the op is not another table taking a row of this one *)
Definition step_plain (st : state) (o : op A) : Prop :=
  match o with OtherAddRow ref k => other_add_row st ref k = st | _ => True end.

Lemma inv_step hs st o : Inv hs st -> step_plain st o -> Inv (hs ++ header_sizes [o]) (step st o).
Proof.
  intros H P. destruct o; cbn [step header_sizes flat_map app]; try apply inv_weaken.
  - apply inv_bind_handle; [exact H | apply numbered_nil].
  - apply inv_bind_handle; [exact H | apply numbered_nil].
  - unfold append_new_row. apply inv_bind_handle; [|exact I]. apply inv_add_row_cells; [exact H | apply numbered_nil].
  - apply inv_row_add, H.
  - unfold add_row. destruct (assoc r (t_handles st)) as [[cs|i]|] eqn:E; try exact H.
    apply inv_bind_handle; [|exact I]. apply inv_add_row_cells; [exact H|].
    exact (handle_numbered_assoc st r _ (inv_handles _ _ H) E).
  - unfold add_row_items. apply inv_add_row_cells; [exact H|]. apply fold_add_numbered, numbered_nil.
  - apply inv_add_separator, H.
  - apply inv_add_headers, H.
  - exact H.
  - cbn [step_plain] in P. rewrite P. exact H.
Qed.

Lemma inv_init : Inv [] (@init A).
Proof.
  constructor; cbn; auto.
  intros [|i] tr H; discriminate.
Qed.

Lemma run_snoc (h : list (op A)) o : run (h ++ [o]) = step (run h) o.
Proof. unfold run. rewrite fold_left_app. reflexivity. Qed.

Lemma header_sizes_app (h1 h2 : list (op A)) : header_sizes (h1 ++ h2) = header_sizes h1 ++ header_sizes h2.
Proof. unfold header_sizes. apply flat_map_app. Qed.

End Inv.
